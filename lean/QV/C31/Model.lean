/-
C31 model: extern signatures (printer, token-level parser, `FromStr`) and CALL argument resolution.

  * `ExternParameterType / ExternParameter / ExternSignature :: write`   instruction/extern_call.rs:56-71, 131-143, 255-279
  * `parse_extern_signature`, `parse_extern_parameter`, `parse_variable_length_vector`
                                                                         parser/pragma_extern.rs:29-89
  * `parse_vector_with_brackets`                                         parser/common.rs:429-438
  * `nom::multi::separated_list0`                                        (loop semantics copied)
  * `ExternSignature::from_str`                                          instruction/extern_call.rs:232-253
  * `UnresolvedCallArgument::{resolve, resolve_return}`                  instruction/extern_call.rs:507-647
  * `convert_unresolved_to_resolved_call_arguments`, `Call::resolve_to_signature`,
    `Call::resolve_arguments`                                            instruction/extern_call.rs:905-1001

The lexer is not modelled: signatures are parsed from the token list the real lexer produces (projected by
the harness: every token that cannot occur in a signature is `other`).  Immediate values are projected to a
number identifying the value.
-/
namespace QV.C31

inductive ScalarType where
  | bit | integer | octet | real
  deriving DecidableEq, Repr

structure Vector where
  ty : ScalarType
  len : Nat
  deriving DecidableEq, Repr

/-- `ExternParameterType` -/
inductive ParamType where
  | scalar (t : ScalarType)
  | fixed (v : Vector)
  | varlen (t : ScalarType)
  deriving DecidableEq, Repr

/-- `ExternParameter` -/
structure ExtParam where
  name : String
  mutable : Bool
  ty : ParamType
  deriving DecidableEq, Repr

/-- `ExternSignature` -/
structure Signature where
  ret : Option ScalarType
  params : List ExtParam
  deriving DecidableEq, Repr

/-- The tokens of the signature mini-language; `other` = any other token of the Quil lexer. -/
inductive Token where
  | dataType (t : ScalarType)
  | lparen | rparen | comma | colon | mutable | lbracket | rbracket
  | integer (n : Nat)
  | identifier (s : String)
  | other (what : String)
  deriving DecidableEq, Repr

/-! ### Printer, as the token sequence the printed text lexes to

`lexName n` is the token the lexer produces for the text `n` (an identifier, unless `n` is a keyword). -/

def printType : ParamType → List Token
  | .scalar t => [.dataType t]
  | .fixed v => [.dataType v.ty, .lbracket, .integer v.len, .rbracket]
  | .varlen t => [.dataType t, .lbracket, .rbracket]

/-- `ExternParameter::write`: `{name} : [mut ]{type}` -/
def printParam (lexName : String → Token) (p : ExtParam) : List Token :=
  [lexName p.name, .colon] ++ (if p.mutable then [.mutable] else []) ++ printType p.ty

/-- the `for (i, parameter)` loop: parameters separated by `, ` -/
def printParams (lexName : String → Token) : List ExtParam → List Token
  | [] => []
  | [p] => printParam lexName p
  | p :: ps => printParam lexName p ++ [.comma] ++ printParams lexName ps

/-- `ExternSignature::write` -/
def printSig (lexName : String → Token) (s : Signature) : List Token :=
  (match s.ret with | some t => [.dataType t] | none => []) ++
  (if s.params.isEmpty then [] else [.lparen] ++ printParams lexName s.params ++ [.rparen])

/-! The same printer at text level (compared with `to_quil()` by the driver). -/

def ScalarType.text : ScalarType → String
  | .bit => "BIT" | .integer => "INTEGER" | .octet => "OCTET" | .real => "REAL"

def ParamType.text : ParamType → String
  | .scalar t => t.text
  | .fixed v => v.ty.text ++ "[" ++ toString v.len ++ "]"
  | .varlen t => t.text ++ "[]"

def ExtParam.text (p : ExtParam) : String :=
  p.name ++ " : " ++ (if p.mutable then "mut " else "") ++ p.ty.text

def Signature.text (s : Signature) : String :=
  (match s.ret with
    | some t => t.text ++ (if s.params.isEmpty then "" else " ")
    | none => "") ++
  (if s.params.isEmpty then "" else "(" ++ ", ".intercalate (s.params.map ExtParam.text) ++ ")")

/-! ### Parser -/

/-- the `alt` of `parse_extern_parameter`: fixed-length vector, then variable-length vector, then scalar -/
def parseType : List Token → Option (ParamType × List Token)
  | .dataType t :: .lbracket :: .integer n :: .rbracket :: rest => some (.fixed ⟨t, n⟩, rest)
  | .dataType t :: .lbracket :: .rbracket :: rest => some (.varlen t, rest)
  | .dataType t :: rest => some (.scalar t, rest)
  | _ => none

/-- `parse_extern_parameter`: `Identifier Colon Mutable? type` -/
def parseParam : List Token → Option (ExtParam × List Token)
  | .identifier n :: .colon :: .mutable :: rest =>
    match parseType rest with
    | some (ty, r) => some (⟨n, true, ty⟩, r)
    | none => none
  | .identifier n :: .colon :: rest =>
    match parseType rest with
    | some (ty, r) => some (⟨n, false, ty⟩, r)
    | none => none
  | _ => none

theorem parseType_length {toks : List Token} {ty : ParamType} {r : List Token}
    (h : parseType toks = some (ty, r)) : r.length < toks.length := by
  unfold parseType at h
  split at h <;> simp at h <;> obtain ⟨_, rfl⟩ := h <;> simp <;> omega

theorem parseParam_length {toks : List Token} {p : ExtParam} {r : List Token}
    (h : parseParam toks = some (p, r)) : r.length < toks.length := by
  unfold parseParam at h
  split at h
  · split at h
    · rename_i hh; simp at h; obtain ⟨_, rfl⟩ := h; have := parseType_length hh; simp; omega
    · simp at h
  · split at h
    · rename_i hh; simp at h; obtain ⟨_, rfl⟩ := h; have := parseType_length hh; simp; omega
    · simp at h
  · simp at h

/-- the loop of `separated_list0(Comma, parse_extern_parameter)` after the first element: on a failing
separator, or a failing element after a separator, return what was collected and the input *before* the
separator -/
def sepLoop (toks : List Token) (acc : List ExtParam) : List ExtParam × List Token :=
  match toks with
  | .comma :: rest =>
    match h : parseParam rest with
    | some (p, rest') => sepLoop rest' (acc ++ [p])
    | none => (acc, toks)
  | _ => (acc, toks)
termination_by toks.length
decreasing_by
  have := parseParam_length h
  simp only [List.length_cons]
  omega

/-- `separated_list0(Comma, parse_extern_parameter)` (never fails: no first element = empty list) -/
def sepList0 (toks : List Token) : List ExtParam × List Token :=
  match parseParam toks with
  | some (p, rest) => sepLoop rest [p]
  | none => ([], toks)

/-- `parse_extern_signature`: `DataType? ( "(" params ")" )?`; `none` = nom error -/
def parseSignature (toks : List Token) : Option (Signature × List Token) :=
  let (ret, toks1) : Option ScalarType × List Token := match toks with
    | .dataType t :: r => (some t, r)
    | _ => (none, toks)
  match toks1 with
  | .lparen :: r =>
    let (ps, r2) := sepList0 r
    match r2 with
    | .rparen :: r3 => some (⟨ret, ps⟩, r3)
    | _ => none
  | _ => some (⟨ret, []⟩, toks1)

/-- error classes of `ExternSignature::from_str` (`Lex` is decided by the real lexer, outside the model) -/
inductive SigErr where
  | syntax | noReturnOrParameters | name
  deriving DecidableEq, Repr

/-- `ExternSignature::from_str` after lexing: parse, `disallow_leftover`, emptiness check, then
`validate_user_identifier` on every parameter name (`isUser`). -/
def sigFromTokens (isUser : String → Bool) (toks : List Token) : Except SigErr Signature :=
  match parseSignature toks with
  | none => .error .syntax
  | some (s, rest) =>
    if !rest.isEmpty then .error .syntax
    else if s.ret.isNone && s.params.isEmpty then .error .noReturnOrParameters
    else if s.params.all (fun p => isUser p.name) then .ok s
    else .error .name

/-! ### CALL resolution -/

/-- `UnresolvedCallArgument`; an immediate value is identified by a number -/
inductive Arg where
  | identifier (name : String)
  | memRef (name : String) (index : Nat)
  | immediate (v : Nat)
  deriving DecidableEq, Repr

/-- `ResolvedCallArgument` -/
inductive Resolved where
  | vector (name : String) (v : Vector) (mutable : Bool)
  | memRef (name : String) (index : Nat) (ty : ScalarType) (mutable : Bool)
  | immediate (v : Nat) (ty : ScalarType)
  deriving DecidableEq, Repr

/-- `CallArgumentResolutionError` (the offending argument carried by `InvalidVectorArgument` and
`ReturnArgument` is not repeated) -/
inductive ArgErr where
  | undeclared (name : String)
  | mismatchedVector (expected found : Vector)
  | mismatchedScalar (expected found : ScalarType)
  | invalidVectorArgument
  | returnArgument
  | immediateForMutable (param : String)
  deriving DecidableEq, Repr

/-- `CallArgumentError` -/
inductive CallArgErr where
  | ret (e : ArgErr)
  | arg (index : Nat) (e : ArgErr)
  deriving DecidableEq, Repr

/-- declared memory regions (`IndexMap<String, MemoryRegion>`).  Only `MemoryRegion::size` is represented:
`resolve` and `resolve_return` never read `MemoryRegion::sharing`, so a region declared `SHARING parent
[OFFSET …]` is resolved by its OWN declared element type and length, whatever the parent's type is and whether
or not the parent is declared.  The harness declares such regions (same-typed / different-typed / undeclared
parent, offsets, chains) in every slot kind; the driver decodes the sharing clause away. -/
abbrev Regions := List (String × Vector)

def Regions.get (rs : Regions) (name : String) : Option Vector :=
  match rs with
  | [] => none
  | (n, v) :: rest => if n = name then some v else Regions.get rest name

/-- the `MemoryReference` arm of `resolve` (also reached from the `Identifier` arm for a scalar slot) -/
def resolveMemRef (rs : Regions) (p : ExtParam) (name : String) (index : Nat) : Except ArgErr Resolved :=
  match p.ty with
  | .fixed _ => .error .invalidVectorArgument
  | .varlen _ => .error .invalidVectorArgument
  | .scalar t =>
    match rs.get name with
    | none => .error (.undeclared name)
    | some v => if v.ty ≠ t then .error (.mismatchedScalar t v.ty) else .ok (.memRef name index t p.mutable)

/-- `UnresolvedCallArgument::resolve` -/
def resolve (rs : Regions) (p : ExtParam) : Arg → Except ArgErr Resolved
  | .identifier name =>
    match p.ty with
    | .scalar _ => resolveMemRef rs p name 0
    | .fixed expected =>
      match rs.get name with
      | none => .error (.undeclared name)
      | some v => if v ≠ expected then .error (.mismatchedVector expected v) else .ok (.vector name expected p.mutable)
    | .varlen t =>
      match rs.get name with
      | none => .error (.undeclared name)
      | some v => if v.ty ≠ t then .error (.mismatchedScalar t v.ty) else .ok (.vector name v p.mutable)
  | .memRef name index => resolveMemRef rs p name index
  | .immediate x =>
    if p.mutable then .error (.immediateForMutable p.name)
    else match p.ty with
      | .scalar t => .ok (.immediate x t)
      | .fixed _ => .error .invalidVectorArgument
      | .varlen _ => .error .invalidVectorArgument

/-- `UnresolvedCallArgument::resolve_return` -/
def resolveReturn (rs : Regions) (t : ScalarType) : Arg → Except ArgErr Resolved
  | .immediate _ => .error .returnArgument
  | .memRef name index =>
    match rs.get name with
    | none => .error (.undeclared name)
    | some v => if v.ty ≠ t then .error (.mismatchedScalar t v.ty) else .ok (.memRef name index t true)
  | .identifier name =>
    match rs.get name with
    | none => .error (.undeclared name)
    | some v => if v.ty ≠ t then .error (.mismatchedScalar t v.ty) else .ok (.memRef name 0 t true)

/-- what the `.map(|(i, argument)| ..)` closure yields; `none` = `signature.parameters[parameter_index]`
out of bounds (a panic) -/
def resolveAt (rs : Regions) (s : Signature) (i : Nat) (a : Arg) : Option (Except CallArgErr Resolved) :=
  match (if i = 0 then s.ret else none) with
  | some t =>
    some (match resolveReturn rs t a with | .ok r => .ok r | .error e => .error (.ret e))
  | none =>
    let pi := if s.ret.isSome then i - 1 else i
    match s.params[pi]? with
    | none => none
    | some p => some (match resolve rs p a with | .ok r => .ok r | .error e => .error (.arg pi e))

/-- the `.fold(..)`: all results, or all errors, in order -/
def collectStep (acc : Except (List CallArgErr) (List Resolved)) (r : Except CallArgErr Resolved) :
    Except (List CallArgErr) (List Resolved) :=
  match acc, r with
  | .ok rs, .ok x => .ok (rs ++ [x])
  | .ok _, .error e => .error [e]
  | .error es, .ok _ => .error es
  | .error es, .error e => .error (es ++ [e])

/-- `CallSignatureError` / `CallResolutionError` classes -/
inductive CallErr where
  | parameterCount (expected found : Nat)
  | arguments (es : List CallArgErr)
  | noMatchingExtern
  deriving DecidableEq, Repr

inductive Outcome where
  | ok (rs : List Resolved)
  | err (e : CallErr)
  | crash
  deriving DecidableEq, Repr

/-- `convert_unresolved_to_resolved_call_arguments` -/
def convertLoop (rs : Regions) (s : Signature) :
    List Arg → Nat → Except (List CallArgErr) (List Resolved) → Option (Except (List CallArgErr) (List Resolved))
  | [], _, acc => some acc
  | a :: as, i, acc =>
    match resolveAt rs s i a with
    | none => none
    | some r => convertLoop rs s as (i + 1) (collectStep acc r)

/-- `Call::resolve_to_signature` -/
def resolveToSignature (rs : Regions) (s : Signature) (args : List Arg) : Outcome :=
  let expected := s.params.length + (if s.ret.isSome then 1 else 0)
  if args.length ≠ expected then .err (.parameterCount expected args.length)
  else match convertLoop rs s args 0 (.ok []) with
    | none => .crash
    | some (.ok r) => .ok r
    | some (.error es) => .err (.arguments es)

/-- `Call::resolve_arguments`: look the extern up by name (`IndexMap::get`), then resolve -/
def resolveArguments (rs : Regions) (externs : List (String × Signature)) (name : String) (args : List Arg) :
    Outcome :=
  match externs.find? (fun e => e.1 = name) with
  | none => .err .noMatchingExtern
  | some (_, s) => resolveToSignature rs s args


/-! ### The PRAGMA EXTERN route (`ExternPragmaMap::insert`, `ExternSignature::try_from(Pragma)`,
`ExternSignatureMap::try_from(ExternPragmaMap)`; instruction/extern_call.rs:281-404) -/

inductive PragmaArg where
  | ident (s : String)
  | int (n : Nat)
  deriving DecidableEq, Repr

/-- a `PRAGMA`: its name, arguments and data; the data string is represented by what the lexer makes of it
(`none` = the lexer rejects it) -/
structure ExtPragma where
  pname : String
  args : List PragmaArg
  data : Option (Option (List Token))
  deriving DecidableEq, Repr

inductive MapErr where
  | notExtern | noName | invalidArgs | noSignature | lex | sig (e : SigErr) | name
  deriving DecidableEq, Repr

/-- the key `ExternPragmaMap::insert` files a pragma under: the first argument if it is an identifier -/
def pragmaKey (p : ExtPragma) : Option String :=
  match p.args with
  | .ident n :: _ => some n
  | _ => none

/-- `IndexMap::insert`: an existing key keeps its position and gets the new value -/
def mapInsert (m : List (Option String × ExtPragma)) (k : Option String) (p : ExtPragma) :
    List (Option String × ExtPragma) :=
  match m with
  | [] => [(k, p)]
  | (k', p') :: rest => if k' = k then (k, p) :: rest else (k', p') :: mapInsert rest k p

/-- `Program::add_instruction` for every pragma in turn: only pragmas named exactly `EXTERN` enter the map -/
def pragmaMap (ps : List ExtPragma) : List (Option String × ExtPragma) :=
  ps.foldl (fun m p => if p.pname = "EXTERN" then mapInsert m (pragmaKey p) p else m) []

/-- `ExternSignature::try_from(Pragma)` -/
def sigOfPragma (isUser : String → Bool) (p : ExtPragma) : Except MapErr Signature :=
  if p.pname ≠ "EXTERN" then .error .notExtern
  else match p.args with
    | [] => .error .noName
    | .int _ :: _ => .error .noName
    | .ident _ :: _ :: _ => .error .invalidArgs
    | [.ident _] =>
      match p.data with
      | none => .error .noSignature
      | some none => .error .lex
      | some (some toks) =>
        match sigFromTokens isUser toks with
        | .ok s => .ok s
        | .error .name => .error .name
        | .error e => .error (.sig e)

/-- `ExternSignatureMap::try_from(ExternPragmaMap)`: entries in map order, the first failure is returned
together with the key of the offending pragma -/
def convertMap (isUser : String → Bool) : List (Option String × ExtPragma) →
    Except (Option String × MapErr) (List (String × Signature))
  | [] => .ok []
  | (none, _) :: _ => .error (none, .noName)
  | (some n, p) :: rest =>
    if !isUser n then .error (some n, .name)
    else match sigOfPragma isUser p with
      | .error e => .error (some n, e)
      | .ok s =>
        match convertMap isUser rest with
        | .ok l => .ok ((n, s) :: l)
        | .error e => .error e


/-- the check `convertMap` performs on one named entry -/
def entryCheck (isUser : String → Bool) (n : String) (p : ExtPragma) : Except MapErr Signature :=
  if !isUser n then .error .name else sigOfPragma isUser p

/-- every error applicable to a named entry: a bad extern name and/or whatever is wrong with its signature
(a pragma wrong in both ways may be reported either way) -/
def entryErrs (isUser : String → Bool) (n : String) (p : ExtPragma) : List MapErr :=
  (if !isUser n then [.name] else []) ++ (match sigOfPragma isUser p with | .error e => [e] | .ok _ => [])

/-- `Program::try_extern_signature_map_from_pragma_map` after adding the pragmas in order -/
def externMap (isUser : String → Bool) (ps : List ExtPragma) :
    Except (Option String × MapErr) (List (String × Signature)) :=
  convertMap isUser (pragmaMap ps)

/-! ### `Call::default_memory_accesses` (instruction/extern_call.rs:1004): which regions a CALL reads / writes -/

def Arg.region : Arg → Option String
  | .identifier n => some n
  | .memRef n _ => some n
  | .immediate _ => none

/-- reads and writes (as lists; the implementation returns sets): the return argument is read and written;
every further argument is read, and written if its parameter is mutable; arguments beyond the signature are
still read -/
def accessLoop : List Arg → List ExtParam → List String × List String
  | [], _ => ([], [])
  | a :: as, ps =>
    let (r, w) := accessLoop as ps.tail
    let mutable := match ps.head? with | some p => p.mutable | none => false
    match a.region with
    | none => (r, w)
    | some n => (n :: r, if mutable then n :: w else w)

def callAccesses (s : Signature) (args : List Arg) : List String × List String :=
  match s.ret, args with
  | some _, a :: as =>
    let (r, w) := accessLoop as s.params
    (match a.region with | some n => (n :: r, n :: w) | none => (r, w))
  | some _, [] => ([], [])
  | none, as => accessLoop as s.params

end QV.C31
