import QV.C31.Spec
/-! Helper lemmas for C31 (core Lean only). -/
namespace QV.C31

theorem resolve_ok_iff (rs : Regions) (p : ExtParam) (a : Arg) (r : Resolved) :
    resolve rs p a = .ok r ↔ SlotFits rs p a r := by
  constructor
  · intro h
    cases a with
    | identifier name =>
      cases hty : p.ty with
      | scalar t =>
        simp only [resolve, hty, resolveMemRef] at h
        cases hg : rs.get name with
        | none => simp [hg] at h
        | some v =>
          by_cases hv : v.ty = t
          · simp [hg, hv] at h; subst h
            exact .scalarName t name hty ⟨v, hg, hv⟩
          · simp [hg, hv] at h
      | fixed e =>
        simp only [resolve, hty] at h
        cases hg : rs.get name with
        | none => simp [hg] at h
        | some v =>
          by_cases hv : v = e
          · simp [hg, hv] at h; subst h; subst hv
            exact .fixedVector v name hty hg
          · simp [hg, hv] at h
      | varlen t =>
        simp only [resolve, hty] at h
        cases hg : rs.get name with
        | none => simp [hg] at h
        | some v =>
          by_cases hv : v.ty = t
          · simp [hg, hv] at h; subst h
            exact .variableVector t v name hty hg hv
          · simp [hg, hv] at h
    | memRef name index =>
      cases hty : p.ty with
      | scalar t =>
        simp only [resolve, hty, resolveMemRef] at h
        cases hg : rs.get name with
        | none => simp [hg] at h
        | some v =>
          by_cases hv : v.ty = t
          · simp [hg, hv] at h; subst h
            exact .scalarRef t name index hty ⟨v, hg, hv⟩
          · simp [hg, hv] at h
      | fixed e => simp [resolve, hty, resolveMemRef] at h
      | varlen t => simp [resolve, hty, resolveMemRef] at h
    | immediate x =>
      by_cases hm : p.mutable = true
      · simp [resolve, hm] at h
      · cases hty : p.ty with
        | scalar t =>
          simp [resolve, hm, hty] at h; subst h
          exact .scalarImmediate t x hty (by simpa using hm)
        | fixed e => simp [resolve, hm, hty] at h
        | varlen t => simp [resolve, hm, hty] at h
  · intro h
    cases h with
    | scalarRef t name index hty hd =>
      obtain ⟨v, hg, hv⟩ := hd
      simp [resolve, resolveMemRef, hty, hg, hv]
    | scalarName t name hty hd =>
      obtain ⟨v, hg, hv⟩ := hd
      simp [resolve, resolveMemRef, hty, hg, hv]
    | scalarImmediate t x hty hm => simp [resolve, hty, hm]
    | fixedVector v name hty hg => simp [resolve, hty, hg]
    | variableVector t v name hty hg hv => simp [resolve, hty, hg, hv]

theorem resolve_error_iff (rs : Regions) (p : ExtParam) (a : Arg) (e : ArgErr) :
    resolve rs p a = .error e ↔ SlotFails rs p a e := by
  constructor
  · intro h
    cases a with
    | identifier name =>
      cases hty : p.ty with
      | scalar t =>
        simp only [resolve, hty, resolveMemRef] at h
        cases hg : rs.get name with
        | none => simp [hg] at h; subst h; exact .undeclaredName name hg
        | some v =>
          by_cases hv : v.ty = t
          · simp [hg, hv] at h
          · simp [hg, hv] at h; subst h; exact .scalarWrongTypeName t name v hty hg hv
      | fixed x =>
        simp only [resolve, hty] at h
        cases hg : rs.get name with
        | none => simp [hg] at h; subst h; exact .undeclaredName name hg
        | some v =>
          by_cases hv : v = x
          · simp [hg, hv] at h
          · simp [hg, hv] at h; subst h; exact .fixedMismatch x name v hty hg hv
      | varlen t =>
        simp only [resolve, hty] at h
        cases hg : rs.get name with
        | none => simp [hg] at h; subst h; exact .undeclaredName name hg
        | some v =>
          by_cases hv : v.ty = t
          · simp [hg, hv] at h
          · simp [hg, hv] at h; subst h; exact .variableWrongType t name v hty hg hv
    | memRef name index =>
      cases hty : p.ty with
      | scalar t =>
        simp only [resolve, hty, resolveMemRef] at h
        cases hg : rs.get name with
        | none => simp [hg] at h; subst h; exact .undeclaredRef t name index hty hg
        | some v =>
          by_cases hv : v.ty = t
          · simp [hg, hv] at h
          · simp [hg, hv] at h; subst h; exact .scalarWrongTypeRef t name index v hty hg hv
      | fixed x =>
        simp [resolve, hty, resolveMemRef] at h; subst h
        exact .refVector name index (by simp [hty, ParamType.isVector])
      | varlen t =>
        simp [resolve, hty, resolveMemRef] at h; subst h
        exact .refVector name index (by simp [hty, ParamType.isVector])
    | immediate x =>
      by_cases hm : p.mutable = true
      · simp [resolve, hm] at h; subst h; exact .immediateMutable x hm
      · have hm' : p.mutable = false := by simpa using hm
        cases hty : p.ty with
        | scalar t => simp [resolve, hm, hty] at h
        | fixed y =>
          simp [resolve, hm, hty] at h; subst h
          exact .immediateVector x hm' (by simp [hty, ParamType.isVector])
        | varlen t =>
          simp [resolve, hm, hty] at h; subst h
          exact .immediateVector x hm' (by simp [hty, ParamType.isVector])
  · intro h
    cases h with
    | immediateMutable x hm => simp [resolve, hm]
    | immediateVector x hm hv =>
      cases hty : p.ty <;> simp [hty, ParamType.isVector] at hv <;> simp [resolve, hm, hty]
    | refVector name index hv =>
      cases hty : p.ty <;> simp [hty, ParamType.isVector] at hv <;> simp [resolve, resolveMemRef, hty]
    | undeclaredRef t name index hty hg => simp [resolve, resolveMemRef, hty, hg]
    | undeclaredName name hg =>
      cases hty : p.ty <;> simp [resolve, resolveMemRef, hty, hg]
    | scalarWrongTypeRef t name index v hty hg hv => simp [resolve, resolveMemRef, hty, hg, hv]
    | scalarWrongTypeName t name v hty hg hv => simp [resolve, resolveMemRef, hty, hg, hv]
    | fixedMismatch x name v hty hg hv => simp [resolve, hty, hg, hv]
    | variableWrongType t name v hty hg hv => simp [resolve, hty, hg, hv]

theorem resolveReturn_ok_iff (rs : Regions) (t : ScalarType) (a : Arg) (r : Resolved) :
    resolveReturn rs t a = .ok r ↔ ReturnFits rs t a r := by
  constructor
  · intro h
    cases a with
    | immediate x => simp [resolveReturn] at h
    | memRef name index =>
      simp only [resolveReturn] at h
      cases hg : rs.get name with
      | none => simp [hg] at h
      | some v =>
        by_cases hv : v.ty = t
        · simp [hg, hv] at h; subst h; exact .memRef name index ⟨v, hg, hv⟩
        · simp [hg, hv] at h
    | identifier name =>
      simp only [resolveReturn] at h
      cases hg : rs.get name with
      | none => simp [hg] at h
      | some v =>
        by_cases hv : v.ty = t
        · simp [hg, hv] at h; subst h; exact .identifier name ⟨v, hg, hv⟩
        · simp [hg, hv] at h
  · intro h
    cases h with
    | memRef name index hd => obtain ⟨v, hg, hv⟩ := hd; simp [resolveReturn, hg, hv]
    | identifier name hd => obtain ⟨v, hg, hv⟩ := hd; simp [resolveReturn, hg, hv]

theorem resolveReturn_error_iff (rs : Regions) (t : ScalarType) (a : Arg) (e : ArgErr) :
    resolveReturn rs t a = .error e ↔ ReturnFails rs t a e := by
  constructor
  · intro h
    cases a with
    | immediate x => simp [resolveReturn] at h; subst h; exact .immediate x
    | memRef name index =>
      simp only [resolveReturn] at h
      cases hg : rs.get name with
      | none => simp [hg] at h; subst h; exact .undeclaredRef name index hg
      | some v =>
        by_cases hv : v.ty = t
        · simp [hg, hv] at h
        · simp [hg, hv] at h; subst h; exact .wrongTypeRef name index v hg hv
    | identifier name =>
      simp only [resolveReturn] at h
      cases hg : rs.get name with
      | none => simp [hg] at h; subst h; exact .undeclaredName name hg
      | some v =>
        by_cases hv : v.ty = t
        · simp [hg, hv] at h
        · simp [hg, hv] at h; subst h; exact .wrongTypeName name v hg hv
  · intro h
    cases h with
    | immediate x => simp [resolveReturn]
    | undeclaredRef name index hg => simp [resolveReturn, hg]
    | undeclaredName name hg => simp [resolveReturn, hg]
    | wrongTypeRef name index v hg hv => simp [resolveReturn, hg, hv]
    | wrongTypeName name v hg hv => simp [resolveReturn, hg, hv]

theorem paramOutcome_iff (rs : Regions) (p : ExtParam) (a : Arg) (o : Except ArgErr Resolved) :
    ParamOutcome rs p a o ↔ o = resolve rs p a := by
  constructor
  · intro h
    cases h with
    | fits r hr => exact ((resolve_ok_iff rs p a r).mpr hr).symm
    | fails e he => exact ((resolve_error_iff rs p a e).mpr he).symm
  · intro h
    subst h
    cases hr : resolve rs p a with
    | ok r => exact .fits r ((resolve_ok_iff rs p a r).mp hr)
    | error e => exact .fails e ((resolve_error_iff rs p a e).mp hr)

theorem returnOutcome_iff (rs : Regions) (t : ScalarType) (a : Arg) (o : Except ArgErr Resolved) :
    ReturnOutcome rs t a o ↔ o = resolveReturn rs t a := by
  constructor
  · intro h
    cases h with
    | fits r hr => exact ((resolveReturn_ok_iff rs t a r).mpr hr).symm
    | fails e he => exact ((resolveReturn_error_iff rs t a e).mpr he).symm
  · intro h
    subst h
    cases hr : resolveReturn rs t a with
    | ok r => exact .fits r ((resolveReturn_ok_iff rs t a r).mp hr)
    | error e => exact .fails e ((resolveReturn_error_iff rs t a e).mp hr)

theorem paramOutcomes_functional (rs : Regions) (i : Nat) (ps : List ExtParam) (as : List Arg)
    (os os' : List (Except CallArgErr Resolved))
    (h : ParamOutcomes rs i ps as os) (h' : ParamOutcomes rs i ps as os') : os = os' := by
  induction h generalizing os' with
  | nil i => cases h'; rfl
  | cons i p ps a as o os ho _ ih =>
    cases h' with
    | cons _ _ _ _ _ o' os' ho' hos' =>
      rw [(paramOutcome_iff rs p a o).mp ho, (paramOutcome_iff rs p a o').mp ho', ih os' hos']

theorem paramOutcomes_length (rs : Regions) (i : Nat) (ps : List ExtParam) (as : List Arg)
    (os : List (Except CallArgErr Resolved)) (h : ParamOutcomes rs i ps as os) :
    as.length = ps.length ∧ os.length = ps.length := by
  induction h with
  | nil i => simp
  | cons i p ps a as o os _ _ ih => simp [ih.1, ih.2]

/-- the parameter part of the `.map(..)` closure: with `d` = 1 if there is a return slot, else 0 -/
theorem convertLoop_params (rs : Regions) (s : Signature) (d : Nat)
    (hd : d = if s.ret.isSome then 1 else 0) (as : List Arg) (i : Nat)
    (acc : Except (List CallArgErr) (List Resolved)) (hlen : as.length + i = s.params.length) :
    ∃ os, ParamOutcomes rs i (s.params.drop i) as os ∧
      convertLoop rs s as (i + d) acc = some (os.foldl collectStep acc) := by
  induction as generalizing i acc with
  | nil =>
    have : s.params.drop i = [] := List.drop_eq_nil_of_le (by simp at hlen; omega)
    exact ⟨[], this ▸ .nil i, rfl⟩
  | cons a as ih =>
    have hi : i < s.params.length := by simp at hlen; omega
    have hdrop : s.params.drop i = s.params[i] :: s.params.drop (i + 1) := by
      rw [List.drop_eq_getElem_cons hi]
    obtain ⟨os, hos, hloop⟩ := ih (i + 1)
      (collectStep acc (match resolve rs s.params[i] a with | .ok r => .ok r | .error e => .error (.arg i e)))
      (by simp at hlen ⊢; omega)
    refine ⟨(match resolve rs s.params[i] a with | .ok r => .ok r | .error e => .error (.arg i e)) :: os, ?_, ?_⟩
    · rw [hdrop]
      exact ParamOutcomes.cons i s.params[i] _ a as (resolve rs s.params[i] a) os
        ((paramOutcome_iff _ _ _ _).mpr rfl) hos
    have hat : resolveAt rs s (i + d) a =
        some (match resolve rs s.params[i] a with | .ok r => .ok r | .error e => .error (.arg i e)) := by
      unfold resolveAt
      cases hr : s.ret with
      | none =>
        have : d = 0 := by simp [hd, hr]
        subst this
        simp [List.getElem?_eq_getElem hi]
        cases resolve rs s.params[i] a <;> rfl
      | some t =>
        have : d = 1 := by simp [hd, hr]
        subst this
        simp [List.getElem?_eq_getElem hi]
        cases resolve rs s.params[i] a <;> rfl
    · have e : i + d + 1 = i + 1 + d := by omega
      simp only [convertLoop, hat, List.foldl_cons]
      rw [e]; exact hloop

theorem foldl_collect_ok (os : List (Except CallArgErr Resolved)) (rs0 : List Resolved) :
    os.foldl collectStep (.ok rs0) =
      if errs os = [] then .ok (rs0 ++ oks os) else .error (errs os) := by
  have herr : ∀ (os : List (Except CallArgErr Resolved)) (es : List CallArgErr),
      os.foldl collectStep (.error es) = .error (es ++ errs os) := by
    intro os
    induction os with
    | nil => intro es; simp [errs]
    | cons o os ih =>
      intro es
      cases o with
      | ok x => simp [collectStep, errs, ih]
      | error e => simp [collectStep, errs, ih]
  induction os generalizing rs0 with
  | nil => simp [errs, oks]
  | cons o os ih =>
    cases o with
    | ok x =>
      by_cases h : errs os = [] <;> simp [collectStep, errs, oks, ih, h]
    | error e => simp [collectStep, errs, herr]

/-! ### Signature printer / parser -/

theorem parseType_print (ty : ParamType) (rest : List Token) (h : rest.head? ≠ some .lbracket) :
    parseType (printType ty ++ rest) = some (ty, rest) := by
  cases ty with
  | scalar t =>
    cases rest with
    | nil => simp [printType, parseType]
    | cons x xs =>
      have hx : x ≠ .lbracket := by simpa using h
      simp only [printType, List.cons_append, List.nil_append]
      unfold parseType
      split <;> simp_all
  | fixed v => simp [printType, parseType]
  | varlen t => simp [printType, parseType]

theorem parseParam_print (lexName : String → Token) (p : ExtParam) (rest : List Token)
    (hl : lexName p.name = .identifier p.name) (h : rest.head? ≠ some .lbracket) :
    parseParam (printParam lexName p ++ rest) = some (p, rest) := by
  obtain ⟨name, mutable, ty⟩ := p
  simp only at hl
  cases mutable with
  | true =>
    simp [printParam, hl, parseParam, parseType_print ty rest h]
  | false =>
    simp only [printParam, hl, Bool.false_eq_true, if_false, List.append_nil, List.cons_append,
      List.nil_append, List.append_assoc]
    have hne : ∀ r, printType ty ++ rest ≠ Token.mutable :: r := by
      intro r; cases ty <;> simp [printType]
    unfold parseParam
    split
    · rename_i heq; simp at heq; exact absurd heq.2 (hne _)
    · rename_i heq; simp at heq; obtain ⟨rfl, rfl⟩ := heq
      simp [parseType_print ty rest h]
    · rename_i hno; exact absurd rfl (hno _ _)


/-- the tail of a printed parameter list: `, p` for every further parameter -/
def printTail (lexName : String → Token) : List ExtParam → List Token
  | [] => []
  | p :: ps => .comma :: printParam lexName p ++ printTail lexName ps

theorem printParams_cons (lexName : String → Token) (p : ExtParam) (ps : List ExtParam) :
    printParams lexName (p :: ps) = printParam lexName p ++ printTail lexName ps := by
  induction ps generalizing p with
  | nil => simp [printParams, printTail]
  | cons q qs ih => simp [printParams, printTail, ih q]

theorem printTail_head (lexName : String → Token) (ps : List ExtParam) (rest : List Token) :
    (printTail lexName ps ++ .rparen :: rest).head? ≠ some .lbracket := by
  cases ps <;> simp [printTail]

theorem sepLoop_print (lexName : String → Token) (ps : List ExtParam) (acc : List ExtParam)
    (rest : List Token) (hl : ∀ p ∈ ps, lexName p.name = .identifier p.name) :
    sepLoop (printTail lexName ps ++ .rparen :: rest) acc = (acc ++ ps, .rparen :: rest) := by
  induction ps generalizing acc with
  | nil => unfold sepLoop; simp [printTail]
  | cons p ps ih =>
    have hp := parseParam_print lexName p (printTail lexName ps ++ .rparen :: rest)
      (hl p (by simp)) (printTail_head lexName ps rest)
    unfold sepLoop
    simp only [printTail, List.cons_append, List.append_assoc]
    split
    · rename_i p' rest' heq
      rw [hp] at heq
      simp at heq; obtain ⟨rfl, rfl⟩ := heq
      rw [ih _ (fun q hq => hl q (by simp [hq]))]
      simp
    · rename_i heq; rw [hp] at heq; cases heq

/-- parsing the printed form of a signature gives the signature back and consumes everything -/
theorem parseSignature_print (lexName : String → Token) (s : Signature)
    (hl : ∀ p ∈ s.params, lexName p.name = .identifier p.name) :
    parseSignature (printSig lexName s) = some (s, []) := by
  obtain ⟨ret, params⟩ := s
  simp only at hl
  cases params with
  | nil =>
    cases ret <;> simp [printSig, parseSignature]
  | cons p ps =>
    have hp := parseParam_print lexName p (printTail lexName ps ++ [.rparen])
      (hl p (by simp)) (printTail_head lexName ps [])
    have hloop := sepLoop_print lexName ps [p] [] (fun q hq => hl q (by simp [hq]))
    cases ret with
    | none =>
      simp [printSig, parseSignature, printParams_cons, sepList0, hp, hloop]
    | some t =>
      simp [printSig, parseSignature, printParams_cons, sepList0, hp, hloop]

end QV.C31
