import QV.Wire
import QV.C31.Model
import QV.C31.Spec
/-! Driver side of the C31 correspondence check. -/
namespace QV.C31
open QV

def decTy : Sexp → Option ScalarType
  | .atom "BIT" => some .bit
  | .atom "INTEGER" => some .integer
  | .atom "OCTET" => some .octet
  | .atom "REAL" => some .real
  | _ => none

def decBool : Sexp → Option Bool
  | .atom "true" => some true
  | .atom "false" => some false
  | _ => none

def decPType : Sexp → Option ParamType
  | .list [.atom "s", t] => (decTy t).map .scalar
  | .list [.atom "f", t, n] => do some (.fixed ⟨← decTy t, ← n.asNat?⟩)
  | .list [.atom "v", t] => (decTy t).map .varlen
  | _ => none

def decParam : Sexp → Option ExtParam
  | .list [.atom "p", .str n, m, t] => do some ⟨n, ← decBool m, ← decPType t⟩
  | _ => none

def decSig : Sexp → Option Signature
  | .list (.atom "sig" :: .atom "none" :: ps) => do some ⟨none, ← ps.mapM decParam⟩
  | .list (.atom "sig" :: t :: ps) => do some ⟨some (← decTy t), ← ps.mapM decParam⟩
  | _ => none

/-- a token, and for identifiers whether `validate_user_identifier` accepts the name -/
def decToken : Sexp → Option (Token × Option (String × Bool))
  | .list [.atom "dt", t] => (decTy t).map fun t => (.dataType t, none)
  | .atom "lp" => some (.lparen, none)
  | .atom "rp" => some (.rparen, none)
  | .atom "comma" => some (.comma, none)
  | .atom "colon" => some (.colon, none)
  | .atom "mut" => some (.mutable, none)
  | .atom "lb" => some (.lbracket, none)
  | .atom "rb" => some (.rbracket, none)
  | .list [.atom "int", n] => n.asNat?.map fun n => (.integer n, none)
  | .list [.atom "id", .str s, b] => (decBool b).map fun b => (.identifier s, some (s, b))
  | .list [.atom "other", .str w] => some (.other w, none)
  | _ => none

/-- `none` = undecodable; `some none` = lex error; `some (some (tokens, user-identifier table))` -/
def decLex : Sexp → Option (Option (List Token × List (String × Bool)))
  | .list [.atom "lexerr"] => some none
  | .list (.atom "toks" :: ts) => do
    let xs ← ts.mapM decToken
    some (some (xs.map (·.1), xs.filterMap (·.2)))
  | _ => none

def lookupUser (table : List (String × Bool)) (n : String) : Bool :=
  match table.find? (fun e => e.1 == n) with
  | some (_, b) => b
  | none => false

inductive FromStr where
  | ok (s : Signature) | lex | syntax | noret | name | other
  deriving DecidableEq, Repr

def decFromStr : Sexp → Option FromStr
  | .list [.atom "ok", s] => (decSig s).map .ok
  | .list [.atom "err", .atom "lex"] => some .lex
  | .list [.atom "err", .atom "syntax"] => some .syntax
  | .list [.atom "err", .atom "noret"] => some .noret
  | .list [.atom "err", .atom "name"] => some .name
  | .list [.atom "err", .atom "other"] => some .other
  | _ => none

def modelFromStr (lexed : Option (List Token × List (String × Bool))) : FromStr :=
  match lexed with
  | none => .lex
  | some (toks, table) =>
    match sigFromTokens (lookupUser table) toks with
    | .ok s => .ok s
    | .error .syntax => .syntax
    | .error .noReturnOrParameters => .noret
    | .error .name => .name

def decArg : Sexp → Option Arg
  | .list [.atom "id", .str n] => some (.identifier n)
  | .list [.atom "ref", .str n, i] => i.asNat?.map (.memRef n)
  | .list [.atom "imm", k] => k.asNat?.map .immediate
  | _ => none

def decResolved : Sexp → Option Resolved
  | .list [.atom "vec", .str n, t, l, m] => do some (.vector n ⟨← decTy t, ← l.asNat?⟩ (← decBool m))
  | .list [.atom "ref", .str n, i, t, m] => do some (.memRef n (← i.asNat?) (← decTy t) (← decBool m))
  | .list [.atom "imm", k, t] => do some (.immediate (← k.asNat?) (← decTy t))
  | _ => none

def decArgErr : Sexp → Option ArgErr
  | .list [.atom "undeclared", .str n] => some (.undeclared n)
  | .list [.atom "mvec", t1, l1, t2, l2] => do
    some (.mismatchedVector ⟨← decTy t1, ← l1.asNat?⟩ ⟨← decTy t2, ← l2.asNat?⟩)
  | .list [.atom "mscal", t1, t2] => do some (.mismatchedScalar (← decTy t1) (← decTy t2))
  | .atom "invvec" => some .invalidVectorArgument
  | .atom "retarg" => some .returnArgument
  | .list [.atom "immmut", .str p] => some (.immediateForMutable p)
  | _ => none

def decCallArgErr : Sexp → Option CallArgErr
  | .list [.atom "ret", e] => (decArgErr e).map .ret
  | .list [.atom "arg", i, e] => do some (.arg (← i.asNat?) (← decArgErr e))
  | _ => none

/-- implementation outcomes outside the model (`ctorerr`, `externerr`, …) decode to `none` -/
def decOutcome : Sexp → Option Outcome
  | .list (.atom "ok" :: rs) => (rs.mapM decResolved).map .ok
  | .list [.atom "count", e, f] => do some (.err (.parameterCount (← e.asNat?) (← f.asNat?)))
  | .list (.atom "args" :: es) => (es.mapM decCallArgErr).map fun es => .err (.arguments es)
  | .list [.atom "noextern"] => some (.err .noMatchingExtern)
  | _ => none

/-- a declared region; the `(sharing parent (offset type)…)` clause, when present, is decoded away: neither
`resolve` nor `resolve_return` looks at `MemoryRegion::sharing`, and neither does the model -/
def decRegion : Sexp → Option (String × Vector)
  | .list [.atom "r", .str n, t, l] => do some (n, ⟨← decTy t, ← l.asNat?⟩)
  | .list [.atom "r", .str n, t, l, .list (.atom "sharing" :: _)] => do some (n, ⟨← decTy t, ← l.asNat?⟩)
  | _ => none

def regionShares : Sexp → Option String
  | .list [.atom "r", .str n, _, _, .list (.atom "sharing" :: _)] => some n
  | _ => none

def decExtern : Sexp → Option (String × Signature)
  | .list [.atom "e", .str n, s] => (decSig s).map fun s => (n, s)
  | _ => none

def decPArg : Sexp → Option (PragmaArg × Option (String × Bool))
  | .list [.atom "id", .str n, b] => (decBool b).map fun b => (.ident n, some (n, b))
  | .list [.atom "int", n] => n.asNat?.map fun n => (.int n, none)
  | _ => none

/-- a pragma and the user-identifier verdicts found in it (extern names and identifier tokens of the data) -/
def decPragma : Sexp → Option (ExtPragma × List (String × Bool))
  | .list [.atom "pragma", .str pname, .list (.atom "args" :: as), d] => do
    let xs ← as.mapM decPArg
    let tbl := xs.filterMap (·.2)
    match d with
    | .atom "nodata" => some (⟨pname, xs.map (·.1), none⟩, tbl)
    | .list [.atom "data", .str _, lexS] =>
      match ← decLex lexS with
      | none => some (⟨pname, xs.map (·.1), some none⟩, tbl)
      | some (toks, t2) => some (⟨pname, xs.map (·.1), some (some toks)⟩, tbl ++ t2)
    | _ => none
  | _ => none

def mapErrAtom : MapErr → String
  | .notExtern => "notextern" | .noName => "noname" | .invalidArgs => "invalidargs" | .noSignature => "nosignature"
  | .lex => "lex" | .sig .syntax => "syntax" | .sig .noReturnOrParameters => "noret" | .sig .name => "name" | .name => "name"

def encTy : ScalarType → Sexp
  | .bit => .atom "BIT" | .integer => .atom "INTEGER" | .octet => .atom "OCTET" | .real => .atom "REAL"

def encBool (b : Bool) : Sexp := .atom (if b then "true" else "false")

def encSig (s : Signature) : Sexp :=
  .list (.atom "sig" :: (match s.ret with | none => .atom "none" | some t => encTy t) ::
    s.params.map fun p => .list [.atom "p", .str p.name, encBool p.mutable,
      match p.ty with
      | .scalar t => .list [.atom "s", encTy t]
      | .fixed v => .list [.atom "f", encTy v.ty, .atom (toString v.len)]
      | .varlen t => .list [.atom "v", encTy t]])

private def ptypeTag : ParamType → String
  | .scalar _ => "scalar" | .fixed _ => "fixed" | .varlen _ => "varlen"

private def argErrTag : ArgErr → String
  | .undeclared _ => "e-undeclared" | .mismatchedVector _ _ => "e-mismatched-vector"
  | .mismatchedScalar _ _ => "e-mismatched-scalar" | .invalidVectorArgument => "e-invalid-vector-argument"
  | .returnArgument => "e-return-argument" | .immediateForMutable _ => "e-immediate-for-mutable"

private def fromStrTag : FromStr → String
  | .ok _ => "parse-ok" | .lex => "parse-lexerr" | .syntax => "parse-syntax" | .noret => "parse-noret"
  | .name => "parse-name" | .other => "parse-other"

def handle (inp out : Sexp) : CaseResult :=
  match inp with
  | .list [.atom "sig-roundtrip", sigS, .list (.atom "names" :: ns)] =>
    match decSig sigS, ns.mapM (fun | .list [.str n, b] => (decBool b).map fun b => (n, b) | _ => none) with
    | some s, some table =>
      let isUser := lookupUser table
      -- `ExternParameter::try_new` validates the name; `ExternSignature::new` validates nothing
      if !(s.params.all (fun p => isUser p.name)) then
        { agree := out == .list [.atom "ctorerr"], specOk := true, nontrivial := false,
          tags := ["sig", "sig-ctor-rejects-name"], detail := s!"expected ctorerr, impl={out}" }
      else
        let mText := s.text
        let mToks := printSig Token.identifier s
        let mRes : FromStr := match sigFromTokens isUser mToks with
          | .ok s' => .ok s'
          | .error .syntax => .syntax
          | .error .noReturnOrParameters => .noret
          | .error .name => .name
        match out with
        | .list [.atom "printed", .str text, lexS, resS] =>
          match decLex lexS, decFromStr resS with
          | some lexed, some res =>
            let toksAgree := match lexed with
              | some (toks, tbl) => toks == mToks && tbl.all (fun e => e.2)
              | none => false
            -- the property on the implementation's own output: a valid signature parses back to itself
            let specOk := if validSigB isUser s then res == .ok s else true
            { agree := text == mText && toksAgree && res == mRes, specOk := specOk,
              nontrivial := validSigB isUser s && s.params.length ≥ 1,
              tags := ["sig", s!"arity{min s.params.length 6}", if s.ret.isSome then "sig-ret" else "sig-noret",
                       fromStrTag res] ++ (s.params.map (fun p => "p-" ++ ptypeTag p.ty)).eraseDups ++
                      (if s.params.any (·.mutable) then ["p-mut"] else []),
              detail := s!"model text={mText} toks={repr mToks} res={repr mRes}; impl={out}" }
          | _, _ => .bad s!"undecodable output {out}"
        | _ => { agree := false, specOk := !(validSigB isUser s), nontrivial := false, tags := ["sig"],
                 detail := s!"model text={mText}; impl={out}" }
    | _, _ => .bad s!"undecodable sig case {inp}"
  | .list [.atom "parse", .str text, lexS] =>
    match decLex lexS, decFromStr out with
    | some lexed, some res =>
      let mRes := modelFromStr lexed
      -- spec on the implementation's output: whatever it accepts is a valid signature (parsing is not
      -- injective: `INTEGER ()` and `INTEGER` give the same signature, so the tokens need not be the printed form)
      let specOk := match res, lexed with
        | .ok s, some (_, table) => validSigB (lookupUser table) s
        | .ok _, none => false
        | _, _ => true
      { agree := res == mRes, specOk := specOk,
        nontrivial := match lexed with | some (toks, _) => toks.length ≥ 3 | none => false,
        tags := ["parse", fromStrTag res, s!"len{min text.length 40 / 8 * 8}"],
        detail := s!"model={repr mRes} impl={repr res}" }
    | _, _ => .bad s!"undecodable parse case {inp} {out}"
  | .list [.atom "call", .list (.atom "regions" :: rsS), .list (.atom "externs" :: esS), .str name,
           .list (.atom "args" :: asS), .list [.atom "how", .atom how, nameOkS]] =>
    match rsS.mapM decRegion, esS.mapM decExtern, asS.mapM decArg, decBool nameOkS with
    | some rs, some externs, some args, some nameOk =>
     -- `Call::try_new` validates the name as a user identifier; the struct literal does not
     if how == "new" && !nameOk then
      { agree := out == .list [.atom "callnameerr"], specOk := out == .list [.atom "callnameerr"], nontrivial := false,
        tags := ["call", "call-name-rejected"], detail := s!"expected callnameerr, impl={out}" }
     else
      let parts : Option (Sexp × Sexp) := match out with
        | .list [.atom "res", a, b] => some (a, b)
        | _ => none
      match parts with
      | none => { agree := false, specOk := false, nontrivial := false, tags := ["call", "call-unmodelled-outcome"],
                  detail := s!"impl={out}" }
      | some (outcomeS, accS) =>
      let m := resolveArguments rs externs name args
      let target0 := (externs.find? (fun e => e.1 = name)).map (·.2)
      -- memory accesses reported for the same CALL: compared with the model as sets
      let setEq (a b : List String) : Bool := a.all b.contains && b.all a.contains
      let accOk : Bool := match target0, accS with
        | none, .list [.atom "accerr"] => true
        | some s, .list [.atom "acc", .list (.atom "reads" :: rS), .list (.atom "writes" :: wS), .atom "true"] =>
          let (mr, mw) := callAccesses s args
          let r := rS.filterMap Sexp.asStr?
          let w := wS.filterMap Sexp.asStr?
          setEq r mr && setEq w mw
        | _, _ => false
      -- consistency of the two observations on the implementation's own outputs: for a call that resolves, the
      -- written regions are exactly those of the resolved arguments marked mutable, the read ones all of them
      let accSpec : Bool := match decOutcome outcomeS, accS with
        | some (.ok rs'), .list [.atom "acc", .list (.atom "reads" :: rS), .list (.atom "writes" :: wS), _] =>
          let names := rs'.filterMap (fun | .vector n _ _ => some n | .memRef n _ _ _ => some n | .immediate _ _ => none)
          let muts := rs'.filterMap (fun | .vector n _ true => some n | .memRef n _ _ true => some n | _ => none)
          setEq (rS.filterMap Sexp.asStr?) names && setEq (wS.filterMap Sexp.asStr?) muts
        | _, _ => true
      match decOutcome outcomeS with
      | none => { agree := false, specOk := false, nontrivial := false, tags := ["call", "call-unmodelled-outcome"],
                  detail := s!"model={repr m} impl={out}" }
      | some o =>
        -- successes, count errors and missing externs must be the model's exactly (`C31_call_iff`); for argument
        -- errors the slots and their order must be the model's and each reported error must be one that APPLIES at
        -- its slot (`outcomeAccepts`, `outcomeAccepts_model`): which of two applicable complaints is raised is not
        -- part of the property
        let agree := match externs.find? (fun e => e.1 = name) with
          | some (_, sg) => outcomeAccepts rs sg args m o
          | none => decide (o = m)
        let target := (externs.find? (fun e => e.1 = name)).map (·.2)
        let slotTags := match target with
          | some s => (s.params.map (fun p => "slot-" ++ ptypeTag p.ty ++ (if p.mutable then "-mut" else ""))).eraseDups ++
              (if s.ret.isSome then ["slot-return"] else []) ++ [s!"arity{min (arity s) 6}"]
          | none => []
        let shared := rsS.filterMap regionShares
        let usesShared := args.any (fun | .identifier n => shared.contains n | .memRef n _ => shared.contains n | _ => false)
        let sharedRet := match target, args with
          | some s, a :: _ => s.ret.isSome && (match a with | .identifier n => shared.contains n | .memRef n _ => shared.contains n | _ => false)
          | _, _ => false
        let outTags := (if usesShared then ["arg-sharing-region"] else []) ++
          (if sharedRet then ["return-sharing-region"] else []) ++ match o with
          | .ok rs' => "call-ok" :: (rs'.map (fun | .vector .. => "r-vector" | .memRef .. => "r-memref" | .immediate .. => "r-immediate")).eraseDups
          | .err (.parameterCount ..) => ["call-count"]
          | .err (.arguments es) => "call-argerrs" :: s!"nerr{min es.length 4}" ::
              (es.map (fun | .ret e => argErrTag e | .arg _ e => argErrTag e)).eraseDups
          | .err .noMatchingExtern => ["call-noextern"]
          | .crash => ["call-crash"]
        let resolvesSpec := match target, o with
          | some s, .ok _ => callTakesB rs s args
          | some s, .err _ => !callTakesB rs s args
          | none, .err .noMatchingExtern => true
          | _, _ => false
        { agree := agree && accOk, specOk := agree && resolvesSpec && accSpec,
          nontrivial := match o with | .err .noMatchingExtern => false | .err (.parameterCount ..) => false | _ => args.length ≥ 1,
          tags := ["call", "call-" ++ how] ++ slotTags ++ outTags ++
            (if args.length > arity (target0.getD ⟨none, []⟩) + 1 then ["args-many-more"] else []) ++
            (if args.isEmpty then ["args-none"] else []),
          detail := s!"model={repr m} impl={repr o} acc={accS} accOk={accOk}" }
    | _, _, _, _ => .bad s!"undecodable call case {inp}"
  | .list (.atom "externmap" :: psS) =>
    match psS.mapM decPragma with
    | some xs =>
      let ps := xs.map (·.1)
      let isUser := lookupUser (xs.flatMap (·.2))
      let mRes : Sexp := match externMap isUser ps with
        | .ok l => .list (.atom "ok" :: l.map fun (n, s) => .list [.atom "e", .str n, encSig s])
        | .error (k, e) => .list [.atom "err", (match k with | none => .atom "none" | some n => .list [.atom "some", .str n]),
            .atom (mapErrAtom e)]
      let mEach : Sexp := .list (.atom "each" :: ps.map fun p => match sigOfPragma isUser p with
        | .ok s => .list [.atom "ok", encSig s]
        | .error e => .list [.atom "err", .atom (mapErrAtom e)])
      match out with
      | .list [.atom "res", api, each, viaText, viaAdd] =>
        -- on the implementation's output: every accepted entry is a valid signature under a user-identifier name,
        -- names are distinct, and the print/parse and `+` routes build the same map
        let specOk := viaText != .atom "differs" && viaAdd == .atom "same" &&
          (match api with
           | .list (.atom "ok" :: es) =>
             let names := es.filterMap (fun | .list [.atom "e", .str n, _] => some n | _ => none)
             names.length == es.length && names.eraseDups.length == names.length && names.all isUser &&
             es.all (fun | .list [.atom "e", _, sS] => (match decSig sS with | some sg => validSigB isUser sg | none => false) | _ => false)
           | _ => true)
        -- a failing entry must be the model's (same key); its error any of those applicable to that entry
        let apiOk : Bool := match externMap isUser ps, api with
          | .error (some n, _), .list [.atom "err", .list [.atom "some", .str n'], .atom c] =>
            n == n' && (match (pragmaMap ps).find? (fun e => e.1 == some n) with
              | some (_, p) => ((entryErrs isUser n p).map mapErrAtom).contains c
              | none => false)
          | _, _ => api == mRes
        { agree := apiOk && each == mEach, specOk := specOk,
          nontrivial := ps.length ≥ 2 || ps.any (fun p => p.args.length ≠ 1),
          tags := ["externmap", s!"pragmas{min ps.length 5}",
            (match api with | .list (.atom "ok" :: _) => "map-ok" | .list [.atom "err", _, .atom c] => "map-err-" ++ c | _ => "map-odd"),
            (match viaText with | .atom a => "text-" ++ a | _ => "text-odd")] ++
            (if ps.any (fun p => p.args.length ≥ 2) then ["pragma-multi-arg"] else []) ++
            (if ps.any (fun p => pragmaKey p = none) then ["pragma-nameless"] else []) ++
            (if (ps.filterMap pragmaKey).eraseDups.length < (ps.filterMap pragmaKey).length then ["pragma-duplicate-name"] else []),
          detail := s!"model={mRes} {mEach} impl={out}" }
      | _ => { agree := false, specOk := false, nontrivial := false, tags := ["externmap"], detail := s!"impl={out}" }
    | none => .bad s!"undecodable externmap case {inp}"
  | _ => .bad s!"undecodable input {inp}"

end QV.C31

def main : IO UInt32 := QV.runMain QV.C31.handle
