import QV.C06.Model
import QV.C06.Spec
import QV.Shared.LexLemmas
namespace QV.C06
open QV.Tok QV.Lex

/-! character classes: the specification's and the model's coincide -/
theorem isLeading_eq (c : Char) : isLeading c = Spec.isStartChar c := by
  simp [isLeading, Spec.isStartChar, isAsciiAlpha, Spec.isLetter, Bool.or_comm]
theorem isEnd_eq (c : Char) : isEnd c = Spec.isWordChar c := by
  simp only [isEnd, isLeading, Spec.isWordChar, isAsciiAlpha, Spec.isLetter, isAsciiDigit, Spec.isDigit]
  cases (decide (97 ≤ c.toNat) && decide (c.toNat ≤ 122)) <;>
    cases (decide (65 ≤ c.toNat) && decide (c.toNat ≤ 90)) <;>
    cases (c == '_') <;> cases (decide (48 ≤ c.toNat) && decide (c.toNat ≤ 57)) <;> rfl

theorem dash_not_end : isEnd '-' = false := by decide
theorem end_not_dash (c : Char) (h : isEnd c = true) : isDash c = false := by
  cases hd : isDash c with
  | false => rfl
  | true =>
    have : c = '-' := by simpa [isDash] using hd
    subst this
    simp [dash_not_end] at h
theorem leading_is_end (c : Char) (h : isLeading c = true) : isEnd c = true := by
  simp [isEnd, h]

/-- `span` on `a ++ rest` is `span` on `a` as long as `a`'s own remainder is non-empty or `rest` stops -/
theorem span_append_left (p : Char → Bool) (a rest : List Char)
    (h : (span p a).2 ≠ [] ∨ stops p rest = true) :
    span p (a ++ rest) = ((span p a).1, (span p a).2 ++ rest) := by
  induction a with
  | nil =>
    rcases h with h | h
    · simp [span] at h
    · simp [span, span_stops p rest h]
  | cons c cs ih =>
    by_cases hc : p c = true
    · simp only [List.cons_append, span, hc, if_true] at h ⊢
      rw [ih h]
    · have hc' : p c = false := by simpa using hc
      simp [span, hc']

/-- the specification's `stopsIdent` gives the model what it needs after the dash run -/
theorem stopsIdent_span (rest : List Char) (h : Spec.stopsIdent rest = true) :
    stops isEnd (span isDash rest).2 = true := by
  induction rest with
  | nil => rfl
  | cons c cs ih =>
    by_cases hc : c = '-'
    · subst hc
      have h' : Spec.stopsIdent cs = true := by simpa [Spec.stopsIdent] using h
      have : isDash '-' = true := rfl
      simp only [span, this, if_true]
      exact ih h'
    · have hd : isDash c = false := by simp [isDash, hc]
      have h' : Spec.isWordChar c = false := by
        have : (c == '-') = false := by simp [hc]
        simpa [Spec.stopsIdent, this] using h
      simp [span, hd, stops, isEnd_eq, h']

theorem stopsIdent_stops_end (rest : List Char) (h : Spec.stopsIdent rest = true) :
    stops isEnd rest = true := by
  cases rest with
  | nil => rfl
  | cons c cs =>
    by_cases hc : c = '-'
    · subst hc; simp [stops, dash_not_end]
    · have : (c == '-') = false := by simp [hc]
      have h' : Spec.isWordChar c = false := by simpa [Spec.stopsIdent, this] using h
      simp [stops, isEnd_eq, h']

/-- a (possibly empty) sequence of dash groups: every character is a word character or a dash, it
starts with a dash if non-empty, and does not end with a dash -/
def tailValid (t : List Char) : Prop :=
  (∀ c ∈ t, isEnd c = true ∨ isDash c = true) ∧ (∀ c r, t = c :: r → isDash c = true) ∧
  t.getLast? ≠ some '-'

theorem getLast_dash_of_all_dash (d : List Char) (hne : d ≠ []) (h : ∀ c ∈ d, isDash c = true) :
    d.getLast? = some '-' := by
  obtain ⟨c, hc⟩ : ∃ c, d.getLast? = some c := by
    cases hd : d.getLast? with
    | none => simp [List.getLast?_eq_none_iff] at hd; exact absurd hd hne
    | some c => exact ⟨c, rfl⟩
  have hm : c ∈ d := List.mem_of_getLast? hc
  have := h c hm
  have : c = '-' := by simpa [isDash] using this
  rw [hc, this]

/-- **the dash-group loop consumes exactly a valid tail** -/
theorem dashGroups_tail (n : Nat) : ∀ (t : List Char), t.length ≤ n → tailValid t →
    ∀ (fuel : Nat) (rest : List Char), t.length ≤ fuel → Spec.stopsIdent rest = true →
    dashGroups fuel (t ++ rest) = (t, rest) := by
  induction n with
  | zero =>
    intro t hl _ fuel rest _ hr
    have : t = [] := by cases t <;> simp_all
    subst this
    cases fuel with
    | zero => rfl
    | succ f =>
      simp only [List.nil_append, dashGroups, takeWhile1]
      have hsp := span_spec isDash rest
      have hst := stopsIdent_span rest hr
      cases hs : span isDash rest with
      | mk d r1 =>
        rw [hs] at hst hsp
        cases d with
        | nil => rfl
        | cons x xs =>
          simp only
          rw [span_stops isEnd r1 hst]
  | succ n ih =>
    intro t hl hv fuel rest hf hr
    cases t with
    | nil => exact ih [] (by simp) hv fuel rest (by simp) hr
    | cons c0 t0 =>
      obtain ⟨hall, hhead, hlast⟩ := hv
      have hc0 : isDash c0 = true := hhead c0 t0 rfl
      cases fuel with
      | zero => simp at hf
      | succ f =>
        -- dashes
        have hsd := span_spec isDash (c0 :: t0)
        cases hd : span isDash (c0 :: t0) with
        | mk d t1 =>
          rw [hd] at hsd
          obtain ⟨hd1, hd2, hd3⟩ := hsd
          simp only at hd1 hd2 hd3
          have hdne : d ≠ [] := by
            intro e; subst e
            simp [span, hc0] at hd
          have ht1ne : t1 ≠ [] := by
            intro e; subst e
            rw [List.append_nil] at hd1
            have := getLast_dash_of_all_dash d hdne hd2
            rw [hd1] at this
            exact hlast this
          -- the word after the dashes
          have hsw := span_spec isEnd t1
          cases hw : span isEnd t1 with
          | mk w t2 =>
            rw [hw] at hsw
            obtain ⟨hw1, hw2, hw3⟩ := hsw
            simp only at hw1 hw2 hw3
            have hwne : w ≠ [] := by
              intro e; subst e
              cases t1 with
              | nil => exact ht1ne rfl
              | cons x xs =>
                have hx : isDash x = false := by simpa [stops] using hd3
                have hxm : x ∈ c0 :: t0 := by rw [← hd1]; simp
                have hxe : isEnd x = true := by
                  rcases hall x hxm with h | h
                  · exact h
                  · simp [hx] at h
                simp [span, hxe] at hw
            -- spans on the extended input
            have e1 : span isDash ((c0 :: t0) ++ rest) = (d, t1 ++ rest) := by
              have := span_append_left isDash (c0 :: t0) rest (Or.inl (by rw [hd]; exact ht1ne))
              rw [hd] at this; exact this
            have e2 : span isEnd (t1 ++ rest) = (w, t2 ++ rest) := by
              have := span_append_left isEnd t1 rest
                (by
                  by_cases h2 : t2 = []
                  · right; exact stopsIdent_stops_end rest hr
                  · left; rw [hw]; exact h2)
              rw [hw] at this; exact this
            -- the remaining tail is valid and shorter
            have ht : c0 :: t0 = d ++ (w ++ t2) := by rw [hw1, hd1]
            have hlen : t2.length ≤ n := by
              have := congrArg List.length ht
              simp at this
              have hdl : 0 < d.length := List.length_pos_iff.2 hdne
              have hwl : 0 < w.length := List.length_pos_iff.2 hwne
              simp at hl
              omega
            have hv2 : tailValid t2 := by
              refine ⟨?_, ?_, ?_⟩
              · intro x hx
                exact hall x (by rw [ht]; simp [hx])
              · intro x r e
                subst e
                have hx : isEnd x = false := by simpa [stops] using hw3
                rcases hall x (by rw [ht]; simp) with h | h
                · simp [hx] at h
                · exact h
              · intro hl2
                apply hlast
                have : t2 ≠ [] := by intro e; subst e; simp at hl2
                rw [ht, ← List.append_assoc, List.getLast?_append, hl2]
                rfl
            have hf2 : t2.length ≤ f := by
              have := congrArg List.length ht
              simp at this hf
              have hdl : 0 < d.length := List.length_pos_iff.2 hdne
              omega
            have ihr := ih t2 hlen hv2 f rest hf2 hr
            cases d with
            | nil => exact absurd rfl hdne
            | cons d0 ds =>
              cases w with
              | nil => exact absurd rfl hwne
              | cons w0 ws =>
                simp only [dashGroups, takeWhile1, e1, e2, ihr]
                rw [ht]
                simp


theorem validIdent_parts (s : List Char) (h : Spec.validIdent s = true) :
    ∃ c cs, s = c :: cs ∧ isLeading c = true ∧ (∀ d ∈ s, isEnd d = true ∨ isDash d = true) ∧
      s.getLast? ≠ some '-' := by
  cases s with
  | nil => simp [Spec.validIdent] at h
  | cons c cs =>
    simp only [Spec.validIdent, Bool.and_eq_true, List.all_eq_true, bne_iff_ne, ne_eq] at h
    refine ⟨c, cs, rfl, by rw [isLeading_eq]; exact h.1.1, ?_, h.2⟩
    intro d hd
    have := h.1.2 d hd
    simp only [Bool.or_eq_true] at this
    rcases this with h1 | h1
    · left; rw [isEnd_eq]; exact h1
    · right; simpa [isDash] using h1

/-- **C06 (the identifier scanner returns exactly the identifier)** -/
theorem lexIdentifierRaw_valid (s rest : List Char) (hs : Spec.validIdent s = true)
    (hr : Spec.stopsIdent rest = true) : lexIdentifierRaw (s ++ rest) = .ok s rest := by
  obtain ⟨c, cs, rfl, hc, hall, hlast⟩ := validIdent_parts s hs
  -- leading run
  have hsl := span_spec isLeading (c :: cs)
  cases hl : span isLeading (c :: cs) with
  | mk l s1 =>
    rw [hl] at hsl
    obtain ⟨hl1, hl2, hl3⟩ := hsl
    simp only at hl1 hl2 hl3
    have hlne : l ≠ [] := by intro e; subst e; simp [span, hc] at hl
    -- middle run
    have hsm := span_spec isEnd s1
    cases hm : span isEnd s1 with
    | mk m t =>
      rw [hm] at hsm
      obtain ⟨hm1, hm2, hm3⟩ := hsm
      simp only at hm1 hm2 hm3
      have hs_eq : c :: cs = l ++ (m ++ t) := by rw [hm1, hl1]
      have hrend := stopsIdent_stops_end rest hr
      have e2 : span isEnd (s1 ++ rest) = (m, t ++ rest) := by
        have := span_append_left isEnd s1 rest
          (by by_cases h2 : t = []
              · right; exact hrend
              · left; rw [hm]; exact h2)
        rw [hm] at this; exact this
      have e1 : span isLeading ((c :: cs) ++ rest) = (l, s1 ++ rest) := by
        have := span_append_left isLeading (c :: cs) rest
          (by by_cases h2 : s1 = []
              · right
                cases rest with
                | nil => rfl
                | cons x xs =>
                  have hx : isEnd x = false := by simpa [stops] using hrend
                  simp only [stops, Bool.not_eq_true']
                  cases hxl : isLeading x with
                  | false => rfl
                  | true => simp [leading_is_end x hxl] at hx
              · left; rw [hl]; exact h2)
        rw [hl] at this; exact this
      have hvt : tailValid t := by
        refine ⟨?_, ?_, ?_⟩
        · intro x hx; exact hall x (by rw [hs_eq]; simp [hx])
        · intro x r e
          subst e
          have hx : isEnd x = false := by simpa [stops] using hm3
          rcases hall x (by rw [hs_eq]; simp) with h | h
          · simp [hx] at h
          · exact h
        · intro hl2
          apply hlast
          have : t ≠ [] := by intro e; subst e; simp at hl2
          rw [hs_eq, ← List.append_assoc, List.getLast?_append, hl2]
          rfl
      have hg := dashGroups_tail t.length t (Nat.le_refl _) hvt (t ++ rest).length rest (by simp) hr
      cases l with
      | nil => exact absurd rfl hlne
      | cons l0 ls =>
        simp only [lexIdentifierRaw, takeWhile1, e1, e2, hg]
        rw [hs_eq]
        simp

theorem leading_head_alts (c : Char) (r : List Char) (hc : isLeading c = true) :
    lexComment (c :: r) = .error ∧ lexPunctuation (c :: r) = .error ∧ lexTarget (c :: r) = .error ∧
    lexString (c :: r) = .error ∧ lexOperator (c :: r) = .error ∧ lexVariable (c :: r) = .error := by
  have hne : ∀ k, isLeading k = false → c ≠ k := fun k hk e => by subst e; simp [hk] at hc
  have h1 := hne '#' (by decide)
  have h2 := hne '!' (by decide)
  have h3 := hne ':' (by decide)
  have h4 := hne ',' (by decide)
  have h5 := hne ' ' (by decide)
  have h6 := hne '\t' (by decide)
  have h7 := hne '[' (by decide)
  have h8 := hne '(' (by decide)
  have h9 := hne ']' (by decide)
  have h10 := hne ')' (by decide)
  have h11 := hne ';' (by decide)
  have h12 := hne '\n' (by decide)
  have h13 := hne '\r' (by decide)
  have h14 := hne '@' (by decide)
  have h15 := hne '"' (by decide)
  have h16 := hne '^' (by decide)
  have h17 := hne '-' (by decide)
  have h18 := hne '+' (by decide)
  have h19 := hne '/' (by decide)
  have h20 := hne '*' (by decide)
  have h21 := hne '%' (by decide)
  refine ⟨?_, ?_, ?_, ?_, ?_, ?_⟩
  · unfold lexComment; split <;> simp_all
  · unfold lexPunctuation
    split <;> (try simp_all)
    unfold recognizeNewlines
    split <;> simp_all
  · unfold lexTarget; split <;> simp_all
  · simp [lexString, QV.C07.lexString, QV.C07.surrounded, h15]
  · unfold lexOperator; split <;> simp_all
  · unfold lexVariable; split <;> simp_all


theorem toToken_not_identifier (k : KeywordToken) (t : List Char) : k.toToken ≠ .identifier t := by
  cases k <;> simp [KeywordToken.toToken]

theorem lowerAscii_eq (c : Char) : lowerAscii c = Spec.lowerChar c := rfl


theorem lexItem_leading_head (c : Char) (cs : List Char) (hc : isLeading c = true) :
    lexItem (c :: cs) = lexToken (c :: cs) := by
  have hne : ∀ k, isLeading k = false → c ≠ k := fun k hk e => by subst e; simp [hk] at hc
  have h1 := hne ' ' (by decide)
  have h2 := hne '\t' (by decide)
  have hi : lexIndent (c :: cs) = .error := by
    unfold lexIndent; split <;> simp_all
  have hb : (c == ' ') = false := by simp [h1]
  simp [lexItem, hi, Res.orElse, List.dropWhile, hb]

end QV.C06
