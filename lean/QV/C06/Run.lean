import QV.Wire
import QV.Shared.LexWire
import QV.C06.Model
import QV.C06.Spec
import QV.Shared.Render
/-! Driver side of the C06 correspondence check. -/
namespace QV.C06
open QV QV.Tok

/-- what was read back from the AST -/
inductive Out where
  | names (ns : List String)
  | err
  | other
  deriving Repr, DecidableEq, BEq

def decodeOut : Sexp → Option Out
  | .list (.atom "names" :: xs) => (xs.mapM Sexp.asStr?).map Out.names
  | .list [.atom "err"] => some .err
  | .list [.atom "other"] => some .other
  | _ => none

/-- how many times the template of a position places the name -/
def occurrences (pos : String) : Nat :=
  if pos == "paulisumargs" || pos == "defcircuitqubituse" then 2 else 1

/-- The model's prediction: lex the name as it appears in the template (with its sigil), apply the
name-taking parser of the position's kind.  `none` = not predicted (the text is not a single name token,
so what happens depends on the rest of the grammar). -/
def predict (pos kind : String) (ident : List Char) : Option Out :=
  let k := occurrences pos
  let rep (s : List Char) : Out := .names (List.replicate k (String.ofList s))
  match kind with
  | "ident" =>
    match QV.Lex.lex ident with
    | some ts => match takeIdentifier ts with
      | .ok s [] => some (rep s)
      | _ => none
    | none => some .err
  | "qubitvar" =>
    match QV.Lex.lex ident with
    | some ts => match parseVariableQubit ts with
      | .ok s [] => some (rep s)
      | _ => none
    | none => some .err
  | "target" =>
    match QV.Lex.lex ('@' :: ident) with
    | some ts => match takeTarget ts with
      | .ok s [] => some (rep s)
      | _ => none
    | none => some .err
  | "variable" =>
    match QV.Lex.lex ('%' :: ident) with
    | some ts => match takeVariable ts with
      | .ok s [] => some (rep s)
      | _ => none
    | none => some .err
  | "expr" =>
    match QV.Lex.lex ident with
    | some ts => match parseExpressionIdentifier ts with
      | .ok (.address m) [] => some (.names [String.ofList m.name])
      | .ok .pi [] => some (.names ["<pi>"])
      | .ok .imaginaryUnit [] => some (.names (if pos == "exprinfix" then [] else ["<number>"]))
      | .ok (.function _) [] => some .err      -- a function name must be followed by `( … )`
      | _ => none
    | none => some .err
  | _ => none

/-- **Bool specification** on the implementation's output, for a spelling that IS a valid identifier
(`Spec.validIdent`, a flat character predicate) and is not a reserved word of the lexer: the parse
succeeded and every occurrence read back from the AST is byte-for-byte the source spelling.  Inside
expressions the reserved words (pi, i, sin, cos, sqrt, exp, cis, any case) are exempt. -/
def specCheck (pos kind : String) (ident : List Char) (out : Out) : Bool :=
  let exempt := kind == "expr" && Spec.exprReserved ident
  exempt ||
  match out with
  | .names ns => ns.length == occurrences pos && ns.all (· == String.ofList ident)
  | .err => false
  | .other => false

/-- is the spelling subject to the specification at a position of this kind? -/
def inScope (kind : String) (ident : List Char) : Bool :=
  Spec.validIdent ident &&
  (kind == "target" || kind == "variable" || !QV.Tok.isReservedWord ident)

/-! ### render stream: is the real printer's text a gap layout covered by the render theorem? -/

/-- Walk the text along the token list: before every token at most one space (the gap; never before an
indentation), then one of the token's spellings — a `NewLine` stands for a run of newlines, an `Indentation`
for a tab or four spaces, a `Float` for whatever the model lexer consumes there (which must be the same for
equal bits: the formatter is a function).  Returns the forms and the formatter table. -/
partial def walkLayout (ts : List Token) (txt : List Char) (forms : List QV.Render.Form)
    (tbl : List (Nat × List Char)) : Option (List QV.Render.Form × List (Nat × List Char)) :=
  match ts with
  | [] => if txt.isEmpty then some (forms.reverse, tbl) else none
  | t :: rest =>
    let (gap, txt1) : Bool × List Char :=
      match t, txt with
      | .indentation, _ => (false, txt)        -- never a gap before an indentation
      | _, ' ' :: r => (true, r)
      | _, _ => (false, txt)
    match t with
    | .float b =>
      match QV.Lex.lexToken txt1 with
      | .ok (.float b') r =>
        if b' == b then
          let sp := txt1.take (txt1.length - r.length)
          match tbl.lookup b with
          | some sp' => if sp' == sp then walkLayout rest r (⟨gap, 0⟩ :: forms) tbl else none
          | none => walkLayout rest r (⟨gap, 0⟩ :: forms) ((b, sp) :: tbl)
        else none
      | _ => none
    | .newLine =>
      let run := txt1.takeWhile (· == '\n')
      if run.isEmpty then none else walkLayout rest (txt1.drop run.length) (⟨gap, run.length - 1⟩ :: forms) tbl
    | .indentation =>
      match txt1 with
      | '\t' :: r => walkLayout rest r (⟨false, 0⟩ :: forms) tbl
      | ' ' :: ' ' :: ' ' :: ' ' :: r => walkLayout rest r (⟨false, 1⟩ :: forms) tbl
      | _ => none
    | _ =>
      let sp := QV.Render.renderToken ⟨fun _ => [], true⟩ t
      if sp.isPrefixOf txt1 && !sp.isEmpty then walkLayout rest (txt1.drop sp.length) (⟨gap, 0⟩ :: forms) tbl
      else none

def handle (inp out : Sexp) : CaseResult :=
  match inp with
  | .list [.atom "lex", .str t] =>
    QV.LexWire.handleLex t out (fun _ m => match m with
      | some ts => ts.any fun tk => match tk with
        | .identifier _ | .target _ | .variable _ => true
        | _ => false
      | none => false)
  | .list [.atom "pos", .atom pos, .atom kind, .str ident] =>
    match out with
    | .list (.atom "mismatch" :: _) =>
      { agree := false, specOk := false, nontrivial := true, tags := [s!"pos-{pos}", "entry-point-mismatch"],
        detail := s!"Program::from_str and Instruction::from_str disagree: ident={repr ident} {out}" }
    | _ =>
    match decodeOut out with
    | none => .bad s!"undecodable output {out}"
    | some o =>
      let id := ident.toList
      let pred := predict pos kind id
      let scope := inScope kind id
      { agree := (match pred with | some p => p == o | none => true),
        specOk := !scope || specCheck pos kind id o,
        nontrivial := scope,
        tags := [s!"pos-{pos}", s!"kind-{kind}",
                 (match o with | .names _ => "out-names" | .err => "out-err" | .other => "out-other"),
                 if pred.isNone then "unpredicted" else "predicted",
                 if scope then "valid-ident" else "not-in-scope",
                 if id.contains '-' then "dash" else "nodash",
                 if id.any Char.isUpper && id.any Char.isLower then "mixedcase" else "onecase",
                 if Spec.exprReserved id then "expr-reserved" else "expr-free",
                 if QV.Tok.isReservedWord id then "lexer-reserved" else "lexer-free",
                 s!"len{min id.length 13}"],
        detail := s!"pos={pos} kind={kind} ident={repr ident} model={repr pred} impl={repr o}" }
  | .list [.atom "wfslash", .str a, .str b] =>
    match decodeOut out with
    | none => .bad s!"undecodable output {out}"
    | some o =>
      let pred : Option Out :=
        match QV.Lex.lex (a.toList ++ '/' :: b.toList) with
        | some ts => match parseWaveformName ts with
          | .ok s [] => some (.names [String.ofList s])
          | _ => none
        | none => some .err
      let scope := Spec.validIdent a.toList && Spec.validIdent b.toList &&
        !QV.Tok.isReservedWord a.toList && !QV.Tok.isReservedWord b.toList
      { agree := (match pred with | some p => p == o | none => true),
        specOk := !scope || o == .names [a ++ "/" ++ b],
        nontrivial := scope, tags := ["wfslash", if scope then "valid-ident" else "not-in-scope"],
        detail := s!"a={repr a} b={repr b} model={repr pred} impl={repr o}" }
  | .list [.atom "consist", .str ident] =>
    let id := ident.toList
    let scope := Spec.validIdent id && !QV.Tok.isReservedWord id && !Spec.exprReserved id
    let expected : Sexp := .list [.atom "ok", .list [.atom "declared", .str ident],
      .list (.atom "used" :: List.replicate 7 (.str ident)), .atom "true"]
    -- model: a single Identifier token that `parse_expression_identifier` reads as an address
    let pred : Option Sexp :=
      match QV.Lex.lex id with
      | some [.identifier s] =>
        match classifyExprIdent s with
        | .address m => if m.name == s then some (.list [.atom "ok", .list [.atom "declared", .str (String.ofList s)],
            .list (.atom "used" :: List.replicate 7 (.str (String.ofList s))), .atom "true"]) else none
        | _ => none
      | some _ => none
      | none => some (.list [.atom "err"])
    { agree := (match pred with | some p => p == out | none => true),
      specOk := !scope || out == expected,
      nontrivial := scope,
      tags := ["consist", if scope then "valid-ident" else "not-in-scope",
               if pred.isNone then "unpredicted" else "predicted",
               if id.any Char.isUpper && id.any Char.isLower then "mixedcase" else "onecase"],
      detail := s!"ident={repr ident} model={repr (pred.map toString)} impl={out}" }
  | .list [.atom "render", .str text] =>
    let m := QV.Lex.lex text.toList
    let mOut := QV.LexWire.lexOutSexp m
    match m with
    | none => { agree := mOut == out, specOk := false, nontrivial := true, tags := ["render", "lex-err"],
                detail := s!"printer output does not lex: text={repr text} impl={out}" }
    | some ts =>
      -- trailing whitespace written by the printer (a final newline is a token; nothing else is expected)
      match walkLayout ts text.toList [] [] with
      | none => { agree := mOut == out, specOk := false, nontrivial := true, tags := ["render", "not-a-layout"],
                  detail := s!"text is not a zero/one-space layout of its tokens: text={repr text} tokens={mOut}" }
      | some (fs, tbl) =>
        let st : QV.Render.Style := ⟨fun b => (tbl.lookup b).getD [], true⟩
        let same := QV.Render.renderForms st ts fs == text.toList
        let ren := QV.Render.renderableF st ts fs
        let canon := QV.Lex.lex (QV.Render.render st ts) == some ts
        let minimal := fs.map (·.gap) == (QV.Render.formsOf QV.Render.mustSep none ts).map (·.gap)
        { agree := mOut == out, specOk := same && ren && canon, nontrivial := ts.length > 1,
          tags := ["render", if minimal then "layout-minimal" else "layout-extra-spaces",
                   if tbl.isEmpty then "no-floats" else "floats", s!"tokens{min (ts.length / 10) 10}x10"] ++
                  (if fs.any (fun f => f.alt != 0) then ["variants(blank-lines/4-space-indent)"] else []) ++
                  (if same then [] else ["layout-mismatch"]) ++ (if ren then [] else ["not-renderable"]) ++
                  (if canon then [] else ["canonical-relex-differs"]),
          detail := s!"text={repr text} renderable={ren} same={same} canon={canon} impl={out}" }
  | .list [.atom "defuse", .atom kind, .str ident] =>
    match decodeOut out with
    | none => .bad s!"undecodable output {out}"
    | some o =>
      let id := ident.toList
      let kind := if kind.startsWith "reparse-" then (kind.drop 8).toString else kind
      let count : Nat := match kind with
        | "waveform" => 4 | "gate" => 3 | "gateplain" => 3 | "circuit" => 2 | "calibration" => 4
        | "label" => 4 | "extern" => 2 | "frame" => 4 | "region" => 4 | _ => 0
      let scope := Spec.validIdent id &&
        (kind == "label" || kind == "frame" || !QV.Tok.isReservedWord id) &&
        (kind != "region" || !Spec.exprReserved id)
      let expected := Out.names (List.replicate count ident)
      -- model: the spelling lexes to one name token (Identifier; Target after `@`; inside a string for frames)
      -- which every definition and use site stores unchanged
      let pred : Option Out :=
        if kind == "frame" then (if scope then some expected else none)
        else if kind == "label" then
          (match QV.Lex.lex ('@' :: id) with
           | some [.target s] => some (.names (List.replicate count (String.ofList s)))
           | some _ => none
           | none => some .err)
        else
          (match QV.Lex.lex id with
           | some [.identifier s] =>
             if kind == "region" && Spec.exprReserved s then none
             else some (.names (List.replicate count (String.ofList s)))
           | some _ => none
           | none => some .err)
      { agree := (match pred with | some p => p == o | none => true),
        specOk := !scope || o == expected,
        nontrivial := scope,
        tags := ["defuse", s!"defuse-{kind}", if scope then "valid-ident" else "not-in-scope",
                 (match o with | .names _ => "out-names" | .err => "out-err" | .other => "out-other"),
                 if id.any Char.isUpper && id.any Char.isLower then "mixedcase" else "onecase"],
        detail := s!"kind={kind} ident={repr ident} expected={repr expected} model={repr pred} impl={repr o}" }
  | .list [.atom "through", .atom kind, .str n, .str n2] =>
    match decodeOut out with
    | none => .bad s!"undecodable output {out}"
    | some o =>
      let a := n.toList
      let b := n2.toList
      let okName (x : List Char) := Spec.validIdent x && !QV.Tok.isReservedWord x
      -- extern names must be *user* identifiers: `validate_user_identifier` (reserved.rs) additionally rejects
      -- the standard gate names (upper case, exact) and the constants `i`, `pi`
      let reservedUser : List String := ["CAN", "CCNOT", "CNOT", "CPHASE", "CPHASE00", "CPHASE01", "CPHASE10",
        "CSWAP", "CZ", "H", "I", "ISWAP", "PHASE", "PISWAP", "PSWAP", "RX", "RY", "RZ", "S", "SWAP", "T", "X", "XY",
        "Y", "Z", "i", "pi"]
      let scope := okName a && okName b && a != b &&
        (kind != "typecheck" || (!Spec.exprReserved a && !Spec.exprReserved b)) &&
        (kind != "callresolve" || !reservedUser.contains n)
      -- a definition matches uses of exactly its own spelling, and no other letter case
      let expected : Out := match kind with
        | "calexpand" => .names ["<fence>", n2]
        | "seqexpand" => .names ["Zq9", n2]
        | "callresolve" => .names ["<resolved>", "<unresolved>"]
        | "typecheck" => .names ["first-ok:true", "whole-ok:false"]
        | _ => .other
      -- model: both spellings lex to the Identifier of that spelling, every site stores it; matching is
      -- string equality
      let pred : Option Out :=
        match QV.Lex.lex a, QV.Lex.lex b with
        | some [.identifier s], some [.identifier t] =>
          if s == a && t == b && a != b && scope then some expected else none
        | _, _ => none
      { agree := (match pred with | some p => p == o | none => true),
        specOk := !scope || o == expected,
        nontrivial := scope,
        tags := ["through", s!"through-{kind}", if scope then "valid-ident" else "not-in-scope",
                 (match o with | .names _ => "out-names" | .err => "out-err" | .other => "out-other")],
        detail := s!"kind={kind} n={repr n} n2={repr n2} expected={repr expected} impl={repr o}" }
  | .list [.atom "rerender", .str text] =>
    -- the harness lexed `text` with the real lexer, laid the tokens out canonically with its Rust mirror of
    -- `QV.Render.render` and lexed that again with the real lexer
    match QV.Lex.lex text.toList, out with
    | none, .list [.atom "err"] =>
      { agree := true, specOk := true, nontrivial := false, tags := ["rerender", "lex-err"], detail := "" }
    | some ts, .list [.atom "rendered", .str r, back] =>
      -- float spellings are the harness's (`{:?}`): read them off its text
      match walkLayout ts r.toList [] [] with
      | none => { agree := false, specOk := false, nontrivial := true, tags := ["rerender", "not-a-layout"],
                  detail := s!"canonical text is not a layout of the tokens: r={repr r} text={repr text}" }
      | some (_, tbl) =>
        let st : QV.Render.Style := ⟨fun b => (tbl.lookup b).getD [], true⟩
        let mine := QV.Render.render st ts
        let sameText := mine == r.toList
        let realBack := back == QV.LexWire.lexOutSexp (some ts)      -- REAL lexer on the canonical layout
        let modelBack := QV.Lex.lex r.toList == some ts
        let ok := QV.Render.allTokOk ts
        -- comments are outside the theorem (a comment swallows the rest of its line)
        { agree := sameText && (modelBack || !ok), specOk := realBack || !ok, nontrivial := ok && ts.length > 1,
          tags := ["rerender", if ok then "all-tokOk" else "has-not-tokOk", s!"tokens{min (ts.length / 10) 10}x10"],
          detail := s!"text={repr text} rust-render={repr r} lean-render={repr (String.ofList mine)} real-relex={back}" }
    | m, _ => { agree := false, specOk := true, nontrivial := false, tags := ["rerender", "shape"],
                detail := s!"model lex {QV.LexWire.lexOutSexp m} vs impl {out}" }
  | _ => .bad s!"undecodable input {inp}"

end QV.C06

def main : IO UInt32 := QV.runMain QV.C06.handle
