/-
C06 specification (import-free, independent of the lexer model).

"Every identifier in program text reaches the parsed program byte-for-byte, with the same letter case.
… The same spelling of a memory region denotes the same region wherever it appears, including inside
expressions, except for the reserved words pi, i and the expression functions."

Here: what a valid identifier IS (`validIdent`: a flat character-class predicate, no scanning), which
spellings are reserved inside expressions (`exprReserved`), and when the text after an identifier does
not continue it (`stopsIdent`).
-/
namespace QV.C06.Spec

def isLetter (c : Char) : Bool := (65 ≤ c.toNat && c.toNat ≤ 90) || (97 ≤ c.toNat && c.toNat ≤ 122)
def isDigit (c : Char) : Bool := 48 ≤ c.toNat && c.toNat ≤ 57
/-- a character that may start an identifier: `[A-Za-z_]` -/
def isStartChar (c : Char) : Bool := isLetter c || c == '_'
/-- a character that may appear after the first one, dashes aside: `[A-Za-z0-9_]` -/
def isWordChar (c : Char) : Bool := isLetter c || isDigit c || c == '_'

/-- **Valid identifier**: starts with `[A-Za-z_]`, consists of `[A-Za-z0-9_-]`, does not end with `-`
(so dashes only occur in the interior, in runs of any length). -/
def validIdent (s : List Char) : Bool :=
  match s with
  | [] => false
  | c :: _ => isStartChar c && s.all (fun d => isWordChar d || d == '-') && s.getLast? != some '-'

/-- the text following an identifier does not continue it: after any dashes comes no word character
(`a-b` continues `a`; `a-`, `a- b`, `a)`, `a[0]`, end of input do not) -/
def stopsIdent : List Char → Bool
  | [] => true
  | c :: cs => if c == '-' then stopsIdent cs else !isWordChar c

/-- ASCII lower-casing of one character -/
def lowerChar (c : Char) : Char := if 65 ≤ c.toNat ∧ c.toNat ≤ 90 then Char.ofNat (c.toNat + 32) else c

/-- the words with a special meaning inside expressions, matched case-insensitively -/
def exprReservedWords : List String := ["cis", "cos", "exp", "i", "pi", "sin", "sqrt"]

def exprReserved (s : List Char) : Bool :=
  exprReservedWords.any fun w => w.toList == s.map lowerChar

end QV.C06.Spec
