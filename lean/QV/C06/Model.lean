import QV.Shared.Lex
/-
C06 model: how names travel from text to the parsed program.

Rust ↔ Lean
  lexer/mod.rs:214-231   lex_identifier_raw           ↔ QV.Lex.lexIdentifierRaw (shared)
  lexer/mod.rs:190-200   keyword_or_identifier        ↔ QV.Tok.keywordOrIdentifier (shared)
  lexer/mod.rs:239-243   lex_target / 470-474 lex_variable ↔ QV.Lex.lexTarget / lexVariable (shared)
  expression.rs:161-187  parse_expression_identifier  ↔ parseExpressionIdentifier (name handling)
  common.rs:283-305      parse_memory_reference(_with_brackets) ↔ parseMemoryReference(WithBrackets)
  common.rs:342-375      parse_qubit / parse_variable_qubit     ↔ parseQubit / parseVariableQubit
  common.rs:444-454      parse_waveform_name           ↔ parseWaveformName
  token!(Identifier(v)) / token!(Target(v)) / token!(Variable(v)) sites (DECLARE, SHARING, LOAD/STORE
  region names, gate names, DEFGATE / DEFCIRCUIT / DEFCAL names, formal parameters, PRAGMA names and
  arguments, CALL names and arguments, labels, frame attribute keys, waveform parameter names,
  MEASURE names)                                       ↔ takeIdentifier / takeTarget / takeVariable
Every one of these sites stores `name.clone()` of the token's string: the AST name IS the token's string.
-/
namespace QV.C06
open QV.Tok QV.Lex

inductive PRes (α : Type) where
  | ok (v : α) (rest : List Token)
  | err
  deriving Repr, DecidableEq

/-- `token!(Identifier(v))` -/
def takeIdentifier : List Token → PRes (List Char)
  | .identifier s :: rest => .ok s rest
  | _ => .err
/-- `token!(Target(v))` -/
def takeTarget : List Token → PRes (List Char)
  | .target s :: rest => .ok s rest
  | _ => .err
/-- `token!(Variable(v))` -/
def takeVariable : List Token → PRes (List Char)
  | .variable s :: rest => .ok s rest
  | _ => .err

structure MemRef where
  name : List Char
  index : Nat
  deriving Repr, DecidableEq

/-- `parse_memory_reference` -/
def parseMemoryReference : List Token → PRes MemRef
  | .identifier name :: .lBracket :: .integer i :: .rBracket :: rest => .ok ⟨name, i⟩ rest
  | .identifier name :: rest => .ok ⟨name, 0⟩ rest
  | _ => .err

/-- `parse_memory_reference_with_brackets` -/
def parseMemoryReferenceWithBrackets : List Token → PRes MemRef
  | .identifier name :: .lBracket :: .integer i :: .rBracket :: rest => .ok ⟨name, i⟩ rest
  | _ => .err

inductive Qubit where
  | fixed (n : Nat)
  | variable (name : List Char)
  deriving Repr, DecidableEq

/-- `parse_qubit`: integer, `%variable` or bare identifier (both named forms become `Variable`) -/
def parseQubit : List Token → PRes Qubit
  | .integer n :: rest => .ok (.fixed n) rest
  | .variable s :: rest => .ok (.variable s) rest
  | .identifier s :: rest => .ok (.variable s) rest
  | _ => .err

/-- `parse_variable_qubit` -/
def parseVariableQubit : List Token → PRes (List Char)
  | .variable s :: rest => .ok s rest
  | .identifier s :: rest => .ok s rest
  | _ => .err

/-- `parse_waveform_name`: `name` or `name/extension` (`format!("{name}/{extension}")`) -/
def parseWaveformName : List Token → PRes (List Char)
  | .identifier a :: .operator .slash :: .identifier b :: rest => .ok (a ++ '/' :: b) rest
  | .identifier a :: rest => .ok a rest
  | _ => .err

/-- `str::to_lowercase` on an identifier (identifiers are ASCII, on which it is ASCII lower-casing) -/
def toLowercase (s : List Char) : List Char := s.map lowerAscii

inductive ExprFunction where
  | cis | cosine | exponent | sine | squareRoot
  deriving Repr, DecidableEq

/-- what `parse_expression_identifier` makes of an identifier that is not followed by `[n]` -/
inductive ExprIdent where
  | function (f : ExprFunction)       -- then `parse_function_call` requires `( expr )`
  | imaginaryUnit
  | pi
  | address (m : MemRef)
  deriving Repr, DecidableEq

/-- the `match ident.to_lowercase().as_str()` of `parse_expression_identifier` (expression.rs:170-185):
the fall-through arm keeps the ORIGINAL spelling (`ident.clone()`, since /repo commit 9881cfd). -/
def classifyExprIdent (ident : List Char) : ExprIdent :=
  let l := String.ofList (toLowercase ident)
  if l = "cis" then .function .cis
  else if l = "cos" then .function .cosine
  else if l = "exp" then .function .exponent
  else if l = "i" then .imaginaryUnit
  else if l = "pi" then .pi
  else if l = "sin" then .function .sine
  else if l = "sqrt" then .function .squareRoot
  else .address ⟨ident, 0⟩

/-- the head of `parse_expression_identifier`: a bracketed memory reference wins over every reserved
word (`pi[0]` is the region `pi`); otherwise the identifier is classified. -/
def parseExpressionIdentifier (ts : List Token) : PRes ExprIdent :=
  match parseMemoryReferenceWithBrackets ts with
  | .ok m rest => .ok (.address m) rest
  | .err =>
    match ts with
    | .identifier ident :: rest => .ok (classifyExprIdent ident) rest
    | _ => .err

end QV.C06
