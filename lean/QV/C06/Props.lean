import QV.C06.Lemmas
/-
C06 — Names are preserved exactly and consistently by parsing.

Property theorems only (helpers: QV/C06/Lemmas.lean, QV/Shared/LexLemmas.lean).  All statements
quantify over ALL identifiers and ALL following text (no length bound).  The specification side
(`Spec.validIdent`: a flat character-class predicate; `Spec.stopsIdent`; `Spec.exprReserved`) is
independent of the scanning functions of the model (`QV.Lex.lexIdentifierRaw`: leading run, middle run,
dash-group loop — the shape of the Rust code).
-/
namespace QV.C06
open QV.Tok QV.Lex

/-- **C06 (the identifier scanner returns exactly the identifier)**: for every valid identifier `s`
(starts with `[A-Za-z_]`, consists of `[A-Za-z0-9_-]`, does not end in `-`; any length, any number of
interior dash runs) and every continuation `rest` that does not extend it, `lex_identifier_raw` on
`s ++ rest` returns `s` — byte for byte, same case — and leaves exactly `rest`. -/
theorem C06_lex_identifier_raw (s rest : List Char) (hs : Spec.validIdent s = true)
    (hr : Spec.stopsIdent rest = true) : lexIdentifierRaw (s ++ rest) = .ok s rest :=
  lexIdentifierRaw_valid s rest hs hr

/-- **C06 (keyword classification never alters a spelling)**: the token made from a scanned word is
either a reserved token or `Identifier` carrying exactly the scanned spelling; it is `Identifier` exactly
when the word is not one of the reserved spellings (case-sensitively). -/
theorem C06_keyword_keeps_spelling (s : List Char) :
    (∀ t, keywordOrIdentifier s = .identifier t → t = s) ∧
    (keywordOrIdentifier s = .identifier s ↔ isReservedWord s = false) := by
  unfold keywordOrIdentifier isReservedWord
  cases h1 : KeywordToken.ofString? s with
  | some k => simp [toToken_not_identifier]
  | none =>
    cases h2 : Command.ofString? s with
    | some c => simp
    | none =>
      cases h3 : DataType.ofString? s with
      | some d => simp
      | none =>
        cases h4 : Modifier.ofString? s with
        | some m => simp
        | none => simp

/-- **C06 (identifiers through `lex_token`)**: a valid identifier that is not a reserved word, followed
by text that does not continue it, lexes to the single token `Identifier s` — same bytes, same case —
and leaves exactly the rest. -/
theorem C06_lexToken_identifier (s rest : List Char) (hs : Spec.validIdent s = true)
    (hk : isReservedWord s = false) (hr : Spec.stopsIdent rest = true) :
    lexToken (s ++ rest) = .ok (.identifier s) rest := by
  have hraw := lexIdentifierRaw_valid s rest hs hr
  obtain ⟨c, cs, rfl, hc, _, _⟩ := validIdent_parts s hs
  obtain ⟨a1, a2, a3, a4, a5, a6⟩ := leading_head_alts c (cs ++ rest) hc
  have hkw := (C06_keyword_keeps_spelling (c :: cs)).2.2 hk
  simp only [List.cons_append] at hraw a1 a2 a3 a4 a5 a6 ⊢
  simp [lexToken, Res.orElse, a1, a2, a3, a4, a5, a6, lexKeywordOrIdentifier, hraw, Res.map, hkw]

/-- **C06 (labels)**: `@name` lexes to `Target name` for every valid identifier, reserved word or not. -/
theorem C06_lexToken_target (s rest : List Char) (hs : Spec.validIdent s = true)
    (hr : Spec.stopsIdent rest = true) :
    lexToken ('@' :: s ++ rest) = .ok (.target s) rest := by
  have hraw := lexIdentifierRaw_valid s rest hs hr
  have e1 : lexComment ('@' :: (s ++ rest)) = .error := rfl
  have e2 : lexPunctuation ('@' :: (s ++ rest)) = .error := rfl
  simp [lexToken, Res.orElse, e1, e2, lexTarget, hraw, Res.map]

/-- **C06 (variables)**: `%name` lexes to `Variable name` for every valid identifier. -/
theorem C06_lexToken_variable (s rest : List Char) (hs : Spec.validIdent s = true)
    (hr : Spec.stopsIdent rest = true) :
    lexToken ('%' :: s ++ rest) = .ok (.variable s) rest := by
  have hraw := lexIdentifierRaw_valid s rest hs hr
  have e1 : lexComment ('%' :: (s ++ rest)) = .error := rfl
  have e2 : lexPunctuation ('%' :: (s ++ rest)) = .error := rfl
  have e3 : lexTarget ('%' :: (s ++ rest)) = .error := rfl
  have e4 : lexString ('%' :: (s ++ rest)) = .error := rfl
  have e5 : lexOperator ('%' :: (s ++ rest)) = .error := rfl
  simp [lexToken, Res.orElse, e1, e2, e3, e4, e5, lexVariable, hraw, Res.map]

/-- **C06 (names inside expressions)**: a bare identifier inside an expression is read as the memory
region of exactly that spelling (index 0) unless its lower-cased form is one of pi, i, sin, cos, sqrt,
exp, cis — and in that case it is never read as a region. -/
theorem C06_expr_identifier (s : List Char) :
    (Spec.exprReserved s = false → classifyExprIdent s = .address ⟨s, 0⟩) ∧
    (Spec.exprReserved s = true → ∀ m, classifyExprIdent s ≠ .address m) := by
  have hl : toLowercase s = s.map Spec.lowerChar := by
    simp [toLowercase, funext lowerAscii_eq]
  unfold classifyExprIdent Spec.exprReserved Spec.exprReservedWords
  simp only [hl]
  generalize s.map Spec.lowerChar = l
  have key : ∀ w : String, (String.ofList l = w) = (w.toList = l) := by
    intro w
    apply propext
    constructor
    · intro h; rw [← h]; simp
    · intro h; rw [← h]; simp
  simp only [key]
  constructor
  · intro h
    simp only [List.any_cons, List.any_nil, Bool.or_false, Bool.or_eq_false_iff, beq_eq_false_iff_ne] at h
    obtain ⟨h1, h2, h3, h4, h5, h6, h7⟩ := h
    simp at h1 h2 h3 h4 h5 h6 h7
    simp [h1, h2, h3, h4, h5, h6, h7]
  · intro h m
    simp only [List.any_cons, List.any_nil, Bool.or_false, Bool.or_eq_true, beq_iff_eq] at h
    split
    · simp
    · split
      · simp
      · split
        · simp
        · split
          · simp
          · split
            · simp
            · split
              · simp
              · split
                · simp
                · simp_all

/-- **C06 (indexed regions inside expressions)**: with brackets, EVERY identifier — reserved words
included — is the region of that spelling. -/
theorem C06_expr_bracketed (s : List Char) (i : Nat) (rest : List Token) :
    parseExpressionIdentifier (.identifier s :: .lBracket :: .integer i :: .rBracket :: rest) =
      .ok (.address ⟨s, i⟩) rest := by
  simp [parseExpressionIdentifier, parseMemoryReferenceWithBrackets]

/-- **C06 (every name-taking site stores the token's string)**: the identifier / target / variable
carried by the token is what each site puts in the AST, unchanged. -/
theorem C06_sites (s : List Char) (i : Nat) (rest : List Token) :
    takeIdentifier (.identifier s :: rest) = .ok s rest ∧
    takeTarget (.target s :: rest) = .ok s rest ∧
    takeVariable (.variable s :: rest) = .ok s rest ∧
    parseMemoryReference (.identifier s :: .lBracket :: .integer i :: .rBracket :: rest) = .ok ⟨s, i⟩ rest ∧
    parseMemoryReferenceWithBrackets (.identifier s :: .lBracket :: .integer i :: .rBracket :: rest) =
      .ok ⟨s, i⟩ rest ∧
    parseQubit (.identifier s :: rest) = .ok (.variable s) rest ∧
    parseQubit (.variable s :: rest) = .ok (.variable s) rest ∧
    parseVariableQubit (.identifier s :: rest) = .ok s rest ∧
    parseVariableQubit (.variable s :: rest) = .ok s rest := by
  refine ⟨?_, ?_, ?_, ?_, ?_, ?_, ?_, ?_, ?_⟩ <;>
    simp [takeIdentifier, takeTarget, takeVariable, parseMemoryReference, parseMemoryReferenceWithBrackets,
      parseQubit, parseVariableQubit]

/-- waveform names `a/b` are the two spellings joined by `/` -/
theorem C06_waveform_name (a b : List Char) (rest : List Token) :
    parseWaveformName (.identifier a :: .operator .slash :: .identifier b :: rest) =
      .ok (a ++ '/' :: b) rest := by
  simp [parseWaveformName]

/-- **C06 (the same spelling denotes the same region everywhere)**: for a valid identifier `s` that is
neither a reserved word of the lexer nor one of the expression words, the text `s` lexes to the one token
`Identifier s`; a declaration / operand position (`token!(Identifier)`, `parse_memory_reference`) stores
the name `s`, and the expression parser reads the memory region `s` — the very same string. -/
theorem C06_consistent (s : List Char) (hs : Spec.validIdent s = true)
    (hk : isReservedWord s = false) (he : Spec.exprReserved s = false) :
    lex s = some [.identifier s] ∧
    takeIdentifier [.identifier s] = .ok s [] ∧
    parseMemoryReference [.identifier s] = .ok ⟨s, 0⟩ [] ∧
    parseExpressionIdentifier [.identifier s] = .ok (.address ⟨s, 0⟩) [] := by
  have hT := C06_lexToken_identifier s [] hs hk rfl
  rw [List.append_nil] at hT
  obtain ⟨c, cs, rfl, hc, _, _⟩ := validIdent_parts s hs
  have hI := lexItem_leading_head c cs hc
  rw [hT] at hI
  refine ⟨lex_single _ _ (by simp) hI, ?_, ?_, ?_⟩
  · simp [takeIdentifier]
  · simp [parseMemoryReference]
  · simp [parseExpressionIdentifier, parseMemoryReferenceWithBrackets, (C06_expr_identifier (c :: cs)).1 he]

/-! ### non-vacuity -/

example : Spec.validIdent "Alpha-Beta--9_z".toList = true := by decide
example : Spec.validIdent "a-".toList = false := by decide
example : Spec.stopsIdent "- b".toList = true := by decide
example : Spec.stopsIdent "-b".toList = false := by decide
example : lexIdentifierRaw "Alpha-Beta--9_z- b".toList = .ok "Alpha-Beta--9_z".toList "- b".toList := by decide
example : isReservedWord "DEFGATE".toList = true ∧ isReservedWord "Defgate".toList = false ∧
    isReservedWord "mut".toList = true ∧ isReservedWord "MUT".toList = false := by decide
example : lex "Defgate".toList = some [.identifier "Defgate".toList] := by decide
example : lex "@DEFGATE %mut".toList = some [.target "DEFGATE".toList, .variable "mut".toList] := by decide
/-- the witness of the repaired defect: a mixed-case region name keeps its case inside expressions -/
example : classifyExprIdent "Theta".toList = .address ⟨"Theta".toList, 0⟩ := by decide
example : classifyExprIdent "Pi".toList = .pi ∧ classifyExprIdent "I".toList = .imaginaryUnit ∧
    classifyExprIdent "SIN".toList = .function .sine := by decide
example : Spec.exprReserved "sQrT".toList = true ∧ Spec.exprReserved "i2".toList = false := by decide

end QV.C06
