import QV.Shared.RenderLemmas
/-
The render theorems (lean/QV/Shared/RenderLemmas.lean, docs/Render.md) restated here so that `./check C06`
builds them and audits their axioms on every run (they rest on the C05, C06 and C07 property theorems).
-/
namespace QV.C06
open QV.Tok QV.Lex QV.Render

/-- general layout: a gap or not before each token, blank lines, tab or four-space indentation -/
theorem Render_lex_renderForms (st : Style) (ts : List Token) (fs : List Form)
    (hren : renderableF st ts fs = true) (hfl : ∀ b, Token.float b ∈ ts → FmtOk st.fmt b) :
    lex (renderForms st ts fs) = some ts := lex_renderForms st ts fs hren hfl

/-- explicit gaps, default spellings -/
theorem Render_lex_renderGaps (st : Style) (ts : List Token) (gs : List Bool)
    (hren : renderable st ts gs = true) (hfl : ∀ b, Token.float b ∈ ts → FmtOk st.fmt b) :
    lex (renderGaps st ts gs) = some ts := lex_renderGaps st ts gs hren hfl

/-- any adjacent-pair spacing policy that separates at least the `mustSep` pairs -/
theorem Render_lex_renderWith (st : Style) (sp : Token → Token → Bool) (hsp : SafePolicy sp) (ts : List Token)
    (hall : allTokOk ts = true) (hfl : ∀ b, Token.float b ∈ ts → FmtOk st.fmt b) :
    lex (renderWith st sp ts) = some ts := lex_renderWith st sp hsp ts hall hfl

/-- canonical layout -/
theorem Render_lex_render (st : Style) (ts : List Token) (hall : allTokOk ts = true)
    (hfl : ∀ b, Token.float b ∈ ts → FmtOk st.fmt b) : lex (render st ts) = some ts :=
  lex_render st ts hall hfl

end QV.C06
