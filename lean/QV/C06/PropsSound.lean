import QV.C06.Props
namespace QV.C06
open QV.Tok QV.Lex

private theorem takeWhile1_some (p : Char → Bool) (inp a r : List Char) (h : takeWhile1 p inp = some (a, r)) :
    a ≠ [] ∧ inp = a ++ r ∧ (∀ c ∈ a, p c = true) ∧ stops p r = true ∧ span p inp = (a, r) := by
  unfold takeWhile1 at h
  have hs := span_spec p inp
  cases hsp : span p inp with
  | mk x y =>
    rw [hsp] at h hs
    cases x with
    | nil => simp at h
    | cons c cs =>
      simp at h
      obtain ⟨rfl, rfl⟩ := h
      exact ⟨by simp, hs.1.symm, hs.2.1, hs.2.2, rfl⟩

private theorem takeWhile1_none (p : Char → Bool) (inp : List Char) (h : takeWhile1 p inp = none) :
    span p inp = ([], inp) := by
  unfold takeWhile1 at h
  have hs := span_spec p inp
  cases hsp : span p inp with
  | mk x y =>
    rw [hsp] at h hs
    cases x with
    | nil => simp at hs; rw [hs.1]
    | cons c cs => simp at h

private theorem stopsIdent_of_span (r : List Char) (h : stops isEnd (span isDash r).2 = true) :
    Spec.stopsIdent r = true := by
  induction r with
  | nil => rfl
  | cons c cs ih =>
    by_cases hc : c = '-'
    · subst hc
      have : isDash '-' = true := rfl
      simp only [span, this, if_true] at h
      simpa [Spec.stopsIdent] using ih h
    · have hd : isDash c = false := by simp [isDash, hc]
      simp only [span, hd] at h
      have hb : (c == '-') = false := by simp [hc]
      have : isEnd c = false := by simpa [stops] using h
      simp [Spec.stopsIdent, hb, ← isEnd_eq, this]

private theorem end_ne_dash (c : Char) (h : isEnd c = true) : c ≠ '-' := by
  intro e; subst e; simp [dash_not_end] at h

private theorem getLast?_append_ne (a b : List Char) (hb : b ≠ []) : (a ++ b).getLast? = b.getLast? := by
  rw [List.getLast?_append]
  cases h : b.getLast? with
  | none => simp [List.getLast?_eq_none_iff] at h; exact absurd h hb
  | some x => rfl

private theorem getLast_mem_ne (w : List Char) (hne : w ≠ []) (h : ∀ c ∈ w, isEnd c = true) :
    w.getLast? ≠ some '-' := by
  intro hl
  have hm : '-' ∈ w := List.mem_of_getLast? hl
  exact end_ne_dash _ (h _ hm) rfl

/-- the dash-group loop only ever returns a valid tail, a prefix of its input, and stops where the
identifier cannot be continued -/
private theorem dashGroups_sound (fuel : Nat) : ∀ (inp g r : List Char), dashGroups fuel inp = (g, r) →
    inp = g ++ r ∧ tailValid g ∧
    (stops isEnd inp = true → inp.length ≤ fuel → Spec.stopsIdent r = true) := by
  induction fuel with
  | zero =>
    intro inp g r h
    simp [dashGroups] at h
    obtain ⟨rfl, rfl⟩ := h
    refine ⟨by simp, ⟨by simp, by simp, by simp⟩, ?_⟩
    intro _ hl
    have : inp = [] := by cases inp <;> simp_all
    subst this; rfl
  | succ f ih =>
    intro inp g r h
    unfold dashGroups at h
    cases h1 : takeWhile1 isDash inp with
    | none =>
      simp [h1] at h
      obtain ⟨rfl, rfl⟩ := h
      refine ⟨by simp, ⟨by simp, by simp, by simp⟩, ?_⟩
      intro hs _
      apply stopsIdent_of_span
      rw [takeWhile1_none _ _ h1]; exact hs
    | some p1 =>
      obtain ⟨d, r1⟩ := p1
      obtain ⟨hdne, hd1, hd2, hd3, hdsp⟩ := takeWhile1_some _ _ _ _ h1
      cases h2 : takeWhile1 isEnd r1 with
      | none =>
        simp [h1, h2] at h
        obtain ⟨rfl, rfl⟩ := h
        refine ⟨by simp, ⟨by simp, by simp, by simp⟩, ?_⟩
        intro _ _
        apply stopsIdent_of_span
        rw [hdsp]
        have := span_spec isEnd r1
        rw [takeWhile1_none _ _ h2] at this
        exact this.2.2
      | some p2 =>
        obtain ⟨w, r2⟩ := p2
        obtain ⟨hwne, hw1, hw2, hw3, _⟩ := takeWhile1_some _ _ _ _ h2
        cases h3 : dashGroups f r2 with
        | mk g' r3 =>
          simp [h1, h2, h3] at h
          obtain ⟨rfl, rfl⟩ := h
          obtain ⟨e3, hv3, hst3⟩ := ih r2 g' r3 h3
          refine ⟨by rw [hd1, hw1, e3]; simp [List.append_assoc], ?_, ?_⟩
          · refine ⟨?_, ?_, ?_⟩
            · intro c hc
              simp only [List.mem_append] at hc
              rcases hc with hc | hc | hc
              · right; exact hd2 c hc
              · left; exact hw2 c hc
              · exact hv3.1 c hc
            · intro c t e
              cases d with
              | nil => exact absurd rfl hdne
              | cons d0 ds =>
                simp at e
                rw [← e.1]; exact hd2 d0 (by simp)
            · by_cases hg : g' = []
              · subst hg
                rw [List.append_nil, getLast?_append_ne d w hwne]
                exact getLast_mem_ne w hwne hw2
              · rw [getLast?_append_ne d (w ++ g') (by simp [hg]), getLast?_append_ne w g' hg]
                exact hv3.2.2
          · intro _ hl
            apply hst3 hw3
            have hlen := congrArg List.length hd1
            have hlen2 := congrArg List.length hw1
            simp at hlen hlen2 hl
            have : 0 < d.length := List.length_pos_iff.2 hdne
            omega

/-- **C06 (converse: the scanner returns nothing but valid identifiers, maximal)**: whenever
`lex_identifier_raw` succeeds, what it returns is a prefix of the input, is a valid identifier, and the
rest does not continue it — so `Identifier`, `Target` and `Variable` tokens only ever carry valid
identifiers, copied from the text byte for byte. -/
theorem C06_lex_identifier_raw_sound (inp s rest : List Char) (h : lexIdentifierRaw inp = .ok s rest) :
    inp = s ++ rest ∧ Spec.validIdent s = true ∧ Spec.stopsIdent rest = true := by
  unfold lexIdentifierRaw at h
  cases h1 : takeWhile1 isLeading inp with
  | none => simp [h1] at h
  | some p1 =>
    obtain ⟨l, r1⟩ := p1
    obtain ⟨hlne, hl1, hl2, _, _⟩ := takeWhile1_some _ _ _ _ h1
    have hm := span_spec isEnd r1
    cases hsm : span isEnd r1 with
    | mk m r2 =>
      rw [hsm] at hm
      obtain ⟨hm1, hm2, hm3⟩ := hm
      simp only at hm1 hm2 hm3
      cases hg : dashGroups r2.length r2 with
      | mk g r3 =>
        simp [h1, hsm, hg] at h
        obtain ⟨rfl, rfl⟩ := h
        obtain ⟨e3, hv3, hst3⟩ := dashGroups_sound _ r2 g r3 hg
        refine ⟨by rw [hl1, ← hm1, e3]; simp [List.append_assoc], ?_, hst3 hm3 (Nat.le_refl _)⟩
        cases l with
        | nil => exact absurd rfl hlne
        | cons c cs =>
          have hc : isLeading c = true := hl2 c (by simp)
          simp only [Spec.validIdent, List.cons_append, Bool.and_eq_true, List.all_eq_true, bne_iff_ne, ne_eq]
          refine ⟨⟨by rw [← isLeading_eq]; exact hc, ?_⟩, ?_⟩
          · intro x hx
            have hx' : x ∈ (c :: cs) ++ m ++ g := by simpa [List.append_assoc] using hx
            simp only [List.mem_append] at hx'
            simp only [Bool.or_eq_true]
            rcases hx' with (hx' | hx') | hx'
            · left; rw [← isEnd_eq]; exact leading_is_end x (hl2 x hx')
            · left; rw [← isEnd_eq]; exact hm2 x hx'
            · rcases hv3.1 x hx' with h | h
              · left; rw [← isEnd_eq]; exact h
              · right; simpa [isDash] using h
          · have hlm : ∀ x ∈ (c :: cs) ++ m, isEnd x = true := by
              intro x hx
              simp only [List.mem_append] at hx
              rcases hx with hx | hx
              · exact leading_is_end x (hl2 x hx)
              · exact hm2 x hx
            have e : c :: (cs ++ (m ++ g)) = ((c :: cs) ++ m) ++ g := by simp [List.append_assoc]
            rw [e]
            by_cases hgn : g = []
            · subst hgn
              rw [List.append_nil]
              exact getLast_mem_ne ((c :: cs) ++ m) (by simp) hlm
            · rw [getLast?_append_ne _ g hgn]
              exact hv3.2.2

end QV.C06
