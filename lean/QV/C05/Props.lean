import QV.C05.Lemmas
/-
C05 — Numeric literals are parsed to their exact value or rejected.

Property theorems only (helpers are in QV/C05/Lemmas.lean and QV/Shared/LexLemmas.lean).
All statements quantify over ALL spellings / magnitudes (no length or size bound); the specification
side (`Spec.classify`, `Spec.posValue`, `Spec.isDigitString`, …) is written independently of the lexer
model (`QV.Lex`), which mirrors quil-rs + lexical and is tied to the code by the correspondence check.

What is NOT a theorem here (see docs/C05.md): the decimal→binary rounding of real literals is the
definition `QV.DecF64.roundDec` on the model side and is compared bit-for-bit with lexical and with
Rust's std on every run; the extent of a real literal is modelled (`floatExtent`) and checked
differentially, its agreement with `Spec.classifyReal` is checked on every case, not proved.
-/
namespace QV.C05
open QV.Tok QV.Lex

theorem horner_eq_posValue (radix : Nat) (ds : List Nat) :
    horner radix ds = Spec.posValue radix ds := by
  simp [horner, foldl_horner]

theorem C05_decimal_integer (s rest : List Char) (hs : Spec.isDigitString 10 s = true)
    (hr : stops (isNumChar 10) rest = true) :
    lexDecimalInteger (s ++ rest) =
      if Spec.posValue 10 (Spec.digitsOf s) < 2 ^ 64 then .ok (Spec.posValue 10 (Spec.digitsOf s)) rest
      else .failure := by
  have hall := isDigitString_all 10 s hs
  cases s with
  | nil => simp [Spec.isDigitString] at hs
  | cons c cs =>
    have hc : Spec.digitVal c < 10 := by
      simp only [Spec.isDigitString, Bool.and_eq_true, decide_eq_true_eq] at hs
      exact hs.1
    have hrun : numRun 10 (c :: cs ++ rest) = (c :: cs, rest) := by
      unfold numRun
      apply span_append _ _ _ _ hr
      intro d hd
      exact (isNumChar_iff d 10 (by omega)).2 (hall d hd)
    have hd := runDigits_eq 10 (by omega) (c :: cs) hall
    simp only [List.cons_append] at hrun
    simp [lexDecimalInteger, isAsciiDigit_of_digitVal c hc, hrun, hd, horner_eq_posValue, u64OrFailure, two64]

/-- **C05 (decimal integers through `lex_token`)**: a decimal digit string (digits and `_`, starting
with a digit), followed by text that does not continue a number (`numStop`: not `0-9 _ . e E`, not a
radix-prefix letter; every delimiter qualifies, and so does the `i` of `2i`), lexes to exactly one
`Integer` token carrying the positional value of its digits when that value is below 2^64 — and is a
lexing FAILURE (never a wrapped or truncated value, never re-lexed some other way) otherwise. -/
theorem C05_lexToken_decimal (s rest : List Char) (hs : Spec.isDigitString 10 s = true)
    (hr : numStop rest = true) :
    lexToken (s ++ rest) =
      if Spec.posValue 10 (Spec.digitsOf s) < 2 ^ 64
      then .ok (.integer (Spec.posValue 10 (Spec.digitsOf s))) rest else .failure := by
  have hall := isDigitString_all 10 s hs
  have hint := C05_decimal_integer s rest hs (numStop_stops_num10 rest hr)
  cases s with
  | nil => simp [Spec.isDigitString] at hs
  | cons c cs =>
    have hc : Spec.digitVal c < 10 := by
      simp only [Spec.isDigitString, Bool.and_eq_true, decide_eq_true_eq] at hs
      exact hs.1
    have hdig := isAsciiDigit_of_digitVal c hc
    obtain ⟨a1, a2, a3, a4, a5, a6, a7⟩ := digit_head_alts c (cs ++ rest) hdig
    -- the second character is not a radix-prefix letter
    have h2 : ∀ p, (p = 'b' ∨ p = 'o' ∨ p = 'x') → ∀ a d r, c :: cs ++ rest = a :: d :: r → lowerAscii d ≠ p := by
      intro p hp a d r e
      cases cs with
      | nil =>
        simp at e
        obtain ⟨_, _, _, _, hb, ho, hx⟩ := numStop_head rest hr d r e.2
        rcases hp with h | h | h <;> subst h <;> assumption
      | cons d' cs' =>
        simp at e
        obtain ⟨_, rfl, _⟩ := e
        exact lower_ne_of_not_alpha _ p hp (numChar10_not_alpha _ (hall _ (by simp)))
    have e2 := lexRadixInteger_error2 2 'b' _ (h2 'b' (by simp))
    have e8 := lexRadixInteger_error2 8 'o' _ (h2 'o' (by simp))
    have e16 := lexRadixInteger_error2 16 'x' _ (h2 'x' (by simp))
    have hcdot : c ≠ '.' := by
      intro e; subst e; simp [isAsciiDigit] at hdig
    have hdec : lexDecimalNumber (c :: cs ++ rest) =
        if Spec.posValue 10 (Spec.digitsOf (c :: cs)) < 2 ^ 64
        then .ok (.integer (Spec.posValue 10 (Spec.digitsOf (c :: cs)))) rest else .failure := by
      unfold lexDecimalNumber
      split
      · rename_i heq
        simp at heq
        exact absurd heq.1 hcdot
      · by_cases hv : Spec.posValue 10 (Spec.digitsOf (c :: cs)) < 2 ^ 64
        · simp only [hv, if_true] at hint ⊢
          rw [hint]
          cases rest with
          | nil => rfl
          | cons d r =>
            obtain ⟨_, h2, he, hE, _⟩ := numStop_head _ hr d r rfl
            simp [h2, he, hE]
        · simp only [hv, if_false] at hint ⊢
          rw [hint]
    simp only [List.cons_append] at a1 a2 a3 a4 a5 a6 a7 e2 e8 e16 hdec ⊢
    simp [lexToken, Res.orElse, a1, a2, a3, a4, a5, a6, a7, lexNumber, lexBinaryInteger, lexOctalInteger,
      lexHexadecimalInteger, e2, e8, e16, Res.map, hdec]

/-- `raw_lex_integer` with a prefix on a well-formed spelling -/
theorem C05_radix_integer (radix : Nat) (p P : Char) (hr36 : radix ≤ 36) (hP : lowerAscii P = p)
    (s rest : List Char) (hs : Spec.isLooseDigitString radix s = true) (hr : delim rest = true) :
    lexRadixInteger radix p ('0' :: P :: s ++ rest) =
      if Spec.posValue radix (Spec.digitsOf s) < 2 ^ 64
      then .ok (Spec.posValue radix (Spec.digitsOf s)) rest else .failure := by
  obtain ⟨hrun, hne, hd⟩ := numRun_loose radix hr36 s rest hs hr
  cases s with
  | nil => exact absurd rfl hne
  | cons c cs =>
    simp only [List.cons_append] at hrun ⊢
    simp only [lexRadixInteger, hP, if_true, hrun]
    simp [hd, horner_eq_posValue, u64OrFailure, two64]

/-- **C05 (binary / octal / hexadecimal integers through `lex_token`)**: `0b…`, `0o…`, `0x…` (prefix
letter in either case; digits of the radix and `_` in any arrangement with at least one digit), followed
by a delimiter, lex to exactly one `Integer` token carrying the positional value of the digits when it is
below 2^64, and are a lexing FAILURE otherwise — no wrapping, no truncation, no backtracking into some
other reading. -/
theorem C05_lexToken_radix (radix : Nat) (P : Char) (s rest : List Char)
    (hP : (radix = 2 ∧ (P = 'b' ∨ P = 'B')) ∨ (radix = 8 ∧ (P = 'o' ∨ P = 'O')) ∨
          (radix = 16 ∧ (P = 'x' ∨ P = 'X')))
    (hs : Spec.isLooseDigitString radix s = true) (hr : delim rest = true) :
    lexToken ('0' :: P :: s ++ rest) =
      if Spec.posValue radix (Spec.digitsOf s) < 2 ^ 64
      then .ok (.integer (Spec.posValue radix (Spec.digitsOf s))) rest else .failure := by
  obtain ⟨a1, a2, a3, a4, a5, a6, a7⟩ := digit_head_alts '0' (P :: s ++ rest) rfl
  simp only [List.cons_append] at a1 a2 a3 a4 a5 a6 a7 ⊢
  simp only [lexToken, a1, a2, a3, a4, a5, a6, a7, lexNumber, lexBinaryInteger,
      lexOctalInteger, lexHexadecimalInteger, orElse_error]
  rcases hP with ⟨rfl, rfl | rfl⟩ | ⟨rfl, rfl | rfl⟩ | ⟨rfl, rfl | rfl⟩
  · have h := C05_radix_integer 2 'b' 'b' (by omega) rfl s rest hs hr
    simp only [List.cons_append] at h
    rw [h, orElse_map_ite]
  · have h := C05_radix_integer 2 'b' 'B' (by omega) rfl s rest hs hr
    simp only [List.cons_append] at h
    rw [h, orElse_map_ite]
  · have h := C05_radix_integer 8 'o' 'o' (by omega) rfl s rest hs hr
    have e : lexRadixInteger 2 'b' ('0' :: 'o' :: (s ++ rest)) = .error := rfl
    simp only [List.cons_append] at h
    rw [e, h]; simp only [map_error, orElse_error]; rw [orElse_map_ite]
  · have h := C05_radix_integer 8 'o' 'O' (by omega) rfl s rest hs hr
    have e : lexRadixInteger 2 'b' ('0' :: 'O' :: (s ++ rest)) = .error := rfl
    simp only [List.cons_append] at h
    rw [e, h]; simp only [map_error, orElse_error]; rw [orElse_map_ite]
  · have h := C05_radix_integer 16 'x' 'x' (by omega) rfl s rest hs hr
    have e : lexRadixInteger 2 'b' ('0' :: 'x' :: (s ++ rest)) = .error := rfl
    have e' : lexRadixInteger 8 'o' ('0' :: 'x' :: (s ++ rest)) = .error := rfl
    simp only [List.cons_append] at h
    rw [e, e', h]; simp only [map_error, orElse_error]; rw [orElse_map_ite]
  · have h := C05_radix_integer 16 'x' 'X' (by omega) rfl s rest hs hr
    have e : lexRadixInteger 2 'b' ('0' :: 'X' :: (s ++ rest)) = .error := rfl
    have e' : lexRadixInteger 8 'o' ('0' :: 'X' :: (s ++ rest)) = .error := rfl
    simp only [List.cons_append] at h
    rw [e, e', h]; simp only [map_error, orElse_error]; rw [orElse_map_ite]


/-! ### the operand layer -/

/-- **C05 (`signed_integer` never wraps)**: for EVERY magnitude (not only those below 2^64) and both
signs, the helper returns exactly `±magnitude` as a mathematical integer when that lies in the `i64`
range, and nothing otherwise. -/
theorem C05_signedInteger_exact (neg : Bool) (n : Nat) (z : Int) :
    signedInteger neg n = some z ↔
      z = (if neg then -(n : Int) else (n : Int)) ∧ -(2 ^ 63 : Int) ≤ z ∧ z < (2 ^ 63 : Int) := by
  have h63 : (2 ^ 63 : Int) = 9223372036854775808 := by decide
  rw [h63]
  cases neg <;>
    simp only [signedInteger, i64TryFromU64, zeroCheckedSubUnsigned, two63, Bool.false_eq_true, if_false,
      if_true]
  · by_cases h : n < 9223372036854775808 <;> simp [h] <;> omega
  · by_cases h : n ≤ 9223372036854775808 <;> simp [h] <;> omega

theorem C05_signedInteger_none (neg : Bool) (n : Nat) :
    signedInteger neg n = none ↔
      ¬ (-(2 ^ 63 : Int) ≤ (if neg then -(n : Int) else (n : Int)) ∧
         (if neg then -(n : Int) else (n : Int)) < (2 ^ 63 : Int)) := by
  have h63 : (2 ^ 63 : Int) = 9223372036854775808 := by decide
  rw [h63]
  cases neg <;>
    simp only [signedInteger, i64TryFromU64, zeroCheckedSubUnsigned, two63, Bool.false_eq_true, if_false,
      if_true]
  · by_cases h : n < 9223372036854775808 <;> simp [h] <;> omega
  · by_cases h : n ≤ 9223372036854775808 <;> simp [h] <;> omega

/-- **C05 (integer operands are exact or rejected)**: an `Integer` token of magnitude `n`, with or
without a leading minus, becomes `LiteralInteger (±n)` exactly when `±n` fits an `i64`, and a parse
error otherwise — in the arithmetic, comparison and binary-logic operand parsers alike. -/
theorem C05_operand_integer (neg : Bool) (n : Nat) (rest : List Token) :
    let ts := (if neg then [Token.operator .minus] else []) ++ Token.integer n :: rest
    let z : Int := if neg then -(n : Int) else (n : Int)
    let expected : PRes Operand :=
      if -(2 ^ 63 : Int) ≤ z ∧ z < (2 ^ 63 : Int) then .ok (.literalInteger z) rest else .err
    parseArithmeticOperand ts = expected ∧ parseComparisonOperand ts = expected ∧
    parseBinaryLogicOperand ts = expected := by
  have h63 : (2 ^ 63 : Int) = 9223372036854775808 := by decide
  cases neg
  · simp only [Bool.false_eq_true, if_false, List.nil_append, parseComparisonOperand, arith_int, logic_int]
    by_cases h : -(2 ^ 63 : Int) ≤ (n : Int) ∧ (n : Int) < (2 ^ 63 : Int)
    · have := (C05_signedInteger_exact false n n).2 ⟨by simp, h⟩
      rw [h63] at h
      simp [this] <;> omega
    · have := (C05_signedInteger_none false n).2 (by simpa using h)
      rw [h63] at h
      simp [this] <;> omega
  · simp only [if_true, List.cons_append, List.nil_append, parseComparisonOperand, arith_neg_int, logic_neg_int]
    by_cases h : -(2 ^ 63 : Int) ≤ -(n : Int) ∧ -(n : Int) < (2 ^ 63 : Int)
    · have := (C05_signedInteger_exact true n (-(n : Int))).2 ⟨by simp, h⟩
      rw [h63] at h
      simp [this] <;> omega
    · have := (C05_signedInteger_none true n).2 (by simpa using h)
      rw [h63] at h
      simp [this] <;> omega

/-- **C05 (kinds are kept)**: a `Float` token (with or without a minus) is never turned into an integer
operand — it is a `LiteralReal` carrying the token's bits (sign bit flipped under a minus) in the
arithmetic and comparison parsers and a parse error in the binary-logic parser; an `Integer` token is
never turned into a real operand. -/
theorem C05_kind (v n : Nat) (rest : List Token) :
    parseArithmeticOperand (.float v :: rest) = .ok (.literalReal v) rest ∧
    parseArithmeticOperand (.operator .minus :: .float v :: rest) = .ok (.literalReal (QV.DecF64.negBits v)) rest ∧
    parseComparisonOperand (.float v :: rest) = .ok (.literalReal v) rest ∧
    parseComparisonOperand (.operator .minus :: .float v :: rest) = .ok (.literalReal (QV.DecF64.negBits v)) rest ∧
    parseBinaryLogicOperand (.float v :: rest) = .err ∧
    parseBinaryLogicOperand (.operator .minus :: .float v :: rest) = .err ∧
    (∀ b r, parseArithmeticOperand (.integer n :: rest) ≠ .ok (.literalReal b) r) ∧
    (∀ b r, parseArithmeticOperand (.operator .minus :: .integer n :: rest) ≠ .ok (.literalReal b) r) := by
  refine ⟨arith_float v rest, arith_neg_float v rest, arith_float v rest, arith_neg_float v rest,
    logic_float v rest, logic_neg_float v rest, ?_, ?_⟩
  · intro b r; rw [arith_int]; split <;> simp
  · intro b r; rw [arith_neg_int]; split <;> simp

/-- **C05 (immediates in expressions and CALL arguments)**: an `Integer` token becomes the complex number
whose real part is the u64 rounded to the nearest double (ties to even) — `Integer` followed by the
identifier `i` the corresponding imaginary number; a `Float` token keeps its bits. -/
theorem C05_immediate (n b : Nat) (rest : List Token) (h : parseI rest = none) :
    parseImmediateValue (.integer n :: rest) = .ok ⟨QV.DecF64.ofNat n, 0⟩ rest ∧
    parseImmediateValue (.integer n :: .identifier ['i'] :: rest) = .ok ⟨0, QV.DecF64.ofNat n⟩ rest ∧
    parseImmediateValue (.float b :: rest) = .ok ⟨b, 0⟩ rest ∧
    parseImmediateValue (.float b :: .identifier ['i'] :: rest) = .ok ⟨0, b⟩ rest := by
  refine ⟨?_, ?_, ?_, ?_⟩
  · simp only [parseImmediateValue, h]
  · simp [parseImmediateValue, parseI]
  · simp only [parseImmediateValue, h]
  · simp [parseImmediateValue, parseI]


/-- **C05 (CALL immediates, since /repo commit 9ad4430)**: a lone numeric token, optionally preceded by a
minus sign, is read as the real (or, with the `i` suffix, imaginary) number of exactly the token's value,
negated by `0 - x` under the sign (so the zero part stays `+0.0`); integers go through `u64 as f64`. -/
theorem C05_call_immediate (n b : Nat) :
    parseCallImmediate [.integer n] = .ok ⟨QV.DecF64.ofNat n, 0⟩ [] ∧
    parseCallImmediate [.operator .minus, .integer n] = .ok ⟨zeroMinus (QV.DecF64.ofNat n), 0⟩ [] ∧
    parseCallImmediate [.float b] = .ok ⟨b, 0⟩ [] ∧
    parseCallImmediate [.operator .minus, .float b] = .ok ⟨zeroMinus b, 0⟩ [] ∧
    parseCallImmediate [.operator .minus, .float b, .identifier ['i']] = .ok ⟨0, zeroMinus b⟩ [] ∧
    parseCallImmediate [.operator .plus, .integer n] = .err := by
  refine ⟨?_, ?_, ?_, ?_, ?_, ?_⟩ <;>
    simp [parseCallImmediate, parseImmediateValue, parseI, negateC, zeroMinus, isZeroBits]

/-! ### from the specification's grammar to tokens to operands -/

/-- **C05 (every integer literal of the specification's grammar)**: whatever spelling the independent
grammar `Spec.classify` recognises as an integer literal of radix `r` with digits `ds` — decimal, or
`0b/0o/0x`-prefixed in either case, with `_` separators wherever the grammar allows them, of ANY length —
when followed by a delimiter lexes to the single token `Integer (Σ dᵢ·r^(n-1-i))` if that value is below
2^64 and makes the whole lex FAIL otherwise. -/
theorem C05_integer_literal (body rest : List Char) (r : Nat) (ds : List Nat)
    (hc : Spec.classify body = some (.int r ds)) (hr : delim rest = true) :
    lexToken (body ++ rest) =
      if Spec.posValue r ds < 2 ^ 64 then .ok (.integer (Spec.posValue r ds)) rest else .failure := by
  unfold Spec.classify at hc
  split at hc
  · rename_i p s
    split at hc
    · rename_i hp
      split at hc <;> simp at hc
      rename_i hs
      obtain ⟨rfl, rfl⟩ := hc
      exact C05_lexToken_radix 2 p s rest (Or.inl ⟨rfl, hp⟩) hs hr
    · split at hc
      · rename_i hp
        split at hc <;> simp at hc
        rename_i hs
        obtain ⟨rfl, rfl⟩ := hc
        exact C05_lexToken_radix 8 p s rest (Or.inr (Or.inl ⟨rfl, hp⟩)) hs hr
      · split at hc
        · rename_i hp
          split at hc <;> simp at hc
          rename_i hs
          obtain ⟨rfl, rfl⟩ := hc
          exact C05_lexToken_radix 16 p s rest (Or.inr (Or.inr ⟨rfl, hp⟩)) hs hr
        · split at hc
          · rename_i hs
            simp at hc
            obtain ⟨rfl, rfl⟩ := hc
            exact C05_lexToken_decimal _ rest hs (delim_numStop rest hr)
          · exact absurd hc (classifyReal_not_int _ _ _)
  · split at hc
    · rename_i hs
      simp at hc
      obtain ⟨rfl, rfl⟩ := hc
      exact C05_lexToken_decimal _ rest hs (delim_numStop rest hr)
    · exact absurd hc (classifyReal_not_int _ _ _)

/-- **C05 (whole-input lexing of a signed integer literal)**: `lex` of an optional minus sign followed by
an integer literal of the specification's grammar is exactly `[Minus?, Integer value]`, or a lexing error
when the value does not fit in 64 bits. -/
theorem C05_lex_integer_literal (neg : Bool) (body : List Char) (r : Nat) (ds : List Nat)
    (hc : Spec.classify body = some (.int r ds)) :
    lex ((if neg then ['-'] else []) ++ body) =
      if Spec.posValue r ds < 2 ^ 64
      then some ((if neg then [Token.operator .minus] else []) ++ [Token.integer (Spec.posValue r ds)])
      else none := by
  obtain ⟨c, cs, rfl, hd⟩ := classify_int_head body r ds hc
  have hT := C05_integer_literal (c :: cs) [] r ds hc rfl
  rw [List.append_nil] at hT
  have hI := lexItem_digit_head c cs hd
  rw [hT] at hI
  cases neg
  · simp only [Bool.false_eq_true, if_false, List.nil_append, lex, List.length_cons]
    by_cases hv : Spec.posValue r ds < 2 ^ 64
    · simp only [hv, if_true] at hI ⊢
      rw [lexMany_single _ _ _ (by simp) hI]
      rfl
    · simp only [hv, if_false] at hI ⊢
      rw [lexMany_fail _ _ hI]
  · have hm : lexItem ('-' :: c :: cs) = .ok (.operator .minus) (c :: cs) := rfl
    simp only [if_true, List.cons_append, List.nil_append, lex, List.length_cons]
    by_cases hv : Spec.posValue r ds < 2 ^ 64
    · simp only [hv, if_true] at hI ⊢
      have : lexMany (cs.length + 1 + 1) ('-' :: c :: cs) =
          .ok [.operator .minus, .integer (Spec.posValue r ds)] [] := by
        simp only [lexMany, hm, List.length_cons, Nat.lt_add_one, if_true, hI, lexMany_nil,
          List.length_nil, Nat.zero_lt_succ]
      rw [this]; rfl
    · simp only [hv, if_false] at hI ⊢
      have : lexMany (cs.length + 1 + 1) ('-' :: c :: cs) = .failure := by
        simp only [lexMany, hm, List.length_cons, Nat.lt_add_one, if_true, hI]
      rw [this]

/-- **C05 (end to end, integers in classical operand positions)**: for every integer literal of the
specification's grammar, with or without a minus sign, lexing the text and running any of the three
operand parsers on the tokens yields `LiteralInteger` of exactly the signed mathematical value when that
value lies in the `i64` range, a parse error when it does not, and a lexing error when the magnitude
does not even fit in 64 bits.  No wrap, no truncation, no change of kind. -/
theorem C05_operand_of_integer_literal (neg : Bool) (body : List Char) (r : Nat) (ds : List Nat)
    (hc : Spec.classify body = some (.int r ds)) :
    let v := Spec.posValue r ds
    let z : Int := if neg then -(v : Int) else (v : Int)
    let expected : Option (PRes Operand) :=
      if v < 2 ^ 64 then
        some (if -(2 ^ 63 : Int) ≤ z ∧ z < (2 ^ 63 : Int) then .ok (.literalInteger z) [] else .err)
      else none
    let text := (if neg then ['-'] else []) ++ body
    (lex text).map parseArithmeticOperand = expected ∧
    (lex text).map parseComparisonOperand = expected ∧
    (lex text).map parseBinaryLogicOperand = expected := by
  intro v z expected text
  have hl := C05_lex_integer_literal neg body r ds hc
  have ho := C05_operand_integer neg v []
  simp only at ho
  by_cases hv : v < 2 ^ 64
  · have hv' : Spec.posValue r ds < 2 ^ 64 := hv
    simp only [hv', if_true] at hl
    simp only [text, expected, hl, hv, if_true, Option.map_some, z]
    exact ⟨congrArg some ho.1, congrArg some ho.2.1, congrArg some ho.2.2⟩
  · have hv' : ¬ Spec.posValue r ds < 2 ^ 64 := hv
    simp only [hv', if_false] at hl
    simp [text, expected, hl, hv]

/-! ### non-vacuity: the hypotheses are satisfiable and the statements bite on concrete spellings -/

example : Spec.classify "0x_fF__".toList = some (.int 16 [15, 15]) := by decide
example : delim " # c".toList = true := by decide
example : lex "-9223372036854775808".toList =
    some [.operator .minus, .integer 9223372036854775808] := by decide
/-- i64::MIN is representable … -/
example : (lex "-9223372036854775808".toList).map parseArithmeticOperand =
    some (.ok (.literalInteger (-9223372036854775808)) []) := by decide
/-- … 2^63 without the sign is not, and u64::MAX (which used to become -1) is rejected, not wrapped -/
example : (lex "9223372036854775808".toList).map parseArithmeticOperand = some .err := by decide
example : (lex "18446744073709551615".toList).map parseArithmeticOperand = some .err := by decide
example : lex "18446744073709551616".toList = none := by decide
example : lex "0b1111_0000".toList = some [.integer 240] := by decide
/-- real literals: extent and bits (1.5, 12.34e-15 with separators everywhere, the smallest denormal) -/
example : lex "1.5".toList = some [.float 0x3FF8000000000000] := by decide
example : lex "1__2__.3__4__e-__1__5__".toList = some [.float 0x3D0BC98693305B2F] := by decide
set_option maxRecDepth 20000 in
example : lex "4.9e-324".toList = some [.float 1] := by decide
set_option maxRecDepth 20000 in
example : lex "1e309".toList = none := by decide
/-- the two work-arounds of `lex_and_parse_number` -/
example : lex "1._5".toList = some [.float 0x3FF0000000000000, .identifier "_5".toList] := by decide
example : lex "0x".toList = none := by decide
-- a real literal never becomes an integer operand, and is rejected where only integers are allowed
example : (lex "-2.0".toList).map parseArithmeticOperand =
    some (.ok (.literalReal 0xC000000000000000) []) := by
  have h : lex "-2.0".toList = some [.operator .minus, .float 0x4000000000000000] := by decide
  rw [h, Option.map_some, arith_neg_float]
  decide
example : (lex "2.0".toList).map parseBinaryLogicOperand = some .err := by
  have h : lex "2.0".toList = some [.float 0x4000000000000000] := by decide
  rw [h, Option.map_some, logic_float]

end QV.C05
