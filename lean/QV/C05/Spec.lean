/-
C05 specification (import-free, written independently of the lexer model).

"Every integer or real literal the lexer accepts, in any supported radix, digit-separator or exponent
form and with an optional sign, becomes an operand or expression equal to the literal's mathematical
value (reals rounded to nearest). Otherwise parsing fails. A literal is never silently wrapped,
truncated, or changed from real to integer."

Here: what a literal spelling IS (a small grammar, `classify`), what it DENOTES (positional value of the
digits with the separators removed, `posValue`; for reals the exact rational `m · 10^e`), and the Bool
check on what the implementation returned for it in an operand position (`checkOutput`).
Nothing in this file mentions nom, lexical, tokens or the model's scanning functions.
-/
namespace QV.C05.Spec

/-- value of one digit character (0-9, a-z, A-Z); 36 for anything else -/
def digitVal (c : Char) : Nat :=
  let n := c.toNat
  if 48 ≤ n ∧ n ≤ 57 then n - 48              -- '0' … '9'
  else if 97 ≤ n ∧ n ≤ 122 then n - 97 + 10   -- 'a' … 'z'
  else if 65 ≤ n ∧ n ≤ 90 then n - 65 + 10    -- 'A' … 'Z'
  else 36

/-- positional value: `Σ dᵢ · radix^(n-1-i)` (most significant digit first) -/
def posValue (radix : Nat) : List Nat → Nat
  | [] => 0
  | d :: ds => d * radix ^ ds.length + posValue radix ds

/-- a digit string of the radix in which `_` may appear anywhere except in front: at least one digit,
starting with a digit -/
def isDigitString (radix : Nat) (s : List Char) : Bool :=
  match s with
  | [] => false
  | c :: _ => digitVal c < radix && s.all fun c => c == '_' || digitVal c < radix

/-- like `isDigitString` but separators may also lead (after a radix prefix, in an exponent) -/
def isLooseDigitString (radix : Nat) (s : List Char) : Bool :=
  s.all (fun c => c == '_' || digitVal c < radix) && s.any fun c => digitVal c < radix

/-- the digits of a digit string -/
def digitsOf (s : List Char) : List Nat := (s.filter (· != '_')).map digitVal

/-- an unsigned literal -/
inductive Lit where
  /-- integer literal: radix and digits (separators removed) -/
  | int (radix : Nat) (digits : List Nat)
  /-- real literal: mantissa digits (integer part ++ fraction part), number of fraction digits,
  sign and digits of the explicit exponent (empty = none) -/
  | real (mantissa : List Nat) (fracLen : Nat) (expNeg : Bool) (expDigits : List Nat)
  deriving Repr, DecidableEq

/-- split at the first character satisfying `p` (which is dropped): `none` if there is none -/
def splitAt? (p : Char → Bool) : List Char → Option (List Char × List Char)
  | [] => none
  | c :: cs => if p c then some ([], cs) else (splitAt? p cs).map fun (a, b) => (c :: a, b)

/-- Is the spelling a decimal real literal `int? . frac? (e sign? exp)?` / `int e sign? exp`? -/
def classifyReal (s : List Char) : Option Lit :=
  -- exponent part
  let (mant, exp?) : List Char × Option (Bool × List Char) :=
    match splitAt? (fun c => c == 'e' || c == 'E') s with
    | some (m, '+' :: e) => (m, some (false, e))
    | some (m, '-' :: e) => (m, some (true, e))
    | some (m, e) => (m, some (false, e))
    | none => (s, none)
  let expOk := match exp? with
    | some (_, e) => isLooseDigitString 10 e
    | none => true
  let (expNeg, expDigits) := match exp? with
    | some (n, e) => (n, digitsOf e)
    | none => (false, [])
  match splitAt? (· == '.') mant with
  | some (ip, fp) =>
    let ipOk := ip = [] || isDigitString 10 ip
    let fpOk := fp = [] || isDigitString 10 fp
    if ipOk && fpOk && expOk && !(digitsOf ip ++ digitsOf fp).isEmpty then
      some (.real (digitsOf ip ++ digitsOf fp) (digitsOf fp).length expNeg expDigits)
    else none
  | none =>
    -- no decimal point: a real literal only if it has an exponent
    if exp?.isSome && isDigitString 10 mant && expOk then
      some (.real (digitsOf mant) 0 expNeg expDigits)
    else none

/-- Is the (unsigned) spelling a literal, and which? -/
def classify (s : List Char) : Option Lit :=
  match s with
  | '0' :: p :: rest =>
    if p = 'b' ∨ p = 'B' then (if isLooseDigitString 2 rest then some (.int 2 (digitsOf rest)) else none)
    else if p = 'o' ∨ p = 'O' then (if isLooseDigitString 8 rest then some (.int 8 (digitsOf rest)) else none)
    else if p = 'x' ∨ p = 'X' then (if isLooseDigitString 16 rest then some (.int 16 (digitsOf rest)) else none)
    else if isDigitString 10 s then some (.int 10 (digitsOf s))
    else classifyReal s
  | _ =>
    if isDigitString 10 s then some (.int 10 (digitsOf s))
    else classifyReal s

/-- a spelling with its optional sign and optional imaginary suffix -/
structure Signed where
  neg : Bool
  plus : Bool
  imag : Bool
  lit : Lit
  deriving Repr, DecidableEq

def classifySigned (s : List Char) : Option Signed :=
  let (neg, plus, body) : Bool × Bool × List Char :=
    match s with
    | '-' :: b => (true, false, b)
    | '+' :: b => (false, true, b)
    | b => (false, false, b)
  let (imag, body') : Bool × List Char :=
    match body.reverse with
    | 'i' :: r => (true, r.reverse)
    | _ => (false, body)
  (classify body').map fun l => ⟨neg, plus, imag, l⟩

/-- mathematical value of an integer literal -/
def Lit.intValue : Lit → Option Nat
  | .int radix ds => some (posValue radix ds)
  | .real .. => none

/-- mantissa and decimal exponent of a real literal: the value is `m · 10^e` -/
def Lit.realValue : Lit → Option (Nat × Int)
  | .real m fl en ed =>
    let e : Int := posValue 10 ed
    some (posValue 10 m, (if en then -e else e) - (fl : Int))
  | .int .. => none

end QV.C05.Spec
