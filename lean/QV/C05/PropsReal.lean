import QV.C05.Props
/-
C05, part 2 — real literals: extent and value of every real literal spelling (unbounded).
The spelling is assembled from its parts (`realSpelling`), which is the specification's grammar for real
literals in constructive form; helper lemmas are `private`-free but only `floatExtent_real` and
`C05_real_literal` are property statements.
-/
namespace QV.C05
open QV.Tok QV.Lex

/-- an optional digit string: empty, or digits and `_` starting with a digit -/
def optDigitString (s : List Char) : Bool := s.isEmpty || Spec.isDigitString 10 s

private theorem optDigitString_all (s : List Char) (h : optDigitString s = true) :
    ∀ c ∈ s, c = '_' ∨ Spec.digitVal c < 10 := by
  cases s with
  | nil => simp
  | cons c cs =>
    have : Spec.isDigitString 10 (c :: cs) = true := by simpa [optDigitString] using h
    exact isDigitString_all 10 _ this

private theorem numRun10_opt (s rest : List Char) (hs : optDigitString s = true)
    (hr : stops (isNumChar 10) rest = true) : numRun 10 (s ++ rest) = (s, rest) := by
  unfold numRun
  exact span_append _ _ _ (fun d hd => (isNumChar_iff d 10 (by omega)).2 (optDigitString_all s hs d hd)) hr

private theorem runDigits_opt (s : List Char) (hs : optDigitString s = true) : runDigits s = Spec.digitsOf s :=
  runDigits_eq 10 (by omega) s (optDigitString_all s hs)

private theorem optDigitString_head (s : List Char) (hs : optDigitString s = true) :
    ∀ c r, s = c :: r → isAsciiDigit c = true := by
  intro c r e
  subst e
  have : Spec.isDigitString 10 (c :: r) = true := by simpa [optDigitString] using hs
  simp only [Spec.isDigitString, Bool.and_eq_true, decide_eq_true_eq] at this
  exact isAsciiDigit_of_digitVal c this.1

/-- the sign characters of an exponent -/
def signChars : Option Bool → List Char
  | none => []
  | some false => ['+']
  | some true => ['-']

def signNeg : Option Bool → Bool
  | some true => true
  | _ => false

def expNegOf : Option (Char × Option Bool × List Char) → Bool
  | some (_, sg, _) => signNeg sg
  | none => false
def expRunOf : Option (Char × Option Bool × List Char) → List Char
  | some (_, _, ep) => ep
  | none => []

/-- the spelling of an exponent part -/
def expText : Option (Char × Option Bool × List Char) → List Char
  | some (E, sg, ep) => E :: signChars sg ++ ep
  | none => []

/-- the spelling of a real literal from its parts -/
def realSpelling (ip : List Char) (dot : Bool) (fp : List Char) (exp : Option (Char × Option Bool × List Char)) :
    List Char :=
  ip ++ (if dot then '.' :: fp else []) ++ expText exp

private theorem stops_num10_cons (c : Char) (r : List Char) (h : isNumChar 10 c = false) :
    stops (isNumChar 10) (c :: r) = true := by simp [stops, h]

private theorem not_numChar10_not_digit (c : Char) (hc : isNumChar 10 c = false) : isAsciiDigit c = false := by
  cases hd : isAsciiDigit c with
  | false => rfl
  | true =>
    rcases digit_cases c hd with h | h | h | h | h | h | h | h | h | h <;> subst h <;>
      simp [isNumChar, isDigitIn, digitOf] at hc

private theorem floatIntPart_eq (ip t : List Char) (hip : optDigitString ip = true)
    (ht : stops (isNumChar 10) t = true) : floatIntPart (ip ++ t) = (ip, t) := by
  cases ip with
  | nil =>
    cases t with
    | nil => rfl
    | cons c r =>
      have hc : isNumChar 10 c = false := by simpa [stops] using ht
      simp [floatIntPart, not_numChar10_not_digit c hc]
  | cons c cs =>
    have hc := optDigitString_head _ hip c cs rfl
    have := numRun10_opt (c :: cs) t hip ht
    simp only [List.cons_append] at this ⊢
    simp [floatIntPart, hc, this]

private theorem floatFracPart_dot (fp t : List Char) (hfp : optDigitString fp = true)
    (ht : stops (isNumChar 10) t = true) : floatFracPart ('.' :: (fp ++ t)) = (true, fp, t) := by
  simp [floatFracPart, numRun10_opt fp t hfp ht]

private theorem floatFracPart_nodot (t : List Char) (h : ∀ r, t ≠ '.' :: r) : floatFracPart t = (false, [], t) := by
  unfold floatFracPart
  split
  · rename_i r2; exact absurd rfl (h r2)
  · rfl

private theorem floatExpPart_none (rest : List Char) (hr : numStop rest = true) :
    floatExpPart rest = some (none, rest) := by
  cases rest with
  | nil => rfl
  | cons d r =>
    obtain ⟨_, _, he, hE, _⟩ := numStop_head _ hr d r rfl
    simp [floatExpPart, he, hE]

private theorem floatExpPart_some (E : Char) (sg : Option Bool) (ep rest : List Char) (hE : E = 'e' ∨ E = 'E')
    (hep : Spec.isLooseDigitString 10 ep = true) (hr : numStop rest = true) :
    floatExpPart (E :: (signChars sg ++ (ep ++ rest))) = some (some (signNeg sg, ep), rest) := by
  obtain ⟨hrun, hne, hd⟩ := numRun_loose10 ep rest hep (numStop_stops_num10 rest hr)
  have hdne : runDigits ep ≠ [] := by
    rw [hd]
    simp only [Spec.isLooseDigitString, Bool.and_eq_true, List.any_eq_true] at hep
    obtain ⟨c, hc, hcd⟩ := hep.2
    have hcu : c ≠ '_' := by
      intro e; subst e
      simp [Spec.digitVal] at hcd
    intro hnil
    have : Spec.digitVal c ∈ Spec.digitsOf ep := by
      simp only [Spec.digitsOf, List.mem_map, List.mem_filter]
      exact ⟨c, ⟨hc, by simp [hcu]⟩, rfl⟩
    rw [hnil] at this
    simp at this
  cases sg with
  | none =>
    cases ep with
    | nil => exact absurd rfl hne
    | cons c r =>
      have hall := (isLoose_all 10 (c :: r) hep).1 c (by simp)
      have h1 : c ≠ '+' := by intro h; subst h; simp [Spec.digitVal] at hall
      have h2 : c ≠ '-' := by intro h; subst h; simp [Spec.digitVal] at hall
      have hns : expSign ((c :: r) ++ rest) = (false, (c :: r) ++ rest) := by
        simp only [List.cons_append]
        unfold expSign
        split <;> simp_all
      simp only [floatExpPart, signChars, List.nil_append, hE, if_true, hns, hrun, hdne, if_false, signNeg]
  | some b =>
    cases b <;> simp only [floatExpPart, expSign, signChars, List.cons_append, List.nil_append, hE, if_true, hrun,
      hdne, if_false, signNeg]

/-- **the extent of a real literal**: on the spelling assembled from an optional integer digit string, an
optional `.` + optional fraction digit string, and an optional exponent (`e`/`E`, optional sign, digit
string with separators anywhere), with at least one mantissa digit, followed by text that does not continue
a number (`numStop`; every delimiter qualifies, and so does the `i` of `1.0i`), lexical's
float grammar consumes exactly the spelling and splits it into exactly these components. -/
theorem floatExtent_real (ip fp : List Char) (dot : Bool) (exp : Option (Char × Option Bool × List Char))
    (rest : List Char)
    (hip : optDigitString ip = true) (hfp : optDigitString fp = true) (hdot : dot = false → fp = [])
    (hm : Spec.digitsOf ip ++ Spec.digitsOf fp ≠ [])
    (hexp : ∀ E sg ep, exp = some (E, sg, ep) → (E = 'e' ∨ E = 'E') ∧ Spec.isLooseDigitString 10 ep = true)
    (hr : numStop rest = true) :
    floatExtent (realSpelling ip dot fp exp ++ rest) =
      some (⟨ip, dot, fp, exp.isSome, expNegOf exp, expRunOf exp⟩, rest) := by
  have hrn := numStop_stops_num10 rest hr
  have htail_stop : stops (isNumChar 10) (expText exp ++ rest) = true := by
    cases exp with
    | none => simpa [expText] using hrn
    | some t =>
      obtain ⟨E, sg, ep⟩ := t
      have ⟨hE, _⟩ := hexp E sg ep rfl
      rcases hE with rfl | rfl <;> simp [expText, stops, isNumChar, isDigitIn, digitOf]
  have hdig : runDigits ip ++ runDigits fp ≠ [] := by
    rw [runDigits_opt ip hip, runDigits_opt fp hfp]; exact hm
  have hexpPart : floatExpPart (expText exp ++ rest) =
      match exp with
      | some (_, sg, ep) => some (some (signNeg sg, ep), rest)
      | none => some (none, rest) := by
    cases exp with
    | none => simpa [expText] using floatExpPart_none rest hr
    | some t =>
      obtain ⟨E, sg, ep⟩ := t
      have ⟨hE, hep⟩ := hexp E sg ep rfl
      have := floatExpPart_some E sg ep rest hE hep hr
      simpa [expText, List.append_assoc] using this
  cases dot with
  | true =>
    have hshape : realSpelling ip true fp exp ++ rest = ip ++ ('.' :: (fp ++ (expText exp ++ rest))) := by
      simp [realSpelling, List.append_assoc]
    have h1 := floatIntPart_eq ip ('.' :: (fp ++ (expText exp ++ rest))) hip
      (by simp [stops, isNumChar, isDigitIn, digitOf])
    have h2 := floatFracPart_dot fp (expText exp ++ rest) hfp htail_stop
    rw [hshape]
    simp only [floatExtent, h1, h2, hdig, if_false, hexpPart]
    cases exp with
    | none => rfl
    | some t => obtain ⟨E, sg, ep⟩ := t; rfl
  | false =>
    have hf := hdot rfl
    subst hf
    have hshape : realSpelling ip false [] exp ++ rest = ip ++ (expText exp ++ rest) := by
      simp [realSpelling, List.append_assoc]
    have h1 := floatIntPart_eq ip (expText exp ++ rest) hip htail_stop
    have hnd : ∀ r2, expText exp ++ rest ≠ '.' :: r2 := by
      intro r2 e
      cases exp with
      | none =>
        simp only [expText, List.nil_append] at e
        exact (numStop_head _ hr '.' r2 e).2.1 rfl
      | some t =>
        obtain ⟨E, sg, ep⟩ := t
        have ⟨hE, _⟩ := hexp E sg ep rfl
        simp only [expText, List.cons_append] at e
        injection e with e1 _
        rcases hE with h | h <;> rw [h] at e1 <;> simp at e1
    have h2 := floatFracPart_nodot _ hnd
    rw [hshape]
    have hdig' : runDigits ip ++ runDigits [] ≠ [] := hdig
    simp only [floatExtent, h1, h2, hdig', if_false, hexpPart]
    cases exp with
    | none => rfl
    | some t => obtain ⟨E, sg, ep⟩ := t; rfl


private theorem lexRadixInteger_error' (radix : Nat) (p : Char) (inp : List Char)
    (h : ∀ a d r, inp = a :: d :: r → lowerAscii d ≠ p) : lexRadixInteger radix p inp = .error := by
  unfold lexRadixInteger
  split
  · rename_i c r
    simp [h '0' c r rfl]
  · rfl

/-- the mathematical value `m · 10^e` denoted by the parts of a real literal -/
def realMantissa (ip fp : List Char) : Nat := Spec.posValue 10 (Spec.digitsOf ip ++ Spec.digitsOf fp)
def realExponent (fp : List Char) (exp : Option (Char × Option Bool × List Char)) : Int :=
  (match exp with
   | some (_, sg, ep) =>
     if signNeg sg then -(Spec.posValue 10 (Spec.digitsOf ep) : Int) else (Spec.posValue 10 (Spec.digitsOf ep) : Int)
   | none => 0) - ((Spec.digitsOf fp).length : Int)

/-- `sp` followed by `t` shows no `._` that starts inside `sp`, and `sp` consists of candidate characters -/
def cleanView : List Char → List Char → Bool
  | [], _ => true
  | c :: cs, t => isCandChar c && !(c == '.' && (cs ++ t).head? == some '_') && cleanView cs t

private theorem viewLen_append (sp t : List Char) (h : cleanView sp t = true) :
    viewLen? (sp ++ t) = (viewLen? t).map (· + sp.length) := by
  induction sp with
  | nil => simp
  | cons c cs ih =>
    simp only [cleanView, Bool.and_eq_true, Bool.not_eq_true'] at h
    obtain ⟨⟨hc, hnd⟩, hcl⟩ := h
    have ih' := ih hcl
    have hstep : viewLen? (c :: (cs ++ t)) = (viewLen? (cs ++ t)).map (· + 1) := by
      conv => lhs; unfold viewLen?
      split
      · rename_i heq
        injection heq with h1 h2
        subst h1
        simp [h2] at hnd
      · rename_i c' cs' hno heq
        injection heq with h1 h2
        subst h1; subst h2
        simp [hc]
      · rename_i heq; simp at heq
    simp only [List.cons_append, hstep, ih', Option.map_map, List.length_cons]
    cases viewLen? t <;> simp [Nat.add_assoc]

private theorem viewLen_pos (t : List Char) (n : Nat) (h : viewLen? t = some n) : 1 ≤ n := by
  induction t generalizing n with
  | nil => simp [viewLen?] at h
  | cons c cs ih =>
    unfold viewLen? at h
    split at h
    · simp at h; omega
    · rename_i c' cs' _ heq
      split at h
      · cases hv : viewLen? cs' with
        | none => simp [hv] at h
        | some m => simp [hv] at h; omega
      · simp at h
    · rename_i heq; simp at heq

/-- the text lexical sees is the spelling followed by a non-empty-if-possible prefix of the rest -/
private theorem lexicalView_append (sp t : List Char) (h : cleanView sp t = true) :
    ∃ t', lexicalView (sp ++ t) = sp ++ t' ∧ t'.head? = t.head? ∧ t'.length ≤ t.length := by
  unfold lexicalView
  rw [viewLen_append sp t h]
  cases hv : viewLen? t with
  | none => exact ⟨t, by simp, rfl, Nat.le_refl _⟩
  | some n =>
    have hn := viewLen_pos t n hv
    refine ⟨t.take n, ?_, ?_, ?_⟩
    · simp [List.take_append]
      exact List.take_of_length_le (by omega : sp.length ≤ n + sp.length)
    · cases t with
      | nil => simp
      | cons d r =>
        cases n with
        | zero => omega
        | succ m => simp
    · simp [List.length_take]; omega


private theorem cleanView_append (a b t : List Char) :
    cleanView (a ++ b) t = (cleanView a (b ++ t) && cleanView b t) := by
  induction a with
  | nil => simp [cleanView]
  | cons c cs ih => simp [cleanView, ih, List.append_assoc, Bool.and_assoc]

private theorem cleanView_nodot (a t : List Char) (h : ∀ c ∈ a, isCandChar c = true ∧ c ≠ '.') :
    cleanView a t = true := by
  induction a with
  | nil => rfl
  | cons c cs ih =>
    have ⟨h1, h2⟩ := h c (by simp)
    have hb : (c == '.') = false := by simp [h2]
    simp [cleanView, h1, hb, ih (fun d hd => h d (by simp [hd]))]

private theorem numChar10_cand (c : Char) (h : c = '_' ∨ Spec.digitVal c < 10) :
    isCandChar c = true ∧ c ≠ '.' := by
  rcases h with h | h
  · subst h; exact ⟨rfl, by decide⟩
  · have hd := isAsciiDigit_of_digitVal c h
    refine ⟨by simp [isCandChar, hd], ?_⟩
    intro e; subst e; simp [isAsciiDigit] at hd

private theorem cleanView_real (ip fp : List Char) (dot : Bool) (exp : Option (Char × Option Bool × List Char))
    (rest : List Char)
    (hip : optDigitString ip = true) (hfp : optDigitString fp = true) (hdot : dot = false → fp = [])
    (hexp : ∀ E sg ep, exp = some (E, sg, ep) → (E = 'e' ∨ E = 'E') ∧ Spec.isLooseDigitString 10 ep = true)
    (hr : numStop rest = true) : cleanView (realSpelling ip dot fp exp) rest = true := by
  have hrest_head : rest.head? ≠ some '_' := by
    cases rest with
    | nil => simp
    | cons d r =>
      have := (numStop_head _ hr d r rfl).1
      intro e
      simp at e
      subst e
      simp [isNumChar] at this
  have hexpc : cleanView (expText exp) rest = true := by
    apply cleanView_nodot
    intro c hc
    cases exp with
    | none => simp [expText] at hc
    | some t =>
      obtain ⟨E, sg, ep⟩ := t
      have ⟨hE, hep⟩ := hexp E sg ep rfl
      simp only [expText, List.cons_append, List.mem_cons, List.mem_append] at hc
      rcases hc with rfl | hc | hc
      · rcases hE with rfl | rfl <;> exact ⟨rfl, by decide⟩
      · cases sg with
        | none => simp [signChars] at hc
        | some b => cases b <;> simp [signChars] at hc <;> subst hc <;> exact ⟨rfl, by decide⟩
      · exact numChar10_cand c ((isLoose_all 10 ep hep).1 c hc)
  have hexp_head : (expText exp ++ rest).head? ≠ some '_' := by
    cases exp with
    | none => simpa [expText] using hrest_head
    | some t =>
      obtain ⟨E, sg, ep⟩ := t
      have ⟨hE, _⟩ := hexp E sg ep rfl
      rcases hE with rfl | rfl <;> simp [expText]
  unfold realSpelling
  rw [cleanView_append, cleanView_append]
  have h1 : cleanView ip ((if dot then '.' :: fp else []) ++ expText exp ++ rest) = true :=
    cleanView_nodot _ _ (fun c hc => numChar10_cand c (optDigitString_all ip hip c hc))
  have h2 : cleanView (if dot then '.' :: fp else []) (expText exp ++ rest) = true := by
    cases dot with
    | false => simp [cleanView]
    | true =>
      have hfpc : cleanView fp (expText exp ++ rest) = true :=
        cleanView_nodot _ _ (fun c hc => numChar10_cand c (optDigitString_all fp hfp c hc))
      have hhead : (fp ++ (expText exp ++ rest)).head? ≠ some '_' := by
        cases fp with
        | nil => simpa using hexp_head
        | cons f fs =>
          have := optDigitString_head _ hfp f fs rfl
          intro e
          simp at e
          subst e
          simp [isAsciiDigit] at this
      have hb : ((fp ++ (expText exp ++ rest)).head? == some '_') = false := beq_eq_false_iff_ne.2 hhead
      simp only [if_true, cleanView, hb, hfpc]
      decide
  simp only [List.append_assoc] at h1 ⊢
  simp [h1, h2, hexpc]

private theorem parseFloatTok_real (ip fp : List Char) (dot : Bool) (exp : Option (Char × Option Bool × List Char))
    (rest : List Char)
    (hip : optDigitString ip = true) (hfp : optDigitString fp = true) (hdot : dot = false → fp = [])
    (hm : Spec.digitsOf ip ++ Spec.digitsOf fp ≠ [])
    (hexp : ∀ E sg ep, exp = some (E, sg, ep) → (E = 'e' ∨ E = 'E') ∧ Spec.isLooseDigitString 10 ep = true)
    (hr : numStop rest = true) :
    parseFloatTok (realSpelling ip dot fp exp ++ rest) =
      match QV.DecF64.roundDec (realMantissa ip fp) (realExponent fp exp) with
      | some b => .ok (.float b) rest
      | none => .failure := by
  have hext := floatExtent_real ip fp dot exp rest hip hfp hdot hm hexp hr
  have hfp0 : ∀ r, fp ≠ '_' :: r := by
    intro r e
    have := optDigitString_head fp hfp '_' r e
    simp [isAsciiDigit] at this
  have hlp : lexAndParseFloat (realSpelling ip dot fp exp ++ rest) =
      .ok ⟨ip, dot, fp, exp.isSome, expNegOf exp, expRunOf exp⟩ rest := by
    obtain ⟨t', hv, hhd, _⟩ := lexicalView_append (realSpelling ip dot fp exp) rest
      (cleanView_real ip fp dot exp rest hip hfp hdot hexp hr)
    have hr' : numStop t' = true := by
      cases t' with
      | nil => rfl
      | cons d r =>
        cases rest with
        | nil => simp at hhd
        | cons d2 r2 =>
          simp at hhd
          subst hhd
          simpa [numStop, stops] using hr
    have hext' := floatExtent_real ip fp dot exp t' hip hfp hdot hm hexp hr'
    simp only [lexAndParseFloat, hv, hext']
    split
    · rename_i hh
      exact absurd rfl (hfp0 hh)
    · simp
  have hbits : (FloatParts.bits ⟨ip, dot, fp, exp.isSome,
        expNegOf exp,
        expRunOf exp⟩) =
      QV.DecF64.roundDec (realMantissa ip fp) (realExponent fp exp) := by
    simp only [FloatParts.bits, FloatParts.mantissa, FloatParts.exponent, horner_eq_posValue,
      runDigits_opt ip hip, runDigits_opt fp hfp, realMantissa, realExponent]
    cases exp with
    | none => simp [runDigits, Spec.posValue, expNegOf, expRunOf]
    | some t =>
      obtain ⟨E, sg, ep⟩ := t
      have ⟨_, hep⟩ := hexp E sg ep rfl
      have := (numRun_loose 10 (by omega) ep [] hep rfl).2.2
      simp only [expNegOf, expRunOf, this]
  simp only [parseFloatTok, hlp, Res.cut, hbits]
  split <;> simp_all


private theorem lower_not_prefix_of_not_alpha (d p : Char) (hp : p = 'b' ∨ p = 'o' ∨ p = 'x')
    (h : isAsciiAlpha d = false) : lowerAscii d ≠ p := fun e => by
  have := lower_alpha d p hp e
  simp [h] at this

/-- **C05 (real literals through `lex_token`)**: for every real literal spelling — optional integer digit
string, optional `.` with optional fraction digit string, optional exponent (`e`/`E`, optional sign, digits
with `_` anywhere), at least one mantissa digit, a point or an exponent present, any lengths — followed by
text that does not continue a number (`numStop`: any delimiter, or e.g. the `i` of `1.0i`), the lexer
produces exactly one `Float` token whose bits are the exact decimal value
`mantissa · 10^exponent` rounded to the nearest double (ties to even), consuming exactly the spelling; it
FAILS when that value is not finite, and also when the integer part alone does not fit in 64 bits (the
integer pre-pass of `lex_decimal_number`); it never yields an `Integer` token. -/
theorem C05_real_literal (ip fp : List Char) (dot : Bool) (exp : Option (Char × Option Bool × List Char))
    (rest : List Char)
    (hip : optDigitString ip = true) (hfp : optDigitString fp = true) (hdot : dot = false → fp = [])
    (hm : Spec.digitsOf ip ++ Spec.digitsOf fp ≠ [])
    (hexp : ∀ E sg ep, exp = some (E, sg, ep) → (E = 'e' ∨ E = 'E') ∧ Spec.isLooseDigitString 10 ep = true)
    (hreal : dot = true ∨ exp.isSome = true)
    (hr : numStop rest = true) :
    lexToken (realSpelling ip dot fp exp ++ rest) =
      if 2 ^ 64 ≤ Spec.posValue 10 (Spec.digitsOf ip) then .failure
      else match QV.DecF64.roundDec (realMantissa ip fp) (realExponent fp exp) with
        | some b => .ok (.float b) rest
        | none => .failure := by
  have hpf := parseFloatTok_real ip fp dot exp rest hip hfp hdot hm hexp hr
  -- the text after the integer part starts with `.`, `e` or `E`
  have htail : ∃ t0 tl, (if dot then '.' :: fp else []) ++ expText exp ++ rest = t0 :: tl ∧
      (t0 = '.' ∨ t0 = 'e' ∨ t0 = 'E') := by
    cases dot with
    | true => exact ⟨'.', _, rfl, Or.inl rfl⟩
    | false =>
      cases exp with
      | none => simp at hreal
      | some t =>
        obtain ⟨E, sg, ep⟩ := t
        have ⟨hE, _⟩ := hexp E sg ep rfl
        exact ⟨E, signChars sg ++ ep ++ rest, by simp [expText, List.append_assoc], Or.inr hE⟩
  obtain ⟨t0, tl, htl, ht0⟩ := htail
  have hshape : realSpelling ip dot fp exp ++ rest = ip ++ (t0 :: tl) := by
    rw [← htl]; simp [realSpelling, List.append_assoc]
  cases ip with
  | nil =>
    -- starts with `.` (a point is required: no integer digits)
    have hv : ¬ (2 ^ 64 ≤ Spec.posValue 10 (Spec.digitsOf [])) := by simp [Spec.digitsOf, Spec.posValue]
    simp only [hv, if_false]
    have hdt : dot = true := by
      cases dot with
      | true => rfl
      | false =>
        have := hdot rfl
        subst this
        simp [Spec.digitsOf] at hm
    subst hdt
    rw [← hpf]
    have e : realSpelling [] true fp exp ++ rest = '.' :: (fp ++ expText exp ++ rest) := by
      simp [realSpelling, List.append_assoc]
    rw [e]
    rfl
  | cons c cs =>
    have hc := optDigitString_head _ hip c cs rfl
    have hds : Spec.isDigitString 10 (c :: cs) = true := by simpa [optDigitString] using hip
    have hall := isDigitString_all 10 _ hds
    have htstop : stops (isNumChar 10) (t0 :: tl) = true := by
      rcases ht0 with h | h | h <;> subst h <;> simp [stops, isNumChar, isDigitIn, digitOf]
    have hint := C05_decimal_integer (c :: cs) (t0 :: tl) hds htstop
    rw [hshape] at hpf ⊢
    obtain ⟨a1, a2, a3, a4, a5, a6, a7⟩ := digit_head_alts c (cs ++ t0 :: tl) hc
    have h2 : ∀ p, (p = 'b' ∨ p = 'o' ∨ p = 'x') → ∀ a d r, c :: cs ++ t0 :: tl = a :: d :: r → lowerAscii d ≠ p := by
      intro p hp a d r e
      cases cs with
      | nil =>
        simp at e
        obtain ⟨_, rfl, _⟩ := e
        rcases ht0 with h | h | h <;> subst h <;> rcases hp with h | h | h <;> subst h <;> decide
      | cons d' cs' =>
        simp at e
        obtain ⟨_, rfl, _⟩ := e
        exact lower_not_prefix_of_not_alpha _ p hp (numChar10_not_alpha _ (hall _ (by simp)))
    have e2 := lexRadixInteger_error' 2 'b' _ (h2 'b' (by simp))
    have e8 := lexRadixInteger_error' 8 'o' _ (h2 'o' (by simp))
    have e16 := lexRadixInteger_error' 16 'x' _ (h2 'x' (by simp))
    have hcdot : c ≠ '.' := by intro e; subst e; simp [isAsciiDigit] at hc
    have hdec : lexDecimalNumber (c :: cs ++ t0 :: tl) =
        if 2 ^ 64 ≤ Spec.posValue 10 (Spec.digitsOf (c :: cs)) then .failure
        else parseFloatTok (c :: cs ++ t0 :: tl) := by
      unfold lexDecimalNumber
      split
      · rename_i heq
        simp at heq
        exact absurd heq.1 hcdot
      · by_cases hv : Spec.posValue 10 (Spec.digitsOf (c :: cs)) < 2 ^ 64
        · have hv' : ¬ (2 ^ 64 ≤ Spec.posValue 10 (Spec.digitsOf (c :: cs))) := by omega
          simp only [hv, if_true] at hint
          simp only [hv', if_false]
          rw [hint]
          simp only [ht0, if_true]
        · have hv' : 2 ^ 64 ≤ Spec.posValue 10 (Spec.digitsOf (c :: cs)) := by omega
          simp only [hv, if_false] at hint
          simp only [hv', if_true]
          rw [hint]
    simp only [List.cons_append] at a1 a2 a3 a4 a5 a6 a7 e2 e8 e16 hdec hpf ⊢
    simp only [lexToken, a1, a2, a3, a4, a5, a6, a7, lexNumber, lexBinaryInteger, lexOctalInteger,
      lexHexadecimalInteger, e2, e8, e16, map_error, orElse_error, hdec, hpf]

/-! ### the two renderings of the real-literal grammar coincide -/

private theorem splitAt_none (p : Char → Bool) (a : List Char) (h : ∀ c ∈ a, p c = false) :
    Spec.splitAt? p a = none := by
  induction a with
  | nil => rfl
  | cons c cs ih =>
    simp [Spec.splitAt?, h c (by simp), ih (fun d hd => h d (by simp [hd]))]

private theorem splitAt_append (p : Char → Bool) (a : List Char) (c : Char) (b : List Char)
    (h : ∀ d ∈ a, p d = false) (hc : p c = true) :
    Spec.splitAt? p (a ++ c :: b) = some (a, b) := by
  induction a with
  | nil => simp [Spec.splitAt?, hc]
  | cons d ds ih =>
    simp [Spec.splitAt?, h d (by simp), ih (fun x hx => h x (by simp [hx]))]

def isExpChar (c : Char) : Bool := c == 'e' || c == 'E'
def isDotChar (c : Char) : Bool := c == '.'

private theorem digitString_no_exp_dot (s : List Char) (hs : optDigitString s = true) :
    ∀ c ∈ s, isExpChar c = false ∧ isDotChar c = false := by
  intro c hc
  rcases optDigitString_all s hs c hc with h | h
  · subst h; exact ⟨rfl, rfl⟩
  · have := isAsciiDigit_of_digitVal c h
    constructor
    · cases he : isExpChar c with
      | false => rfl
      | true =>
        simp only [isExpChar, Bool.or_eq_true, beq_iff_eq] at he
        rcases he with e | e <;> subst e <;> simp [isAsciiDigit] at this
    · cases he : isDotChar c with
      | false => rfl
      | true =>
        simp only [isDotChar, beq_iff_eq] at he
        subst he; simp [isAsciiDigit] at this


private theorem optDigitString_spec (s : List Char) (h : optDigitString s = true) :
    (s = [] ∨ Spec.isDigitString 10 s = true) := by
  cases s with
  | nil => exact Or.inl rfl
  | cons c cs => right; simpa [optDigitString] using h

/-- **the constructive grammar is contained in the flat one, with the same reading**: every spelling assembled
by `realSpelling` from well-formed parts (as in `C05_real_literal`) is classified by the run-time
specification `Spec.classify` as the real literal with exactly those mantissa digits, fraction length,
exponent sign and exponent digits. -/
theorem C05_classify_realSpelling (ip fp : List Char) (dot : Bool)
    (exp : Option (Char × Option Bool × List Char))
    (hip : optDigitString ip = true) (hfp : optDigitString fp = true) (hdot : dot = false → fp = [])
    (hm : Spec.digitsOf ip ++ Spec.digitsOf fp ≠ [])
    (hexp : ∀ E sg ep, exp = some (E, sg, ep) → (E = 'e' ∨ E = 'E') ∧ Spec.isLooseDigitString 10 ep = true)
    (hreal : dot = true ∨ exp.isSome = true) :
    Spec.classifyReal (realSpelling ip dot fp exp) =
      some (.real (Spec.digitsOf ip ++ Spec.digitsOf fp) (Spec.digitsOf fp).length (expNegOf exp)
        (Spec.digitsOf (expRunOf exp))) := by
  have hipc := digitString_no_exp_dot ip hip
  have hfpc := digitString_no_exp_dot fp hfp
  -- the mantissa text and its split at the decimal point
  have hmant_noexp : ∀ c ∈ ip ++ (if dot then '.' :: fp else []), isExpChar c = false := by
    intro c hc
    simp only [List.mem_append] at hc
    rcases hc with hc | hc
    · exact (hipc c hc).1
    · cases dot with
      | false => simp at hc
      | true =>
        simp only [if_true, List.mem_cons] at hc
        rcases hc with rfl | hc
        · rfl
        · exact (hfpc c hc).1
  have hsplitdot : Spec.splitAt? (· == '.') (ip ++ (if dot then '.' :: fp else [])) =
      if dot then some (ip, fp) else none := by
    cases dot with
    | true => exact splitAt_append _ ip '.' fp (fun d hd => (hipc d hd).2) rfl
    | false =>
      simp only [Bool.false_eq_true, if_false, List.append_nil]
      exact splitAt_none _ ip (fun d hd => (hipc d hd).2)
  have hipok : (ip = [] || Spec.isDigitString 10 ip) = true := by
    rcases optDigitString_spec ip hip with h | h <;> simp [h]
  have hfpok : (fp = [] || Spec.isDigitString 10 fp) = true := by
    rcases optDigitString_spec fp hfp with h | h <;> simp [h]
  cases exp with
  | none =>
    have hd : dot = true := by simpa using hreal
    subst hd
    have hs : Spec.splitAt? (fun c => c == 'e' || c == 'E') (realSpelling ip true fp none) = none := by
      simp only [realSpelling, expText, List.append_nil]
      exact splitAt_none _ _ (fun c hc => by simpa [isExpChar] using hmant_noexp c (by simpa using hc))
    have hsd : Spec.splitAt? (· == '.') (realSpelling ip true fp none) = some (ip, fp) := by
      simpa [realSpelling, expText] using hsplitdot
    simp only [Spec.classifyReal, hs, hsd]
    have hm' : (Spec.digitsOf ip ++ Spec.digitsOf fp).isEmpty = false := by
      cases h : Spec.digitsOf ip ++ Spec.digitsOf fp with
      | nil => exact absurd h hm
      | cons _ _ => rfl
    have hnil : Spec.digitsOf [] = [] := rfl
    simp [hipok, hfpok, hm', expNegOf, expRunOf, hnil]
  | some t =>
    obtain ⟨E, sg, ep⟩ := t
    have ⟨hE, hep⟩ := hexp E sg ep rfl
    have hEp : (E == 'e' || E == 'E') = true := by rcases hE with h | h <;> simp [h]
    have hs : Spec.splitAt? (fun c => c == 'e' || c == 'E') (realSpelling ip dot fp (some (E, sg, ep))) =
        some (ip ++ (if dot then '.' :: fp else []), signChars sg ++ ep) := by
      simp only [realSpelling, expText]
      exact splitAt_append _ _ E _ (fun c hc => by simpa [isExpChar] using hmant_noexp c hc) hEp
    -- the head of `ep` is neither `+` nor `-`
    have hephead : ∀ c r, ep = c :: r → c ≠ '+' ∧ c ≠ '-' := by
      intro c r e
      have hall := (isLoose_all 10 ep hep).1 c (by rw [e]; simp)
      constructor <;> (intro h; subst h; simp [Spec.digitVal] at hall)
    have hne : ep ≠ [] := (isLoose_all 10 ep hep).2
    simp only [Spec.classifyReal, hs]
    cases sg with
    | none =>
      cases hep' : ep with
      | nil => exact absurd hep' hne
      | cons c r =>
        have ⟨h1, h2⟩ := hephead c r hep'
        subst hep'
        simp only [signChars, List.nil_append]
        cases dot with
        | true =>
          have := hsplitdot; simp only [if_true] at this
          split <;> simp_all [expNegOf, expRunOf, signNeg]
        | false =>
          have hf := hdot rfl; subst hf
          have := hsplitdot; simp only [Bool.false_eq_true, if_false] at this
          have hipne : ip ≠ [] := by intro e; subst e; simp [Spec.digitsOf] at hm
          have hipd : Spec.isDigitString 10 ip = true := by
            rcases optDigitString_spec ip hip with h | h
            · exact absurd h hipne
            · exact h
          split <;> simp_all [expNegOf, expRunOf, signNeg, Spec.digitsOf]
    | some b =>
      cases b <;>
      · simp only [signChars, List.cons_append, List.nil_append]
        cases dot with
        | true =>
          have := hsplitdot; simp only [if_true] at this
          simp_all [expNegOf, expRunOf, signNeg]
        | false =>
          have hf := hdot rfl; subst hf
          have := hsplitdot; simp only [Bool.false_eq_true, if_false] at this
          have hipne : ip ≠ [] := by intro e; subst e; simp [Spec.digitsOf] at hm
          have hipd : Spec.isDigitString 10 ip = true := by
            rcases optDigitString_spec ip hip with h | h
            · exact absurd h hipne
            · exact h
          simp_all [expNegOf, expRunOf, signNeg, Spec.digitsOf]


private theorem classify_eq_classifyReal (s : List Char)
    (hp : ∀ c ∈ s, c ≠ 'b' ∧ c ≠ 'B' ∧ c ≠ 'o' ∧ c ≠ 'O' ∧ c ≠ 'x' ∧ c ≠ 'X')
    (hnd : Spec.isDigitString 10 s = false) : Spec.classify s = Spec.classifyReal s := by
  unfold Spec.classify
  split
  · rename_i p rest
    obtain ⟨h1, h2, h3, h4, h5, h6⟩ := hp p (by simp)
    simp [h1, h2, h3, h4, h5, h6, hnd]
  · simp [hnd]

/-- **`Spec.classify` on the constructive grammar**: the run-time specification reads every `realSpelling` as
the real literal with exactly the parts it was assembled from — so the Bool spec evaluated on the
implementation's output and theorem `C05_real_literal` speak about the same literals and the same value
(`realMantissa`, `realExponent` = `Lit.realValue`). -/
theorem C05_classify_realSpelling_full (ip fp : List Char) (dot : Bool)
    (exp : Option (Char × Option Bool × List Char))
    (hip : optDigitString ip = true) (hfp : optDigitString fp = true) (hdot : dot = false → fp = [])
    (hm : Spec.digitsOf ip ++ Spec.digitsOf fp ≠ [])
    (hexp : ∀ E sg ep, exp = some (E, sg, ep) → (E = 'e' ∨ E = 'E') ∧ Spec.isLooseDigitString 10 ep = true)
    (hreal : dot = true ∨ exp.isSome = true) :
    Spec.classify (realSpelling ip dot fp exp) =
      some (.real (Spec.digitsOf ip ++ Spec.digitsOf fp) (Spec.digitsOf fp).length (expNegOf exp)
        (Spec.digitsOf (expRunOf exp))) ∧
    (Spec.Lit.real (Spec.digitsOf ip ++ Spec.digitsOf fp) (Spec.digitsOf fp).length (expNegOf exp)
        (Spec.digitsOf (expRunOf exp))).realValue = some (realMantissa ip fp, realExponent fp exp) := by
  refine ⟨?_, ?_⟩
  · rw [← C05_classify_realSpelling ip fp dot exp hip hfp hdot hm hexp hreal]
    apply classify_eq_classifyReal
    · -- no radix-prefix letter anywhere in the spelling
      have hnum : ∀ (t : List Char), (∀ c ∈ t, c = '_' ∨ Spec.digitVal c < 10) →
          ∀ c ∈ t, c ≠ 'b' ∧ c ≠ 'B' ∧ c ≠ 'o' ∧ c ≠ 'O' ∧ c ≠ 'x' ∧ c ≠ 'X' := by
        intro t ht c hc
        rcases ht c hc with h | h
        · subst h; decide
        · refine ⟨?_, ?_, ?_, ?_, ?_, ?_⟩ <;> (intro e; subst e; simp [Spec.digitVal] at h)
      intro c hc
      simp only [realSpelling, List.mem_append] at hc
      rcases hc with (hc | hc) | hc
      · exact hnum ip (optDigitString_all ip hip) c hc
      · cases dot with
        | false => simp at hc
        | true =>
          simp only [if_true, List.mem_cons] at hc
          rcases hc with rfl | hc
          · decide
          · exact hnum fp (optDigitString_all fp hfp) c hc
      · cases exp with
        | none => simp [expText] at hc
        | some t =>
          obtain ⟨E, sg, ep⟩ := t
          have ⟨hE, hep⟩ := hexp E sg ep rfl
          simp only [expText, List.cons_append, List.mem_cons, List.mem_append] at hc
          rcases hc with rfl | hc | hc
          · rcases hE with rfl | rfl <;> decide
          · cases sg with
            | none => simp [signChars] at hc
            | some b => cases b <;> simp [signChars] at hc <;> subst hc <;> decide
          · exact hnum ep (isLoose_all 10 ep hep).1 c hc
    · -- it is not a plain digit string: it contains a `.` or an exponent marker
      cases hds : Spec.isDigitString 10 (realSpelling ip dot fp exp) with
      | false => rfl
      | true =>
        exfalso
        have hall := isDigitString_all 10 _ hds
        rcases hreal with hd | he
        · subst hd
          have := hall '.' (by simp [realSpelling])
          rcases this with h | h
          · exact absurd h (by decide)
          · simp [Spec.digitVal] at h
        · cases exp with
          | none => simp at he
          | some t =>
            obtain ⟨E, sg, ep⟩ := t
            have ⟨hE, _⟩ := hexp E sg ep rfl
            have := hall E (by simp [realSpelling, expText])
            rcases hE with rfl | rfl <;> rcases this with h | h <;>
              first | exact absurd h (by decide) | simp [Spec.digitVal] at h
  · cases exp with
    | none => simp [Spec.Lit.realValue, realMantissa, realExponent, expNegOf, expRunOf, Spec.digitsOf, Spec.posValue]
    | some t =>
      obtain ⟨E, sg, ep⟩ := t
      cases hs : signNeg sg <;> simp [Spec.Lit.realValue, realMantissa, realExponent, expNegOf, expRunOf, hs]

/-! ### non-vacuity -/

example : realSpelling "1__2__".toList true "3__4__".toList (some ('e', some true, "__1__5__".toList)) =
    "1__2__.3__4__e-__1__5__".toList := by decide
example : optDigitString "1__2__".toList = true ∧ optDigitString [] = true ∧
    optDigitString "_1".toList = false := by decide
example : realMantissa "1__2__".toList "3__4__".toList = 1234 ∧
    realExponent "3__4__".toList (some ('e', some true, "__1__5__".toList)) = -17 := by decide
example : QV.DecF64.roundDec 1234 (-17) = some 0x3D0BC98693305B2F := by decide

end QV.C05
