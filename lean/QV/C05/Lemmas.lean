import QV.C05.Model
import QV.C05.Spec
import QV.Shared.LexLemmas
/-! Helper lemmas for the C05 theorems (core Lean only). -/
namespace QV.C05
open QV.Tok QV.Lex

/-- Horner accumulation from an arbitrary start -/
theorem foldl_horner (radix : Nat) (ds : List Nat) (acc : Nat) :
    ds.foldl (fun a d => a * radix + d) acc = acc * radix ^ ds.length + Spec.posValue radix ds := by
  induction ds generalizing acc with
  | nil => simp [Spec.posValue]
  | cons d ds ih =>
    simp only [List.foldl_cons, List.length_cons, Spec.posValue, ih]
    rw [Nat.pow_succ, Nat.add_mul, Nat.mul_assoc, Nat.mul_comm radix, Nat.add_assoc]

/-- the model's digit value agrees with the specification's on every digit of a radix ≤ 36 -/
theorem digitOf_eq_digitVal (c : Char) (r : Nat) (hr : r ≤ 36) (h : Spec.digitVal c < r) :
    digitOf c = Spec.digitVal c := by
  unfold Spec.digitVal at h ⊢
  unfold digitOf
  simp only at h ⊢
  generalize c.toNat = n at *
  by_cases h1 : 48 ≤ n ∧ n ≤ 57 <;> by_cases h2 : 97 ≤ n ∧ n ≤ 122 <;>
    by_cases h3 : 65 ≤ n ∧ n ≤ 90 <;> simp only [h1, h2, h3, if_true, if_false, and_self] at h ⊢ <;> omega

/-- and rejects exactly what the specification rejects -/
theorem digitOf_lt_iff (c : Char) (r : Nat) (hr : r ≤ 36) :
    digitOf c < r ↔ Spec.digitVal c < r := by
  unfold Spec.digitVal digitOf
  simp only
  generalize c.toNat = n at *
  by_cases h1 : 48 ≤ n ∧ n ≤ 57 <;> by_cases h2 : 97 ≤ n ∧ n ≤ 122 <;>
    by_cases h3 : 65 ≤ n ∧ n ≤ 90 <;> simp only [h1, h2, h3, if_true, if_false, and_self] <;> omega

theorem isNumChar_iff (c : Char) (r : Nat) (hr : r ≤ 36) :
    isNumChar r c = true ↔ (c = '_' ∨ Spec.digitVal c < r) := by
  simp [isNumChar, isDigitIn, digitOf_lt_iff c r hr]

theorem runDigits_eq (r : Nat) (hr : r ≤ 36) (s : List Char)
    (hs : ∀ c ∈ s, c = '_' ∨ Spec.digitVal c < r) : runDigits s = Spec.digitsOf s := by
  unfold runDigits Spec.digitsOf
  apply List.map_congr_left
  intro c hc
  simp at hc
  rcases hs c hc.1 with h | h
  · exact absurd h hc.2
  · exact digitOf_eq_digitVal c r hr h

theorem isAsciiDigit_of_digitVal (c : Char) (h : Spec.digitVal c < 10) : isAsciiDigit c = true := by
  unfold Spec.digitVal at h
  unfold isAsciiDigit
  simp only at h
  generalize c.toNat = n at *
  by_cases h1 : 48 ≤ n ∧ n ≤ 57 <;> by_cases h2 : 97 ≤ n ∧ n ≤ 122 <;>
    by_cases h3 : 65 ≤ n ∧ n ≤ 90 <;> simp only [h1, h2, h3, if_true, if_false, and_self] at h <;>
    simp <;> omega

theorem isDigitString_all (r : Nat) (s : List Char) (h : Spec.isDigitString r s = true) :
    ∀ c ∈ s, c = '_' ∨ Spec.digitVal c < r := by
  cases s with
  | nil => simp [Spec.isDigitString] at h
  | cons c cs =>
    simp only [Spec.isDigitString, Bool.and_eq_true, List.all_eq_true] at h
    intro d hd
    have := h.2 d hd
    simpa using this

theorem digit_cases (c : Char) (h : isAsciiDigit c = true) :
    c = '0' ∨ c = '1' ∨ c = '2' ∨ c = '3' ∨ c = '4' ∨ c = '5' ∨ c = '6' ∨ c = '7' ∨ c = '8' ∨ c = '9' := by
  have hc : Char.ofNat c.toNat = c := Char.ofNat_toNat c
  simp [isAsciiDigit] at h
  have : c.toNat = 48 ∨ c.toNat = 49 ∨ c.toNat = 50 ∨ c.toNat = 51 ∨ c.toNat = 52 ∨ c.toNat = 53 ∨
      c.toNat = 54 ∨ c.toNat = 55 ∨ c.toNat = 56 ∨ c.toNat = 57 := by omega
  rcases this with h | h | h | h | h | h | h | h | h | h <;> rw [h] at hc <;> simp [← hc]

theorem digit_head_alts (c : Char) (r : List Char) (h : isAsciiDigit c = true) :
    lexComment (c :: r) = .error ∧ lexPunctuation (c :: r) = .error ∧ lexTarget (c :: r) = .error ∧
    lexString (c :: r) = .error ∧ lexOperator (c :: r) = .error ∧ lexVariable (c :: r) = .error ∧
    lexKeywordOrIdentifier (c :: r) = .error := by
  rcases digit_cases c h with h | h | h | h | h | h | h | h | h | h <;> subst h <;>
    refine ⟨rfl, rfl, rfl, rfl, rfl, rfl, rfl⟩


/-- the literal is followed by a delimiter: end of input, or a character that is neither an identifier
character (letters, digits, `_`) nor `.` -/
def delim (rest : List Char) : Bool := stops (fun c => isEnd c || c == '.') rest

theorem lower_alpha (d p : Char) (hp : p = 'b' ∨ p = 'o' ∨ p = 'x') (h : lowerAscii d = p) :
    isAsciiAlpha d = true := by
  unfold lowerAscii at h
  split at h
  · rename_i hu
    simp [isAsciiAlpha]; omega
  · subst h
    rcases hp with h | h | h <;> rw [h] <;> rfl

theorem lexRadixInteger_error (radix : Nat) (p : Char) (hp : p = 'b' ∨ p = 'o' ∨ p = 'x')
    (inp : List Char) (h : ∀ a d r, inp = a :: d :: r → isAsciiAlpha d = false) :
    lexRadixInteger radix p inp = .error := by
  unfold lexRadixInteger
  split
  · rename_i c r
    have h1 := h '0' c r rfl
    have hne : lowerAscii c ≠ p := fun e => by
      have := lower_alpha c p hp e
      simp_all
    simp [hne]
  · rfl

theorem numChar10_not_alpha (d : Char) (h : d = '_' ∨ Spec.digitVal d < 10) : isAsciiAlpha d = false := by
  rcases h with h | h
  · subst h; rfl
  · have := isAsciiDigit_of_digitVal d h
    simp [isAsciiDigit] at this
    simp [isAsciiAlpha]; omega

theorem delim_head (rest : List Char) (h : delim rest = true) :
    ∀ d r, rest = d :: r → isEnd d = false ∧ d ≠ '.' := by
  intro d r e
  subst e
  simpa [delim, stops] using h

theorem not_end_not_alpha (d : Char) (h : isEnd d = false) : isAsciiAlpha d = false := by
  simp [isEnd, isLeading] at h
  exact h.1.1

theorem delim_stops_num10 (rest : List Char) (h : delim rest = true) :
    stops (isNumChar 10) rest = true := by
  cases rest with
  | nil => rfl
  | cons d r =>
    have ⟨h1, _⟩ := delim_head _ h d r rfl
    simp only [stops, Bool.not_eq_true']
    cases hn : isNumChar 10 d with
    | false => rfl
    | true =>
      rcases (isNumChar_iff d 10 (by omega)).1 hn with h | h
      · subst h; simp [isEnd, isLeading] at h1
      · have := isAsciiDigit_of_digitVal d h
        simp [isEnd, this] at h1


theorem isLoose_all (r : Nat) (s : List Char) (h : Spec.isLooseDigitString r s = true) :
    (∀ c ∈ s, c = '_' ∨ Spec.digitVal c < r) ∧ s ≠ [] := by
  simp only [Spec.isLooseDigitString, Bool.and_eq_true, List.all_eq_true, List.any_eq_true] at h
  refine ⟨fun c hc => by simpa using h.1 c hc, ?_⟩
  obtain ⟨c, hc, _⟩ := h.2
  intro e; subst e; simp at hc

theorem numChar_isEnd (r : Nat) (hr : r ≤ 36) (d : Char) (h : isNumChar r d = true) : isEnd d = true := by
  rcases (isNumChar_iff d r hr).1 h with h | h
  · subst h; rfl
  · unfold Spec.digitVal at h
    simp only at h
    simp only [isEnd, isLeading, isAsciiAlpha, isAsciiDigit]
    generalize d.toNat = n at *
    by_cases h1 : 48 ≤ n ∧ n ≤ 57 <;> by_cases h2 : 97 ≤ n ∧ n ≤ 122 <;>
      by_cases h3 : 65 ≤ n ∧ n ≤ 90 <;> simp only [h1, h2, h3, if_true, if_false, and_self] at h <;>
      simp <;> omega

theorem delim_stops_num (r : Nat) (hr : r ≤ 36) (rest : List Char) (h : delim rest = true) :
    stops (isNumChar r) rest = true := by
  cases rest with
  | nil => rfl
  | cons d t =>
    have ⟨h1, _⟩ := delim_head _ h d t rfl
    simp only [stops, Bool.not_eq_true']
    cases hn : isNumChar r d with
    | false => rfl
    | true => have := numChar_isEnd r hr d hn; simp_all

/-- the digit run after a radix prefix -/
theorem numRun_loose (r : Nat) (hr : r ≤ 36) (s rest : List Char)
    (hs : Spec.isLooseDigitString r s = true) (hd : delim rest = true) :
    numRun r (s ++ rest) = (s, rest) ∧ s ≠ [] ∧ runDigits s = Spec.digitsOf s := by
  obtain ⟨hall, hne⟩ := isLoose_all r s hs
  refine ⟨?_, hne, runDigits_eq r hr s hall⟩
  unfold numRun
  exact span_append _ _ _ (fun d hd => (isNumChar_iff d r hr).2 (hall d hd)) (delim_stops_num r hr rest hd)

theorem map_error {α β : Type} (f : α → β) : Res.map f .error = .error := rfl

theorem orElse_error {α : Type} (k : Unit → Res α) : Res.orElse .error k = k () := rfl

theorem orElse_map_ite (c : Prop) [Decidable c] (v : Nat) (rest : List Char) (k : Unit → Res Token) :
    Res.orElse (Res.map Token.integer (if c then Res.ok v rest else Res.failure)) k =
      if c then .ok (.integer v) rest else .failure := by
  split <;> rfl

theorem two63_eq : two63 = 2 ^ 63 := by decide

/-- what each operand parser does with a numeric token at its head (forward characterisation) -/
theorem arith_float (v : Nat) (rest : List Token) :
    parseArithmeticOperand (.float v :: rest) = .ok (.literalReal v) rest := rfl
theorem arith_neg_float (v : Nat) (rest : List Token) :
    parseArithmeticOperand (.operator .minus :: .float v :: rest) =
      .ok (.literalReal (QV.DecF64.negBits v)) rest := by simp [parseArithmeticOperand, applySign]
theorem arith_int (n : Nat) (rest : List Token) :
    parseArithmeticOperand (.integer n :: rest) =
      match signedInteger false n with
      | some z => .ok (.literalInteger z) rest
      | none => .err := by
  cases h : signedInteger false n <;> simp [parseArithmeticOperand, parseMemoryReference, h]
theorem arith_neg_int (n : Nat) (rest : List Token) :
    parseArithmeticOperand (.operator .minus :: .integer n :: rest) =
      match signedInteger true n with
      | some z => .ok (.literalInteger z) rest
      | none => .err := by
  cases h : signedInteger true n <;> simp [parseArithmeticOperand, parseMemoryReference, h]
theorem logic_int (n : Nat) (rest : List Token) :
    parseBinaryLogicOperand (.integer n :: rest) =
      match signedInteger false n with
      | some z => .ok (.literalInteger z) rest
      | none => .err := by
  cases h : signedInteger false n <;> simp [parseBinaryLogicOperand, parseMemoryReference, h]
theorem logic_neg_int (n : Nat) (rest : List Token) :
    parseBinaryLogicOperand (.operator .minus :: .integer n :: rest) =
      match signedInteger true n with
      | some z => .ok (.literalInteger z) rest
      | none => .err := by
  cases h : signedInteger true n <;> simp [parseBinaryLogicOperand, parseMemoryReference, h]
theorem logic_float (v : Nat) (rest : List Token) :
    parseBinaryLogicOperand (.float v :: rest) = .err := by simp [parseBinaryLogicOperand, parseMemoryReference]
theorem logic_neg_float (v : Nat) (rest : List Token) :
    parseBinaryLogicOperand (.operator .minus :: .float v :: rest) = .err := by
  simp [parseBinaryLogicOperand, parseMemoryReference]

theorem classifyReal_not_int (s : List Char) (r : Nat) (ds : List Nat) :
    Spec.classifyReal s ≠ some (.int r ds) := by
  unfold Spec.classifyReal
  simp only
  split
  · split <;> simp
  · split <;> simp


theorem lexMany_nil (n : Nat) : lexMany n [] = .ok [] [] := by cases n <;> rfl

theorem lexMany_single (k : Nat) (inp : List Char) (t : Token) (hne : inp ≠ [])
    (h : lexItem inp = .ok t []) : lexMany (k + 1) inp = .ok [t] [] := by
  have hl : ([] : List Char).length < inp.length := by
    cases inp with
    | nil => exact absurd rfl hne
    | cons c cs => simp
  simp only [lexMany, h, hl, if_true, lexMany_nil]

theorem lexMany_fail (k : Nat) (inp : List Char) (h : lexItem inp = .failure) :
    lexMany (k + 1) inp = .failure := by
  simp only [lexMany, h]

theorem lexItem_digit_head (c : Char) (cs : List Char) (h : isAsciiDigit c = true) :
    lexItem (c :: cs) = lexToken (c :: cs) := by
  rcases digit_cases c h with h | h | h | h | h | h | h | h | h | h <;> subst h <;> rfl

theorem classify_int_head (body : List Char) (r : Nat) (ds : List Nat)
    (hc : Spec.classify body = some (.int r ds)) : ∃ c cs, body = c :: cs ∧ isAsciiDigit c = true := by
  have hdec : ∀ s, Spec.isDigitString 10 s = true → ∃ c cs, s = c :: cs ∧ isAsciiDigit c = true := by
    intro s hs
    cases s with
    | nil => simp [Spec.isDigitString] at hs
    | cons c cs =>
      simp only [Spec.isDigitString, Bool.and_eq_true, decide_eq_true_eq] at hs
      exact ⟨c, cs, rfl, isAsciiDigit_of_digitVal c hs.1⟩
  unfold Spec.classify at hc
  split at hc
  · exact ⟨'0', _, rfl, rfl⟩
  · split at hc
    · rename_i hs; exact hdec _ hs
    · exact absurd hc (classifyReal_not_int _ _ _)

/-! ### a weaker stop condition for decimal numbers (needed for `2i`, `1.0i`: the writers print imaginary
numbers with the `i` glued to the literal) -/

/-- the next character (if any) neither continues a decimal number (`0-9 _ . e E`) nor turns a leading `0`
into a radix prefix (`b o x`, either case).  Implied by `delim`. -/
def numStop (rest : List Char) : Bool :=
  stops (fun c => isNumChar 10 c || c == '.' || c == 'e' || c == 'E' || lowerAscii c == 'b' ||
    lowerAscii c == 'o' || lowerAscii c == 'x') rest

theorem numStop_head (rest : List Char) (h : numStop rest = true) :
    ∀ d r, rest = d :: r → isNumChar 10 d = false ∧ d ≠ '.' ∧ d ≠ 'e' ∧ d ≠ 'E' ∧
      lowerAscii d ≠ 'b' ∧ lowerAscii d ≠ 'o' ∧ lowerAscii d ≠ 'x' := by
  intro d r e
  subst e
  simpa [numStop, stops, and_assoc] using h

theorem numStop_stops_num10 (rest : List Char) (h : numStop rest = true) :
    stops (isNumChar 10) rest = true := by
  cases rest with
  | nil => rfl
  | cons d r => simp [stops, (numStop_head _ h d r rfl).1]

theorem delim_numStop (rest : List Char) (h : delim rest = true) : numStop rest = true := by
  cases rest with
  | nil => rfl
  | cons d r =>
    have ⟨h1, h2⟩ := delim_head _ h d r rfl
    have hna := not_end_not_alpha d h1
    have hn : isNumChar 10 d = false := by
      cases hn : isNumChar 10 d with
      | false => rfl
      | true => have := numChar_isEnd 10 (by omega) d hn; simp_all
    have he : d ≠ 'e' := by intro e; subst e; simp [isAsciiAlpha] at hna
    have hE : d ≠ 'E' := by intro e; subst e; simp [isAsciiAlpha] at hna
    have hp : ∀ p, (p = 'b' ∨ p = 'o' ∨ p = 'x') → lowerAscii d ≠ p := fun p hp e => by
      have := lower_alpha d p hp e
      simp [hna] at this
    simp [numStop, stops, hn, h2, he, hE, hp 'b' (by simp), hp 'o' (by simp), hp 'x' (by simp)]

theorem lexRadixInteger_error2 (radix : Nat) (p : Char) (inp : List Char)
    (h : ∀ a d r, inp = a :: d :: r → lowerAscii d ≠ p) : lexRadixInteger radix p inp = .error := by
  unfold lexRadixInteger
  split
  · rename_i c r
    simp [h '0' c r rfl]
  · rfl

theorem lower_ne_of_not_alpha (d p : Char) (hp : p = 'b' ∨ p = 'o' ∨ p = 'x')
    (h : isAsciiAlpha d = false) : lowerAscii d ≠ p := fun e => by
  have := lower_alpha d p hp e
  simp [h] at this

/-- digit run of radix 10 followed by a stopper -/
theorem numRun_loose10 (s rest : List Char) (hs : Spec.isLooseDigitString 10 s = true)
    (hstop : stops (isNumChar 10) rest = true) :
    numRun 10 (s ++ rest) = (s, rest) ∧ s ≠ [] ∧ runDigits s = Spec.digitsOf s := by
  obtain ⟨hall, hne⟩ := isLoose_all 10 s hs
  refine ⟨?_, hne, runDigits_eq 10 (by omega) s hall⟩
  unfold numRun
  exact span_append _ _ _ (fun d hd => (isNumChar_iff d 10 (by omega)).2 (hall d hd)) hstop

end QV.C05
