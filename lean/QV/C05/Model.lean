import QV.Shared.Lex
/-
C05 model: the operand layer on top of the shared lexer (QV.Shared.Lex).

Rust ↔ Lean
  parser/common.rs:47-59    signed_integer              ↔ signedInteger
  parser/common.rs:63-83    parse_arithmetic_operand    ↔ parseArithmeticOperand
  parser/common.rs:87-107   parse_comparison_operand    ↔ parseComparisonOperand
  parser/common.rs:110-121  parse_binary_logic_operand  ↔ parseBinaryLogicOperand
  parser/common.rs:283-308  parse_memory_reference(_with_brackets) ↔ parseMemoryReference(WithBrackets)
  parser/common.rs:484-490  parse_i                     ↔ parseI
  parser/expression.rs:125-143 parse_immediate_value    ↔ parseImmediateValue
  parser/command.rs parse_call_immediate                ↔ parseCallImmediate
  parser/expression.rs:282-291 parse_prefix             ↔ (inlined in parseSignedNumber)
  token!(Integer(v)) positions (DEFGATE permutation entries, PRAGMA arguments, DECLARE lengths,
  qubit indices, memory indices, SHARING offsets)        ↔ parseU64

Token-level parsers return `PRes`: `ok value rest` or `err` (all of these are recoverable nom
errors; none of them can panic any more: the five `panic!("Implement this error")` arms and the
`sign * (v as i64)` wrap were repaired in /repo commits 34d49dc and 4d5e5ce).
-/
namespace QV.C05
open QV.Tok QV.Lex

def two63 : Nat := 9223372036854775808

/-- result of a token-level parser -/
inductive PRes (α : Type) where
  | ok (v : α) (rest : List Token)
  | err
  deriving Repr, DecidableEq

/-- `i64::try_from(u64).ok()`: `Some` iff the value is at most `i64::MAX`. -/
def i64TryFromU64 (m : Nat) : Option Int := if m < two63 then some (m : Int) else none

/-- `0i64.checked_sub_unsigned(m)`: the exact difference when it is ≥ `i64::MIN`, else `None`. -/
def zeroCheckedSubUnsigned (m : Nat) : Option Int := if m ≤ two63 then some (-(m : Int)) else none

/-- `signed_integer(input, negative, magnitude)` (common.rs:47-59). -/
def signedInteger (negative : Bool) (magnitude : Nat) : Option Int :=
  if negative then zeroCheckedSubUnsigned magnitude else i64TryFromU64 magnitude

/-- memory reference `name[index]` -/
structure MemRef where
  name : List Char
  index : Nat
  deriving Repr, DecidableEq

/-- `ArithmeticOperand` / `ComparisonOperand` / `BinaryOperand` (the latter has no `literalReal`). -/
inductive Operand where
  | literalInteger (z : Int)
  | literalReal (bits : Nat)
  | memoryReference (m : MemRef)
  deriving Repr, DecidableEq

/-- `parse_memory_reference` (common.rs:283-295): identifier, optional `[Integer]`, default index 0.
`opt(delimited(..))` backtracks when the bracket group is incomplete. -/
def parseMemoryReference : List Token → PRes MemRef
  | .identifier name :: .lBracket :: .integer i :: .rBracket :: rest => .ok ⟨name, i⟩ rest
  | .identifier name :: rest => .ok ⟨name, 0⟩ rest
  | _ => .err

/-- `parse_memory_reference_with_brackets` (common.rs:299-305). -/
def parseMemoryReferenceWithBrackets : List Token → PRes MemRef
  | .identifier name :: .lBracket :: .integer i :: .rBracket :: rest => .ok ⟨name, i⟩ rest
  | _ => .err

/-- `-1f64 * v` / `1f64 * v` on bit patterns of finite doubles -/
def applySign (neg : Bool) (bits : Nat) : Nat := if neg then QV.DecF64.negBits bits else bits

/-- `parse_arithmetic_operand` (common.rs:63-83): `alt` of
(1) `opt(Minus) Float`, (2) `map_res(opt(Minus) Integer, signed_integer)`, (3) memory reference.
A `signed_integer` error is a recoverable error of alternative (2), so (3) is tried — and fails on
the same tokens. -/
def parseArithmeticOperand (ts : List Token) : PRes Operand :=
  match ts with
  | .operator .minus :: .float v :: rest => .ok (.literalReal (applySign true v)) rest
  | .float v :: rest => .ok (.literalReal (applySign false v)) rest
  | _ =>
    let alt2 : PRes Operand :=
      match ts with
      | .operator .minus :: .integer v :: rest =>
        match signedInteger true v with
        | some z => .ok (.literalInteger z) rest
        | none => .err
      | .integer v :: rest =>
        match signedInteger false v with
        | some z => .ok (.literalInteger z) rest
        | none => .err
      | _ => .err
    match alt2 with
    | .ok v r => .ok v r
    | .err =>
      match parseMemoryReference ts with
      | .ok m r => .ok (.memoryReference m) r
      | .err => .err

/-- `parse_comparison_operand` (common.rs:87-107): same shape as the arithmetic one. -/
def parseComparisonOperand (ts : List Token) : PRes Operand := parseArithmeticOperand ts

/-- `parse_binary_logic_operand` (common.rs:110-121): no real alternative. -/
def parseBinaryLogicOperand (ts : List Token) : PRes Operand :=
  let alt1 : PRes Operand :=
    match ts with
    | .operator .minus :: .integer v :: rest =>
      match signedInteger true v with
      | some z => .ok (.literalInteger z) rest
      | none => .err
    | .integer v :: rest =>
      match signedInteger false v with
      | some z => .ok (.literalInteger z) rest
      | none => .err
    | _ => .err
  match alt1 with
  | .ok v r => .ok v r
  | .err =>
    match parseMemoryReference ts with
    | .ok m r => .ok (.memoryReference m) r
    | .err => .err

/-- `token!(Integer(v))`: every position that takes a bare `u64`. -/
def parseU64 : List Token → PRes Nat
  | .integer n :: rest => .ok n rest
  | _ => .err

/-- a `Complex64` as two bit patterns -/
structure Cplx where
  re : Nat
  im : Nat
  deriving Repr, DecidableEq

/-- `parse_i` (common.rs:484-490): the identifier spelled exactly `i`. -/
def parseI : List Token → Option (List Token)
  | .identifier ['i'] :: rest => some rest
  | _ => none

/-- `parse_immediate_value` (expression.rs:125-143): `Integer` ↦ `value as f64` (u64 → f64 rounds to
nearest, ties to even: integers above 2^53 may change value, by design of the AST which stores
complex doubles), `Float` as is; an `i` suffix makes it imaginary. -/
def parseImmediateValue : List Token → PRes Cplx
  | .integer n :: rest =>
    match parseI rest with
    | some rest' => .ok ⟨0, QV.DecF64.ofNat n⟩ rest'
    | none => .ok ⟨QV.DecF64.ofNat n, 0⟩ rest
  | .float b :: rest =>
    match parseI rest with
    | some rest' => .ok ⟨0, b⟩ rest'
    | none => .ok ⟨b, 0⟩ rest
  | _ => .err

/-- is the double a zero (`x == 0f64`: +0.0 or -0.0)? -/
def isZeroBits (b : Nat) : Bool := b == 0 || b == QV.DecF64.two63

/-- `0f64 - x` on bit patterns of finite doubles: `+0.0` for either zero, the negation otherwise -/
def zeroMinus (b : Nat) : Nat := if isZeroBits b then 0 else QV.DecF64.negBits b

/-- `x + z` where `z` is a zero: `x` itself unless `x` is a zero too (then `-0.0` only if both are) -/
def addZero (x z : Nat) : Nat :=
  if isZeroBits x then (if x == QV.DecF64.two63 && z == QV.DecF64.two63 then QV.DecF64.two63 else 0) else x

/-- `negate` in `parse_call_immediate`: `Complex64::new(0, 0) - value` -/
def negateC (z : Cplx) : Cplx := ⟨zeroMinus z.re, zeroMinus z.im⟩

/-- `parse_call_immediate` (command.rs, since /repo commit 9ad4430): optional minus, an immediate value,
then optionally `+`/`-` and a second immediate value which is merged when the first is real and the second
purely imaginary and non-zero; otherwise the second part is left unconsumed. -/
def parseCallImmediate (ts : List Token) : PRes Cplx :=
  let (minus, ts1) : Bool × List Token :=
    match ts with
    | .operator .minus :: r => (true, r)
    | _ => (false, ts)
  match parseImmediateValue ts1 with
  | .err => .err
  | .ok z r =>
    let first := if minus then negateC z else z
    let second : Option (Cplx × List Token) :=
      match r with
      | .operator .plus :: r2 =>
        match parseImmediateValue r2 with
        | .ok s r3 => some (s, r3)
        | .err => none
      | .operator .minus :: r2 =>
        match parseImmediateValue r2 with
        | .ok s r3 => some (negateC s, r3)
        | .err => none
      | _ => none
    match second with
    | some (s, r3) =>
      if isZeroBits first.im && isZeroBits s.re && !isZeroBits s.im
      then .ok ⟨addZero first.re s.re, s.im⟩ r3      -- first + second (first.im is a zero, s.im is not)
      else .ok first r
    | none => .ok first r

/-- the head of `parse` (expression.rs:79-84) on a numeric literal: `opt(parse_prefix)` then
`parse_immediate_value`; the result is `Number z` or `Prefix(Minus, Number z)` (flag = negated). -/
def parseSignedNumber : List Token → PRes (Bool × Cplx)
  | .operator .minus :: rest =>
    match parseImmediateValue rest with
    | .ok z r => .ok (true, z) r
    | .err => .err
  | ts =>
    match parseImmediateValue ts with
    | .ok z r => .ok (false, z) r
    | .err => .err

end QV.C05
