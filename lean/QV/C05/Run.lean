import QV.Wire
import QV.Shared.LexWire
import QV.C05.Model
import QV.C05.Spec
/-! Driver side of the C05 correspondence check. -/
namespace QV.C05
open QV QV.Tok

/-- the implementation's (or the model's) reading of the operand -/
inductive Out where
  | int (z : Int)
  | real (bits : Nat)
  | num (neg : Bool) (re im : Nat)
  | nat (n : Nat)
  | err
  | other
  deriving Repr, DecidableEq, BEq

def parseHexBits (a : String) : Option Nat :=
  match a.toList with
  | 'x' :: hs =>
    if hs.length = 16 then
      hs.foldlM (fun acc c =>
        let d := QV.C05.Spec.digitVal c
        if d < 16 then some (acc * 16 + d) else none) 0
    else none
  | _ => none

def decodeOut : Sexp → Option Out
  | .list [.atom "int", .atom z] => z.toInt?.map Out.int
  | .list [.atom "real", .atom b] => (parseHexBits b).map Out.real
  | .list [.atom "num", .atom re, .atom im] => do some (.num false (← parseHexBits re) (← parseHexBits im))
  | .list [.atom "neg", .list [.atom "num", .atom re, .atom im]] => do
    some (.num true (← parseHexBits re) (← parseHexBits im))
  | .list [.atom "nat", .atom n] => n.toNat?.map Out.nat
  | .list [.atom "err"] => some .err
  | .list [.atom "other"] => some .other
  | _ => none

/-- an operand-parser error is predicted to make the whole program fail only when the spelling consists
of numeric and operator tokens (an identifier would start a gate / memory reference / qubit variable) -/
def errIfNumeric (ts : List Token) : Option Out :=
  if !ts.isEmpty && ts.all (fun t => match t with | .integer _ | .float _ | .operator _ => true | _ => false)
  then some .err else none

/-- The model's prediction for a spelling placed in an operand position of the given kind:
`none` = not predicted (the spelling lexes to more than one operand's worth of tokens, so what
happens depends on the rest of the grammar, which this model does not cover). -/
def predict (kind : String) (spelling : List Char) : Option Out :=
  match QV.Lex.lex spelling with
  | none => some .err
  | some ts =>
    match kind with
    | "arith" | "cmp" | "logic" =>
      let r := if kind == "logic" then parseBinaryLogicOperand ts else
        if kind == "cmp" then parseComparisonOperand ts else parseArithmeticOperand ts
      match r with
      | .ok (.literalInteger z) [] => some (.int z)
      | .ok (.literalReal b) [] => some (.real b)
      | .ok _ _ => none
      | .err => errIfNumeric ts
    | "imm" =>
      match parseCallImmediate ts with
      | .ok z [] => some (.num false z.re z.im)
      | .ok _ _ => none
      | .err => errIfNumeric ts
    | "expr" =>
      match parseSignedNumber ts with
      | .ok (neg, z) [] => some (.num neg z.re z.im)
      | .ok _ _ => none
      | .err => errIfNumeric ts
    | "nat" =>
      match parseU64 ts with
      | .ok n [] => some (.nat n)
      | .ok _ _ => none
      | .err => errIfNumeric ts
    | _ => none

/-- **Bool specification** evaluated on the implementation's output: the operand equals the
spelling's mathematical value (computed here from the digits by `QV.C05.Spec`, independently of the
lexer model) with the kind (integer / real) the spelling has, or the parse failed.
`std` = the bits Rust's `str::parse::<f64>` gives for the separator-stripped spelling, when present. -/
def specCheck (kind : String) (sg : Spec.Signed) (std : Option Nat) (out : Out) : Bool :=
  let realBits : Option Nat := match sg.lit.realValue with
    | some (m, e) => QV.DecF64.roundDec m e
    | none => none
  let stdOk (b : Nat) : Bool := match std with
    | some s => s == b
    | none => true
  match out with
  | .err => true
  | .other => sg.imag && kind != "expr" && kind != "imm"   -- `1i` is not one operand outside expressions
  | .int z =>
    (kind == "arith" || kind == "cmp" || kind == "logic") && !sg.imag &&
    match sg.lit.intValue with
    | some v => z == (if sg.neg then -(v : Int) else (v : Int)) && -(two63 : Int) ≤ z && z < (two63 : Int)
    | none => false      -- a real literal became an integer
  | .real b =>
    (kind == "arith" || kind == "cmp") && !sg.imag &&
    match realBits with
    | some rb => b == applySign sg.neg rb && stdOk rb
    | none => false      -- an integer literal became a real, or a non-finite value was accepted
  | .nat n =>
    kind == "nat" && !sg.imag && !sg.neg && !sg.plus &&
    match sg.lit.intValue with
    | some v => n == v && n < QV.Lex.two64
    | none => false
  | .num neg re im =>
    -- expressions keep the sign as a prefix operator; a CALL immediate carries it in the value
    -- (`0 - x`: the zero part stays +0.0)
    (kind == "expr" || kind == "imm") && neg == (sg.neg && kind == "expr") && !sg.plus &&
    let bits : Option Nat := match sg.lit.intValue with
      | some v => if v < QV.Lex.two64 then some (QV.DecF64.ofNat v) else none   -- `u64 as f64`
      | none => realBits
    match bits with
    | some b =>
      let b' := if kind == "imm" && sg.neg then zeroMinus b else b
      (if sg.imag then re == 0 && im == b' else re == b' && im == 0) &&
      (sg.lit.intValue.isSome || stdOk b)
    | none => false

private def litTags (sg : Spec.Signed) : List String :=
  let base := match sg.lit with
    | .int radix ds =>
      let v := Spec.posValue radix ds
      [s!"int-r{radix}", s!"digits{min ds.length 24}",
       if v ≥ QV.Lex.two64 then "ge2^64" else if v ≥ two63 then "ge2^63" else if v ≥ 2^53 then "ge2^53" else "small"]
    | .real m _ _ ed => ["real", if ed.isEmpty then "noexp" else "exp", if m.length > 19 then "longmant" else "shortmant"]
  base ++ (if sg.neg then ["neg"] else if sg.plus then ["plus"] else ["nosign"]) ++ (if sg.imag then ["imag"] else [])

private def outTag : Out → String
  | .int _ => "out-int" | .real _ => "out-real" | .num .. => "out-num" | .nat _ => "out-nat"
  | .err => "out-err" | .other => "out-other"

/-! ### literal sequences: the whole operand list (count, order, values) -/

inductive Item where
  | num (neg : Bool) (re im : Nat)
  | nat (n : Nat)
  | other
  deriving Repr, DecidableEq, BEq

inductive SeqOut where
  | items (l : List Item)
  | err
  | other
  deriving Repr, BEq

def decodeItem : Sexp → Option Item
  | .list [.atom "num", .atom re, .atom im] => do some (.num false (← parseHexBits re) (← parseHexBits im))
  | .list [.atom "neg", .list [.atom "num", .atom re, .atom im]] => do
    some (.num true (← parseHexBits re) (← parseHexBits im))
  | .list [.atom "nat", .atom n] => n.toNat?.map Item.nat
  | .list [.atom "other"] => some .other
  | _ => none

def decodeSeqOut : Sexp → Option SeqOut
  | .list (.atom "items" :: xs) => (xs.mapM decodeItem).map SeqOut.items
  | .list [.atom "err"] => some .err
  | .list [.atom "other"] => some .other
  | _ => none

def isNumericTok (t : Token) : Bool :=
  match t with | .integer _ | .float _ | .operator _ => true | _ => false

def isExprKind (kind : String) : Bool :=
  kind == "gateparams" || kind == "matrixrow" || kind == "defwaveform" || kind == "wfargs"

/-- `many0(parse_call_argument)` on a token list made of numeric literals and signs: repeated
`parse_call_immediate`; anything left over makes the program fail.  `none` = not predicted (identifiers). -/
def callArgs : Nat → List Token → List Item → Option SeqOut
  | 0, _, _ => none
  | fuel + 1, ts, acc =>
    match ts with
    | [] => some (.items acc.reverse)
    | _ =>
      if !ts.all isNumericTok then
        (match ts with
         | .integer _ :: _ | .float _ :: _ | .operator _ :: _ =>
           -- an `i` suffix is an identifier token: allow it, refuse other identifiers
           if ts.all (fun t => isNumericTok t || t == .identifier ['i']) then
             (match parseCallImmediate ts with
              | .ok z rest => if rest.length < ts.length then callArgs fuel rest (.num false z.re z.im :: acc) else none
              | .err => some .err)
           else none
         | _ => none)
      else
        match parseCallImmediate ts with
        | .ok z rest => if rest.length < ts.length then callArgs fuel rest (.num false z.re z.im :: acc) else none
        | .err => some .err

/-- the model's prediction of the operand list for a sequence of spellings in a multi-operand position -/
def predictSeq (kind : String) (items : List String) : Option SeqOut :=
  if kind == "call" then
    match QV.Lex.lex (" ".intercalate items).toList with
    | none => some .err
    | some ts =>
      -- an identifier `i` directly after a number is the imaginary suffix; a free-standing `i` is an
      -- Identifier argument (not predicted)
      callArgs (ts.length + 1) ts []
  else if isExprKind kind then
    -- comma-separated expressions: each item is lexed and parsed on its own
    let chunk (x : String) : Option (Option Item) :=      -- none = not predicted, some none = error
      match QV.Lex.lex x.toList with
      | none => some none
      | some ts =>
        match parseSignedNumber ts with
        | .ok (neg, z) [] => some (some (.num neg z.re z.im))
        | .ok _ _ => none
        | .err => if !ts.isEmpty && ts.all isNumericTok then some none else none
    let cs := items.map chunk
    if cs.any (· == some none) && cs.all (fun c => c.isSome) then some .err
    else if cs.all (fun c => match c with | some (some _) => true | _ => false) then
      some (.items (cs.filterMap fun c => c.join))
    else none
  else
    -- u64 lists
    let chunk (x : String) : Option (Option Item) :=
      match QV.Lex.lex x.toList with
      | none => some none
      | some [.integer n] => some (some (.nat n))
      | some ts => if !ts.isEmpty && ts.all isNumericTok then some none else none
    let cs := items.map chunk
    if cs.any (· == some none) && cs.all (fun c => c.isSome) then some .err
    else if cs.all (fun c => match c with | some (some _) => true | _ => false) then
      some (.items (cs.filterMap fun c => c.join))
    else none

/-- value of one literal as an expression / CALL immediate: `(re, im)` bits before any sign, `none` when the
literal has no finite / 64-bit value (then the parse must fail) -/
def litBits (sg : Spec.Signed) : Option Nat :=
  match sg.lit.intValue with
  | some v => if v < QV.Lex.two64 then some (QV.DecF64.ofNat v) else none
  | none => match sg.lit.realValue with
    | some (m, e) => QV.DecF64.roundDec m e
    | none => none

/-- the CALL rule of `expectSeq` (see there) -/
partial def expectCall : List Spec.Signed → List Item → Option SeqOut
  | [], acc => some (.items acc.reverse)
  | a :: rest, acc =>
    if a.plus then some .err else
    match litBits a with
    | none => some .err
    | some ba =>
      let va := if a.neg then zeroMinus ba else ba
      let (re, im) : Nat × Nat := if a.imag then (0, va) else (va, 0)
      match rest with
      | b :: rest' =>
        (match litBits b with
         | none => some .err
         | some bb =>
           if (b.neg || b.plus) && isZeroBits im && b.imag && !isZeroBits bb then
             expectCall rest' (.num false re (if b.neg then QV.DecF64.negBits bb else bb) :: acc)
           else expectCall rest (.num false re im :: acc))
      | [] => some (.items ((.num false re im :: acc).reverse))

/-- **specification of the operand list**, computed from the spellings alone (`Spec.classifySigned`):
`none` = some item is not a literal (no claim); `some .err` = the text must be rejected;
`some (.items l)` = exactly these operands, in this order — no literal may vanish, merge or move.
CALL immediates follow the rule of /repo commit 9ad4430: a number whose imaginary part is zero, directly
followed by an explicitly signed NON-ZERO imaginary literal, is one complex operand; every other literal
is an operand of its own; a `+` sign is accepted only on such a merged imaginary part. -/
def expectSeq (kind : String) (items : List String) : Option SeqOut :=
  match items.mapM (fun x => Spec.classifySigned x.toList) with
  | none => none
  | some sgs =>
    if kind == "call" then
      expectCall sgs []
    else if isExprKind kind then
      if sgs.any (·.plus) then some .err
      else
        match sgs.mapM (fun sg => (litBits sg).map fun b => Item.num sg.neg (if sg.imag then 0 else b) (if sg.imag then b else 0)) with
        | some l => some (.items l)
        | none => some .err
    else
      if sgs.any (·.imag) then none      -- `1i` in a u64 list is a number and a name: no claim
      else
        match sgs.mapM (fun sg => if sg.neg || sg.plus then none else
            match sg.lit.intValue with
            | some v => if v < QV.Lex.two64 then some (Item.nat v) else none
            | none => none) with
        | some l => some (.items l)
        | none => some .err

def handle (inp out : Sexp) : CaseResult :=
  match inp with
  | .list [.atom "lex", .str t] =>
    QV.LexWire.handleLex t out (fun _ m => match m with
      | some ts => ts.any fun tk => match tk with | .integer _ => true | .float _ => true | _ => false
      | none => true)
  | .list [.atom "pos", .atom name, .atom kind, .str spelling, .atom stdA] =>
    if QV.LexWire.isCrash out then
      { agree := false, specOk := false, nontrivial := true,
        tags := [s!"pos-{name}", s!"kind-{kind}", "crash"],
        detail := s!"the parser panicked: spelling={repr spelling} impl={out}" }
    else
    match out with
    | .list (.atom "mismatch" :: _) =>
      -- Program::from_str and Instruction::from_str disagree on the same text
      { agree := false, specOk := false, nontrivial := true,
        tags := [s!"pos-{name}", s!"kind-{kind}", "entry-point-mismatch"],
        detail := s!"entry points disagree: spelling={repr spelling} {out}" }
    | _ =>
    match decodeOut out with
    | none => .bad s!"undecodable output {out}"
    | some o =>
      let sp := spelling.toList
      -- `DELAY 0 +1`: the qubit/duration back-tracking of parse_delay re-reads the text as the duration
      -- `0+1` on no qubits, so an operand-parser error does not predict a program error in this position
      -- and `DELAY 0 2i` is read as qubits 0, 2 and the duration `i` (the identifier `i` is first taken as a
      -- qubit variable and then given back): imaginary spellings are not predicted there either
      let sg := Spec.classifySigned sp
      let delayAmbiguous := name == "delaynoframe" &&
        (match sg with | some s => s.plus || s.imag | none => true)
      let pred := match predict kind sp with
        | some .err => if name == "delaynoframe" then none else some .err
        | p => if delayAmbiguous then none else p
      let std := parseHexBits stdA
      let agree := match pred with
        | some p => p == o
        | none => true
      let specOk := match sg with
        | some s => specCheck kind s std o || (delayAmbiguous && o == .other)
        | none => true
      { agree := agree, specOk := specOk, nontrivial := sg.isSome && o != .other,
        tags := [s!"pos-{name}", s!"kind-{kind}", outTag o,
                 if pred.isNone then "unpredicted" else "predicted",
                 if sp.contains '_' then "sep" else "nosep"] ++
                (match sg with | some s => litTags s | none => ["not-a-literal"]),
        detail := s!"spelling={repr spelling} kind={kind} model={repr pred} impl={repr o} spec-literal={repr sg}" }
  | .list (.atom "seq" :: .atom kind :: itemsS) =>
    match itemsS.mapM Sexp.asStr? with
    | none => .bad s!"undecodable input {inp}"
    | some items =>
      if QV.LexWire.isCrash out then
        { agree := false, specOk := false, nontrivial := true, tags := ["seq", s!"seq-{kind}", "crash"],
          detail := s!"the parser panicked: items={items} impl={out}" }
      else
      match out with
      | .list (.atom "mismatch" :: _) =>
        { agree := false, specOk := false, nontrivial := true, tags := ["seq", s!"seq-{kind}", "entry-point-mismatch"],
          detail := s!"entry points disagree: items={items} {out}" }
      | _ =>
      match decodeSeqOut out with
      | none => .bad s!"undecodable output {out}"
      | some o =>
        let pred := predictSeq kind items
        let exp := expectSeq kind items
        let specOk := match exp with
          | none => true
          | some e => o == .err || o == e        -- count, order and every value
        { agree := (match pred with | some p => p == o | none => true), specOk := specOk,
          nontrivial := exp.isSome,
          tags := ["seq", s!"seq-{kind}", s!"seq-len{items.length}",
                   (match o with | .items l => s!"out-items{l.length}" | .err => "out-err" | .other => "out-other"),
                   if pred.isNone then "unpredicted" else "predicted",
                   if exp.isNone then "not-all-literals" else "all-literals"],
          detail := s!"kind={kind} items={items} model={repr pred} spec={repr exp} impl={repr o}" }
  | _ => .bad s!"undecodable input {inp}"

end QV.C05

def main : IO UInt32 := QV.runMain QV.C05.handle
