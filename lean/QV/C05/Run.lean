import QV.Wire
import QV.Shared.LexWire
/-! Driver side of the C05 correspondence check. -/
namespace QV.C05
open QV

def handle (inp out : Sexp) : CaseResult :=
  match inp with
  | .list [.atom "lex", .str t] =>
    QV.LexWire.handleLex t out (fun _ m => match m with
      | some ts => ts.any fun tk => match tk with | .integer _ => true | .float _ => true | _ => false
      | none => true)
  | _ => .bad s!"undecodable input {inp}"

end QV.C05

def main : IO UInt32 := QV.runMain QV.C05.handle
