import QV.C17.Drv
import QV.C18.Model
import QV.C18.Spec
/-!
Driver side of the C18 correspondence check.  The implementation ran in a child process; its outcome is
`(ok N S)` | `(recursive instr S)` | `(error S)` | `(crash "msg")` | `(abort "status")` | `(timeout)`
(`S` = `same` iff the sibling entry points agree).  The model
(`QV.C17.expandCalibrations`, oracles of `QV/C17/Drv.lean`) runs with `FUEL18` levels of recursion.

Classes compared:  ok N ↔ ok with body length N;  recursive i ↔ recursiveCalibration i;
abort | timeout | crash ↔ outOfFuel (the model cannot exhibit the abort, it shows that the recursion has no end
within the fuel; every terminating case the generators build is far shallower).
-/
namespace QV.C18.Drv
open QV QV.Ast QV.AstWire QV.C17 QV.C17.Drv QV.C18

/-- levels of recursion given to the model.  On a parameter-growing input every level re-simplifies a
parameter whose size grows with the depth (C12's model of the simplifier is the expensive part: measured
0.13 s at 100 levels, 0.8 s at 200, about 50 s at 1000), so the fuel is kept at 100: several times
above the deepest TERMINATING expansion the generators can build (a chain through distinct (name, literal,
qubit) combinations of a handful of calibrations, < 20; the corpus has chains of 30), far below the depth at which the implementation's
128 KiB worker stack overflows. -/
def FUEL18 : Nat := 100

def implClass (out : Sexp) : String :=
  match out with
  | .list (.atom "ok" :: _) => "ok"
  | .list (.atom "recursive" :: _) => "recursive"
  | .list (.atom "abort" :: _) => "abort"
  | .list (.atom "timeout" :: _) => "timeout"
  | .list (.atom "crash" :: _) => "crash"
  | _ => "error"

def handleProg (is : List Instruction) (out : Sexp) : CaseResult :=
  let p := Prog.fromInstructions is
  let m := expandCalibrations env p FUEL18
  let mClass := classOf m
  let ic := implClass out
  let agree : Bool := match m, out with
    | .ok q, .list [.atom "ok", n, .atom "same"] => n == encodeNat q.instructions.length
    | .recursiveCalibration i, .list [.atom "recursive", j, .atom "same"] => encodeInstruction i == j
    | .outOfFuel, _ => ic == "abort" || ic == "timeout" || ic == "crash"
    | _, _ => false
  -- "some instruction would be expanded again while it is already being expanded", searched along every
  -- branch of the expansion tree (only where the tree is finite: the model did not run out of fuel)
  let revisit : Bool := mClass != .outOfFuel &&
    p.instructions.any (revisitB env codeSubst p.cals FUEL18 [])
  -- the statement on the implementation's outcome: it returned, and it reported the error iff a revisit exists
  -- the sibling entry points (with source map; instruction by instruction through `Calibrations::expand`) ended
  -- in the same class
  let siblings := match out with
    | .list [.atom "ok", _, s] => s == .atom "same"
    | .list [.atom "recursive", _, s] => s == .atom "same"
    | _ => true
  let returned := (ic == "ok" || ic == "recursive") && siblings
  let specOk := returned && (mClass == .outOfFuel || ((ic == "recursive") == revisit))
  -- known finding: the implementation did not return, the model is out of fuel at FUEL18 levels and reports
  -- no recursive calibration
  let kf := !returned && (ic == "abort" || ic == "timeout" || ic == "crash") && mClass == .outOfFuel
  let maxDepth := (p.instructions.map (depthOf env p.cals 8 [])).foldl max 0
  { agree := agree, specOk := specOk,
    nontrivial := maxDepth ≥ 2 || mClass != .ok,
    tags := ["impl-" ++ ic,
             "model-" ++ (match mClass with | .ok => "ok" | .recursiveCalibration => "recursive" | .outOfFuel => "outOfFuel"),
             s!"depth{min maxDepth 8}"] ++ calTags p ++
            (if revisit then ["revisit"] else []) ++
            (if siblings then [] else ["FAIL-entry-points-differ"]) ++
            (if kf then ["kf:C18/growing-parameter"] else []),
    detail := s!"model={repr mClass} impl={out}" }

def handle (inp out : Sexp) : CaseResult :=
  match inp with
  | .list [.atom "prog", l] =>
    match decodeInstructionList l with
    | some is => handleProg is out
    | none => .bad s!"undecodable program {l}"
  | _ => .bad s!"undecodable input {inp}"

end QV.C18.Drv

def main : IO UInt32 := QV.runMain QV.C18.Drv.handle
