import QV.C18.Model
import QV.C17.Spec
/-
C18 specification, from the property text:

  "For every program, expanding calibrations returns either the expanded program or a recursive-calibration
   error, and never overflows the stack or runs forever.  It reports that error iff some instruction would be
   expanded again while it is already being expanded."

* "never … runs forever": `Closed` is the finiteness condition under which this is provable — a finite list
  `R` that contains every instruction with a match that the expansion can reach (closed under one step of
  expansion).  Without such an `R` the claim is false (`growing_diverges`).
* "some instruction would be expanded again while it is already being expanded": `Revisit prev i j` — the
  expansion of `i` under the breadcrumbs `prev` reaches, along a chain of matched instructions, the
  instruction `j` while `j` (an instruction equal to it) is on the chain or among `prev`.
-/
namespace QV.C18
open QV QV.Ast QV.C17

section
variable {κ : Type} [DecidableEq κ] (E : Env κ) (S : Subst) (cals : Cals)

/-- `R` contains every instruction WITH a match that one step of expansion can produce from a member of `R` -/
def Closed (R : List Instruction) : Prop :=
  ∀ i ∈ R, ∀ body src, oneStep E S cals i = some (body, src) →
    ∀ j ∈ body, oneStep E S cals j ≠ none → j ∈ R

/-- the expansion of `i`, being expanded under the (keys of the) instructions `prev`, runs into an
instruction `j` that is already being expanded -/
inductive Revisit : List κ → Instruction → Instruction → Prop
  | here {prev i} : E.key i ∈ prev → Revisit prev i i
  | deeper {prev i body src k j} : E.key i ∉ prev → oneStep E S cals i = some (body, src) → k ∈ body →
      Revisit (E.key i :: prev) k j → Revisit prev i j

/-- Bool search for a revisit along ANY branch of the expansion tree (not the left-to-right, stop-at-the-
first-error evaluation the implementation performs), down to depth `fuel` -/
def revisitB : Nat → List κ → Instruction → Bool
  | 0, _, _ => false
  | fuel + 1, prev, i =>
    if prev.contains (E.key i) then true
    else match oneStep E S cals i with
      | none => false
      | some (body, _) => body.any (revisitB fuel (E.key i :: prev))

end

end QV.C18
