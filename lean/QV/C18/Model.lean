import QV.C17.Model
/-
C18 model: calibration expansion as a computation that may fail to terminate.

The expansion functions are C17's (`QV.C17.expandInnerWith`, `QV.C17.expandCalibrations`, same model, same
oracles): `Calibrations::expand_inner` recurses without any bound of its own (program/calibration.rs:393-607),
so the model takes `fuel` — one unit per level of the Rust recursion — and has three outcomes:
`ok` | `recursiveCalibration` (the `RecursiveCalibration` error of the breadcrumb check, calibration.rs:399-401)
| `outOfFuel`.  What the running code does where the model says `outOfFuel` for every fuel is to recurse until
the thread's stack is exhausted (the process aborts); that runtime behaviour is observed by the harness in a
child process and is the known finding `C18/growing-parameter`.

This file adds the entry points with empty breadcrumbs and the divergence witness
`DEFCAL RX(%t) 0: RX(%t+1) 0` applied to `RX(0) 0`.
-/
namespace QV.C18
open QV QV.Ast QV.C17

section
variable {κ : Type} [DecidableEq κ] (E : Env κ)

/-- `Calibrations::expand(instruction, &[])` with `n` levels of recursion available -/
def expandFuel (n : Nat) (cals : Cals) (i : Instruction) : Outcome (Option (List Instruction)) :=
  expandInnerWith E codeSubst cals n [] i

end

/-- the three outcome classes compared with the implementation's `ok | recursive_error | abort/timeout` -/
inductive Class where
  | ok | recursiveCalibration | outOfFuel
  deriving DecidableEq, Repr, Inhabited

def classOf {α : Type} : Outcome α → Class
  | .ok _ => .ok
  | .recursiveCalibration _ => .recursiveCalibration
  | .outOfFuel => .outOfFuel

/-! ### the divergence witness -/

/-- the literal `1` (`Complex64::new(1.0, 0.0)`) -/
def one : PExpr := .number ⟨oneBits, zeroBits⟩
/-- the literal `0` -/
def zero : PExpr := .number ⟨zeroBits, zeroBits⟩

/-- `RX(e) 0` -/
def rx (e : PExpr) : Instruction :=
  .gate { name := "RX", parameters := [e], qubits := [.fixed 0], modifiers := [] }

/-- `DEFCAL RX(%t) 0: RX(%t+1) 0` -/
def growingCal : CalDef :=
  { identifier := { modifiers := [], name := "RX", parameters := [.var "t"], qubits := [.fixed 0] }
    instructions := [rx (.bin (.var "t") .plus one)] }

def growingCals : Cals := { cals := [growingCal], mcals := [] }

/-- the parameter after `k` expansions: `0`, `0+1`, `(0+1)+1`, … -/
def growArg : Nat → PExpr
  | 0 => zero
  | k + 1 => .bin (growArg k) .plus one

end QV.C18
