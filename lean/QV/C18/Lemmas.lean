import QV.C18.Spec
import QV.C17.Lemmas
/-! Helper lemmas for C18 (core Lean only). -/
namespace QV.C18
open QV QV.Ast QV.C17

/-- pigeonhole: a duplicate-free list whose members all lie in `l'` is no longer than `l'` -/
theorem nodup_subset_length {α : Type} [DecidableEq α] :
    ∀ (l l' : List α), l.Nodup → (∀ x ∈ l, x ∈ l') → l.length ≤ l'.length := by
  intro l
  induction l with
  | nil => intro l' _ _; simp
  | cons a t ih =>
    intro l' hnd hsub
    have ha : a ∈ l' := hsub a (List.mem_cons_self ..)
    have hnd' := List.nodup_cons.mp hnd
    have ht : ∀ x ∈ t, x ∈ l'.erase a := by
      intro x hx
      have hne : x ≠ a := fun h => hnd'.1 (h ▸ hx)
      exact (List.mem_erase_of_ne hne).mpr (hsub x (List.mem_cons_of_mem _ hx))
    have := ih (l'.erase a) hnd'.2 ht
    rw [List.length_erase_of_mem ha] at this
    have hpos : 0 < l'.length := List.length_pos_of_mem ha
    simp only [List.length_cons]
    omega

section
variable (rec : Instruction → Outcome (Option (List Instruction)))

theorem expandSeq_ne_outOfFuel :
    ∀ body : List Instruction, (∀ j ∈ body, rec j ≠ .outOfFuel) → expandSeq rec body ≠ .outOfFuel := by
  intro body
  induction body with
  | nil => intro _ h; simp [expandSeq] at h
  | cons i rest ih =>
    intro hall
    have hi := hall i (List.mem_cons_self ..)
    have hr := ih (fun j hj => hall j (List.mem_cons_of_mem _ hj))
    unfold expandSeq
    split
    · split <;> simp_all
    · split <;> simp_all
    · simp
    · simp_all

theorem expandSeq_ok_all :
    ∀ (body out : List Instruction), expandSeq rec body = .ok out → ∀ j ∈ body, ∃ r, rec j = .ok r := by
  intro body
  induction body with
  | nil => intro _ _ j hj; cases hj
  | cons i rest ih =>
    intro out h j hj
    unfold expandSeq at h
    split at h
    · rename_i o ho
      split at h
      · rename_i outs hrest
        rcases List.mem_cons.mp hj with rfl | hj
        · exact ⟨_, ho⟩
        · exact ih _ hrest j hj
      · cases h
      · cases h
    · rename_i ho
      split at h
      · rename_i outs hrest
        rcases List.mem_cons.mp hj with rfl | hj
        · exact ⟨_, ho⟩
        · exact ih _ hrest j hj
      · cases h
      · cases h
    · cases h
    · cases h

theorem expandSeq_recursive :
    ∀ (body : List Instruction) (j : Instruction), expandSeq rec body = .recursiveCalibration j →
      ∃ k ∈ body, rec k = .recursiveCalibration j := by
  intro body
  induction body with
  | nil => intro j h; simp [expandSeq] at h
  | cons i rest ih =>
    intro j h
    unfold expandSeq at h
    split at h
    · split at h
      · cases h
      · rename_i j' hrest
        cases h
        obtain ⟨k, hk, hr⟩ := ih _ hrest
        exact ⟨k, List.mem_cons_of_mem _ hk, hr⟩
      · cases h
    · split at h
      · cases h
      · rename_i j' hrest
        cases h
        obtain ⟨k, hk, hr⟩ := ih _ hrest
        exact ⟨k, List.mem_cons_of_mem _ hk, hr⟩
      · cases h
    · rename_i j' hi
      cases h
      exact ⟨i, List.mem_cons_self .., hi⟩
    · cases h

end

end QV.C18
