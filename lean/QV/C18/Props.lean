import QV.C18.Lemmas
/-
C18 — Calibration expansion always terminates without crashing.

The statement is FALSE of the code (known finding `C18/growing-parameter`): `growing_diverges` proves that
for `DEFCAL RX(%t) 0: RX(%t+1) 0` the expansion of `RX(0) 0` is out of fuel for EVERY fuel — no instruction
ever repeats, so the breadcrumb check never fires; the running code recurses until the stack overflows (the
abort itself is observed in a child process by the harness).  What holds, and is proved here for all
calibration sets, instructions and oracles:

* `expand_terminates` — whenever the instructions with a match that the expansion can reach lie in a finite
  list `R` closed under one step of expansion, `|R| + 1` levels of recursion suffice (the breadcrumbs are
  duplicate-free members of `R`, so the depth never exceeds `|R|`): the outcome is `ok` or the error;
* `error_iff_revisit` — the error is reported iff some instruction would be expanded again while it is
  already being expanded, and the instruction the error carries is that instruction.
-/
namespace QV.C18
open QV QV.Ast QV.C17

section
variable {κ : Type} [DecidableEq κ] (E : Env κ) (S : Subst) (cals : Cals)

/-! ## Termination on finite closed sets -/

theorem terminates_aux (R : List Instruction) (hc : Closed E S cals R) :
    ∀ (fuel : Nat) (prev : List κ) (i : Instruction), prev.Nodup → (∀ k ∈ prev, k ∈ R.map E.key) →
      (i ∈ R ∨ oneStep E S cals i = none) → R.length + 1 ≤ fuel + prev.length →
      expandInnerWith E S cals fuel prev i ≠ .outOfFuel := by
  intro fuel
  induction fuel with
  | zero =>
    intro prev i hnd hsub _ hlen
    have := nodup_subset_length prev (R.map E.key) hnd hsub
    simp only [List.length_map] at this
    omega
  | succ fuel ih =>
    intro prev i hnd hsub hi hlen
    unfold expandInnerWith
    split
    · simp
    · rename_i hnc
      split
      · simp
      · rename_i body src hs
        have hiR : i ∈ R := by
          rcases hi with h | h
          · exact h
          · rw [h] at hs; cases hs
        have hkey : E.key i ∉ prev := by simpa using hnc
        have hseq : expandSeq (expandInnerWith E S cals fuel (E.key i :: prev)) body ≠ .outOfFuel := by
          apply expandSeq_ne_outOfFuel
          intro j hj
          apply ih
          · exact List.nodup_cons.mpr ⟨hkey, hnd⟩
          · intro k hk
            rcases List.mem_cons.mp hk with rfl | hk
            · exact List.mem_map_of_mem hiR
            · exact hsub k hk
          · by_cases hj1 : oneStep E S cals j = none
            · exact Or.inr hj1
            · exact Or.inl (hc i hiR body src hs j hj hj1)
          · simp only [List.length_cons]; omega
        split
        · simp
        · simp
        · rename_i h; exact absurd h hseq

/-- **C18 (termination)**: if the matched instructions reachable from `i` lie in a finite list `R` closed
under one step of expansion, then `|R| + 1` levels of recursion are enough — `Calibrations::expand` returns
an expansion or the recursive-calibration error, it does not run out of fuel. -/
theorem expand_terminates (R : List Instruction) (hc : Closed E codeSubst cals R) (i : Instruction)
    (hi : i ∈ R ∨ oneStep E codeSubst cals i = none) :
    expandFuel E (R.length + 1) cals i ≠ .outOfFuel :=
  terminates_aux E codeSubst cals R hc (R.length + 1) [] i List.nodup_nil (by simp) hi (by simp)

/-- more fuel than `|R| + 1` does not hurt -/
theorem expand_terminates_ge (R : List Instruction) (hc : Closed E codeSubst cals R) (i : Instruction)
    (hi : i ∈ R ∨ oneStep E codeSubst cals i = none) (n : Nat) (hn : R.length + 1 ≤ n) :
    expandFuel E n cals i ≠ .outOfFuel :=
  terminates_aux E codeSubst cals R hc n [] i List.nodup_nil (by simp) hi (by simpa using hn)

theorem expandLoop_ne_outOfFuel (src : Prog) (fuel : Nat) :
    ∀ (is : List Instruction) (idx : Nat) (np : Prog) (sm : Option (List Entry)),
      (∀ i ∈ is, expandInnerWith E S src.cals fuel [] i ≠ .outOfFuel) →
      expandLoop E S src fuel is idx np sm ≠ .outOfFuel := by
  intro is
  induction is with
  | nil => intro idx np sm _; simp [expandLoop]
  | cons i rest ih =>
    intro idx np sm hall
    have hi := hall i (List.mem_cons_self ..)
    have hr := fun idx np sm => ih idx np sm (fun j hj => hall j (List.mem_cons_of_mem _ hj))
    unfold expandLoop
    split
    · exact hr _ _ _
    · exact hr _ _ _
    · simp
    · rename_i h; exact absurd h hi

/-- **C18 (termination) at the program level**: if every body instruction lies in a finite closed list `R`
(or has no match), `Program::expand_calibrations` returns the expanded program or the error with `|R| + 1`
levels of recursion. -/
theorem program_expand_terminates (p : Prog) (R : List Instruction) (hc : Closed E codeSubst p.cals R)
    (hall : ∀ i ∈ p.instructions, i ∈ R ∨ oneStep E codeSubst p.cals i = none) :
    classOf (expandCalibrations E p (R.length + 1)) ≠ .outOfFuel := by
  have h := expandLoop_ne_outOfFuel E codeSubst p (R.length + 1) p.instructions 0 p.cloneWithoutBody none
    (fun i hi => terminates_aux E codeSubst p.cals R hc (R.length + 1) [] i List.nodup_nil (by simp)
      (hall i hi) (by simp))
  unfold expandCalibrations expandCalibrationsWith
  simp only [Bool.false_eq_true, if_false]
  revert h
  cases expandLoop E codeSubst p (R.length + 1) p.instructions 0 p.cloneWithoutBody none <;>
    simp [classOf]

/-! ## The error is reported iff an instruction would be expanded again -/

theorem recursive_revisit :
    ∀ (fuel : Nat) (prev : List κ) (i j : Instruction),
      expandInnerWith E S cals fuel prev i = .recursiveCalibration j → Revisit E S cals prev i j := by
  intro fuel
  induction fuel with
  | zero => intro prev i j h; simp [expandInnerWith] at h
  | succ fuel ih =>
    intro prev i j h
    unfold expandInnerWith at h
    split at h
    · rename_i hc
      cases h
      exact Revisit.here (by simpa using hc)
    · rename_i hnc
      split at h
      · cases h
      · rename_i body src hs
        split at h
        · cases h
        · rename_i j' hseq
          cases h
          obtain ⟨k, hk, hr⟩ := expandSeq_recursive _ body j hseq
          exact Revisit.deeper (by simpa using hnc) hs hk (ih _ _ _ hr)
        · cases h

theorem revisit_recursive {prev : List κ} {i j : Instruction} (h : Revisit E S cals prev i j) :
    ∀ fuel, expandInnerWith E S cals fuel prev i ≠ .outOfFuel →
      ∃ j', expandInnerWith E S cals fuel prev i = .recursiveCalibration j' := by
  induction h with
  | @here prev i hmem =>
    intro fuel hne
    cases fuel with
    | zero => simp [expandInnerWith] at hne
    | succ fuel =>
      refine ⟨i, ?_⟩
      unfold expandInnerWith
      simp [hmem]
  | @deeper prev i body src k j hnot hs hk _ ih =>
    intro fuel hne
    cases fuel with
    | zero => simp [expandInnerWith] at hne
    | succ fuel =>
      unfold expandInnerWith at hne ⊢
      have hc : prev.contains (E.key i) = false := by simpa using hnot
      simp only [hc, Bool.false_eq_true, if_false, hs] at hne ⊢
      split
      · rename_i out hseq
        -- every body instruction expanded successfully, in particular `k`: impossible
        obtain ⟨r, hr⟩ := expandSeq_ok_all _ body out hseq k hk
        have := ih fuel (by rw [hr]; simp)
        obtain ⟨j', hj'⟩ := this
        rw [hr] at hj'; cases hj'
      · rename_i j' _; exact ⟨j', rfl⟩
      · rename_i hseq
        rw [hseq] at hne
        exact absurd rfl hne

/-- **C18 (the error)**: whenever the expansion does not run out of fuel, it reports the recursive-
calibration error iff some instruction would be expanded again while it is already being expanded
(`Revisit`, stated on the breadcrumb path); and the instruction carried by the error is such an instruction. -/
theorem error_iff_revisit (fuel : Nat) (prev : List κ) (i : Instruction)
    (hne : expandInnerWith E S cals fuel prev i ≠ .outOfFuel) :
    (∃ j, expandInnerWith E S cals fuel prev i = .recursiveCalibration j) ↔ ∃ j, Revisit E S cals prev i j :=
  ⟨fun ⟨j, h⟩ => ⟨j, recursive_revisit E S cals fuel prev i j h⟩,
   fun ⟨_, h⟩ => revisit_recursive E S cals h fuel hne⟩

theorem error_carries_revisited (fuel : Nat) (prev : List κ) (i j : Instruction)
    (h : expandInnerWith E S cals fuel prev i = .recursiveCalibration j) : Revisit E S cals prev i j :=
  recursive_revisit E S cals fuel prev i j h

/-- consequence: the outcome is `ok` iff nothing is revisited (given enough fuel) -/
theorem ok_iff_no_revisit (fuel : Nat) (prev : List κ) (i : Instruction)
    (hne : expandInnerWith E S cals fuel prev i ≠ .outOfFuel) :
    (∃ r, expandInnerWith E S cals fuel prev i = .ok r) ↔ ¬ ∃ j, Revisit E S cals prev i j := by
  rw [← error_iff_revisit E S cals fuel prev i hne]
  cases h : expandInnerWith E S cals fuel prev i <;> simp_all

/-! ### … at the program level -/

theorem expandLoop_recursive (src : Prog) (fuel : Nat) :
    ∀ (is : List Instruction) (idx : Nat) (np : Prog) (sm : Option (List Entry)) (j : Instruction),
      expandLoop E S src fuel is idx np sm = .recursiveCalibration j →
      ∃ i ∈ is, expandInnerWith E S src.cals fuel [] i = .recursiveCalibration j := by
  intro is
  induction is with
  | nil => intro idx np sm j h; simp [expandLoop] at h
  | cons i rest ih =>
    intro idx np sm j h
    unfold expandLoop at h
    split at h
    · obtain ⟨k, hk, hr⟩ := ih _ _ _ _ h
      exact ⟨k, List.mem_cons_of_mem _ hk, hr⟩
    · obtain ⟨k, hk, hr⟩ := ih _ _ _ _ h
      exact ⟨k, List.mem_cons_of_mem _ hk, hr⟩
    · rename_i j' hi
      cases h
      exact ⟨i, List.mem_cons_self .., hi⟩
    · cases h

theorem expandLoop_ok_all (src : Prog) (fuel : Nat) :
    ∀ (is : List Instruction) (idx : Nat) (np : Prog) (sm : Option (List Entry))
      (r : Prog × Option (List Entry)),
      expandLoop E S src fuel is idx np sm = .ok r →
      ∀ i ∈ is, ∃ o, expandInnerWith E S src.cals fuel [] i = .ok o := by
  intro is
  induction is with
  | nil => intro idx np sm r _ i hi; cases hi
  | cons i rest ih =>
    intro idx np sm r h k hk
    unfold expandLoop at h
    split at h
    · rename_i out ho
      rcases List.mem_cons.mp hk with rfl | hk
      · exact ⟨_, ho⟩
      · exact ih _ _ _ _ h k hk
    · rename_i ho
      rcases List.mem_cons.mp hk with rfl | hk
      · exact ⟨_, ho⟩
      · exact ih _ _ _ _ h k hk
    · cases h
    · cases h

/-- **C18 (the error) for `Program::expand_calibrations`**: provided the fuel suffices, the program-level
expansion reports the recursive-calibration error iff the expansion of some body instruction would expand an
instruction again while it is already being expanded; and the instruction it reports is such an instruction. -/
theorem program_error_iff_revisit (p : Prog) (fuel : Nat)
    (hne : classOf (expandCalibrations E p fuel) ≠ .outOfFuel) :
    (∃ j, expandCalibrations E p fuel = .recursiveCalibration j) ↔
      ∃ i ∈ p.instructions, ∃ j, Revisit E codeSubst p.cals [] i j := by
  unfold expandCalibrations expandCalibrationsWith at hne ⊢
  simp only [Bool.false_eq_true, if_false] at hne ⊢
  cases hl : expandLoop E codeSubst p fuel p.instructions 0 p.cloneWithoutBody none with
  | ok r =>
    simp only [reduceCtorEq, exists_false, false_iff]
    rintro ⟨i, hi, j, hj⟩
    obtain ⟨o, ho⟩ := expandLoop_ok_all E codeSubst p fuel _ _ _ _ r hl i hi
    obtain ⟨j', hj'⟩ := revisit_recursive E codeSubst p.cals hj fuel (by rw [ho]; simp)
    rw [ho] at hj'; cases hj'
  | recursiveCalibration j =>
    constructor
    · intro _
      obtain ⟨i, hi, hr⟩ := expandLoop_recursive E codeSubst p fuel _ _ _ _ j hl
      exact ⟨i, hi, j, recursive_revisit E codeSubst p.cals fuel [] i j hr⟩
    · intro _; exact ⟨j, rfl⟩
  | outOfFuel => rw [hl] at hne; simp [classOf] at hne

/-! ## The Bool search the driver evaluates -/

theorem revisitB_sound :
    ∀ (fuel : Nat) (prev : List κ) (i : Instruction), revisitB E S cals fuel prev i = true →
      ∃ j, Revisit E S cals prev i j := by
  intro fuel
  induction fuel with
  | zero => intro prev i h; simp [revisitB] at h
  | succ fuel ih =>
    intro prev i h
    unfold revisitB at h
    split at h
    · rename_i hc
      exact ⟨i, Revisit.here (by simpa using hc)⟩
    · rename_i hnc
      split at h
      · cases h
      · rename_i body src hs
        obtain ⟨k, hk, hkr⟩ := List.any_eq_true.mp h
        obtain ⟨j, hj⟩ := ih _ _ hkr
        exact ⟨j, Revisit.deeper (by simpa using hnc) hs hk hj⟩

theorem revisitB_complete {prev : List κ} {i j : Instruction} (h : Revisit E S cals prev i j) :
    ∃ n, ∀ m, n ≤ m → revisitB E S cals m prev i = true := by
  induction h with
  | @here prev i hmem =>
    refine ⟨1, fun m hm => ?_⟩
    obtain ⟨m, rfl⟩ : ∃ m', m = m' + 1 := ⟨m - 1, by omega⟩
    simp [revisitB, hmem]
  | @deeper prev i body src k j hnot hs hk _ ih =>
    obtain ⟨n, hn⟩ := ih
    refine ⟨n + 1, fun m hm => ?_⟩
    obtain ⟨m, rfl⟩ : ∃ m', m = m' + 1 := ⟨m - 1, by omega⟩
    have hc : prev.contains (E.key i) = false := by simpa using hnot
    unfold revisitB
    simp only [hc, Bool.false_eq_true, if_false, hs]
    exact List.any_eq_true.mpr ⟨k, hk, hn m (by omega)⟩

end

/-! ## Divergence: the statement is false of the code -/

section
variable {κ : Type} [DecidableEq κ] (E : Env κ)

theorem growArg_size (k : Nat) : (growArg k).size = 2 * k + 1 := by
  induction k with
  | zero => rfl
  | succ k ih => simp [growArg, Expr.size, one, ih]; omega

theorem growArg_injective {a b : Nat} (h : growArg a = growArg b) : a = b := by
  have := congrArg Expr.size h
  rw [growArg_size, growArg_size] at this
  omega

/-- one step of expansion of `RX(e) 0` with the growing calibration is `RX(e+1) 0`, for every simplifier
that leaves a variable alone -/
theorem oneStep_growing (hsimp : E.simp (.var "t") = .var "t") (e : PExpr) :
    oneStep E codeSubst growingCals (rx e) =
      some ([rx (.bin e .plus one)], .calibration growingCal.identifier) := by
  simp [oneStep, rx, growingCals, getMatchForGate, toCals16, toGate16, toCal16, toParam16, growingCal,
    C16.getMatchForGate, C16.gateLoop, C16.matchesB, C16.allZip, C16.qubitMatch, C16.paramMatch,
    C16.gateStep, toQubit16, hsimp, codeSubst, gateSubstCode, qubitExpansions, variableExpansions,
    substituteQubitVariables, substituteQubitVariable, applyToExpressions, QV.subst, List.lookup, one]

theorem growing_aux (hsimp : E.simp (.var "t") = .var "t") (hkey : Function.Injective E.key) :
    ∀ (n k : Nat) (prev : List κ), (∀ x ∈ prev, ∃ j, j < k ∧ x = E.key (rx (growArg j))) →
      expandInnerWith E codeSubst growingCals n prev (rx (growArg k)) = .outOfFuel := by
  intro n
  induction n with
  | zero => intro k prev _; rfl
  | succ n ih =>
    intro k prev hprev
    unfold expandInnerWith
    have hnc : prev.contains (E.key (rx (growArg k))) = false := by
      simp only [List.contains_eq_mem, decide_eq_false_iff_not]
      intro hmem
      obtain ⟨j, hj, hjk⟩ := hprev _ hmem
      have h1 := hkey hjk
      simp only [rx, Instruction.gate.injEq, Gate.mk.injEq, List.cons.injEq, and_true, true_and] at h1
      have := growArg_injective h1
      omega
    simp only [hnc, Bool.false_eq_true, if_false, oneStep_growing E hsimp]
    have hrec : expandInnerWith E codeSubst growingCals n (E.key (rx (growArg k)) :: prev)
        (rx (growArg (k + 1))) = .outOfFuel := by
      apply ih
      intro x hx
      rcases List.mem_cons.mp hx with rfl | hx
      · exact ⟨k, by omega, rfl⟩
      · obtain ⟨j, hj, hjk⟩ := hprev x hx
        exact ⟨j, by omega, hjk⟩
    have : rx (.bin (growArg k) .plus one) = rx (growArg (k + 1)) := rfl
    rw [this]
    simp [expandSeq, hrec]

/-- **C18 is false of the code (known finding `C18/growing-parameter`)**: for
`DEFCAL RX(%t) 0: RX(%t+1) 0` the expansion of `RX(0) 0` is out of fuel for EVERY amount of fuel — with any
simplifier that leaves a variable alone and any faithful (injective) instruction key.  No instruction ever
repeats (`RX(0) 0`, `RX(0+1) 0`, `RX(0+1+1) 0`, …), so the breadcrumb check never fires and the Rust recursion
has no other bound. -/
theorem growing_diverges (hsimp : E.simp (.var "t") = .var "t") (hkey : Function.Injective E.key) :
    ∀ n, expandFuel E n growingCals (rx zero) = .outOfFuel := by
  intro n
  exact growing_aux E hsimp hkey n 0 [] (by simp)

/-- hence no finite closed set contains `RX(0) 0`: the hypothesis of `expand_terminates` fails exactly
here -/
theorem growing_not_closed (hsimp : E.simp (.var "t") = .var "t") (hkey : Function.Injective E.key)
    (R : List Instruction) (hc : Closed E codeSubst growingCals R) : rx zero ∉ R := by
  intro hmem
  exact expand_terminates E growingCals R hc (rx zero) (Or.inl hmem)
    (growing_diverges E hsimp hkey (R.length + 1))

end

/-! ## Non-vacuity -/

/-- the oracles assumed by `growing_diverges` exist: identity simplifier, identity key (classical equality) -/
example : ∃ (E : Env Instruction), E.simp (.var "t") = .var "t" ∧ Function.Injective E.key :=
  ⟨{ simp := id, key := id }, rfl, fun _ _ h => h⟩

/-- `Closed` is satisfiable non-trivially: with no calibrations every list is closed -/
example (κ : Type) [DecidableEq κ] (E : Env κ) : Closed E codeSubst {} [rx zero, .nop] := by
  intro i _ body src h
  cases i <;> simp [oneStep, getMatchForGate, getMatchForMeasurement, C16.getMatchForGate, C16.gateLoop,
    C16.getMatchForMeasurement, C16.measScan, toCals16, toMCals16] at h

/-- a revisit: `DEFCAL X 0: X 0` (any instruction whose key is among the breadcrumbs) -/
example (κ : Type) [DecidableEq κ] (E : Env κ) (i : Instruction) :
    Revisit E codeSubst {} [E.key i] i i := Revisit.here (by simp)

end QV.C18
