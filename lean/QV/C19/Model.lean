/-
C19 model: the source-map bookkeeping of calibration expansion.

* `Calibrations::recursively_expand_inner` (quil-rs/src/program/calibration.rs:523-607), the part that
  builds `CalibrationExpansion { range, expansions }` next to `new_instructions`;
* `CalibrationExpansion::remove_target_index` (calibration.rs:178-214);
* `Program::append_calibration_expansion_output_inner` (quil-rs/src/program/mod.rs:755-793);
* `Program::expand_calibrations_inner` with a source map (mod.rs:540-574);
* `SourceMap::list_sources` / `list_targets` with `SourceMapIndexable<InstructionIndex>`
  (quil-rs/src/program/source_map.rs:30-53, 102-124; calibration.rs:231-235).

WHICH calibration matches an instruction and what its substituted body is belongs to C16/C17; here the
result of that is an input: the *expansion tree* `Node`.  A `leaf l` is an instruction no calibration
matches (it is kept as it is); `exp l c body` is an instruction `l` matched by calibration `c` whose
(substituted) body is `body`, each body instruction again a `Node`.  The payload type `L` of an
instruction is abstract; the only thing the bookkeeping asks about an instruction is whether
`Program::add_instruction` keeps it out of the program body (`hoisted`).

A `SourceMapEntry<InstructionIndex, ExpansionResult<CalibrationExpansion>>` is an `Entry`:
`unmod src t` = `(src, Unmodified(t))`, `rew src c start stop nested` =
`(src, Rewritten(CalibrationExpansion { calibration_used: c, range: start..stop, expansions: nested }))`.
-/
namespace QV.C19

/-- expansion tree of one instruction (see the header) -/
inductive Node (L C : Type) where
  | leaf (l : L)
  | exp (l : L) (c : C) (body : List (Node L C))
  deriving Repr, Inhabited

/-- one source-map entry, together with its source index -/
inductive Entry (C : Type) where
  | unmod (src t : Nat)
  | rew (src : Nat) (c : C) (start stop : Nat) (nested : List (Entry C))
  deriving Repr, Inhabited

variable {L C : Type}

def Node.root : Node L C → L
  | .leaf l => l
  | .exp l _ _ => l

def Entry.src : Entry C → Nat
  | .unmod s _ => s
  | .rew s _ _ _ _ => s

/-! ### `recursively_expand_inner` -/

/-- The `for (expanded_index, instruction) in instructions.into_iter().enumerate()` loop of
`recursively_expand_inner` with `build_source_map = true` (calibration.rs:540-592).
`k` is `expanded_index`, `off` is `new_instructions.len()` when the instruction is reached.
Returns what is appended to `new_instructions` and to `detail.expansions.entries`.
A nested expansion's own `range` is overwritten by the caller (`output.detail.range =
range_start..range_end`, line 557), which is why the nested call needs no offset: its entries are
relative to its own `new_instructions`, which start at 0. -/
def expBody : List (Node L C) → Nat → Nat → List L × List (Entry C)
  | [], _, _ => ([], [])
  | .leaf l :: rest, k, off =>
    -- `None` arm (573-590): entry `Unmodified(new_instructions.len())`, push the instruction
    let r := expBody rest (k + 1) (off + 1)
    (l :: r.1, .unmod k off :: r.2)
  | .exp _ c body :: rest, k, off =>
    -- `Some(output)` arm (544-566): range_start = len, extend, range_end = len
    let b := expBody body 0 0
    let r := expBody rest (k + 1) (off + b.1.length)
    (b.1 ++ r.1, .rew k c off (off + b.1.length) b.2 :: r.2)

/-! ### `remove_target_index` -/

/-- `CalibrationExpansion::remove_target_index` (calibration.rs:178-214) applied to the expansion held
by every `Rewritten` entry of a list — i.e. the `retain_mut` closure (200-212) — with the function
itself inlined in the `rew` case: `within` is `target_within_expansion`; the start moves when it is
`>` the removed index, the end when it is `>` it; the nested entries are visited only when the index
lies within the range as it stood before the adjustment; an entry is retained iff its (adjusted) range
is non-empty; `Unmodified` entries are kept as they are (neither dropped nor shifted). -/
def retain (t : Nat) : List (Entry C) → List (Entry C)
  | [] => []
  | .unmod s u :: rest => .unmod s u :: retain t rest
  | .rew s c a b ns :: rest =>
    let within := a ≤ t && t < b
    let a' := if a > t then a - 1 else a
    let b' := if b > t then b - 1 else b
    let ns' := if within then retain (t - a) ns else ns
    if a' < b' then .rew s c a' b' ns' :: retain t rest else retain t rest

/-- The state of `expansion_output.detail` in `append_calibration_expansion_output_inner`:
`range` and `expansions.entries` (the calibration is constant). -/
structure Detail (C : Type) where
  start : Nat
  stop : Nat
  entries : List (Entry C)
  deriving Repr

/-- `remove_target_index` on the top-level detail (same code as in `retain`, without the retention test). -/
def Detail.remove (d : Detail C) (t : Nat) : Detail C :=
  let within := d.start ≤ t && t < d.stop
  { start := if d.start > t then d.start - 1 else d.start
    stop := if d.stop > t then d.stop - 1 else d.stop
    entries := if within then retain (t - d.start) d.entries else d.entries }

/-! ### `append_calibration_expansion_output_inner` -/

/-- The `for instruction in expansion_output.new_instructions` loop (mod.rs:764-778).
`n` = number of instructions of this expansion that were pushed to the program body so far
(`start_length - previous_program_instruction_body_length`); returns the pushed instructions (in
order) and the adjusted detail. -/
def appendLoop (hoisted : L → Bool) : List L → Nat → Detail C → List L × Detail C
  | [], _, d => ([], d)
  | l :: rest, n, d =>
    if hoisted l then appendLoop hoisted rest n (d.remove n)
    else
      let r := appendLoop hoisted rest (n + 1) d
      (l :: r.1, r.2)

/-- the model's outcome: the expanded body and the source map, or a crash (arithmetic overflow) -/
inductive Outcome (L C : Type) where
  | ok (body : List L) (map : List (Entry C))
  | crash (why : String)
  deriving Repr

/-- `Program::expand_calibrations_inner` with `Some(source_mapping)` (mod.rs:548-571), on expansion
trees. `k` = `index`, `body` = `new_program.instructions` so far (reversed accumulation is avoided:
`body` is the list in order), `map` = `source_mapping.entries` so far. -/
def expandFrom (hoisted : L → Bool) : List (Node L C) → Nat → List L → List (Entry C) → Outcome L C
  | [], _, body, map => .ok body map
  | .leaf l :: rest, k, body, map =>
    -- `None` arm (559-569): add_instruction, then `Unmodified(new_program.instructions.len() - 1)`
    let body' := if hoisted l then body else body ++ [l]
    if body'.length = 0 then .crash "attempt to subtract with overflow"
    else expandFrom hoisted rest (k + 1) body' (map ++ [.unmod k (body'.length - 1)])
  | .exp _ c nodes :: rest, k, body, map =>
    -- `Some(expanded)` arm: append_calibration_expansion_output_inner (755-789)
    let b := expBody nodes 0 0
    -- recursively_expand_inner's final `detail.range = 0..new_instructions.len()` (calibration.rs:597)
    let r := appendLoop hoisted b.1 0 { start := 0, stop := b.1.length, entries := b.2 }
    let body' := body ++ r.1
    -- `detail.range = previous_len..len`; pushed only if the range is not empty (780-789)
    if body.length < body'.length then
      expandFrom hoisted rest (k + 1) body' (map ++ [.rew k c body.length body'.length r.2.entries])
    else expandFrom hoisted rest (k + 1) body' map

/-- `Program::expand_calibrations_with_source_map` (mod.rs:523-533) on expansion trees. -/
def expandProgram (hoisted : L → Bool) (nodes : List (Node L C)) : Outcome L C :=
  expandFrom hoisted nodes 0 [] []

/-- Which arm of `Program::add_instruction` (mod.rs:233-306) an instruction takes, by kind: the kinds
that are stored outside `Program::instructions` ("hoisted"). The harness sends the kind of every
instruction (`caldef | circuitdef | framedef | declaration | gatedef | measurecaldef | waveformdef |
pragma-extern | pragma | gate | measurement | other`). -/
def hoistedKind (kind : String) : Bool :=
  kind == "caldef" || kind == "circuitdef" || kind == "framedef" || kind == "declaration" ||
  kind == "gatedef" || kind == "measurecaldef" || kind == "waveformdef" || kind == "pragma-extern"

/-! ### `SourceMap::list_sources` / `list_targets` with `InstructionIndex` queries -/

/-- `ExpansionResult::<CalibrationExpansion>::contains(&InstructionIndex)` (source_map.rs:114-124,
calibration.rs:231-235) -/
def Entry.contains : Entry C → Nat → Bool
  | .unmod _ u, t => u == t
  | .rew _ _ a b _, t => a ≤ t && t < b

/-- `SourceMap::list_sources(&InstructionIndex)` -/
def listSources (m : List (Entry C)) (t : Nat) : List Nat :=
  (m.filter (·.contains t)).map Entry.src

/-- `ExpansionResult::<CalibrationExpansion>::contains(&CalibrationSource)` (source_map.rs:126-137,
calibration.rs:237-241): only a `Rewritten` entry, and only by its own `calibration_used` -/
def Entry.isFrom [DecidableEq C] : Entry C → C → Bool
  | .unmod _ _, _ => false
  | .rew _ c' _ _ _, c => decide (c' = c)

/-- `SourceMap::list_sources(&CalibrationSource)` -/
def listSourcesByCal [DecidableEq C] (m : List (Entry C)) (c : C) : List Nat :=
  (m.filter (·.isFrom c)).map Entry.src

/-- `Calibrations::expand_with_detail(instruction, &[])` (calibration.rs:377-383) on an expansion tree: the
new instructions and the detail BEFORE any hoisted instruction is removed (`range = 0..len`). -/
def expandWithDetail : Node L C → Option (List L × Detail C)
  | .leaf _ => none
  | .exp _ _ body =>
    let b := expBody body 0 0
    some (b.1, { start := 0, stop := b.1.length, entries := b.2 })

/-- `SourceMap::list_targets(&InstructionIndex)`: the entries (their target locations) whose source
location equals `s` -/
def listTargets (m : List (Entry C)) (s : Nat) : List (Entry C) :=
  m.filter (·.src == s)

end QV.C19
