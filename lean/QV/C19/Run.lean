import QV.Wire
import QV.C19.Model
import QV.C19.Spec
/-! Driver side of the C19 correspondence check. -/
namespace QV.C19
open QV

/-- an instruction as the harness projects it: Quil text and `add_instruction` kind -/
structure Instr where
  text : String
  kind : String
  deriving DecidableEq, Repr, Inhabited

def hoisted (i : Instr) : Bool := hoistedKind i.kind
def alive (i : Instr) : Bool := !hoisted i

def decodeInstr : Sexp → Option Instr
  | .list [.atom "i", .str t, .atom k] => some ⟨t, k⟩
  | _ => none

def decodeAll {α : Type} (f : Sexp → Option α) : List Sexp → Option (List α)
  | [] => some []
  | x :: xs => match f x, decodeAll f xs with
    | some a, some as => some (a :: as)
    | _, _ => none

partial def decodeNode : Sexp → Option (Node Instr String)
  | .list [.atom "leaf", i] => match decodeInstr i with
    | some l => some (Node.leaf l)
    | none => none
  | .list [.atom "exp", i, .str c, .list body] =>
    match decodeInstr i, decodeAll decodeNode body with
    | some i, some b => some (.exp i c b)
    | _, _ => none
  | _ => none

mutual
partial def decodeTarget (s : Nat) : Sexp → Option (Entry String)
  | .list [.atom "u", .atom t] => t.toNat?.map (.unmod s)
  | .list [.atom "r", .str c, .atom a, .atom b, .list es] =>
    match a.toNat?, b.toNat?, decodeAll decodeEntry es with
    | some a, some b, some es => some (.rew s c a b es)
    | _, _, _ => none
  | _ => none
partial def decodeEntry : Sexp → Option (Entry String)
  | .list [.atom s, t] => match s.toNat? with
    | some s => decodeTarget s t
    | none => none
  | _ => none
end

/-- `list_targets` answers, one per source index starting at `s` -/
def decodeTargets : Nat → List Sexp → Option (List (List (Entry String)))
  | _, [] => some []
  | s, .list ts :: rest =>
    match decodeAll (decodeTarget s) ts, decodeTargets (s + 1) rest with
    | some a, some as => some (a :: as)
    | _, _ => none
  | _, _ => none

def entriesBeq : List (Entry String) → List (Entry String) → Bool
  | [], [] => true
  | .unmod s t :: r, .unmod s' t' :: r' => s == s' && t == t' && entriesBeq r r'
  | .rew s c a b ns :: r, .rew s' c' a' b' ns' :: r' =>
    s == s' && c == c' && a == a' && b == b' && entriesBeq ns ns' && entriesBeq r r'
  | _, _ => false

def mapDepth : List (Entry String) → Nat
  | [] => 0
  | .unmod _ _ :: r => mapDepth r
  | .rew _ _ _ _ ns :: r => max (1 + mapDepth ns) (mapDepth r)

def mapSize : List (Entry String) → Nat
  | [] => 0
  | .unmod _ _ :: r => 1 + mapSize r
  | .rew _ _ _ _ ns :: r => 1 + mapSize ns + mapSize r

def hasEmptyRange : List (Entry String) → Bool
  | [] => false
  | .unmod _ _ :: r => hasEmptyRange r
  | .rew _ _ a b ns :: r => a == b || hasEmptyRange ns || hasEmptyRange r

def natList (x : Sexp) : Option (List Nat) :=
  match x with
  | .list xs => decodeAll Sexp.asNat? xs
  | _ => none

/-- where hoisted leaves sit in calibration bodies: first / middle / last position -/
def hoistPositions : List (Node Instr String) → List String
  | [] => []
  | .leaf _ :: r => hoistPositions r
  | .exp _ _ body :: r =>
    let n := body.length
    let here := (List.range n).filterMap fun k => match (body[k]? : Option (Node Instr String)) with
      | some (Node.leaf l) =>
        if hoisted l then some (if n == 1 then "hoist-only" else if k == 0 then "hoist-first"
          else if k + 1 == n then "hoist-last" else "hoist-middle") else none
      | _ => none
    here ++ hoistPositions body ++ hoistPositions r

def handle (inp out : Sexp) : CaseResult :=
  match inp with
  | .list [.atom "cyclic", _] =>
    let ok := out == Sexp.list [.atom "err", .atom "recursive"]
    { agree := ok, specOk := true, nontrivial := false, tags := ["cyclic"], detail := s!"impl={out}" }
  | .list [.atom "prog", .list ns] =>
    match decodeAll decodeNode ns with
    | none => .bad s!"undecodable input {inp}"
    | some nodes =>
      match out with
      | .list [.atom "ok", .list body, .list es, .list srcs, .list tgts, .atom same] =>
        match decodeAll decodeInstr body, decodeAll decodeEntry es, decodeAll natList srcs with
        | some body, some m, some srcs =>
          -- list_targets answers: one list of targets per source index 0..=|src|
          let tgts? : Option (List (List (Entry String))) :=
            decodeTargets 0 tgts
          match tgts? with
          | none => .bad s!"undecodable targets {out}"
          | some tgts =>
            let same := same == "true"
            let model := expandProgram hoisted nodes
            let (mBody, mMap, mOk) := match model with
              | .ok b mm => (b, mm, true)
              | .crash _ => ([], [], false)
            -- the model's answers to the queries the harness asked
            let mSrcs := (List.range (body.length + 1)).map (listSources mMap)
            let mTgts := (List.range (nodes.length + 1)).map (listTargets mMap)
            let agree := mOk && decide (mBody = body) && entriesBeq mMap m && same &&
              decide (mSrcs = srcs) && mTgts.length == tgts.length &&
              (mTgts.zip tgts).all (fun p => entriesBeq p.1 p.2)
            -- the spec on the implementation's output
            let wf := wfB nodes body m
            -- list_sources / list_targets on the implementation: inverse of each other, single-valued
            let inverse :=
              (List.range srcs.length).all (fun t => (List.range tgts.length).all (fun s =>
                ((srcs.getD t []).contains s) == ((tgts.getD s []).any (·.contains t)))) &&
              (List.range body.length).all (fun t => (srcs.getD t []).length == 1) &&
              (srcs.getD body.length []).isEmpty &&
              tgts.all (fun l => l.length ≤ 1)
            let bodyOk := decide (body = flat alive nodes)
            let specOk := wf && inverse && same && bodyOk
            let dead := deadInBody alive nodes
            let kf := !wf && inverse && same && bodyOk && dead && exactB alive true false 0 0 nodes m
            let tags :=
              ["ok", s!"depth{min (mapDepth m) 4}", s!"size{min (mapSize m / 4 * 4) 24}",
               s!"top{min m.length 6}", s!"out{min body.length 8}"] ++
              (if dead then ["hoist-in-body"] else []) ++
              (if hasEmptyRange m then ["empty-range"] else []) ++
              (if m.length < nodes.length then ["dropped-top-entry"] else []) ++
              (hoistPositions nodes).eraseDups ++
              (if nodes.any (fun n => match n with | .exp i _ _ => i.kind == "measurement" | _ => false)
                then ["measure-cal"] else []) ++
              (if kf then ["kf:C19/hoisted-instruction-stale-unmodified-entries"] else [])
            { agree := agree, specOk := specOk,
              nontrivial := m.any (fun e => match e with | .rew .. => true | _ => false),
              tags := tags,
              detail := s!"wf={wf} inverse={inverse} same={same} bodyOk={bodyOk} model={repr model} impl={out}" }
        | _, _, _ => .bad s!"undecodable output {out}"
      | _ =>
        { agree := false, specOk := false, nontrivial := false, tags := ["impl-error-or-crash"],
          detail := s!"impl={out}" }
  | _ => .bad s!"undecodable input {inp}"

end QV.C19

def main : IO UInt32 := QV.runMain QV.C19.handle
