import QV.Wire
import QV.C19.Model
import QV.C19.Spec
/-! Driver side of the C19 correspondence check. -/
namespace QV.C19
open QV

/-- an instruction as the harness projects it: Quil text and `add_instruction` kind -/
structure Instr where
  text : String
  kind : String
  deriving DecidableEq, Repr, Inhabited

def hoisted (i : Instr) : Bool := hoistedKind i.kind
def alive (i : Instr) : Bool := !hoisted i

def decodeInstr : Sexp → Option Instr
  | .list [.atom "i", .str t, .atom k] => some ⟨t, k⟩
  | _ => none

def decodeAll {α : Type} (f : Sexp → Option α) : List Sexp → Option (List α)
  | [] => some []
  | x :: xs => match f x, decodeAll f xs with
    | some a, some as => some (a :: as)
    | _, _ => none

partial def decodeNode : Sexp → Option (Node Instr String)
  | .list [.atom "leaf", i] => match decodeInstr i with
    | some l => some (Node.leaf l)
    | none => none
  | .list [.atom "exp", i, .str c, .list body] =>
    match decodeInstr i, decodeAll decodeNode body with
    | some i, some b => some (.exp i c b)
    | _, _ => none
  | _ => none

mutual
partial def decodeTarget (s : Nat) : Sexp → Option (Entry String)
  | .list [.atom "u", .atom t] => t.toNat?.map (.unmod s)
  | .list [.atom "r", .str c, .atom a, .atom b, .list es] =>
    match a.toNat?, b.toNat?, decodeAll decodeEntry es with
    | some a, some b, some es => some (.rew s c a b es)
    | _, _, _ => none
  | _ => none
partial def decodeEntry : Sexp → Option (Entry String)
  | .list [.atom s, t] => match s.toNat? with
    | some s => decodeTarget s t
    | none => none
  | _ => none
end

/-- `list_targets` answers, one per source index starting at `s` -/
def decodeTargets : Nat → List Sexp → Option (List (List (Entry String)))
  | _, [] => some []
  | s, .list ts :: rest =>
    match decodeAll (decodeTarget s) ts, decodeTargets (s + 1) rest with
    | some a, some as => some (a :: as)
    | _, _ => none
  | _, _ => none

def entriesBeq : List (Entry String) → List (Entry String) → Bool
  | [], [] => true
  | .unmod s t :: r, .unmod s' t' :: r' => s == s' && t == t' && entriesBeq r r'
  | .rew s c a b ns :: r, .rew s' c' a' b' ns' :: r' =>
    s == s' && c == c' && a == a' && b == b' && entriesBeq ns ns' && entriesBeq r r'
  | _, _ => false

def mapDepth : List (Entry String) → Nat
  | [] => 0
  | .unmod _ _ :: r => mapDepth r
  | .rew _ _ _ _ ns :: r => max (1 + mapDepth ns) (mapDepth r)

def mapSize : List (Entry String) → Nat
  | [] => 0
  | .unmod _ _ :: r => 1 + mapSize r
  | .rew _ _ _ _ ns :: r => 1 + mapSize ns + mapSize r

def hasEmptyRange : List (Entry String) → Bool
  | [] => false
  | .unmod _ _ :: r => hasEmptyRange r
  | .rew _ _ a b ns :: r => a == b || hasEmptyRange ns || hasEmptyRange r

def natList (x : Sexp) : Option (List Nat) :=
  match x with
  | .list xs => decodeAll Sexp.asNat? xs
  | _ => none

/-- what the harness asks of every nested map, in preorder over the `Rewritten` entries:
`list_sources` for `t = 0..=len`, `list_targets` for `s = 0..=max source + 1` -/
def nestedExpected : List (Entry String) → List (List (List Nat) × List (List (Entry String)))
  | [] => []
  | .unmod _ _ :: r => nestedExpected r
  | .rew _ _ a b ns :: r =>
    let cnt := match (ns.map Entry.src).max? with
      | some m => m + 2
      | none => 1
    ((List.range (b - a + 1)).map (listSources ns), (List.range cnt).map (listTargets ns)) ::
      (nestedExpected ns ++ nestedExpected r)

def decodeNested : Sexp → Option (List (List Nat) × List (List (Entry String)))
  | .list [.list srcs, .list tgts] =>
    match decodeAll natList srcs, decodeTargets 0 tgts with
    | some a, some b => some (a, b)
    | _, _ => none
  | _ => none

def nestedBeq : List (List (List Nat) × List (List (Entry String))) →
    List (List (List Nat) × List (List (Entry String))) → Bool
  | [], [] => true
  | (a, b) :: r, (a', b') :: r' =>
    decide (a = a') && b.length == b'.length && (b.zip b').all (fun p => entriesBeq p.1 p.2) && nestedBeq r r'
  | _, _ => false

/-- `expand_with_detail` of one source instruction: `none` or `(d instrs (r cal 0 len entries) samePlain)` -/
def decodeDetail (idx : Nat) : Sexp → Option (Option (List Instr × Entry String × Bool))
  | .atom "none" => some none
  | .list [.atom "d", .list is, t, .atom same] =>
    match decodeAll decodeInstr is, decodeTarget idx t with
    | some is, some e => some (some (is, e, same == "true"))
    | _, _ => none
  | _ => none

def decodeDetails : Nat → List Sexp → Option (List (Option (List Instr × Entry String × Bool)))
  | _, [] => some []
  | k, x :: xs => match decodeDetail k x, decodeDetails (k + 1) xs with
    | some a, some as => some (a :: as)
    | _, _ => none

/-- model answer and spec for `expand_with_detail` on node `n` (source index `k`) -/
def detailCheck (k : Nat) (n : Node Instr String) (o : Option (List Instr × Entry String × Bool)) : Bool × Bool :=
  match expandWithDetail n, n, o with
  | none, _, none => (true, true)
  | some (is, d), .exp _ c body, some (is', e, same) =>
    let agree := decide (is = is') && entriesBeq [.rew k c d.start d.stop d.entries] [e] && same
    -- before anything is hoisted the detail is ALWAYS a well-formed map of the calibration body
    let spec := match e with
      | .rew _ c' a b ns => c' == c && a == 0 && b == is'.length && wfB body is' ns
      | _ => false
    (agree, spec)
  | _, _, _ => (false, false)

def byCalEntry : Sexp → Option (String × List Nat)
  | .list [.str c, l] => (natList l).map (c, ·)
  | _ => none

/-- where hoisted leaves sit in calibration bodies: first / middle / last position -/
def hoistPositions : List (Node Instr String) → List String
  | [] => []
  | .leaf _ :: r => hoistPositions r
  | .exp _ _ body :: r =>
    let n := body.length
    let here := (List.range n).filterMap fun k => match (body[k]? : Option (Node Instr String)) with
      | some (Node.leaf l) =>
        if hoisted l then some (if n == 1 then "hoist-only" else if k == 0 then "hoist-first"
          else if k + 1 == n then "hoist-last" else "hoist-middle") else none
      | _ => none
    here ++ hoistPositions body ++ hoistPositions r

def handle (inp out : Sexp) : CaseResult :=
  match inp with
  | .list [.atom "cyclic", _] =>
    let ok := out == Sexp.list [.atom "err", .atom "recursive"]
    { agree := ok, specOk := true, nontrivial := false, tags := ["cyclic"], detail := s!"impl={out}" }
  | .list [.atom "prog", .list ns] =>
    match decodeAll decodeNode ns with
    | none => .bad s!"undecodable input {inp}"
    | some nodes =>
      match out with
      | .list [.atom "ok", .list body, .list es, .list srcs, .list tgts, .atom same, .list details,
          .list byCal, .list nested] =>
        match decodeAll decodeInstr body, decodeAll decodeEntry es, decodeAll natList srcs,
          decodeDetails 0 details, decodeAll byCalEntry byCal, decodeAll decodeNested nested with
        | some body, some m, some srcs, some details, some byCal, some nested =>
          -- list_targets answers: one list of targets per source index 0..=|src|
          let tgts? : Option (List (List (Entry String))) :=
            decodeTargets 0 tgts
          match tgts? with
          | none => .bad s!"undecodable targets {out}"
          | some tgts =>
            let same := same == "true"
            let model := expandProgram hoisted nodes
            let (mBody, mMap, mOk) := match model with
              | .ok b mm => (b, mm, true)
              | .crash _ => ([], [], false)
            -- the model's answers to the queries the harness asked
            let mSrcs := (List.range (body.length + 1)).map (listSources mMap)
            let mTgts := (List.range (nodes.length + 1)).map (listTargets mMap)
            -- instruction-level entry point, calibration-source queries, queries on every nested map
            let detailRes := (List.range nodes.length).map fun k =>
              match nodes[k]?, details[k]? with
              | some n, some o => detailCheck k n o
              | _, _ => (false, false)
            let detailAgree := details.length == nodes.length && detailRes.all (·.1)
            let detailSpec := detailRes.all (·.2)
            let byCalAgree := byCal.all fun (c, l) => decide (listSourcesByCal m c = l)
            let byCalSpec := byCal.all fun (c, l) => l.all fun s => match nodes[s]? with
              | some (.exp _ c' _) => c' == c
              | _ => false
            let nestedAgree := nestedBeq (nestedExpected m) nested
            let agree := mOk && decide (mBody = body) && entriesBeq mMap m && same &&
              decide (mSrcs = srcs) && mTgts.length == tgts.length &&
              (mTgts.zip tgts).all (fun p => entriesBeq p.1 p.2) &&
              detailAgree && byCalAgree && nestedAgree
            -- the spec on the implementation's output
            let wf := wfB nodes body m
            -- list_sources / list_targets on the implementation: inverse of each other, single-valued
            let inverse :=
              (List.range srcs.length).all (fun t => (List.range tgts.length).all (fun s =>
                ((srcs.getD t []).contains s) == ((tgts.getD s []).any (·.contains t)))) &&
              (List.range body.length).all (fun t => (srcs.getD t []).length == 1) &&
              (srcs.getD body.length []).isEmpty &&
              tgts.all (fun l => l.length ≤ 1)
            let bodyOk := decide (body = flat alive nodes)
            let specOk := wf && inverse && same && bodyOk && detailSpec && byCalSpec
            let dead := deadInBody alive nodes
            let kf := !wf && inverse && same && bodyOk && detailSpec && byCalSpec && dead &&
              exactB alive true false 0 0 nodes m
            let tags :=
              ["ok", s!"depth{min (mapDepth m) 4}", s!"size{min (mapSize m / 4 * 4) 24}",
               s!"top{min m.length 6}", s!"out{min body.length 8}"] ++
              (if dead then ["hoist-in-body"] else []) ++
              (if hasEmptyRange m then ["empty-range"] else []) ++
              (if m.length < nodes.length then ["dropped-top-entry"] else []) ++
              (hoistPositions nodes).eraseDups ++
              (if nodes.any (fun n => match n with | .exp i _ _ => i.kind == "measurement" | _ => false)
                then ["measure-cal"] else []) ++
              (if nodes.any (fun n => match n with | .leaf i => i.text.startsWith "DAGGER" | .exp i _ _ => i.text.startsWith "DAGGER")
                then ["modified-gate"] else []) ++
              (if byCal.any (fun p => p.2.length ≥ 2) then ["calibration-used-twice-at-top"] else []) ++
              (if kf then ["kf:C19/hoisted-instruction-stale-unmodified-entries"] else [])
            { agree := agree, specOk := specOk,
              nontrivial := m.any (fun e => match e with | .rew .. => true | _ => false),
              tags := tags,
              detail := s!"wf={wf} inverse={inverse} same={same} bodyOk={bodyOk} detailAgree={detailAgree} detailSpec={detailSpec} byCalAgree={byCalAgree} byCalSpec={byCalSpec} nestedAgree={nestedAgree} model={repr model} impl={out}" }
        | _, _, _, _, _, _ => .bad s!"undecodable output {out}"
      | _ =>
        { agree := false, specOk := false, nontrivial := false, tags := ["impl-error-or-crash"],
          detail := s!"impl={out}" }
  | _ => .bad s!"undecodable input {inp}"

end QV.C19

def main : IO UInt32 := QV.runMain QV.C19.handle
