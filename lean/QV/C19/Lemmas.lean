import QV.C19.Spec
/-! Helper lemmas for C19 (core Lean only). -/
namespace QV.C19
variable {L C : Type}

/-! ### the Bool checker -/

theorem localB_iff (nN nO : Nat) (es : List (Entry C)) :
    localB nN nO es = true ↔
      es.Pairwise (fun x y => x.src < y.src) ∧ (∀ e ∈ es, e.src < nN) ∧ (∀ t, t < nO → hits es t = 1) := by
  simp [localB, List.all_eq_true, and_assoc]

/-- clauses 2–4 of `WF` -/
def EntriesOK (nodes : List (Node L C)) (out : List L) (es : List (Entry C)) : Prop :=
  (∀ s t, Entry.unmod s t ∈ es → ∃ n, nodes[s]? = some n ∧ out[t]? = some n.root) ∧
  (∀ s c a b ns, Entry.rew s c a b ns ∈ es →
    a ≤ b ∧ b ≤ out.length ∧ ∃ l body, nodes[s]? = some (.exp l c body)) ∧
  (∀ s c a b ns l body, Entry.rew s c a b ns ∈ es → nodes[s]? = some (.exp l c body) →
    WF body (slice out a b) ns)

theorem wf_iff (nodes : List (Node L C)) (out : List L) (es : List (Entry C)) :
    WF nodes out es ↔
      (es.Pairwise (fun x y => x.src < y.src) ∧ (∀ e ∈ es, e.src < nodes.length) ∧
        (∀ t, t < out.length → hits es t = 1)) ∧ EntriesOK nodes out es := by
  constructor
  · intro h
    cases h with
    | mk h1 h2 h3 h4 h5 h6 => exact ⟨⟨h1, h2, h6⟩, h3, h4, h5⟩
  · rintro ⟨⟨h1, h2, h6⟩, h3, h4, h5⟩
    exact .mk h1 h2 h3 h4 h5 h6

theorem entriesOK_nil (nodes : List (Node L C)) (out : List L) : EntriesOK nodes out [] := by
  refine ⟨?_, ?_, ?_⟩ <;> intros <;> simp_all

theorem entriesOK_cons_unmod (nodes : List (Node L C)) (out : List L) (s t : Nat) (rest : List (Entry C)) :
    EntriesOK nodes out (.unmod s t :: rest) ↔
      (∃ n, nodes[s]? = some n ∧ out[t]? = some n.root) ∧ EntriesOK nodes out rest := by
  unfold EntriesOK
  constructor
  · rintro ⟨h1, h2, h3⟩
    refine ⟨h1 s t (by simp), fun s' t' hm => h1 s' t' (by simp [hm]),
      fun s' c a b ns hm => h2 s' c a b ns (by simp [hm]),
      fun s' c a b ns l body hm => h3 s' c a b ns l body (by simp [hm])⟩
  · rintro ⟨h0, h1, h2, h3⟩
    refine ⟨?_, ?_, ?_⟩
    · intro s' t' hm
      simp only [List.mem_cons, Entry.unmod.injEq] at hm
      rcases hm with ⟨rfl, rfl⟩ | hm
      · exact h0
      · exact h1 s' t' hm
    · intro s' c a b ns hm
      simp only [List.mem_cons, reduceCtorEq, false_or] at hm
      exact h2 s' c a b ns hm
    · intro s' c a b ns l body hm
      simp only [List.mem_cons, reduceCtorEq, false_or] at hm
      exact h3 s' c a b ns l body hm

theorem entriesOK_cons_rew (nodes : List (Node L C)) (out : List L) (s : Nat) (c : C) (a b : Nat)
    (ns rest : List (Entry C)) :
    EntriesOK nodes out (.rew s c a b ns :: rest) ↔
      (a ≤ b ∧ b ≤ out.length ∧ ∃ l body, nodes[s]? = some (.exp l c body) ∧ WF body (slice out a b) ns) ∧
        EntriesOK nodes out rest := by
  unfold EntriesOK
  constructor
  · rintro ⟨h1, h2, h3⟩
    obtain ⟨ha, hb, l, body, hn⟩ := h2 s c a b ns (by simp)
    refine ⟨⟨ha, hb, l, body, hn, h3 s c a b ns l body (by simp) hn⟩,
      fun s' t' hm => h1 s' t' (by simp [hm]),
      fun s' c a b ns hm => h2 s' c a b ns (by simp [hm]),
      fun s' c a b ns l body hm => h3 s' c a b ns l body (by simp [hm])⟩
  · rintro ⟨⟨ha, hb, l, body, hn, hw⟩, h1, h2, h3⟩
    refine ⟨?_, ?_, ?_⟩
    · intro s' t' hm
      simp only [List.mem_cons, reduceCtorEq, false_or] at hm
      exact h1 s' t' hm
    · intro s' c' a' b' ns' hm
      simp only [List.mem_cons, Entry.rew.injEq] at hm
      rcases hm with ⟨rfl, rfl, rfl, rfl, rfl⟩ | hm
      · exact ⟨ha, hb, l, body, hn⟩
      · exact h2 s' c' a' b' ns' hm
    · intro s' c' a' b' ns' l' body' hm hn'
      simp only [List.mem_cons, Entry.rew.injEq] at hm
      rcases hm with ⟨rfl, rfl, rfl, rfl, rfl⟩ | hm
      · rw [hn] at hn'
        simp only [Option.some.injEq, Node.exp.injEq] at hn'
        obtain ⟨_, _, rfl⟩ := hn'
        exact hw
      · exact h3 s' c' a' b' ns' l' body' hm hn'

theorem entriesB_iff [DecidableEq L] [DecidableEq C] (nodes : List (Node L C)) (out : List L)
    (es : List (Entry C)) : entriesB nodes out es = true ↔ EntriesOK nodes out es := by
  fun_induction entriesB nodes out es with
  | case1 => simp [entriesOK_nil]
  | case2 nodes out s t rest ih =>
    rw [entriesOK_cons_unmod, ← ih, Bool.and_eq_true]
    refine and_congr ?_ Iff.rfl
    cases nodes[s]? <;> simp
  | case3 nodes out s c a b ns rest ih1 ih2 =>
    rw [entriesOK_cons_rew, ← ih2, Bool.and_eq_true]
    refine and_congr ?_ Iff.rfl
    rcases hn : nodes[s]? with _ | n
    · simp
    · cases n with
      | leaf l => simp
      | exp l c' body =>
        have hw : WF body (slice out a b) ns ↔
            (localB body.length (slice out a b).length ns = true ∧
              entriesB body (slice out a b) ns = true) := by
          rw [wf_iff, localB_iff, ih1 body]
        simp only [Bool.and_eq_true, decide_eq_true_eq, Option.some.injEq, Node.exp.injEq]
        constructor
        · rintro ⟨⟨ha, hb⟩, ⟨hc, h1⟩, h2⟩
          exact ⟨ha, hb, l, body, ⟨rfl, hc, rfl⟩, hw.2 ⟨h1, h2⟩⟩
        · rintro ⟨ha, hb, l', body', ⟨rfl, rfl, rfl⟩, hwf⟩
          exact ⟨⟨ha, hb⟩, ⟨rfl, (hw.1 hwf).1⟩, (hw.1 hwf).2⟩

theorem wfB_iff' [DecidableEq L] [DecidableEq C] (nodes : List (Node L C)) (out : List L)
    (es : List (Entry C)) : wfB nodes out es = true ↔ WF nodes out es := by
  rw [wf_iff, wfB, Bool.and_eq_true, localB_iff, entriesB_iff]

/-! ### `flat`, `slice`, `hits` -/

@[simp] theorem flat_nil (alive : L → Bool) : flat alive ([] : List (Node L C)) = [] := by simp [flat]

theorem flat_cons_leaf (alive : L → Bool) (l : L) (rest : List (Node L C)) :
    flat alive (.leaf l :: rest) = (if alive l then [l] else []) ++ flat alive rest := by
  simp only [flat]; split <;> simp

@[simp] theorem flat_cons_exp (alive : L → Bool) (l : L) (c : C) (body rest : List (Node L C)) :
    flat alive (.exp l c body :: rest) = flat alive body ++ flat alive rest := by simp [flat]

theorem flat_cons (alive : L → Bool) (n : Node L C) (rest : List (Node L C)) :
    flat alive (n :: rest) = flat alive [n] ++ flat alive rest := by
  cases n with
  | leaf l => simp [flat_cons_leaf]
  | exp l c body => simp

theorem slice_append_right (x ys : List L) (a b : Nat) (h : x.length ≤ a) :
    slice (x ++ ys) a b = slice ys (a - x.length) (b - x.length) := by
  unfold slice
  rw [List.drop_append, List.drop_eq_nil_of_le h, List.nil_append]
  congr 1; omega

theorem slice_append_left (x ys : List L) : slice (x ++ ys) 0 x.length = x := by
  simp [slice]

theorem hits_cons (e : Entry C) (es : List (Entry C)) (t : Nat) :
    hits (e :: es) t = (if e.contains t then 1 else 0) + hits es t := by
  simp only [hits, List.filter_cons]
  split <;> simp <;> omega

/-! ### consequences of `Exact` -/

theorem exact_src_bounds {alive : L → Bool} {sH sN : Bool} {off k : Nat} {nodes : List (Node L C)}
    {es : List (Entry C)} (h : Exact alive sH sN off k nodes es) :
    ∀ e ∈ es, k ≤ e.src ∧ e.src < k + nodes.length := by
  induction h with
  | nil => simp
  | leaf _ _ ih =>
    intro e he
    simp only [List.mem_cons] at he
    rcases he with rfl | he
    · simp [Entry.src]
    · have := ih e he; simp only [List.length_cons]; omega
  | skip _ _ ih =>
    intro e he
    have := ih e he; simp only [List.length_cons]; omega
  | exp _ _ _ ih =>
    intro e he
    simp only [List.mem_cons] at he
    rcases he with rfl | he
    · simp [Entry.src]
    · have := ih e he; simp only [List.length_cons]; omega

theorem exact_pairwise {alive : L → Bool} {sH sN : Bool} {off k : Nat} {nodes : List (Node L C)}
    {es : List (Entry C)} (h : Exact alive sH sN off k nodes es) :
    es.Pairwise (fun x y => x.src < y.src) := by
  induction h with
  | nil => simp
  | @leaf sH sN off k l t0 rest es _ h2 ih =>
    simp only [List.pairwise_cons]
    refine ⟨fun e he => ?_, ih⟩
    have := exact_src_bounds h2 e he
    change k < e.src; omega
  | skip _ _ ih => exact ih
  | @exp sH sN off k l c body ns rest es _ h2 _ ih =>
    simp only [List.pairwise_cons]
    refine ⟨fun e he => ?_, ih⟩
    have := exact_src_bounds h2 e he
    change k < e.src; omega

theorem exact_hits {alive : L → Bool} {sH sN : Bool} {off k : Nat} {nodes : List (Node L C)}
    {es : List (Entry C)} (h : Exact alive sH sN off k nodes es) (hs : sH = true) (t : Nat) :
    hits es t = if off ≤ t ∧ t < off + (flat alive nodes).length then 1 else 0 := by
  induction h with
  | nil => simp [hits]
  | @leaf sH sN off k l t0 rest es hp _ ih =>
    obtain ⟨ha, rfl⟩ := hp hs
    have ih := ih hs
    rw [hits_cons, ih, flat_cons_leaf]
    simp only [flat_cons_leaf, ha, if_true, flat_nil, List.append_nil, List.length_cons, List.length_nil,
      Entry.contains, beq_iff_eq, List.length_append]
    split <;> split <;> (try split) <;> omega
  | @skip sH sN off k n rest es hn _ ih =>
    have ih := ih hs
    rw [ih, flat_cons alive n rest, hn]
    simp
  | @exp sH sN off k l c body ns rest es _ _ _ ih =>
    have ih := ih hs
    rw [hits_cons, ih]
    simp only [flat_cons_exp, Entry.contains, Bool.and_eq_true, decide_eq_true_eq, List.length_append]
    split <;> split <;> (try split) <;> omega

theorem exact_unmod {alive : L → Bool} {sH sN : Bool} {off k : Nat} {nodes : List (Node L C)}
    {es : List (Entry C)} (h : Exact alive sH sN off k nodes es) (hs : sH = true) {s t : Nat}
    (hm : Entry.unmod s t ∈ es) :
    k ≤ s ∧ off ≤ t ∧ ∃ l, nodes[s - k]? = some (.leaf l) ∧ (flat alive nodes)[t - off]? = some l := by
  induction h with
  | nil => simp at hm
  | @leaf sH sN off k l t0 rest es hp _ ih =>
    obtain ⟨ha, rfl⟩ := hp hs
    simp only [List.mem_cons, Entry.unmod.injEq] at hm
    rcases hm with ⟨rfl, rfl⟩ | hm
    · refine ⟨Nat.le_refl _, Nat.le_refl _, l, by simp, by simp [flat_cons_leaf, ha]⟩
    · obtain ⟨h1, h2, l', h3, h4⟩ := ih hs hm
      simp only [flat_cons_leaf, ha, if_true, flat_nil, List.append_nil, List.length_cons, List.length_nil] at h2 h4
      refine ⟨by omega, by omega, l', ?_, ?_⟩
      · have : s - k = (s - (k + 1)) + 1 := by omega
        rw [this, List.getElem?_cons_succ]; exact h3
      · have : t - t0 = (t - (t0 + (0 + 1))) + 1 := by omega
        rw [flat_cons_leaf, this]; simp only [ha, if_true, List.singleton_append, List.getElem?_cons_succ]
        exact h4
  | @skip sH sN off k n rest es hn _ ih =>
    obtain ⟨h1, h2, l', h3, h4⟩ := ih hs hm
    refine ⟨by omega, h2, l', ?_, ?_⟩
    · have : s - k = (s - (k + 1)) + 1 := by omega
      rw [this, List.getElem?_cons_succ]; exact h3
    · rw [flat_cons alive n rest, hn]; simpa using h4
  | @exp sH sN off k l c body ns rest es _ _ _ ih =>
    simp only [List.mem_cons, reduceCtorEq, false_or] at hm
    obtain ⟨h1, h2, l', h3, h4⟩ := ih hs hm
    refine ⟨by omega, by omega, l', ?_, ?_⟩
    · have : s - k = (s - (k + 1)) + 1 := by omega
      rw [this, List.getElem?_cons_succ]; exact h3
    · rw [flat_cons_exp, List.getElem?_append_right (by omega)]
      have : t - off - (flat alive body).length = t - (off + (flat alive body).length) := by omega
      rw [this]; exact h4

theorem exact_rew {alive : L → Bool} {sH sN : Bool} {off k : Nat} {nodes : List (Node L C)}
    {es : List (Entry C)} (h : Exact alive sH sN off k nodes es) {s : Nat} {c : C} {a b : Nat}
    {ns : List (Entry C)} (hm : Entry.rew s c a b ns ∈ es) :
    k ≤ s ∧ off ≤ a ∧ ∃ l body, nodes[s - k]? = some (.exp l c body) ∧ b = a + (flat alive body).length ∧
      b ≤ off + (flat alive nodes).length ∧
      slice (flat alive nodes) (a - off) (b - off) = flat alive body ∧ Exact alive sN sN 0 0 body ns := by
  induction h with
  | nil => simp at hm
  | @leaf sH sN off k l t0 rest es hp _ ih =>
    simp only [List.mem_cons, reduceCtorEq, false_or] at hm
    obtain ⟨h1, h2, l', body', h3, h4, h5, h6, h7⟩ := ih hm
    refine ⟨by omega, by omega, l', body', ?_, h4, ?_, ?_, h7⟩
    · have : s - k = (s - (k + 1)) + 1 := by omega
      rw [this, List.getElem?_cons_succ]; exact h3
    · rw [flat_cons alive (.leaf l) rest, List.length_append]; omega
    · rw [flat_cons alive (.leaf l) rest, slice_append_right _ _ _ _ (by omega)]
      have e1 : a - off - (flat alive [(Node.leaf l : Node L C)]).length
          = a - (off + (flat alive [(Node.leaf l : Node L C)]).length) := by omega
      have e2 : b - off - (flat alive [(Node.leaf l : Node L C)]).length
          = b - (off + (flat alive [(Node.leaf l : Node L C)]).length) := by omega
      rw [e1, e2]; exact h6
  | @skip sH sN off k n rest es hn _ ih =>
    obtain ⟨h1, h2, l', body', h3, h4, h5, h6, h7⟩ := ih hm
    refine ⟨by omega, h2, l', body', ?_, h4, ?_, ?_, h7⟩
    · have : s - k = (s - (k + 1)) + 1 := by omega
      rw [this, List.getElem?_cons_succ]; exact h3
    · rw [flat_cons alive n rest, hn]; simpa using h5
    · rw [flat_cons alive n rest, hn]; simpa using h6
  | @exp sH sN off k l c0 body ns0 rest es hb _ _ ih =>
    simp only [List.mem_cons, Entry.rew.injEq] at hm
    rcases hm with ⟨rfl, rfl, rfl, rfl, rfl⟩ | hm
    · refine ⟨Nat.le_refl _, Nat.le_refl _, l, body, by simp, rfl, by simp, ?_, hb⟩
      have e1 : a - a = 0 := by omega
      have e2 : a + (flat alive body).length - a = (flat alive body).length := by omega
      rw [e1, e2, flat_cons_exp, slice_append_left]
    · obtain ⟨h1, h2, l', body', h3, h4, h5, h6, h7⟩ := ih hm
      refine ⟨by omega, by omega, l', body', ?_, h4, ?_, ?_, h7⟩
      · have : s - k = (s - (k + 1)) + 1 := by omega
        rw [this, List.getElem?_cons_succ]; exact h3
      · rw [flat_cons_exp, List.length_append]; omega
      · rw [flat_cons_exp, slice_append_right _ _ _ _ (by omega)]
        have e1 : a - off - (flat alive body).length = a - (off + (flat alive body).length) := by omega
        have e2 : b - off - (flat alive body).length = b - (off + (flat alive body).length) := by omega
        rw [e1, e2]; exact h6

/-- an exact map (strict at this level) is well formed, given that the nested ones are -/
theorem wf_of_exact {alive : L → Bool} {sN : Bool} {nodes : List (Node L C)} {es : List (Entry C)}
    (h : Exact alive true sN 0 0 nodes es)
    (hn : ∀ s c a b ns l body, Entry.rew s c a b ns ∈ es → nodes[s]? = some (.exp l c body) →
      WF body (flat alive body) ns) :
    WF nodes (flat alive nodes) es := by
  refine .mk (exact_pairwise h) ?_ ?_ ?_ ?_ ?_
  · intro e he; have := exact_src_bounds h e he; omega
  · intro s t hm
    obtain ⟨_, _, l, h3, h4⟩ := exact_unmod h rfl hm
    exact ⟨.leaf l, by simpa using h3, by simpa [Node.root] using h4⟩
  · intro s c a b ns hm
    obtain ⟨_, _, l, body, h3, h4, h5, _, _⟩ := exact_rew h hm
    exact ⟨by omega, by omega, l, body, by simpa using h3⟩
  · intro s c a b ns l body hm hnode
    obtain ⟨_, _, l', body', h3, h4, h5, h6, _⟩ := exact_rew h hm
    simp only [Nat.sub_zero] at h3 h6
    rw [hnode] at h3
    simp only [Option.some.injEq, Node.exp.injEq] at h3
    obtain ⟨_, _, rfl⟩ := h3
    rw [h6]; exact hn s c a b ns l body hm hnode
  · intro t ht
    rw [exact_hits h rfl]; simp; omega

theorem exact_nested_wf {alive : L → Bool} {sH sN : Bool} {off k : Nat} {nodes : List (Node L C)}
    {es : List (Entry C)} (h : Exact alive sH sN off k nodes es) (hs : sN = true) :
    ∀ s c a b ns l body, Entry.rew s c a b ns ∈ es → nodes[s - k]? = some (.exp l c body) →
      WF body (flat alive body) ns := by
  induction h with
  | nil => simp
  | @leaf sH sN off k l0 t0 rest es _ h2 ih =>
    intro s c a b ns l body hm hnode
    simp only [List.mem_cons, reduceCtorEq, false_or] at hm
    have := exact_src_bounds h2 _ hm
    simp only [Entry.src] at this
    have e : s - k = (s - (k + 1)) + 1 := by omega
    rw [e, List.getElem?_cons_succ] at hnode
    exact ih hs s c a b ns l body hm hnode
  | @skip sH sN off k n rest es _ h2 ih =>
    intro s c a b ns l body hm hnode
    have := exact_src_bounds h2 _ hm
    simp only [Entry.src] at this
    have e : s - k = (s - (k + 1)) + 1 := by omega
    rw [e, List.getElem?_cons_succ] at hnode
    exact ih hs s c a b ns l body hm hnode
  | @exp sH sN off k l0 c0 body0 ns0 rest es hb h2 ih1 ih2 =>
    intro s c a b ns l body hm hnode
    simp only [List.mem_cons, Entry.rew.injEq] at hm
    rcases hm with ⟨rfl, rfl, rfl, rfl, rfl⟩ | hm
    · simp only [Nat.sub_self, List.getElem?_cons_zero, Option.some.injEq, Node.exp.injEq] at hnode
      obtain ⟨_, _, rfl⟩ := hnode
      subst hs
      exact wf_of_exact hb (by simpa using ih1 rfl)
    · have := exact_src_bounds h2 _ hm
      simp only [Entry.src] at this
      have e : s - k = (s - (k + 1)) + 1 := by omega
      rw [e, List.getElem?_cons_succ] at hnode
      exact ih2 hs s c a b ns l body hm hnode

/-- **the ideal (strict) positional map is well formed** -/
theorem exact_wf {alive : L → Bool} {nodes : List (Node L C)} {es : List (Entry C)}
    (h : Exact alive true true 0 0 nodes es) : WF nodes (flat alive nodes) es :=
  wf_of_exact h (by simpa using exact_nested_wf h rfl)

/-! ### the model: `expBody` -/

theorem leaves_cons_leaf (l : L) (rest : List (Node L C)) : leaves (.leaf l :: rest) = l :: leaves rest := by
  simp [leaves, flat]

theorem leaves_cons_exp (l : L) (c : C) (body rest : List (Node L C)) :
    leaves (.exp l c body :: rest) = leaves body ++ leaves rest := by
  simp [leaves, flat]

theorem expBody_fst (ns : List (Node L C)) (k off : Nat) : (expBody ns k off).1 = leaves ns := by
  fun_induction expBody ns k off with
  | case1 => simp [leaves]
  | case2 l rest k off r ih => simp [leaves_cons_leaf, r, ih]
  | case3 l c body rest k off b r ih1 ih2 =>
    rw [leaves_cons_exp]
    exact congr (congrArg _ ih1) ih2

theorem flat_all_alive (alive : L → Bool) (ns : List (Node L C)) (H : ∀ l ∈ leaves ns, alive l = true) :
    flat alive ns = leaves ns := by
  fun_induction flat alive ns with
  | case1 => simp [leaves]
  | case2 l rest hl ih =>
    rw [leaves_cons_leaf, ih (fun x hx => H x (by simp [leaves_cons_leaf, hx]))]
  | case3 l rest hl ih =>
    have := H l (by simp [leaves_cons_leaf])
    simp [this] at hl
  | case4 l c body rest ih1 ih2 =>
    rw [leaves_cons_exp, ih1 (fun x hx => H x (by simp [leaves_cons_exp, hx])),
      ih2 (fun x hx => H x (by simp [leaves_cons_exp, hx]))]

theorem expBody_exact (alive : L → Bool) (ns : List (Node L C)) (k off : Nat)
    (H : ∀ l ∈ leaves ns, alive l = true) : Exact alive true true off k ns (expBody ns k off).2 := by
  fun_induction expBody ns k off with
  | case1 => exact .nil
  | case2 l rest k off r ih =>
    have hl : alive l = true := H l (by simp [leaves_cons_leaf])
    have ih := ih (fun x hx => H x (by simp [leaves_cons_leaf, hx]))
    refine .leaf (fun _ => ⟨hl, rfl⟩) ?_
    simpa [flat_cons_leaf, hl] using ih
  | case3 l c body rest k off b r ih1 ih2 =>
    have ih1 := ih1 (fun x hx => H x (by simp [leaves_cons_exp, hx]))
    have ih2 := ih2 (fun x hx => H x (by simp [leaves_cons_exp, hx]))
    have e : b.1.length = (flat alive body).length := by
      rw [flat_all_alive alive body (fun x hx => H x (by simp [leaves_cons_exp, hx]))]
      simp [b, expBody_fst]
    have ih2' : Exact alive true true (off + (flat alive body).length) (k + 1) rest r.2 := by
      rw [← e]; exact ih2
    show Exact alive true true off k _ (.rew k c off (off + b.1.length) b.2 :: r.2)
    rw [e]
    exact .exp ih1 ih2'

/-! ### the model: `appendLoop`, `expandFrom` -/

/-- what `append_calibration_expansion_output_inner`'s loop achieves for one calibration body: the pushed
instructions are the surviving leaves and the adjusted detail is exact (strictness `sN`) -/
def AppendOK (h : L → Bool) (sN : Bool) (body : List (Node L C)) : Prop :=
  ∃ d, appendLoop h (expBody body 0 0).1 0
      { start := 0, stop := (expBody body 0 0).1.length, entries := (expBody body 0 0).2 }
        = (flat (fun l => !h l) body, d) ∧
    Exact (fun l => !h l) sN sN 0 0 body d.entries

theorem appendLoop_noHoist (h : L → Bool) (is : List L) (n : Nat) (d : Detail C)
    (H : ∀ l ∈ is, h l = false) : appendLoop h is n d = (is, d) := by
  induction is generalizing n with
  | nil => simp [appendLoop]
  | cons l rest ih =>
    have hl := H l (by simp)
    simp [appendLoop, hl, ih (n + 1) (fun x hx => H x (by simp [hx]))]

theorem appendOK_noHoist (h : L → Bool) (body : List (Node L C)) (H : ∀ l ∈ leaves body, h l = false) :
    AppendOK h true body := by
  have H' : ∀ l ∈ leaves body, (fun l => !h l) l = true := fun l hl => by simp [H l hl]
  refine ⟨{ start := 0, stop := (expBody body 0 0).1.length, entries := (expBody body 0 0).2 }, ?_,
    expBody_exact (fun l => !h l) body 0 0 H'⟩
  rw [appendLoop_noHoist h _ _ _ (by rw [expBody_fst]; exact H), expBody_fst, flat_all_alive _ _ H']

theorem expandFrom_exact (h : L → Bool) (sN : Bool) (nodes : List (Node L C)) (k : Nat) (body : List L)
    (map : List (Entry C))
    (hA : ∀ l c b, Node.exp l c b ∈ nodes → AppendOK h sN b)
    (hT : ∀ l, Node.leaf l ∈ nodes → h l = false) :
    ∃ es, expandFrom h nodes k body map = .ok (body ++ flat (fun l => !h l) nodes) (map ++ es) ∧
      Exact (fun l => !h l) true sN body.length k nodes es := by
  induction nodes generalizing k body map with
  | nil => exact ⟨[], by simp [expandFrom], .nil⟩
  | cons n rest ih =>
    have hA' : ∀ l c b, Node.exp l c b ∈ rest → AppendOK h sN b :=
      fun l c b hm => hA l c b (by simp [hm])
    have hT' : ∀ l, Node.leaf l ∈ rest → h l = false := fun l hm => hT l (by simp [hm])
    cases n with
    | leaf l =>
      have hl : h l = false := hT l (by simp)
      obtain ⟨es, he, hE⟩ := ih (k + 1) (body ++ [l]) (map ++ [.unmod k body.length]) hA' hT'
      refine ⟨.unmod k body.length :: es, ?_, ?_⟩
      · simp only [expandFrom, hl, Bool.false_eq_true, if_false, List.length_append, List.length_cons,
          List.length_nil, Nat.add_eq_zero_iff, Nat.succ_ne_self, and_false, Nat.add_sub_cancel]
        rw [he, flat_cons_leaf]
        simp [hl]
      · refine .leaf (fun _ => ⟨by simp [hl], rfl⟩) ?_
        simpa [flat_cons_leaf, hl] using hE
    | exp l c b =>
      obtain ⟨d, hd, hE0⟩ := hA l c b (by simp)
      by_cases hne : (flat (fun l => !h l) b).length = 0
      · have hnil : flat (fun l => !h l) b = [] := List.length_eq_zero_iff.mp hne
        obtain ⟨es, he, hE⟩ := ih (k + 1) body map hA' hT'
        refine ⟨es, ?_, ?_⟩
        · simp only [expandFrom, hd, hnil, List.append_nil, Nat.lt_irrefl, if_false]
          rw [he]; simp [hnil]
        · exact .skip (by simp [hnil]) hE
      · obtain ⟨es, he, hE⟩ := ih (k + 1) (body ++ flat (fun l => !h l) b)
          (map ++ [.rew k c body.length (body.length + (flat (fun l => !h l) b).length) d.entries]) hA' hT'
        refine ⟨.rew k c body.length (body.length + (flat (fun l => !h l) b).length) d.entries :: es, ?_, ?_⟩
        · simp only [expandFrom, hd, List.length_append]
          rw [if_pos (by omega), he]
          simp
        · refine .exp hE0 ?_
          simpa using hE

section Kill
variable {L' : Type}

/-! ### hoisting: `retain` against "kill the t-th surviving leaf" -/

/-- relabel the instructions of a forest -/
def mapN (f : L → L') : List (Node L C) → List (Node L' C)
  | [] => []
  | .leaf l :: rest => .leaf (f l) :: mapN f rest
  | .exp l c body :: rest => .exp (f l) c (mapN f body) :: mapN f rest

/-- make the surviving leaf of rank `t` (0-based, in order) not survive -/
def killAt (alive : L → Bool) (kill : L → L) : List (Node L C) → Nat → List (Node L C)
  | [], _ => []
  | .leaf l :: rest, t =>
    if alive l then
      if t = 0 then .leaf (kill l) :: rest else .leaf l :: killAt alive kill rest (t - 1)
    else .leaf l :: killAt alive kill rest t
  | .exp l c body :: rest, t =>
    if t < (flat alive body).length then .exp l c (killAt alive kill body t) :: rest
    else .exp l c body :: killAt alive kill rest (t - (flat alive body).length)

/-- the same on a plain list of instructions -/
def killL (alive : L → Bool) (kill : L → L) : List L → Nat → List L
  | [], _ => []
  | l :: r, t =>
    if alive l then (if t = 0 then kill l :: r else l :: killL alive kill r (t - 1))
    else l :: killL alive kill r t

theorem flat_killAt (alive : L → Bool) (kill : L → L) (hk : ∀ l, alive (kill l) = false)
    (ns : List (Node L C)) (t : Nat) :
    flat alive (killAt alive kill ns t) = (flat alive ns).eraseIdx t := by
  fun_induction killAt alive kill ns t with
  | case1 => simp
  | case2 l rest ha => simp [flat_cons_leaf, ha, hk]
  | case3 l rest t ha ht ih =>
    obtain ⟨t', rfl⟩ : ∃ t', t = t' + 1 := ⟨t - 1, by omega⟩
    simp only [Nat.add_sub_cancel] at ih
    simp [flat_cons_leaf, ha, ih]
  | case4 l rest t ha ih => simp [flat_cons_leaf, ha, ih]
  | case5 l c body rest t ht ih =>
    rw [flat_cons_exp, flat_cons_exp, ih, List.eraseIdx_append_of_lt_length ht]
  | case6 l c body rest t ht ih =>
    rw [flat_cons_exp, flat_cons_exp, ih, List.eraseIdx_append_of_length_le (by omega)]

theorem killAt_ge (alive : L → Bool) (kill : L → L) (ns : List (Node L C)) (t : Nat)
    (h : (flat alive ns).length ≤ t) : killAt alive kill ns t = ns := by
  fun_induction killAt alive kill ns t with
  | case1 => rfl
  | case2 l rest ha => simp [flat_cons_leaf, ha] at h
  | case3 l rest t ha ht ih =>
    simp only [flat_cons_leaf, ha, if_true, List.singleton_append, List.length_cons] at h
    rw [ih (by omega)]
  | case4 l rest t ha ih =>
    simp only [flat_cons_leaf, ha, Bool.false_eq_true, if_false, List.nil_append] at h
    rw [ih h]
  | case5 l c body rest t ht ih =>
    simp only [flat_cons_exp, List.length_append] at h; omega
  | case6 l c body rest t ht ih =>
    simp only [flat_cons_exp, List.length_append] at h
    rw [ih (by omega)]

theorem exact_weaken {alive : L → Bool} {sH sN : Bool} {off k : Nat} {ns : List (Node L C)}
    {es : List (Entry C)} (h : Exact alive sH sN off k ns es) : Exact alive false false off k ns es := by
  induction h with
  | nil => exact .nil
  | leaf _ _ ih => exact .leaf (fun h => by cases h) ih
  | skip hn _ ih => exact .skip hn ih
  | exp _ _ ih1 ih2 => exact .exp ih1 ih2

theorem killAt_cons_dead (alive : L → Bool) (kill : L → L) (n : Node L C) (rest : List (Node L C)) (t : Nat)
    (hn : flat alive [n] = []) : killAt alive kill (n :: rest) t = n :: killAt alive kill rest t := by
  cases n with
  | leaf l =>
    have ha : alive l = false := by
      cases h : alive l with
      | false => rfl
      | true => simp [flat_cons_leaf, h] at hn
    simp [killAt, ha]
  | exp l c body =>
    have hb : flat alive body = [] := by simpa using hn
    simp [killAt, hb]

theorem retain_rew_before (t s : Nat) (c : C) (a b : Nat) (ns rest : List (Entry C)) (h : t < a) (hab : a ≤ b) :
    retain t (.rew s c a b ns :: rest) =
      if a < b then .rew s c (a - 1) (b - 1) ns :: retain t rest else retain t rest := by
  have n1 : ¬ a ≤ t := by omega
  have h3 : t < b := by omega
  by_cases hlt : a < b
  · have : a - 1 < b - 1 := by omega
    simp [retain, n1, h, h3, hlt, this]
  · have : ¬ a - 1 < b - 1 := by omega
    simp [retain, n1, h, h3, hlt, this]

theorem retain_rew_within (t s : Nat) (c : C) (a b : Nat) (ns rest : List (Entry C)) (h1 : a ≤ t) (h2 : t < b) :
    retain t (.rew s c a b ns :: rest) =
      if a < b - 1 then .rew s c a (b - 1) (retain (t - a) ns) :: retain t rest else retain t rest := by
  have h3 : ¬ t < a := by omega
  simp [retain, h1, h2, h3]

theorem retain_rew_after (t s : Nat) (c : C) (a b : Nat) (ns rest : List (Entry C)) (h : b ≤ t) (hab : a ≤ b) :
    retain t (.rew s c a b ns :: rest) =
      if a < b then .rew s c a b ns :: retain t rest else retain t rest := by
  have h3 : ¬ t < a := by omega
  have h4 : ¬ t < b := by omega
  simp [retain, h3, h4]

/-- **`remove_target_index` is exact.** If the entries are exact (ranges only: lax about `Unmodified`)
for a forest whose surviving output starts at `off`, then after `retain t` they are exact
* for the same forest shifted one down, if `t` lies before it;
* for the forest with its surviving leaf number `t - off` removed, otherwise (nothing changes if `t` lies
  behind it, except that entries of which nothing survives disappear). -/
theorem retain_exact (alive : L → Bool) (kill : L → L) (hk : ∀ l, alive (kill l) = false)
    {sH sN : Bool} {off k : Nat} {ns : List (Node L C)} {es : List (Entry C)}
    (h : Exact alive sH sN off k ns es) (hH : sH = false) (hN : sN = false) (t : Nat) :
    (t < off → Exact alive false false (off - 1) k ns (retain t es)) ∧
    (off ≤ t → Exact alive false false off k (killAt alive kill ns (t - off)) (retain t es)) := by
  induction h generalizing t with
  | nil => exact ⟨fun _ => by simpa [retain] using .nil, fun _ => by simpa [retain, killAt] using .nil⟩
  | @leaf sH sN off k l t0 rest es hp hr ih =>
    subst hH; subst hN
    obtain ⟨ihA, ihB⟩ := ih rfl rfl t
    have hret : retain t (Entry.unmod k t0 :: es) = Entry.unmod k t0 :: retain t es := by simp [retain]
    rw [hret]
    constructor
    · intro ht
      refine .leaf (fun h => by cases h) ?_
      have := ihA (by omega)
      have e : off - 1 + (flat alive [(Node.leaf l : Node L C)]).length
          = off + (flat alive [(Node.leaf l : Node L C)]).length - 1 := by omega
      rw [e]; exact this
    · intro ht
      by_cases ha : alive l = true
      · have hlen : (flat alive [(Node.leaf l : Node L C)]).length = 1 := by simp [flat_cons_leaf, ha]
        rw [hlen] at ihA ihB
        by_cases h0 : t - off = 0
        · have hkl : killAt alive kill (Node.leaf l :: rest) (t - off) = Node.leaf (kill l) :: rest := by
            simp [killAt, ha, h0]
          rw [hkl]
          refine .leaf (fun h => by cases h) ?_
          have hz : (flat alive [(Node.leaf (kill l) : Node L C)]).length = 0 := by
            simp [flat_cons_leaf, hk]
          rw [hz]
          have := ihA (by omega)
          simpa using this
        · have hkl : killAt alive kill (Node.leaf l :: rest) (t - off)
              = Node.leaf l :: killAt alive kill rest (t - (off + 1)) := by
            have : t - off - 1 = t - (off + 1) := by omega
            simp [killAt, ha, h0, this]
          rw [hkl]
          refine .leaf (fun h => by cases h) ?_
          rw [hlen]
          exact ihB (by omega)
      · have ha' : alive l = false := by simpa using ha
        have hlen : (flat alive [(Node.leaf l : Node L C)]).length = 0 := by simp [flat_cons_leaf, ha']
        rw [hlen] at ihA ihB
        have hkl : killAt alive kill (Node.leaf l :: rest) (t - off)
            = Node.leaf l :: killAt alive kill rest (t - off) := by
          simp [killAt, ha']
        rw [hkl]
        refine .leaf (fun h => by cases h) ?_
        rw [hlen]
        exact ihB (by omega)
  | @skip sH sN off k n rest es hn hr ih =>
    subst hH; subst hN
    obtain ⟨ihA, ihB⟩ := ih rfl rfl t
    constructor
    · intro ht; exact .skip hn (ihA ht)
    · intro ht
      rw [killAt_cons_dead alive kill n rest _ hn]
      exact .skip hn (ihB ht)
  | @exp sH sN off k l c body ns0 rest es hb hr ih1 ih2 =>
    subst hH; subst hN
    obtain ⟨ihA, ihB⟩ := ih2 rfl rfl t
    have hexp0 : ∀ b' : List (Node L C), flat alive b' = [] →
        flat alive [(Node.exp l c b' : Node L C)] = [] := fun b' hb' => by simp [hb']
    constructor
    · intro ht
      by_cases hm : (flat alive body).length = 0
      · have hnil : flat alive body = [] := List.length_eq_zero_iff.mp hm
        have hret : retain t (Entry.rew k c off (off + (flat alive body).length) ns0 :: es) = retain t es := by
          rw [retain_rew_before _ _ _ _ _ _ _ ht (by omega), if_neg (by omega)]
        rw [hret]
        refine .skip (hexp0 body hnil) ?_
        have := ihA (by omega)
        rw [hm] at this
        simpa using this
      · have hret : retain t (Entry.rew k c off (off + (flat alive body).length) ns0 :: es)
            = Entry.rew k c (off - 1) (off - 1 + (flat alive body).length) ns0 :: retain t es := by
          rw [retain_rew_before _ _ _ _ _ _ _ ht (by omega), if_pos (by omega)]
          have e : off + (flat alive body).length - 1 = off - 1 + (flat alive body).length := by omega
          rw [e]
        rw [hret]
        refine .exp hb ?_
        have := ihA (by omega)
        have e : off - 1 + (flat alive body).length = off + (flat alive body).length - 1 := by omega
        rw [e]; exact this
    · intro ht
      by_cases hw : t < off + (flat alive body).length
      · -- the removed instruction lies within this expansion
        have hkl : killAt alive kill (Node.exp l c body :: rest) (t - off)
            = Node.exp l c (killAt alive kill body (t - off)) :: rest := by
          simp only [killAt]; rw [if_pos (by omega)]
        have hlen : (flat alive (killAt alive kill body (t - off))).length = (flat alive body).length - 1 := by
          rw [flat_killAt alive kill hk, List.length_eraseIdx]
          rw [if_pos (by omega)]
        have hnested := (ih1 rfl rfl (t - off)).2 (Nat.zero_le _)
        simp only [Nat.sub_zero] at hnested
        rw [hkl]
        by_cases hm : (flat alive body).length = 1
        · have hret : retain t (Entry.rew k c off (off + (flat alive body).length) ns0 :: es) = retain t es := by
            rw [retain_rew_within _ _ _ _ _ _ _ ht hw, if_neg (by omega)]
          rw [hret]
          have hnil : flat alive (killAt alive kill body (t - off)) = [] :=
            List.length_eq_zero_iff.mp (by rw [hlen, hm])
          refine .skip (hexp0 _ hnil) ?_
          have := ihA hw
          rw [hm] at this
          simpa using this
        · have hret : retain t (Entry.rew k c off (off + (flat alive body).length) ns0 :: es)
              = Entry.rew k c off (off + ((flat alive body).length - 1)) (retain (t - off) ns0)
                  :: retain t es := by
            rw [retain_rew_within _ _ _ _ _ _ _ ht hw, if_pos (by omega)]
            have e : off + (flat alive body).length - 1 = off + ((flat alive body).length - 1) := by omega
            rw [e]
          rw [hret, ← hlen]
          refine .exp hnested ?_
          rw [hlen]
          have := ihA hw
          have e : off + ((flat alive body).length - 1) = off + (flat alive body).length - 1 := by omega
          rw [e]; exact this
      · -- it lies behind this expansion
        have hkl : killAt alive kill (Node.exp l c body :: rest) (t - off)
            = Node.exp l c body :: killAt alive kill rest (t - (off + (flat alive body).length)) := by
          simp only [killAt]; rw [if_neg (by omega)]
          congr 2; omega
        rw [hkl]
        have hrest := ihB (by omega)
        by_cases hm : (flat alive body).length = 0
        · have hnil : flat alive body = [] := List.length_eq_zero_iff.mp hm
          have hret : retain t (Entry.rew k c off (off + (flat alive body).length) ns0 :: es) = retain t es := by
            rw [retain_rew_after _ _ _ _ _ _ _ (by omega) (by omega), if_neg (by omega)]
          rw [hret]
          refine .skip (hexp0 body hnil) ?_
          simpa [hm] using hrest
        · have hret : retain t (Entry.rew k c off (off + (flat alive body).length) ns0 :: es)
              = Entry.rew k c off (off + (flat alive body).length) ns0 :: retain t es := by
            rw [retain_rew_after _ _ _ _ _ _ _ (by omega) (by omega), if_pos (by omega)]
          rw [hret]
          exact .exp hb hrest

/-! ### bookkeeping of which leaves survive -/

theorem flat_eq_filter_leaves (alive : L → Bool) (ns : List (Node L C)) :
    flat alive ns = (leaves ns).filter alive := by
  fun_induction flat alive ns with
  | case1 => simp [leaves]
  | case2 l rest ha ih => rw [leaves_cons_leaf, List.filter_cons, if_pos ha, ih]
  | case3 l rest ha ih => rw [leaves_cons_leaf, List.filter_cons, if_neg ha, ih]
  | case4 l c body rest ih1 ih2 => rw [leaves_cons_exp, List.filter_append, ih1, ih2]

theorem killL_append (alive : L → Bool) (kill : L → L) (x y : List L) (t : Nat) :
    killL alive kill (x ++ y) t =
      if t < (x.filter alive).length then killL alive kill x t ++ y
      else x ++ killL alive kill y (t - (x.filter alive).length) := by
  induction x generalizing t with
  | nil => simp
  | cons l r ih =>
    by_cases ha : alive l = true
    · by_cases h0 : t = 0
      · subst h0; simp [killL, ha]
      · obtain ⟨t', rfl⟩ : ∃ t', t = t' + 1 := ⟨t - 1, by omega⟩
        simp only [List.cons_append, killL, ha, if_true, Nat.add_eq_zero_iff, Nat.succ_ne_self, and_false,
          if_false, Nat.add_sub_cancel, List.filter_cons, List.length_cons, Nat.add_lt_add_iff_right, ih t']
        split <;> simp
    · have ha' : alive l = false := by simpa using ha
      simp only [List.cons_append, killL, ha', Bool.false_eq_true, if_false, List.filter_cons, ih t]
      split <;> simp

theorem leaves_killAt (alive : L → Bool) (kill : L → L) (ns : List (Node L C)) (t : Nat) :
    leaves (killAt alive kill ns t) = killL alive kill (leaves ns) t := by
  fun_induction killAt alive kill ns t with
  | case1 => simp [leaves, killL]
  | case2 l rest ha => simp [leaves_cons_leaf, killL, ha]
  | case3 l rest t ha ht ih => simp [leaves_cons_leaf, killL, ha, ht, ih]
  | case4 l rest t ha ih =>
    have ha' : alive l = false := by simpa using ha
    simp [leaves_cons_leaf, killL, ha', ih]
  | case5 l c body rest t ht ih =>
    rw [leaves_cons_exp, leaves_cons_exp, ih, killL_append, ← flat_eq_filter_leaves, if_pos ht]
  | case6 l c body rest t ht ih =>
    rw [leaves_cons_exp, leaves_cons_exp, ih, killL_append, ← flat_eq_filter_leaves, if_neg ht]

theorem flat_mapN (alive : L' → Bool) (f : L → L') (ns : List (Node L C)) :
    flat alive (mapN f ns) = (flat (fun l => alive (f l)) ns).map f := by
  fun_induction mapN f ns with
  | case1 => simp
  | case2 l rest ih => rw [flat_cons_leaf, flat_cons_leaf, ih]; split <;> simp
  | case3 l c body rest ih1 ih2 => rw [flat_cons_exp, flat_cons_exp, ih1, ih2, List.map_append]

theorem leaves_mapN (f : L → L') (ns : List (Node L C)) : leaves (mapN f ns) = (leaves ns).map f :=
  flat_mapN (fun _ => true) f ns

theorem mapN_inv (f : L → L') (g : L' → L) (hg : ∀ l, g (f l) = l) (ns : List (Node L C)) :
    mapN g (mapN f ns) = ns := by
  fun_induction mapN f ns with
  | case1 => simp [mapN]
  | case2 l rest ih => simp [mapN, hg, ih]
  | case3 l c body rest ih1 ih2 => simp [mapN, hg, ih1, ih2]

theorem mapN_killAt (alive : L → Bool) (kill : L → L) (g : L → L') (hg : ∀ l, g (kill l) = g l)
    (ns : List (Node L C)) (t : Nat) : mapN g (killAt alive kill ns t) = mapN g ns := by
  fun_induction killAt alive kill ns t with
  | case1 => simp [mapN]
  | case2 l rest ha => simp [mapN, hg]
  | case3 l rest t ha ht ih => simp [mapN, ih]
  | case4 l rest t ha ih => simp [mapN, ih]
  | case5 l c body rest t ht ih => simp [mapN, ih]
  | case6 l c body rest t ht ih => simp [mapN, ih]

theorem exact_mapN (alive : L' → Bool) (f : L → L') {sH sN : Bool} {off k : Nat} {ns : List (Node L C)}
    {es : List (Entry C)} (h : Exact (fun l => alive (f l)) sH sN off k ns es) :
    Exact alive sH sN off k (mapN f ns) es := by
  induction h with
  | nil => simp only [mapN]; exact .nil
  | @leaf sH sN off k l t rest es hp _ ih =>
    have e : (flat alive [(Node.leaf (f l) : Node L' C)]).length
        = (flat (fun l => alive (f l)) [(Node.leaf l : Node L C)]).length := by
      have := flat_mapN alive f [(Node.leaf l : Node L C)]
      simp only [mapN] at this
      rw [this, List.length_map]
    simp only [mapN]
    refine .leaf hp ?_
    rw [e]; exact ih
  | @skip sH sN off k n rest es hn _ ih =>
    cases n with
    | leaf l =>
      have := flat_mapN alive f [(Node.leaf l : Node L C)]
      simp only [mapN] at this ⊢
      exact .skip (by rw [this, hn]; rfl) ih
    | exp l c body =>
      have := flat_mapN alive f [(Node.exp l c body : Node L C)]
      simp only [mapN] at this ⊢
      exact .skip (by rw [this, hn]; rfl) ih
  | @exp sH sN off k l c body ns0 rest es _ _ ih1 ih2 =>
    have e : (flat alive (mapN f body)).length = (flat (fun l => alive (f l)) body).length := by
      rw [flat_mapN, List.length_map]
    simp only [mapN]
    rw [← e]
    refine .exp ih1 ?_
    rw [e]; exact ih2

theorem flat_congr (alive alive' : L → Bool) (ns : List (Node L C))
    (H : ∀ l ∈ leaves ns, alive l = alive' l) : flat alive ns = flat alive' ns := by
  rw [flat_eq_filter_leaves, flat_eq_filter_leaves]
  exact List.filter_congr H

@[simp] theorem leaves_nil : leaves ([] : List (Node L C)) = [] := by simp [leaves]

theorem leaves_cons (n : Node L C) (rest : List (Node L C)) : leaves (n :: rest) = leaves [n] ++ leaves rest :=
  flat_cons _ n rest

theorem exact_congr (alive alive' : L → Bool) {sH sN : Bool} {off k : Nat} {ns : List (Node L C)}
    {es : List (Entry C)} (h : Exact alive sH sN off k ns es) (H : ∀ l ∈ leaves ns, alive l = alive' l) :
    Exact alive' sH sN off k ns es := by
  induction h with
  | nil => exact .nil
  | @leaf sH sN off k l t rest es hp _ ih =>
    have hl : alive l = alive' l := H l (by simp [leaves_cons_leaf])
    have hr : ∀ x ∈ leaves rest, alive x = alive' x := fun x hx => H x (by simp [leaves_cons_leaf, hx])
    have e := flat_congr alive alive' [(Node.leaf l : Node L C)] (fun x hx => by
      have : x = l := by
        rw [leaves_cons_leaf] at hx
        simpa using hx
      rw [this]; exact hl)
    refine .leaf (fun hs => by rw [← hl]; exact hp hs) ?_
    rw [← e]; exact ih hr
  | @skip sH sN off k n rest es hn _ ih =>
    have h1 : ∀ x ∈ leaves [n], alive x = alive' x := fun x hx => H x (by rw [leaves_cons]; simp [hx])
    have hr : ∀ x ∈ leaves rest, alive x = alive' x := fun x hx => H x (by rw [leaves_cons]; simp [hx])
    exact .skip (by rw [← flat_congr alive alive' [n] h1]; exact hn) (ih hr)
  | @exp sH sN off k l c body ns0 rest es _ _ ih1 ih2 =>
    have hb : ∀ x ∈ leaves body, alive x = alive' x := fun x hx => H x (by simp [leaves_cons_exp, hx])
    have hr : ∀ x ∈ leaves rest, alive x = alive' x := fun x hx => H x (by simp [leaves_cons_exp, hx])
    rw [flat_congr alive alive' body hb]
    refine .exp (ih1 hb) ?_
    rw [← flat_congr alive alive' body hb]; exact ih2 hr

/-! ### the loop of `append_calibration_expansion_output_inner` with hoisted instructions -/

theorem appendLoop_exact (h : L → Bool) (rest : List L) :
    ∀ (n : Nat) (d : Detail C) (M : List (Node (L × Bool) C)) (done : List (L × Bool)),
      leaves M = done ++ rest.map (fun l => (l, true)) →
      n = (done.filter Prod.snd).length →
      d.start = 0 → d.stop = n + rest.length →
      Exact Prod.snd false false 0 0 M d.entries →
      ∃ M' d', appendLoop h rest n d = (rest.filter (fun l => !h l), d') ∧
        Exact Prod.snd false false 0 0 M' d'.entries ∧
        leaves M' = done ++ rest.map (fun l => (l, !h l)) ∧ mapN Prod.fst M' = mapN Prod.fst M := by
  induction rest with
  | nil =>
    intro n d M done hL _ _ _ hE
    exact ⟨M, d, by simp [appendLoop], hE, by simpa using hL, rfl⟩
  | cons l r ih =>
    intro n d M done hL hn hs hstop hE
    by_cases hl : h l = true
    · -- hoisted: `remove_target_index(n)`
      have hk : ∀ x : L × Bool, Prod.snd ((fun x : L × Bool => (x.1, false)) x) = false := fun _ => rfl
      have hrem : d.remove n = { start := 0, stop := n + r.length, entries := retain n d.entries } := by
        simp only [Detail.remove, hs, hstop, List.length_cons]
        have h1 : (decide (0 ≤ n) && decide (n < n + (r.length + 1))) = true := by simp
        rw [h1]
        simp only [if_true, Nat.sub_zero]
        rw [if_neg (by omega), if_pos (by omega)]
        congr 1
      have hE1 := (retain_exact Prod.snd (fun x : L × Bool => (x.1, false)) hk hE rfl rfl n).2 (Nat.zero_le _)
      simp only [Nat.sub_zero] at hE1
      have hL1 : leaves (killAt Prod.snd (fun x : L × Bool => (x.1, false)) M n)
          = (done ++ [(l, false)]) ++ r.map (fun l => (l, true)) := by
        rw [leaves_killAt, hL, killL_append, if_neg (by omega), hn]
        simp [killL]
      obtain ⟨M', d', h1, h2, h3, h4⟩ := ih n (d.remove n) _ (done ++ [(l, false)]) hL1
        (by simp [List.filter_append, hn]) (by rw [hrem]) (by rw [hrem]) (by rw [hrem]; exact hE1)
      refine ⟨M', d', ?_, h2, ?_, ?_⟩
      · simp only [appendLoop, hl, if_true, List.filter_cons, Bool.not_true, Bool.false_eq_true, if_false]
        exact h1
      · rw [h3]; simp [hl]
      · rw [h4]
        exact mapN_killAt Prod.snd (fun x : L × Bool => (x.1, false)) Prod.fst (fun _ => rfl) M n
    · have hl' : h l = false := by simpa using hl
      obtain ⟨M', d', h1, h2, h3, h4⟩ := ih (n + 1) d M (done ++ [(l, true)])
        (by rw [hL]; simp) (by simp [List.filter_append, hn]) hs
        (by rw [hstop]; simp only [List.length_cons]; omega) hE
      refine ⟨M', d', ?_, h2, ?_, h4⟩
      · simp only [appendLoop, hl', Bool.false_eq_true, if_false, List.filter_cons, Bool.not_false, if_true]
        rw [h1]
      · rw [h3]; simp [hl']

/-- what the loop achieves for ANY calibration body: the pushed instructions are the surviving leaves and
all ranges (at every depth) are exact; nothing is claimed about nested `Unmodified` entries -/
theorem appendOK_general (h : L → Bool) (body : List (Node L C)) : AppendOK h false body := by
  have hE0 : Exact (fun _ : L => true) true true 0 0 body (expBody body 0 0).2 :=
    expBody_exact (fun _ => true) body 0 0 (fun _ _ => rfl)
  have hE1 : Exact Prod.snd false false 0 0 (mapN (fun l => (l, true)) body) (expBody body 0 0).2 :=
    exact_mapN Prod.snd (fun l : L => (l, true)) (exact_weaken hE0)
  obtain ⟨M', d', h1, h2, h3, h4⟩ := appendLoop_exact h (leaves body) 0
    { start := 0, stop := (expBody body 0 0).1.length, entries := (expBody body 0 0).2 }
    (mapN (fun l => (l, true)) body) []
    (by rw [leaves_mapN]; simp) (by simp) rfl (by simp [expBody_fst]) hE1
  refine ⟨d', ?_, ?_⟩
  · rw [expBody_fst] at h1 ⊢
    rw [h1, flat_eq_filter_leaves]
  · have hc : Exact (fun x : L × Bool => !h x.1) false false 0 0 M' d'.entries := by
      refine exact_congr Prod.snd _ h2 ?_
      intro x hx
      rw [h3] at hx
      simp only [List.nil_append, List.mem_map] at hx
      obtain ⟨l, _, rfl⟩ := hx
      rfl
    have hm := exact_mapN (fun l : L => !h l) (Prod.fst : L × Bool → L) hc
    rw [h4, mapN_inv (fun l : L => (l, true)) Prod.fst (fun _ => rfl)] at hm
    exact hm

end Kill

/-! ### the Bool checker for `Exact` -/

theorem flat_single_dead (alive : L → Bool) (l : L) (h : alive l = false) :
    flat alive [(Node.leaf l : Node L C)] = [] := by simp [flat_cons_leaf, h]

/-- the Bool checker for `Exact` is sound -/
theorem exactB_sound [DecidableEq C] (alive : L → Bool) (sH sN : Bool) (off k : Nat) (ns : List (Node L C))
    (es : List (Entry C)) (h : exactB alive sH sN off k ns es = true) : Exact alive sH sN off k ns es := by
  fun_induction exactB alive sH sN off k ns es with
  | case1 _ _ _ _ es =>
    have : es = [] := by simpa using h
    subst this; exact .nil
  | case2 sH sN off l rest s t es' ih =>
    simp only [Bool.and_eq_true, Bool.or_eq_true, Bool.not_eq_eq_eq_not, Bool.not_true, beq_iff_eq] at h
    refine .leaf (fun hs => ?_) (ih h.2)
    rcases h.1 with h1 | h1
    · rw [hs] at h1; cases h1
    · exact h1
  | case3 sH sN off k l rest s t es' hne ih =>
    simp only [Bool.and_eq_true, Bool.not_eq_eq_eq_not, Bool.not_true] at h
    exact .skip (flat_single_dead alive l h.1) (ih h.2)
  | case4 sH sN off k l rest es hne ih =>
    simp only [Bool.and_eq_true, Bool.not_eq_eq_eq_not, Bool.not_true] at h
    exact .skip (flat_single_dead alive l h.1) (ih h.2)
  | case5 sH sN off l c body rest s c' a b ns es' ih1 ih2 =>
    simp only [Bool.and_eq_true, decide_eq_true_eq, beq_iff_eq] at h
    obtain ⟨⟨⟨⟨rfl, rfl⟩, rfl⟩, h4⟩, h5⟩ := h
    exact .exp (ih1 h4) (ih2 h5)
  | case6 sH sN off k l c body rest s c' a b ns es' hne ih =>
    simp only [Bool.and_eq_true, List.isEmpty_iff] at h
    exact .skip h.1 (ih h.2)
  | case7 sH sN off k l c body rest es hne ih =>
    simp only [Bool.and_eq_true, List.isEmpty_iff] at h
    exact .skip h.1 (ih h.2)

end QV.C19
