import QV.C19.Spec
/-! Helper lemmas for C19 (core Lean only). -/
namespace QV.C19
variable {L C : Type}

/-! ### the Bool checker -/

theorem localB_iff (nN nO : Nat) (es : List (Entry C)) :
    localB nN nO es = true ↔
      es.Pairwise (fun x y => x.src < y.src) ∧ (∀ e ∈ es, e.src < nN) ∧ (∀ t, t < nO → hits es t = 1) := by
  simp [localB, List.all_eq_true, and_assoc]

/-- clauses 2–4 of `WF` -/
def EntriesOK (nodes : List (Node L C)) (out : List L) (es : List (Entry C)) : Prop :=
  (∀ s t, Entry.unmod s t ∈ es → ∃ n, nodes[s]? = some n ∧ out[t]? = some n.root) ∧
  (∀ s c a b ns, Entry.rew s c a b ns ∈ es →
    a ≤ b ∧ b ≤ out.length ∧ ∃ l body, nodes[s]? = some (.exp l c body)) ∧
  (∀ s c a b ns l body, Entry.rew s c a b ns ∈ es → nodes[s]? = some (.exp l c body) →
    WF body (slice out a b) ns)

theorem wf_iff (nodes : List (Node L C)) (out : List L) (es : List (Entry C)) :
    WF nodes out es ↔
      (es.Pairwise (fun x y => x.src < y.src) ∧ (∀ e ∈ es, e.src < nodes.length) ∧
        (∀ t, t < out.length → hits es t = 1)) ∧ EntriesOK nodes out es := by
  constructor
  · intro h
    cases h with
    | mk h1 h2 h3 h4 h5 h6 => exact ⟨⟨h1, h2, h6⟩, h3, h4, h5⟩
  · rintro ⟨⟨h1, h2, h6⟩, h3, h4, h5⟩
    exact .mk h1 h2 h3 h4 h5 h6

theorem entriesOK_nil (nodes : List (Node L C)) (out : List L) : EntriesOK nodes out [] := by
  refine ⟨?_, ?_, ?_⟩ <;> intros <;> simp_all

theorem entriesOK_cons_unmod (nodes : List (Node L C)) (out : List L) (s t : Nat) (rest : List (Entry C)) :
    EntriesOK nodes out (.unmod s t :: rest) ↔
      (∃ n, nodes[s]? = some n ∧ out[t]? = some n.root) ∧ EntriesOK nodes out rest := by
  unfold EntriesOK
  constructor
  · rintro ⟨h1, h2, h3⟩
    refine ⟨h1 s t (by simp), fun s' t' hm => h1 s' t' (by simp [hm]),
      fun s' c a b ns hm => h2 s' c a b ns (by simp [hm]),
      fun s' c a b ns l body hm => h3 s' c a b ns l body (by simp [hm])⟩
  · rintro ⟨h0, h1, h2, h3⟩
    refine ⟨?_, ?_, ?_⟩
    · intro s' t' hm
      simp only [List.mem_cons, Entry.unmod.injEq] at hm
      rcases hm with ⟨rfl, rfl⟩ | hm
      · exact h0
      · exact h1 s' t' hm
    · intro s' c a b ns hm
      simp only [List.mem_cons, reduceCtorEq, false_or] at hm
      exact h2 s' c a b ns hm
    · intro s' c a b ns l body hm
      simp only [List.mem_cons, reduceCtorEq, false_or] at hm
      exact h3 s' c a b ns l body hm

theorem entriesOK_cons_rew (nodes : List (Node L C)) (out : List L) (s : Nat) (c : C) (a b : Nat)
    (ns rest : List (Entry C)) :
    EntriesOK nodes out (.rew s c a b ns :: rest) ↔
      (a ≤ b ∧ b ≤ out.length ∧ ∃ l body, nodes[s]? = some (.exp l c body) ∧ WF body (slice out a b) ns) ∧
        EntriesOK nodes out rest := by
  unfold EntriesOK
  constructor
  · rintro ⟨h1, h2, h3⟩
    obtain ⟨ha, hb, l, body, hn⟩ := h2 s c a b ns (by simp)
    refine ⟨⟨ha, hb, l, body, hn, h3 s c a b ns l body (by simp) hn⟩,
      fun s' t' hm => h1 s' t' (by simp [hm]),
      fun s' c a b ns hm => h2 s' c a b ns (by simp [hm]),
      fun s' c a b ns l body hm => h3 s' c a b ns l body (by simp [hm])⟩
  · rintro ⟨⟨ha, hb, l, body, hn, hw⟩, h1, h2, h3⟩
    refine ⟨?_, ?_, ?_⟩
    · intro s' t' hm
      simp only [List.mem_cons, reduceCtorEq, false_or] at hm
      exact h1 s' t' hm
    · intro s' c' a' b' ns' hm
      simp only [List.mem_cons, Entry.rew.injEq] at hm
      rcases hm with ⟨rfl, rfl, rfl, rfl, rfl⟩ | hm
      · exact ⟨ha, hb, l, body, hn⟩
      · exact h2 s' c' a' b' ns' hm
    · intro s' c' a' b' ns' l' body' hm hn'
      simp only [List.mem_cons, Entry.rew.injEq] at hm
      rcases hm with ⟨rfl, rfl, rfl, rfl, rfl⟩ | hm
      · rw [hn] at hn'
        simp only [Option.some.injEq, Node.exp.injEq] at hn'
        obtain ⟨_, _, rfl⟩ := hn'
        exact hw
      · exact h3 s' c' a' b' ns' l' body' hm hn'

theorem entriesB_iff [DecidableEq L] [DecidableEq C] (nodes : List (Node L C)) (out : List L)
    (es : List (Entry C)) : entriesB nodes out es = true ↔ EntriesOK nodes out es := by
  fun_induction entriesB nodes out es with
  | case1 => simp [entriesOK_nil]
  | case2 nodes out s t rest ih =>
    rw [entriesOK_cons_unmod, ← ih, Bool.and_eq_true]
    refine and_congr ?_ Iff.rfl
    cases nodes[s]? <;> simp
  | case3 nodes out s c a b ns rest ih1 ih2 =>
    rw [entriesOK_cons_rew, ← ih2, Bool.and_eq_true]
    refine and_congr ?_ Iff.rfl
    rcases hn : nodes[s]? with _ | n
    · simp
    · cases n with
      | leaf l => simp
      | exp l c' body =>
        have hw : WF body (slice out a b) ns ↔
            (localB body.length (slice out a b).length ns = true ∧
              entriesB body (slice out a b) ns = true) := by
          rw [wf_iff, localB_iff, ih1 body]
        simp only [Bool.and_eq_true, decide_eq_true_eq, Option.some.injEq, Node.exp.injEq]
        constructor
        · rintro ⟨⟨ha, hb⟩, ⟨hc, h1⟩, h2⟩
          exact ⟨ha, hb, l, body, ⟨rfl, hc, rfl⟩, hw.2 ⟨h1, h2⟩⟩
        · rintro ⟨ha, hb, l', body', ⟨rfl, rfl, rfl⟩, hwf⟩
          exact ⟨⟨ha, hb⟩, ⟨rfl, (hw.1 hwf).1⟩, (hw.1 hwf).2⟩

theorem wfB_iff' [DecidableEq L] [DecidableEq C] (nodes : List (Node L C)) (out : List L)
    (es : List (Entry C)) : wfB nodes out es = true ↔ WF nodes out es := by
  rw [wf_iff, wfB, Bool.and_eq_true, localB_iff, entriesB_iff]

/-! ### `flat`, `slice`, `hits` -/

@[simp] theorem flat_nil (alive : L → Bool) : flat alive ([] : List (Node L C)) = [] := by simp [flat]

theorem flat_cons_leaf (alive : L → Bool) (l : L) (rest : List (Node L C)) :
    flat alive (.leaf l :: rest) = (if alive l then [l] else []) ++ flat alive rest := by
  simp only [flat]; split <;> simp

@[simp] theorem flat_cons_exp (alive : L → Bool) (l : L) (c : C) (body rest : List (Node L C)) :
    flat alive (.exp l c body :: rest) = flat alive body ++ flat alive rest := by simp [flat]

theorem flat_cons (alive : L → Bool) (n : Node L C) (rest : List (Node L C)) :
    flat alive (n :: rest) = flat alive [n] ++ flat alive rest := by
  cases n with
  | leaf l => simp [flat_cons_leaf]
  | exp l c body => simp

theorem slice_append_right (x ys : List L) (a b : Nat) (h : x.length ≤ a) :
    slice (x ++ ys) a b = slice ys (a - x.length) (b - x.length) := by
  unfold slice
  rw [List.drop_append, List.drop_eq_nil_of_le h, List.nil_append]
  congr 1; omega

theorem slice_append_left (x ys : List L) : slice (x ++ ys) 0 x.length = x := by
  simp [slice]

theorem hits_cons (e : Entry C) (es : List (Entry C)) (t : Nat) :
    hits (e :: es) t = (if e.contains t then 1 else 0) + hits es t := by
  simp only [hits, List.filter_cons]
  split <;> simp <;> omega

/-! ### consequences of `Exact` -/

theorem exact_src_bounds {alive : L → Bool} {sH sN : Bool} {off k : Nat} {nodes : List (Node L C)}
    {es : List (Entry C)} (h : Exact alive sH sN off k nodes es) :
    ∀ e ∈ es, k ≤ e.src ∧ e.src < k + nodes.length := by
  induction h with
  | nil => simp
  | leaf _ _ ih =>
    intro e he
    simp only [List.mem_cons] at he
    rcases he with rfl | he
    · simp [Entry.src]
    · have := ih e he; simp only [List.length_cons]; omega
  | skip _ _ ih =>
    intro e he
    have := ih e he; simp only [List.length_cons]; omega
  | exp _ _ _ ih =>
    intro e he
    simp only [List.mem_cons] at he
    rcases he with rfl | he
    · simp [Entry.src]
    · have := ih e he; simp only [List.length_cons]; omega

theorem exact_pairwise {alive : L → Bool} {sH sN : Bool} {off k : Nat} {nodes : List (Node L C)}
    {es : List (Entry C)} (h : Exact alive sH sN off k nodes es) :
    es.Pairwise (fun x y => x.src < y.src) := by
  induction h with
  | nil => simp
  | @leaf sH sN off k l t0 rest es _ h2 ih =>
    simp only [List.pairwise_cons]
    refine ⟨fun e he => ?_, ih⟩
    have := exact_src_bounds h2 e he
    change k < e.src; omega
  | skip _ _ ih => exact ih
  | @exp sH sN off k l c body ns rest es _ h2 _ ih =>
    simp only [List.pairwise_cons]
    refine ⟨fun e he => ?_, ih⟩
    have := exact_src_bounds h2 e he
    change k < e.src; omega

theorem exact_hits {alive : L → Bool} {sH sN : Bool} {off k : Nat} {nodes : List (Node L C)}
    {es : List (Entry C)} (h : Exact alive sH sN off k nodes es) (hs : sH = true) (t : Nat) :
    hits es t = if off ≤ t ∧ t < off + (flat alive nodes).length then 1 else 0 := by
  induction h with
  | nil => simp [hits]
  | @leaf sH sN off k l t0 rest es hp _ ih =>
    obtain ⟨ha, rfl⟩ := hp hs
    have ih := ih hs
    rw [hits_cons, ih, flat_cons_leaf]
    simp only [flat_cons_leaf, ha, if_true, flat_nil, List.append_nil, List.length_cons, List.length_nil,
      Entry.contains, beq_iff_eq, List.length_append]
    split <;> split <;> (try split) <;> omega
  | @skip sH sN off k n rest es hn _ ih =>
    have ih := ih hs
    rw [ih, flat_cons alive n rest, hn]
    simp
  | @exp sH sN off k l c body ns rest es _ _ _ ih =>
    have ih := ih hs
    rw [hits_cons, ih]
    simp only [flat_cons_exp, Entry.contains, Bool.and_eq_true, decide_eq_true_eq, List.length_append]
    split <;> split <;> (try split) <;> omega

theorem exact_unmod {alive : L → Bool} {sH sN : Bool} {off k : Nat} {nodes : List (Node L C)}
    {es : List (Entry C)} (h : Exact alive sH sN off k nodes es) (hs : sH = true) {s t : Nat}
    (hm : Entry.unmod s t ∈ es) :
    k ≤ s ∧ off ≤ t ∧ ∃ l, nodes[s - k]? = some (.leaf l) ∧ (flat alive nodes)[t - off]? = some l := by
  induction h with
  | nil => simp at hm
  | @leaf sH sN off k l t0 rest es hp _ ih =>
    obtain ⟨ha, rfl⟩ := hp hs
    simp only [List.mem_cons, Entry.unmod.injEq] at hm
    rcases hm with ⟨rfl, rfl⟩ | hm
    · refine ⟨Nat.le_refl _, Nat.le_refl _, l, by simp, by simp [flat_cons_leaf, ha]⟩
    · obtain ⟨h1, h2, l', h3, h4⟩ := ih hs hm
      simp only [flat_cons_leaf, ha, if_true, flat_nil, List.append_nil, List.length_cons, List.length_nil] at h2 h4
      refine ⟨by omega, by omega, l', ?_, ?_⟩
      · have : s - k = (s - (k + 1)) + 1 := by omega
        rw [this, List.getElem?_cons_succ]; exact h3
      · have : t - t0 = (t - (t0 + (0 + 1))) + 1 := by omega
        rw [flat_cons_leaf, this]; simp only [ha, if_true, List.singleton_append, List.getElem?_cons_succ]
        exact h4
  | @skip sH sN off k n rest es hn _ ih =>
    obtain ⟨h1, h2, l', h3, h4⟩ := ih hs hm
    refine ⟨by omega, h2, l', ?_, ?_⟩
    · have : s - k = (s - (k + 1)) + 1 := by omega
      rw [this, List.getElem?_cons_succ]; exact h3
    · rw [flat_cons alive n rest, hn]; simpa using h4
  | @exp sH sN off k l c body ns rest es _ _ _ ih =>
    simp only [List.mem_cons, reduceCtorEq, false_or] at hm
    obtain ⟨h1, h2, l', h3, h4⟩ := ih hs hm
    refine ⟨by omega, by omega, l', ?_, ?_⟩
    · have : s - k = (s - (k + 1)) + 1 := by omega
      rw [this, List.getElem?_cons_succ]; exact h3
    · rw [flat_cons_exp, List.getElem?_append_right (by omega)]
      have : t - off - (flat alive body).length = t - (off + (flat alive body).length) := by omega
      rw [this]; exact h4

theorem exact_rew {alive : L → Bool} {sH sN : Bool} {off k : Nat} {nodes : List (Node L C)}
    {es : List (Entry C)} (h : Exact alive sH sN off k nodes es) {s : Nat} {c : C} {a b : Nat}
    {ns : List (Entry C)} (hm : Entry.rew s c a b ns ∈ es) :
    k ≤ s ∧ off ≤ a ∧ ∃ l body, nodes[s - k]? = some (.exp l c body) ∧ b = a + (flat alive body).length ∧
      b ≤ off + (flat alive nodes).length ∧
      slice (flat alive nodes) (a - off) (b - off) = flat alive body ∧ Exact alive sN sN 0 0 body ns := by
  induction h with
  | nil => simp at hm
  | @leaf sH sN off k l t0 rest es hp _ ih =>
    simp only [List.mem_cons, reduceCtorEq, false_or] at hm
    obtain ⟨h1, h2, l', body', h3, h4, h5, h6, h7⟩ := ih hm
    refine ⟨by omega, by omega, l', body', ?_, h4, ?_, ?_, h7⟩
    · have : s - k = (s - (k + 1)) + 1 := by omega
      rw [this, List.getElem?_cons_succ]; exact h3
    · rw [flat_cons alive (.leaf l) rest, List.length_append]; omega
    · rw [flat_cons alive (.leaf l) rest, slice_append_right _ _ _ _ (by omega)]
      have e1 : a - off - (flat alive [(Node.leaf l : Node L C)]).length
          = a - (off + (flat alive [(Node.leaf l : Node L C)]).length) := by omega
      have e2 : b - off - (flat alive [(Node.leaf l : Node L C)]).length
          = b - (off + (flat alive [(Node.leaf l : Node L C)]).length) := by omega
      rw [e1, e2]; exact h6
  | @skip sH sN off k n rest es hn _ ih =>
    obtain ⟨h1, h2, l', body', h3, h4, h5, h6, h7⟩ := ih hm
    refine ⟨by omega, h2, l', body', ?_, h4, ?_, ?_, h7⟩
    · have : s - k = (s - (k + 1)) + 1 := by omega
      rw [this, List.getElem?_cons_succ]; exact h3
    · rw [flat_cons alive n rest, hn]; simpa using h5
    · rw [flat_cons alive n rest, hn]; simpa using h6
  | @exp sH sN off k l c0 body ns0 rest es hb _ _ ih =>
    simp only [List.mem_cons, Entry.rew.injEq] at hm
    rcases hm with ⟨rfl, rfl, rfl, rfl, rfl⟩ | hm
    · refine ⟨Nat.le_refl _, Nat.le_refl _, l, body, by simp, rfl, by simp, ?_, hb⟩
      have e1 : a - a = 0 := by omega
      have e2 : a + (flat alive body).length - a = (flat alive body).length := by omega
      rw [e1, e2, flat_cons_exp, slice_append_left]
    · obtain ⟨h1, h2, l', body', h3, h4, h5, h6, h7⟩ := ih hm
      refine ⟨by omega, by omega, l', body', ?_, h4, ?_, ?_, h7⟩
      · have : s - k = (s - (k + 1)) + 1 := by omega
        rw [this, List.getElem?_cons_succ]; exact h3
      · rw [flat_cons_exp, List.length_append]; omega
      · rw [flat_cons_exp, slice_append_right _ _ _ _ (by omega)]
        have e1 : a - off - (flat alive body).length = a - (off + (flat alive body).length) := by omega
        have e2 : b - off - (flat alive body).length = b - (off + (flat alive body).length) := by omega
        rw [e1, e2]; exact h6

/-- an exact map (strict at this level) is well formed, given that the nested ones are -/
theorem wf_of_exact {alive : L → Bool} {sN : Bool} {nodes : List (Node L C)} {es : List (Entry C)}
    (h : Exact alive true sN 0 0 nodes es)
    (hn : ∀ s c a b ns l body, Entry.rew s c a b ns ∈ es → nodes[s]? = some (.exp l c body) →
      WF body (flat alive body) ns) :
    WF nodes (flat alive nodes) es := by
  refine .mk (exact_pairwise h) ?_ ?_ ?_ ?_ ?_
  · intro e he; have := exact_src_bounds h e he; omega
  · intro s t hm
    obtain ⟨_, _, l, h3, h4⟩ := exact_unmod h rfl hm
    exact ⟨.leaf l, by simpa using h3, by simpa [Node.root] using h4⟩
  · intro s c a b ns hm
    obtain ⟨_, _, l, body, h3, h4, h5, _, _⟩ := exact_rew h hm
    exact ⟨by omega, by omega, l, body, by simpa using h3⟩
  · intro s c a b ns l body hm hnode
    obtain ⟨_, _, l', body', h3, h4, h5, h6, _⟩ := exact_rew h hm
    simp only [Nat.sub_zero] at h3 h6
    rw [hnode] at h3
    simp only [Option.some.injEq, Node.exp.injEq] at h3
    obtain ⟨_, _, rfl⟩ := h3
    rw [h6]; exact hn s c a b ns l body hm hnode
  · intro t ht
    rw [exact_hits h rfl]; simp; omega

theorem exact_nested_wf {alive : L → Bool} {sH sN : Bool} {off k : Nat} {nodes : List (Node L C)}
    {es : List (Entry C)} (h : Exact alive sH sN off k nodes es) (hs : sN = true) :
    ∀ s c a b ns l body, Entry.rew s c a b ns ∈ es → nodes[s - k]? = some (.exp l c body) →
      WF body (flat alive body) ns := by
  induction h with
  | nil => simp
  | @leaf sH sN off k l0 t0 rest es _ h2 ih =>
    intro s c a b ns l body hm hnode
    simp only [List.mem_cons, reduceCtorEq, false_or] at hm
    have := exact_src_bounds h2 _ hm
    simp only [Entry.src] at this
    have e : s - k = (s - (k + 1)) + 1 := by omega
    rw [e, List.getElem?_cons_succ] at hnode
    exact ih hs s c a b ns l body hm hnode
  | @skip sH sN off k n rest es _ h2 ih =>
    intro s c a b ns l body hm hnode
    have := exact_src_bounds h2 _ hm
    simp only [Entry.src] at this
    have e : s - k = (s - (k + 1)) + 1 := by omega
    rw [e, List.getElem?_cons_succ] at hnode
    exact ih hs s c a b ns l body hm hnode
  | @exp sH sN off k l0 c0 body0 ns0 rest es hb h2 ih1 ih2 =>
    intro s c a b ns l body hm hnode
    simp only [List.mem_cons, Entry.rew.injEq] at hm
    rcases hm with ⟨rfl, rfl, rfl, rfl, rfl⟩ | hm
    · simp only [Nat.sub_self, List.getElem?_cons_zero, Option.some.injEq, Node.exp.injEq] at hnode
      obtain ⟨_, _, rfl⟩ := hnode
      subst hs
      exact wf_of_exact hb (by simpa using ih1 rfl)
    · have := exact_src_bounds h2 _ hm
      simp only [Entry.src] at this
      have e : s - k = (s - (k + 1)) + 1 := by omega
      rw [e, List.getElem?_cons_succ] at hnode
      exact ih2 hs s c a b ns l body hm hnode

/-- **the ideal (strict) positional map is well formed** -/
theorem exact_wf {alive : L → Bool} {nodes : List (Node L C)} {es : List (Entry C)}
    (h : Exact alive true true 0 0 nodes es) : WF nodes (flat alive nodes) es :=
  wf_of_exact h (by simpa using exact_nested_wf h rfl)

/-! ### the model: `expBody` -/

theorem leaves_cons_leaf (l : L) (rest : List (Node L C)) : leaves (.leaf l :: rest) = l :: leaves rest := by
  simp [leaves, flat]

theorem leaves_cons_exp (l : L) (c : C) (body rest : List (Node L C)) :
    leaves (.exp l c body :: rest) = leaves body ++ leaves rest := by
  simp [leaves, flat]

theorem expBody_fst (ns : List (Node L C)) (k off : Nat) : (expBody ns k off).1 = leaves ns := by
  fun_induction expBody ns k off with
  | case1 => simp [leaves]
  | case2 l rest k off r ih => simp [leaves_cons_leaf, r, ih]
  | case3 l c body rest k off b r ih1 ih2 =>
    rw [leaves_cons_exp]
    exact congr (congrArg _ ih1) ih2

theorem flat_all_alive (alive : L → Bool) (ns : List (Node L C)) (H : ∀ l ∈ leaves ns, alive l = true) :
    flat alive ns = leaves ns := by
  fun_induction flat alive ns with
  | case1 => simp [leaves]
  | case2 l rest hl ih =>
    rw [leaves_cons_leaf, ih (fun x hx => H x (by simp [leaves_cons_leaf, hx]))]
  | case3 l rest hl ih =>
    have := H l (by simp [leaves_cons_leaf])
    simp [this] at hl
  | case4 l c body rest ih1 ih2 =>
    rw [leaves_cons_exp, ih1 (fun x hx => H x (by simp [leaves_cons_exp, hx])),
      ih2 (fun x hx => H x (by simp [leaves_cons_exp, hx]))]

theorem expBody_exact (alive : L → Bool) (ns : List (Node L C)) (k off : Nat)
    (H : ∀ l ∈ leaves ns, alive l = true) : Exact alive true true off k ns (expBody ns k off).2 := by
  fun_induction expBody ns k off with
  | case1 => exact .nil
  | case2 l rest k off r ih =>
    have hl : alive l = true := H l (by simp [leaves_cons_leaf])
    have ih := ih (fun x hx => H x (by simp [leaves_cons_leaf, hx]))
    refine .leaf (fun _ => ⟨hl, rfl⟩) ?_
    simpa [flat_cons_leaf, hl] using ih
  | case3 l c body rest k off b r ih1 ih2 =>
    have ih1 := ih1 (fun x hx => H x (by simp [leaves_cons_exp, hx]))
    have ih2 := ih2 (fun x hx => H x (by simp [leaves_cons_exp, hx]))
    have e : b.1.length = (flat alive body).length := by
      rw [flat_all_alive alive body (fun x hx => H x (by simp [leaves_cons_exp, hx]))]
      simp [b, expBody_fst]
    have ih2' : Exact alive true true (off + (flat alive body).length) (k + 1) rest r.2 := by
      rw [← e]; exact ih2
    show Exact alive true true off k _ (.rew k c off (off + b.1.length) b.2 :: r.2)
    rw [e]
    exact .exp ih1 ih2'

/-! ### the model: `appendLoop`, `expandFrom` -/

/-- what `append_calibration_expansion_output_inner`'s loop achieves for one calibration body: the pushed
instructions are the surviving leaves and the adjusted detail is exact (strictness `sN`) -/
def AppendOK (h : L → Bool) (sN : Bool) (body : List (Node L C)) : Prop :=
  ∃ d, appendLoop h (expBody body 0 0).1 0
      { start := 0, stop := (expBody body 0 0).1.length, entries := (expBody body 0 0).2 }
        = (flat (fun l => !h l) body, d) ∧
    Exact (fun l => !h l) sN sN 0 0 body d.entries

theorem appendLoop_noHoist (h : L → Bool) (is : List L) (n : Nat) (d : Detail C)
    (H : ∀ l ∈ is, h l = false) : appendLoop h is n d = (is, d) := by
  induction is generalizing n with
  | nil => simp [appendLoop]
  | cons l rest ih =>
    have hl := H l (by simp)
    simp [appendLoop, hl, ih (n + 1) (fun x hx => H x (by simp [hx]))]

theorem appendOK_noHoist (h : L → Bool) (body : List (Node L C)) (H : ∀ l ∈ leaves body, h l = false) :
    AppendOK h true body := by
  have H' : ∀ l ∈ leaves body, (fun l => !h l) l = true := fun l hl => by simp [H l hl]
  refine ⟨{ start := 0, stop := (expBody body 0 0).1.length, entries := (expBody body 0 0).2 }, ?_,
    expBody_exact (fun l => !h l) body 0 0 H'⟩
  rw [appendLoop_noHoist h _ _ _ (by rw [expBody_fst]; exact H), expBody_fst, flat_all_alive _ _ H']

theorem expandFrom_exact (h : L → Bool) (sN : Bool) (nodes : List (Node L C)) (k : Nat) (body : List L)
    (map : List (Entry C))
    (hA : ∀ l c b, Node.exp l c b ∈ nodes → AppendOK h sN b)
    (hT : ∀ l, Node.leaf l ∈ nodes → h l = false) :
    ∃ es, expandFrom h nodes k body map = .ok (body ++ flat (fun l => !h l) nodes) (map ++ es) ∧
      Exact (fun l => !h l) true sN body.length k nodes es := by
  induction nodes generalizing k body map with
  | nil => exact ⟨[], by simp [expandFrom], .nil⟩
  | cons n rest ih =>
    have hA' : ∀ l c b, Node.exp l c b ∈ rest → AppendOK h sN b :=
      fun l c b hm => hA l c b (by simp [hm])
    have hT' : ∀ l, Node.leaf l ∈ rest → h l = false := fun l hm => hT l (by simp [hm])
    cases n with
    | leaf l =>
      have hl : h l = false := hT l (by simp)
      obtain ⟨es, he, hE⟩ := ih (k + 1) (body ++ [l]) (map ++ [.unmod k body.length]) hA' hT'
      refine ⟨.unmod k body.length :: es, ?_, ?_⟩
      · simp only [expandFrom, hl, Bool.false_eq_true, if_false, List.length_append, List.length_cons,
          List.length_nil, Nat.add_eq_zero_iff, Nat.succ_ne_self, and_false, Nat.add_sub_cancel]
        rw [he, flat_cons_leaf]
        simp [hl]
      · refine .leaf (fun _ => ⟨by simp [hl], rfl⟩) ?_
        simpa [flat_cons_leaf, hl] using hE
    | exp l c b =>
      obtain ⟨d, hd, hE0⟩ := hA l c b (by simp)
      by_cases hne : (flat (fun l => !h l) b).length = 0
      · have hnil : flat (fun l => !h l) b = [] := List.length_eq_zero_iff.mp hne
        obtain ⟨es, he, hE⟩ := ih (k + 1) body map hA' hT'
        refine ⟨es, ?_, ?_⟩
        · simp only [expandFrom, hd, hnil, List.append_nil, Nat.lt_irrefl, if_false]
          rw [he]; simp [hnil]
        · exact .skip (by simp [hnil]) hE
      · obtain ⟨es, he, hE⟩ := ih (k + 1) (body ++ flat (fun l => !h l) b)
          (map ++ [.rew k c body.length (body.length + (flat (fun l => !h l) b).length) d.entries]) hA' hT'
        refine ⟨.rew k c body.length (body.length + (flat (fun l => !h l) b).length) d.entries :: es, ?_, ?_⟩
        · simp only [expandFrom, hd, List.length_append]
          rw [if_pos (by omega), he]
          simp
        · refine .exp hE0 ?_
          simpa using hE

end QV.C19
