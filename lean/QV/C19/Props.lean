import QV.C19.Lemmas
/-
C19 — The calibration source map exactly accounts for every expansion.

Property theorems. The model (`QV/C19/Model.lean`) is the source-map bookkeeping of
`recursively_expand_inner`, `remove_target_index`, `append_calibration_expansion_output_inner`,
`expand_calibrations_inner` and `list_sources` / `list_targets`, over an arbitrary expansion tree (what
matched what is C16/C17's business). `WF` (`Spec.lean`) is the statement; `Exact` the positional
characterisation of the ideal map.
-/
namespace QV.C19
variable {L C : Type}

/-- **The Bool checker decides the specification.** -/
theorem C19_wfB_iff [DecidableEq L] [DecidableEq C] (nodes : List (Node L C)) (out : List L)
    (es : List (Entry C)) : wfB nodes out es = true ↔ WF nodes out es :=
  wfB_iff' nodes out es

/-- **The ideal positional map is well formed** — whatever is hoisted: if every `Rewritten` range is
exactly where the instruction's surviving output lies, every `Unmodified` entry points at its surviving
leaf, and instructions of which nothing survives have no entry, then the map satisfies the statement
w.r.t. the surviving output. (So a repaired `remove_target_index` that produces the ideal map is correct.) -/
theorem C19_exact_wf {alive : L → Bool} {nodes : List (Node L C)} {es : List (Entry C)}
    (h : Exact alive true true 0 0 nodes es) : WF nodes (flat alive nodes) es :=
  exact_wf h

private theorem leaves_sub_exp {nodes : List (Node L C)} {l : L} {c : C} {b : List (Node L C)}
    (hm : Node.exp l c b ∈ nodes) {x : L} (hx : x ∈ leaves b) : x ∈ leaves nodes := by
  induction nodes with
  | nil => simp at hm
  | cons n rest ih =>
    unfold leaves at *
    rw [flat_cons]
    simp only [List.mem_cons] at hm
    rcases hm with rfl | hm
    · simp [hx]
    · simp [ih hm]

private theorem leaves_sub_leaf {nodes : List (Node L C)} {l : L}
    (hm : Node.leaf l ∈ nodes) : l ∈ leaves nodes := by
  induction nodes with
  | nil => simp at hm
  | cons n rest ih =>
    unfold leaves at *
    rw [flat_cons]
    simp only [List.mem_cons] at hm
    rcases hm with rfl | hm
    · simp [flat]
    · simp [ih hm]

/-- **C19, full statement, for every expansion tree in which no produced instruction is hoisted** (any
number of source instructions, any nesting depth, any body lengths): `expand_calibrations_with_source_map`
does not crash, the expanded body is the leaves of the trees in order, and the source map is well formed
w.r.t. the source instructions and that body. -/
theorem C19_expand_map_wf (h : L → Bool) (nodes : List (Node L C))
    (H : ∀ l ∈ leaves nodes, h l = false) :
    ∃ m, expandProgram h nodes = .ok (leaves nodes) m ∧ WF nodes (leaves nodes) m := by
  obtain ⟨es, he, hE⟩ := expandFrom_exact h true nodes 0 [] []
    (fun l c b hm => appendOK_noHoist h b (fun x hx => H x (leaves_sub_exp hm hx)))
    (fun l hm => H l (leaves_sub_leaf hm))
  have hf : flat (fun l => !h l) nodes = leaves nodes :=
    flat_all_alive _ _ (fun l hl => by simp [H l hl])
  refine ⟨es, by simpa [expandProgram, hf] using he, ?_⟩
  rw [← hf]
  exact exact_wf hE

/-- **`Calibrations::expand_with_detail`** (the instruction-level entry point, before anything is hoisted):
for EVERY expansion tree the new instructions are the leaves in order, the range is `0..len`, and the
detail's entries are a well-formed map from the calibration body to them. -/
theorem C19_expand_with_detail_wf (l : L) (c : C) (body : List (Node L C)) :
    ∃ d, expandWithDetail (.exp l c body) = some (leaves body, d) ∧ d.start = 0 ∧
      d.stop = (leaves body).length ∧ WF body (leaves body) d.entries := by
  refine ⟨{ start := 0, stop := (leaves body).length, entries := (expBody body 0 0).2 },
    by simp only [expandWithDetail, expBody_fst], rfl, rfl, ?_⟩
  have h := exact_wf (expBody_exact (fun _ : L => true) body 0 0 (fun _ _ => rfl))
  simpa [leaves] using h

/-- non-vacuity: a depth-3 tree without hoisting; the theorem's map is the computed one -/
example :
    expandProgram (fun (_ : Nat) => false)
        [.leaf 7, .exp 1 10 [.leaf 2, .exp 3 11 [.exp 4 12 [.leaf 5, .leaf 6], .leaf 8], .leaf 9]]
      = .ok [7, 2, 5, 6, 8, 9]
          [.unmod 0 0, .rew 1 10 1 6 [.unmod 0 0, .rew 1 11 1 4 [.rew 0 12 0 2 [.unmod 0 0, .unmod 1 1], .unmod 1 2],
            .unmod 2 4]] := by
  simp [expandProgram, expandFrom, expBody, appendLoop]

/-- **C19, partial statement, for EVERY expansion tree** (hoisted instructions anywhere inside calibration
bodies, any depth): if the top-level unmatched instructions are not hoisted (a `Program` body never holds a
hoisted instruction), `expand_calibrations_with_source_map` does not crash, the expanded body is the
surviving leaves in order, and the map is positionally exact in everything but the nested `Unmodified`
entries: top-level `Unmodified` entries point at their instruction, every `Rewritten` range — at every
depth, after any number of `remove_target_index` calls — is exactly where the surviving output of its
instruction lies, relative to the parent range, and an instruction has no entry only if nothing of it
survives. (Excluded, and false of the code: the nested `Unmodified` entries, see `C19_counterexample`.) -/
theorem C19_expand_map_exact_partial (h : L → Bool) (nodes : List (Node L C))
    (hTop : ∀ l, Node.leaf l ∈ nodes → h l = false) :
    ∃ m, expandProgram h nodes = .ok (flat (fun l => !h l) nodes) m ∧
      Exact (fun l => !h l) true false 0 0 nodes m := by
  obtain ⟨es, he, hE⟩ := expandFrom_exact h false nodes 0 [] []
    (fun l c b _ => appendOK_general h b) hTop
  exact ⟨es, by simpa [expandProgram] using he, hE⟩

/-- What the partial statement gives in the vocabulary of the specification: every clause of `WF` at
the top level — entries strictly increasing in source index; `Unmodified t` points at the identical
instruction; a `Rewritten a..b` entry belongs to an expanded instruction, `a ≤ b ≤ |out|`, and its slice of
the output is exactly the surviving leaves of that calibration body, whose nested entries are again exact
in their ranges; every output position is covered by exactly one entry. Only the recursive clause is
weakened (nested `Exact … false false` instead of nested `WF`). -/
theorem C19_partial_top_level {alive : L → Bool} {nodes : List (Node L C)} {m : List (Entry C)}
    (hE : Exact alive true false 0 0 nodes m) :
    m.Pairwise (fun x y => x.src < y.src) ∧ (∀ e ∈ m, e.src < nodes.length) ∧
    (∀ s t, Entry.unmod s t ∈ m → ∃ n, nodes[s]? = some n ∧ (flat alive nodes)[t]? = some n.root) ∧
    (∀ s c a b ns, Entry.rew s c a b ns ∈ m → a ≤ b ∧ b ≤ (flat alive nodes).length ∧
      ∃ l body, nodes[s]? = some (.exp l c body) ∧ slice (flat alive nodes) a b = flat alive body ∧
        Exact alive false false 0 0 body ns) ∧
    (∀ t, t < (flat alive nodes).length → hits m t = 1) := by
  refine ⟨exact_pairwise hE, fun e he => by have := exact_src_bounds hE e he; omega, ?_, ?_, ?_⟩
  · intro s t hm
    obtain ⟨_, _, l, h3, h4⟩ := exact_unmod hE rfl hm
    exact ⟨.leaf l, by simpa using h3, by simpa [Node.root] using h4⟩
  · intro s c a b ns hm
    obtain ⟨_, _, l, body, h3, h4, h5, h6, h7⟩ := exact_rew hE hm
    exact ⟨by omega, by omega, l, body, by simpa using h3, by simpa using h6, h7⟩
  · intro t ht
    rw [exact_hits hE rfl]; simp; omega

/-- **`remove_target_index` keeps every range exact** (the invariant behind the partial statement, and
the property the `fix:` commit 58e3276 established): removing surviving leaf number `t` from a forest
whose entries are range-exact leaves them range-exact for the forest without that leaf. -/
theorem C19_remove_target_index_exact (alive : L → Bool) (kill : L → L) (hk : ∀ l, alive (kill l) = false)
    {nodes : List (Node L C)} {es : List (Entry C)} (h : Exact alive false false 0 0 nodes es) (t : Nat) :
    Exact alive false false 0 0 (killAt alive kill nodes t) (retain t es) ∧
      flat alive (killAt alive kill nodes t) = (flat alive nodes).eraseIdx t := by
  have := (retain_exact alive kill hk h rfl rfl t).2 (Nat.zero_le _)
  exact ⟨by simpa using this, flat_killAt alive kill hk nodes t⟩

/-- The driver's classifier for the known finding evaluates `exactB … true false` on the implementation's
map: it is sound for `Exact`. -/
theorem C19_exactB_sound [DecidableEq C] (alive : L → Bool) (sH sN : Bool) (nodes : List (Node L C))
    (es : List (Entry C)) (h : exactB alive sH sN 0 0 nodes es = true) : Exact alive sH sN 0 0 nodes es :=
  exactB_sound alive sH sN 0 0 nodes es h

/-- non-vacuity of the partial statement: the known-finding witness satisfies it (all ranges exact) -/
example : Exact (fun l : Nat => !decide (100 ≤ l)) true false 0 0
    ([.exp 1 10 [.leaf 100, .leaf 2, .exp 3 11 [.leaf 101, .leaf 4]]] : List (Node Nat Nat))
    [.rew 0 10 0 2 [.unmod 0 0, .unmod 1 1, .rew 2 11 1 2 [.unmod 0 0, .unmod 1 1]]] := by
  have := C19_expand_map_exact_partial (C := Nat) (fun l : Nat => decide (100 ≤ l))
    [.exp 1 10 [.leaf 100, .leaf 2, .exp 3 11 [.leaf 101, .leaf 4]]] (by simp)
  obtain ⟨m, h1, h2⟩ := this
  simp [expandProgram, expandFrom, expBody, appendLoop, Detail.remove, retain] at h1
  rw [h1.2]; exact h2

/-! ### `list_sources` / `list_targets` -/

/-- For ANY map: `s` is listed as a source of target `t` iff some target location listed for `s` contains `t`. -/
theorem C19_list_inverse (m : List (Entry C)) (s t : Nat) :
    s ∈ listSources m t ↔ ∃ e ∈ listTargets m s, e.contains t = true := by
  simp only [listSources, listTargets, List.mem_map, List.mem_filter, beq_iff_eq]
  constructor
  · rintro ⟨e, ⟨he, hc⟩, rfl⟩; exact ⟨e, ⟨he, rfl⟩, hc⟩
  · rintro ⟨e, ⟨he, hs⟩, hc⟩; exact ⟨e, ⟨he, hc⟩, hs⟩

/-- From `WF`: every output position has exactly one source. -/
theorem C19_sources_unique {nodes : List (Node L C)} {out : List L} {m : List (Entry C)}
    (h : WF nodes out m) (t : Nat) (ht : t < out.length) : (listSources m t).length = 1 := by
  cases h with
  | mk _ _ _ _ _ h6 => simpa [listSources, hits] using h6 t ht

private theorem targets_unique_of_pairwise {m : List (Entry C)}
    (h1 : m.Pairwise (fun x y => x.src < y.src)) (s : Nat) : (listTargets m s).length ≤ 1 := by
  induction m with
  | nil => simp [listTargets]
  | cons e rest ih =>
    simp only [List.pairwise_cons] at h1
    have ih := ih h1.2
    simp only [listTargets, List.filter_cons] at ih ⊢
    split
    · rename_i he
      have : rest.filter (fun x => x.src == s) = [] := by
        simp only [List.filter_eq_nil_iff, beq_iff_eq]
        intro x hx hxs
        have := h1.1 x hx
        simp only [beq_iff_eq] at he
        omega
      simp [this]
    · exact ih

/-- From `WF`: a source instruction has at most one target location. -/
theorem C19_targets_unique {nodes : List (Node L C)} {out : List L} {m : List (Entry C)}
    (h : WF nodes out m) (s : Nat) : (listTargets m s).length ≤ 1 := by
  cases h with
  | mk h1 _ _ _ _ _ => exact targets_unique_of_pairwise h1 s

/-- From `WF`: nothing beyond the output is mapped. -/
theorem C19_sources_bounded {nodes : List (Node L C)} {out : List L} {m : List (Entry C)}
    (h : WF nodes out m) (t : Nat) (ht : out.length ≤ t) : listSources m t = [] := by
  cases h with
  | mk _ _ h3 h4 _ _ =>
    simp only [listSources, List.map_eq_nil_iff, List.filter_eq_nil_iff]
    intro e he hc
    cases e with
    | unmod s u =>
      obtain ⟨n, _, hn⟩ := h3 s u he
      simp only [Entry.contains, beq_iff_eq] at hc
      subst hc
      have := (List.getElem?_eq_some_iff.mp hn).1
      omega
    | rew s c a b ns =>
      obtain ⟨_, hb, _⟩ := h4 s c a b ns he
      simp only [Entry.contains, Bool.and_eq_true, decide_eq_true_eq] at hc
      omega

/-! ### the defect: hoisted instructions inside a calibration body -/

/-- the known-finding witness: `DEFCAL X 0: DECLARE a BIT; NOP; Y 0`, `DEFCAL Y 0: DECLARE b BIT; WAIT`,
program `X 0`; instructions `≥ 100` are the hoisted ones (`DECLARE`) -/
def witness : List (Node Nat Nat) :=
  [.exp 1 10 [.leaf 100, .leaf 2, .exp 3 11 [.leaf 101, .leaf 4]]]

/-- FULL STATEMENT (false of the code): for every expansion tree whose top-level unmatched instructions
are not hoisted, `expandProgram h nodes = .ok out m` with `WF nodes out m`.
**Counterexample**: on the witness the model (= the code, see the corpus case of the harness) returns a
map that is not well formed: the nested entries are `Unmodified(0), Unmodified(1), Rewritten(1..2)` for an
output slice `[NOP, WAIT]` of length 2 — `Unmodified(0)` is the entry of the removed `DECLARE`, and
`Unmodified(1)` of `NOP` was not shifted. -/
theorem C19_counterexample :
    ∃ out m, expandProgram (fun l => decide (100 ≤ l)) witness = .ok out m ∧ ¬ WF witness out m := by
  refine ⟨[2, 4], [.rew 0 10 0 2 [.unmod 0 0, .unmod 1 1, .rew 2 11 1 2 [.unmod 0 0, .unmod 1 1]]],
    by simp [witness, expandProgram, expandFrom, expBody, appendLoop, Detail.remove, retain], fun hw => ?_⟩
  have := (wfB_iff' _ _ _).2 hw
  revert this
  simp [witness, wfB, entriesB, localB, hits, Entry.contains, Entry.src, slice, Node.root]

end QV.C19
