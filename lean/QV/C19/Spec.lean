import QV.C19.Model
/-
C19 — the property as a declarative `Prop` (`WF`) and a `Bool` checker (`wfB`), plus the positional
characterisation `Exact` (every range is exactly where the instruction's surviving output lies) used
for the partial statement about hoisted instructions.

Statement (properties.jsonl): "The source map from calibration expansion has at most one entry per
source body instruction, in source order. An unmodified entry points to an identical instruction in the
output, and rewritten ranges are contiguous, disjoint, and together with the unmodified entries cover
the output body exactly. Nested expansion records are relative to their parent range and consistent
with it, so querying sources of a target and targets of a source are inverse."

`WF nodes out es`: `nodes` are the expansion trees of the source instructions of this level (their
roots are the source instructions), `out` is the output of this level (the program body at top level,
the parent's slice below), `es` the entries.
-/
namespace QV.C19
variable {L C : Type}

/-- how many entries contain target index `t` -/
def hits (es : List (Entry C)) (t : Nat) : Nat := (es.filter (·.contains t)).length

/-- the part `[a, b)` of a list -/
def slice (out : List L) (a b : Nat) : List L := (out.drop a).take (b - a)

/-- **The specification.**
1. sources strictly increasing (so: in source order, at most one entry per source instruction), and
   they are indices of source instructions;
2. `Unmodified t`: `out[t]` exists and is identical to the source instruction;
3. `Rewritten a..b`: `a ≤ b ≤ |out|` (a contiguous part of the output), the source instruction is one that
   calibration `c` expanded;
4. nested: the nested entries are a well-formed map from the calibration body (the children of the source
   instruction) to the slice `out[a..b)`, with indices relative to `a` — recursively, so the leaves
   reconstruct exactly that slice;
5. every output position is contained in exactly one entry (ranges and unmodified targets are pairwise
   disjoint and cover `[0, |out|)`; by 2 and 3 they contain nothing else). -/
inductive WF : List (Node L C) → List L → List (Entry C) → Prop
  | mk {nodes : List (Node L C)} {out : List L} {es : List (Entry C)} :
      es.Pairwise (fun x y => x.src < y.src) →
      (∀ e ∈ es, e.src < nodes.length) →
      (∀ s t, Entry.unmod s t ∈ es → ∃ n, nodes[s]? = some n ∧ out[t]? = some n.root) →
      (∀ s c a b ns, Entry.rew s c a b ns ∈ es →
        a ≤ b ∧ b ≤ out.length ∧ ∃ l body, nodes[s]? = some (.exp l c body)) →
      (∀ s c a b ns l body, Entry.rew s c a b ns ∈ es → nodes[s]? = some (.exp l c body) →
        WF body (slice out a b) ns) →
      (∀ t, t < out.length → hits es t = 1) →
      WF nodes out es

/-! ### Bool checker -/

/-- clauses 1 and 5 -/
def localB (nNodes nOut : Nat) (es : List (Entry C)) : Bool :=
  decide (es.Pairwise (fun x y => x.src < y.src)) && es.all (fun e => e.src < nNodes) &&
    (List.range nOut).all (fun t => hits es t == 1)

/-- clauses 2, 3, 4 (4 recursively with all five clauses) -/
def entriesB [DecidableEq L] [DecidableEq C] (nodes : List (Node L C)) (out : List L) :
    List (Entry C) → Bool
  | [] => true
  | .unmod s t :: rest =>
    (match nodes[s]? with
      | some n => decide (out[t]? = some n.root)
      | none => false) && entriesB nodes out rest
  | .rew s c a b ns :: rest =>
    (decide (a ≤ b) && decide (b ≤ out.length) &&
      match nodes[s]? with
      | some (.exp _ c' body) =>
        decide (c' = c) && localB body.length (slice out a b).length ns && entriesB body (slice out a b) ns
      | _ => false) && entriesB nodes out rest

/-- **Bool checker for `WF`** (`wfB_iff` in Props). -/
def wfB [DecidableEq L] [DecidableEq C] (nodes : List (Node L C)) (out : List L) (es : List (Entry C)) : Bool :=
  localB nodes.length out.length es && entriesB nodes out es

/-! ### Positional characterisation -/

/-- The instructions an expansion tree contributes to the program body: its leaves, in order, without
those that are not `alive` (at the end of the expansion: `alive l = !hoisted l`). -/
def flat (alive : L → Bool) : List (Node L C) → List L
  | [] => []
  | .leaf l :: rest => if alive l then l :: flat alive rest else flat alive rest
  | .exp _ _ body :: rest => flat alive body ++ flat alive rest

/-- all leaves of the trees, in order (`new_instructions`) -/
def leaves (nodes : List (Node L C)) : List L := flat (fun _ => true) nodes

/-- `Exact alive sH sN off k nodes es`: `es` are entries for the source instructions `nodes` (numbered
from `k`), whose surviving output starts at `off`, such that
* an `exp` node has the entry `Rewritten off .. off + (number of its surviving leaves)`, nested entries
  exact relative to that range — or no entry, if nothing of it survives;
* a `leaf` has the entry `Unmodified t` — with `t = off` and the leaf alive if `sH` (strict at this level),
  with no condition otherwise — or no entry, if it is not alive;
`sN` is the strictness of all nested levels. `Exact alive true true` is the ideal source map. -/
inductive Exact (alive : L → Bool) : Bool → Bool → Nat → Nat → List (Node L C) → List (Entry C) → Prop
  | nil {sH sN off k} : Exact alive sH sN off k [] []
  | leaf {sH sN off k l t rest es} :
      (sH = true → alive l = true ∧ t = off) →
      Exact alive sH sN (off + (flat alive [(.leaf l : Node L C)]).length) (k + 1) rest es →
      Exact alive sH sN off k (.leaf l :: rest) (.unmod k t :: es)
  | skip {sH sN off k n rest es} :
      flat alive [n] = [] →
      Exact alive sH sN off (k + 1) rest es →
      Exact alive sH sN off k (n :: rest) es
  | exp {sH sN off k l c body ns rest es} :
      Exact alive sN sN 0 0 body ns →
      Exact alive sH sN (off + (flat alive body).length) (k + 1) rest es →
      Exact alive sH sN off k (.exp l c body :: rest) (.rew k c off (off + (flat alive body).length) ns :: es)

/-- Bool checker for `Exact` (sound: `exactB_sound` in Lemmas). Used by the driver to recognise the known
finding: "everything but the nested `Unmodified` entries is exact". -/
def exactB [DecidableEq C] (alive : L → Bool) : Bool → Bool → Nat → Nat → List (Node L C) → List (Entry C) → Bool
  | _, _, _, _, [], es => es.isEmpty
  | sH, sN, off, k, .leaf l :: rest, es =>
    match es with
    | .unmod s t :: es' =>
      if s = k then
        (!sH || (alive l && t == off)) &&
          exactB alive sH sN (off + (flat alive [(.leaf l : Node L C)]).length) (k + 1) rest es'
      else !alive l && exactB alive sH sN off (k + 1) rest es
    | _ => !alive l && exactB alive sH sN off (k + 1) rest es
  | sH, sN, off, k, .exp l c body :: rest, es =>
    match es with
    | .rew s c' a b ns :: es' =>
      if s = k then
        decide (c' = c) && a == off && b == off + (flat alive body).length &&
          exactB alive sN sN 0 0 body ns &&
          exactB alive sH sN (off + (flat alive body).length) (k + 1) rest es'
      else (flat alive [(.exp l c body : Node L C)]).isEmpty && exactB alive sH sN off (k + 1) rest es
    | _ => (flat alive [(.exp l c body : Node L C)]).isEmpty && exactB alive sH sN off (k + 1) rest es

/-- does some expanded calibration body contain (at any depth) a leaf that is not alive? -/
def deadInBody (alive : L → Bool) : List (Node L C) → Bool
  | [] => false
  | .leaf _ :: rest => deadInBody alive rest
  | .exp _ _ body :: rest =>
    decide ((flat alive body).length < (leaves body).length) || deadInBody alive rest

end QV.C19
