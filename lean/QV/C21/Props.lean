import QV.C20.Props
import QV.C21.Lemmas
/-
C21 — The gate-sequence source map matches the expansion.

"Both gate-sequence expansion entry points produce the same program. The source map has exactly one entry
per source body instruction in order, unmodified entries point at identical output instructions, and
rewritten ranges are contiguous and cover exactly the gates the invocation produced. Nested maps describe
the nested expansions relative to their parent range."

Theorems about the models `C21.expandMap` / `C20.expand`, for every list of definitions, filter and body.
-/
namespace QV.C21
open QV QV.C20
variable {K : Type}

/-- **Both entry points compute the same thing**, for every outcome (result, error, and — in the model —
running out of fuel), below any stack and with any fuel: forgetting the source map of
`expand_with_source_map_impl` gives `expand_without_source_map_impl`. -/
theorem C21_same_outcome_general (defs : List (Def K)) (sel : String → Bool) (fuel : Nat)
    (stack : List String) (src : List (Instr K)) :
    dropMap (expandMapFuel defs sel fuel stack src) = expandFuel defs sel fuel stack src :=
  expandMapFuel_dropMap defs sel fuel stack src

theorem C21_same_outcome (defs : List (Def K)) (sel : String → Bool) (src : List (Instr K)) :
    dropMap (expandMap defs sel src) = expand defs sel src :=
  expandMapFuel_dropMap defs sel _ [] src

/-- **Both entry points produce the same program** (body and retained definitions) or the same error. -/
theorem C21_same_program (p : Program K) (sel : String → Bool) :
    dropMap (expandProgramWithMap p sel) = expandProgram p sel := by
  have := C21_same_outcome p.defs sel p.body
  unfold expandProgramWithMap expandProgram
  cases h : expandMap p.defs sel p.body with
  | ok q => obtain ⟨b, m⟩ := q; rw [h] at this; simp [dropMap] at this ⊢; rw [← this]
  | err e => rw [h] at this; simp [dropMap] at this ⊢; rw [← this]
  | outOfFuel => rw [h] at this; simp [dropMap] at this ⊢; rw [← this]

/-- The source-map variant terminates too. -/
theorem C21_terminates (defs : List (Def K)) (sel : String → Bool) (src : List (Instr K)) :
    expandMap defs sel src ≠ .outOfFuel := by
  intro h
  have := C21_same_outcome defs sel src
  rw [h] at this
  exact C20_terminates defs sel src this.symm

/-- **The returned map is a faithful source map** of "source ↦ returned body" (`MapOK`). -/
theorem C21_map_ok (defs : List (Def K)) (sel : String → Bool) (src out : List (Instr K)) (m : List Entry)
    (h : expandMap defs sel src = .ok (out, m)) : MapOK defs sel 0 0 src out m :=
  expandMapFuel_mapOK defs sel _ [] src out m h

/-- … and it is the only one: whenever the expansion succeeds, the map it returns is *the* faithful map,
and any faithful map of the same source describes the same output. -/
theorem C21_map_unique (defs : List (Def K)) (sel : String → Bool) (src out out' : List (Instr K))
    (m m' : List Entry) (h : expandMap defs sel src = .ok (out, m)) (h' : MapOK defs sel 0 0 src out' m') :
    out' = out ∧ m' = m :=
  mapOK_unique h' (C21_map_ok defs sel src out m h)

/-! The clauses of the statement, as consequences of `MapOK` (for any position `k`, `off`, so they also hold
of every nested map with `k = off = 0`, i.e. relative to its parent's range). -/

/-- **Exactly one entry per source instruction, in order**: the source indices are `k, k+1, …`. -/
theorem C21_sources {defs : List (Def K)} {sel : String → Bool} {k off : Nat} {src out : List (Instr K)}
    {m : List Entry} (h : MapOK defs sel k off src out m) :
    m.map Entry.src = List.range' k src.length :=
  mapOK_sources h

theorem C21_length {defs : List (Def K)} {sel : String → Bool} {k off : Nat} {src out : List (Instr K)}
    {m : List Entry} (h : MapOK defs sel k off src out m) : m.length = src.length := by
  have := congrArg List.length (mapOK_sources h)
  simpa using this

/-- **Ranges are contiguous, disjoint and cover the output**: each entry's range starts where the previous
one ended, the first at `off`, the last ends at `off + |out|`. -/
theorem C21_tiles {defs : List (Def K)} {sel : String → Bool} {k off : Nat} {src out : List (Instr K)}
    {m : List Entry} (h : MapOK defs sel k off src out m) : Tiles off m (off + out.length) :=
  mapOK_tiles h

/-- **Unmodified entries point at identical output instructions**: the `j`-th entry, if unmodified, has
source index `k + j`, and the output instruction at its target index is the `j`-th source instruction,
which is not a selected invocation. -/
theorem C21_unmodified {defs : List (Def K)} {sel : String → Bool} {k off : Nat} {src out : List (Instr K)}
    {m : List Entry} (h : MapOK defs sel k off src out m) (j s idx : Nat)
    (hj : m[j]? = some (.unmodified s idx)) :
    s = k + j ∧ off ≤ idx ∧
      ∃ i, src[j]? = some i ∧ out[idx - off]? = some i ∧ ¬ IsSelectedInvocation defs sel i :=
  mapOK_unmodified h j s idx hj

/-- **Rewritten ranges cover exactly the gates the invocation produced, nested maps are relative to the
parent range**: the `j`-th entry, if rewritten with range `lo..hi`, belongs to a well-formed selected
invocation of the named definition; the slice `out[lo-off .. hi-off)` is what that invocation's
instantiated body expands to, and the nested map is a faithful map of that expansion *with indices
restarting at 0* (`MapOK … 0 0`). -/
theorem C21_rewritten {defs : List (Def K)} {sel : String → Bool} {k off : Nat} {src out : List (Instr K)}
    {m : List Entry} (h : MapOK defs sel k off src out m) (j s : Nat) (name : String) (lo hi : Nat)
    (nested : List Entry) (hj : m[j]? = some (.rewritten s name lo hi nested)) :
    s = k + j ∧ off ≤ lo ∧ lo ≤ hi ∧ hi ≤ off + out.length ∧
      ∃ g d body, src[j]? = some (.gate g) ∧ Selected defs sel g d ∧ g.mods = [] ∧ Instantiates d g body ∧
        name = d.name ∧
        MapOK defs sel 0 0 (body.map Instr.gate) ((out.drop (lo - off)).take (hi - lo)) nested :=
  mapOK_rewritten h j s name lo hi nested hj

/-- **The map certifies the expansion**: a faithful map of `src ↦ out` exists only if `out` is the
recursive substitution result of `src` (C20's stack-free specification). -/
theorem C21_map_certifies_expansion {defs : List (Def K)} {sel : String → Bool} {k off : Nat}
    {src out : List (Instr K)} {m : List Entry} (h : MapOK defs sel k off src out m) :
    ExpandsPure defs sel src out :=
  mapOK_expandsPure h

/-- **Lookups**: `list_sources` of any output index returns exactly one source instruction, … -/
theorem C21_list_sources {defs : List (Def K)} {sel : String → Bool} {src out : List (Instr K)} {m : List Entry}
    (h : MapOK defs sel 0 0 src out m) (t : Nat) (ht : t < out.length) :
    ∃ k, listSources m t = [k] ∧ k < src.length := by
  obtain ⟨e, he⟩ := tiles_unique_container (C21_tiles h) t (by omega) (by omega)
  refine ⟨e.src, by simp [listSources, he], ?_⟩
  have hm : e ∈ m := by
    have : e ∈ m.filter (·.contains t) := by rw [he]; simp
    exact (List.mem_filter.1 this).1
  have : e.src ∈ m.map Entry.src := List.mem_map.2 ⟨e, hm, rfl⟩
  rw [C21_sources h] at this
  simp at this
  omega

/-- … and `list_targets` of any source index exactly one target. -/
theorem C21_list_targets {defs : List (Def K)} {sel : String → Bool} {src out : List (Instr K)} {m : List Entry}
    (h : MapOK defs sel 0 0 src out m) (s : Nat) (hs : s < src.length) : listTargetsCount m s = 1 := by
  have hsrc := C21_sources h
  have : listTargetsCount m s = (m.map Entry.src).count s := by
    unfold listTargetsCount
    rw [List.count_eq_countP, List.countP_map, List.countP_eq_length_filter]
    congr 1
  rw [this, hsrc]
  rw [count_range']
  simp [hs]
/-- **The Bool checker the driver runs on the implementation's output decides `MapOK`.** -/
theorem C21_checkMap_iff [DecidableEq K] (defs : List (Def K)) (sel : String → Bool) (m : List Entry)
    (k off : Nat) (src out : List (Instr K)) :
    checkMap defs sel m k off src out = true ↔ MapOK defs sel k off src out m :=
  checkMap_iff defs sel m k off src out

/-! ### Non-vacuity: a concrete nested expansion and its map (evaluated by the kernel) -/

section Examples

private def rz (p : Expr Nat) (q : Qubit) : Gate Nat := { name := "RZ", params := [p], qubits := [q], mods := [] }
private def exDefs : List (Def Nat) :=
  [ { name := "a", params := ["x"], spec := .seq ["q", "r"]
        [rz (.var "x") (.var "q"),
         { name := "b", params := [.bin (.var "x") .plus (.number 1)], qubits := [.var "r"], mods := [] }] },
    { name := "b", params := ["y"], spec := .seq ["q"] [rz (.var "y") (.var "q"), rz (.number 2) (.var "q")] } ]
private def inv (n : String) (p : Expr Nat) (qs : List Qubit) : Instr Nat :=
  .gate { name := n, params := [p], qubits := qs, mods := [] }
private def exSrc : List (Instr Nat) := [.other 1, inv "a" (.number 7) [.fixed 3, .fixed 4], inv "m" .pi [.fixed 0]]
private def exOut : List (Instr Nat) :=
  [.other 1, .gate (rz (.number 7) (.fixed 3)),
   .gate (rz (.bin (.number 7) .plus (.number 1)) (.fixed 4)), .gate (rz (.number 2) (.fixed 4)),
   inv "m" .pi [.fixed 0]]
private def exMap : List Entry :=
  [.unmodified 0 0,
   .rewritten 1 "a" 1 4 [.unmodified 0 0, .rewritten 1 "b" 1 3 [.unmodified 0 0, .unmodified 1 1]],
   .unmodified 2 4]

example : checkMap exDefs (fun _ => true) exMap 0 0 exSrc exOut = true := by decide
example : MapOK exDefs (fun _ => true) 0 0 exSrc exOut exMap :=
  (C21_checkMap_iff _ _ _ _ _ _ _).1 (by decide)
/-- a map whose nested range is not relative to the parent (absolute indices 2..4) is rejected -/
example : checkMap exDefs (fun _ => true)
    [.unmodified 0 0, .rewritten 1 "a" 1 4 [.unmodified 0 1, .rewritten 1 "b" 2 4 [.unmodified 0 0, .unmodified 1 1]],
     .unmodified 2 4] 0 0 exSrc exOut = false := by decide
example : (match expandMap exDefs (fun _ => true) exSrc with
    | .ok (out, m) => decide (out = exOut) && checkMap exDefs (fun _ => true) m 0 0 exSrc out
    | _ => false) = true := by decide

end Examples

end QV.C21
