import QV.C20.Model
/-
C21 model: `ProgramDefGateSequenceExpander::expand_with_source_map`
(quil-rs/src/program/defgate_sequence_expansion.rs:151-219) and
`Program::expand_defgate_sequences_with_source_map` (quil-rs/src/program/mod.rs:697-726).
Everything about instructions, definitions and `gate_sequence_from_instruction` is the C20 model.

A `SourceMap<InstructionIndex, ExpansionResult<DefGateSequenceExpansion>>` is a list of entries
`(source_location, target_location)`; `target_location` is `Unmodified(index)` or
`Rewritten { source_signature, range: start..stop, nested_expansions }`; the signature is projected to the
definition's name (the harness checks that the full signature text is that definition's).
-/
namespace QV.C21
open QV QV.C20

/-- `SourceMapEntry<InstructionIndex, ExpansionResult<DefGateSequenceExpansion>>` -/
inductive Entry where
  | unmodified (src idx : Nat)
  | rewritten (src : Nat) (name : String) (start stop : Nat) (nested : List Entry)
  deriving Repr, Inhabited

variable {K : Type}

/-- The `for` loop of `expand_with_source_map_impl` (defgate_sequence_expansion.rs:167-219) with the
recursive call abstracted as `nested`. `k` is `source_instruction_index` (the `enumerate()` counter),
`off` is `target_instructions.len()` when the instruction is reached. The nested call gets a fresh map and
a fresh target vector, so its indices start from 0. -/
def expandMapWith (defs : List (Def K)) (sel : String → Bool)
    (nested : List String → List (Instr K) → Outcome (List (Instr K) × List Entry))
    (stack : List String) : Nat → Nat → List (Instr K) → Outcome (List (Instr K) × List Entry)
  | _, _, [] => .ok ([], [])
  | k, off, i :: rest =>
    match gateSequenceFromInstruction defs sel i stack with
    | .error e => .err e
    | .ok none =>
      match expandMapWith defs sel nested stack (k + 1) (off + 1) rest with
      | .ok (r, m) => .ok (i :: r, .unmodified k off :: m)
      | o => o
    | .ok (some (body, name)) =>
      match nested (stack ++ [name]) body with
      | .ok (b, nm) =>
        match expandMapWith defs sel nested stack (k + 1) (off + b.length) rest with
        | .ok (r, m) => .ok (b ++ r, .rewritten k name off (off + b.length) nm :: m)
        | o => o
      | .err e => .err e
      | .outOfFuel => .outOfFuel

/-- `expand_with_source_map_impl`, one unit of fuel per nesting level (as `C20.expandFuel`). -/
def expandMapFuel (defs : List (Def K)) (sel : String → Bool) :
    Nat → List String → List (Instr K) → Outcome (List (Instr K) × List Entry)
  | 0 => fun _ _ => .outOfFuel
  | n + 1 => fun stack src => expandMapWith defs sel (expandMapFuel defs sel n) stack 0 0 src

/-- `expand_with_source_map` (defgate_sequence_expansion.rs:151): empty stack, empty map. -/
def expandMap (defs : List (Def K)) (sel : String → Bool) (body : List (Instr K)) :
    Outcome (List (Instr K) × List Entry) :=
  expandMapFuel defs sel (defs.length + 1) [] body

/-- `Program::expand_defgate_sequences_with_source_map` (program/mod.rs:697-726). -/
def expandProgramWithMap (p : Program K) (sel : String → Bool) : Outcome (Program K × List Entry) :=
  match expandMap p.defs sel p.body with
  | .ok (b, m) => .ok ({ defs := keptDefs p.defs sel, body := b }, m)
  | .err e => .err e
  | .outOfFuel => .outOfFuel

end QV.C21
