import QV.C20.Lemmas
import QV.C21.Spec
/-! Helper lemmas for C21 (core Lean only). -/
namespace QV.C21
open QV QV.C20
variable {K : Type}

/-- forget the source map -/
def dropMap {α β : Type} : Outcome (α × β) → Outcome α
  | .ok (a, _) => .ok a
  | .err e => .err e
  | .outOfFuel => .outOfFuel

theorem expandMapWith_dropMap (defs : List (Def K)) (sel : String → Bool)
    (nested : List String → List (Instr K) → Outcome (List (Instr K) × List Entry))
    (nested' : List String → List (Instr K) → Outcome (List (Instr K)))
    (H : ∀ st b, dropMap (nested st b) = nested' st b)
    (stack : List String) (k off : Nat) (src : List (Instr K)) :
    dropMap (expandMapWith defs sel nested stack k off src) = expandWith defs sel nested' stack src := by
  induction src generalizing k off with
  | nil => simp [expandMapWith, expandWith, dropMap]
  | cons i rest ih =>
    simp only [expandMapWith, expandWith]
    cases hg : gateSequenceFromInstruction defs sel i stack with
    | error e => simp [dropMap]
    | ok o =>
      cases o with
      | none =>
        simp only
        have := ih (k + 1) (off + 1)
        cases hr : expandMapWith defs sel nested stack (k + 1) (off + 1) rest with
        | ok p => obtain ⟨r, m⟩ := p; rw [hr] at this; simp [dropMap] at this ⊢; rw [← this]
        | err e => rw [hr] at this; simp [dropMap] at this ⊢; rw [← this]
        | outOfFuel => rw [hr] at this; simp [dropMap] at this ⊢; rw [← this]
      | some p =>
        obtain ⟨body, name⟩ := p
        simp only
        have hn := H (stack ++ [name]) body
        cases hb : nested (stack ++ [name]) body with
        | ok q =>
          obtain ⟨b, nm⟩ := q
          rw [hb] at hn; simp [dropMap] at hn
          rw [← hn]
          simp only
          have := ih (k + 1) (off + b.length)
          cases hr : expandMapWith defs sel nested stack (k + 1) (off + b.length) rest with
          | ok p => obtain ⟨r, m⟩ := p; rw [hr] at this; simp [dropMap] at this ⊢; rw [← this]
          | err e => rw [hr] at this; simp [dropMap] at this ⊢; rw [← this]
          | outOfFuel => rw [hr] at this; simp [dropMap] at this ⊢; rw [← this]
        | err e => rw [hb] at hn; simp [dropMap] at hn ⊢; rw [← hn]
        | outOfFuel => rw [hb] at hn; simp [dropMap] at hn ⊢; rw [← hn]

theorem expandMapFuel_dropMap (defs : List (Def K)) (sel : String → Bool) (fuel : Nat)
    (stack : List String) (src : List (Instr K)) :
    dropMap (expandMapFuel defs sel fuel stack src) = expandFuel defs sel fuel stack src := by
  induction fuel generalizing stack src with
  | zero => simp [expandMapFuel, expandFuel, dropMap]
  | succ n ih =>
    simp only [expandMapFuel, expandFuel]
    exact expandMapWith_dropMap defs sel _ _ (fun st b => ih st b) stack 0 0 src

theorem expandMapWith_mapOK (defs : List (Def K)) (sel : String → Bool)
    (nested : List String → List (Instr K) → Outcome (List (Instr K) × List Entry))
    (stack : List String)
    (H : ∀ name body b nm, nested (stack ++ [name]) body = .ok (b, nm) → MapOK defs sel 0 0 body b nm)
    (k off : Nat) (src out : List (Instr K)) (m : List Entry)
    (h : expandMapWith defs sel nested stack k off src = .ok (out, m)) :
    MapOK defs sel k off src out m := by
  induction src generalizing k off out m with
  | nil => simp [expandMapWith] at h; obtain ⟨h1, h2⟩ := h; subst h1; subst h2; exact .nil _ _
  | cons i rest ih =>
    simp only [expandMapWith] at h
    cases hg : gateSequenceFromInstruction defs sel i stack with
    | error e => rw [hg] at h; cases h
    | ok o =>
      rw [hg] at h
      cases o with
      | none =>
        simp only at h
        have hn := (gsfi_none_iff _ _ _ _).1 hg
        cases hr : expandMapWith defs sel nested stack (k + 1) (off + 1) rest with
        | ok p =>
          obtain ⟨r, m'⟩ := p
          rw [hr] at h; simp at h
          obtain ⟨h1, h2⟩ := h; subst h1; subst h2
          exact .keep hn (ih _ _ _ _ hr)
        | err e => rw [hr] at h; cases h
        | outOfFuel => rw [hr] at h; cases h
      | some p =>
        obtain ⟨body', name⟩ := p
        simp only at h
        obtain ⟨g, d, body, hi, hsel, hm, _, hinst, hb, hname⟩ := (gsfi_some_iff _ _ _ _ _ _).1 hg
        subst hi; subst hb; subst hname
        cases hb : nested (stack ++ [d.name]) (body.map Instr.gate) with
        | ok q =>
          obtain ⟨b, nm⟩ := q
          rw [hb] at h; simp only at h
          cases hr : expandMapWith defs sel nested stack (k + 1) (off + b.length) rest with
          | ok p =>
            obtain ⟨r, m'⟩ := p
            rw [hr] at h; simp at h
            obtain ⟨h1, h2⟩ := h; subst h1; subst h2
            exact .unfold hsel hm hinst (H _ _ _ _ hb) (ih _ _ _ _ hr)
          | err e => rw [hr] at h; cases h
          | outOfFuel => rw [hr] at h; cases h
        | err e => rw [hb] at h; cases h
        | outOfFuel => rw [hb] at h; cases h

theorem expandMapFuel_mapOK (defs : List (Def K)) (sel : String → Bool) (fuel : Nat)
    (stack : List String) (src out : List (Instr K)) (m : List Entry)
    (h : expandMapFuel defs sel fuel stack src = .ok (out, m)) : MapOK defs sel 0 0 src out m := by
  induction fuel generalizing stack src out m with
  | zero => simp [expandMapFuel] at h
  | succ n ih =>
    simp only [expandMapFuel] at h
    exact expandMapWith_mapOK defs sel _ stack (fun name body b nm hb => ih _ _ _ _ hb) 0 0 src out m h


/-! ### consequences of `MapOK` -/

theorem mapOK_sources {defs : List (Def K)} {sel : String → Bool} {k off : Nat} {src out : List (Instr K)}
    {m : List Entry} (h : MapOK defs sel k off src out m) : m.map Entry.src = List.range' k src.length := by
  induction h with
  | nil => simp
  | keep _ _ ih => simp [Entry.src, List.range'_succ, ih]
  | unfold _ _ _ _ _ _ ih => simp [Entry.src, List.range'_succ, ih]

theorem mapOK_tiles {defs : List (Def K)} {sel : String → Bool} {k off : Nat} {src out : List (Instr K)}
    {m : List Entry} (h : MapOK defs sel k off src out m) : Tiles off m (off + out.length) := by
  induction h with
  | nil => exact .nil _
  | @keep k off i rest out m _ _ ih =>
    refine .cons rfl (by simp [Entry.lo, Entry.hi]) ?_
    have e : off + (i :: out).length = off + 1 + out.length := by simp; omega
    rw [e]; exact ih
  | @unfold k off g d body b nm rest out m _ _ _ _ _ _ ih =>
    refine .cons rfl (by simp [Entry.lo, Entry.hi]) ?_
    have e : off + (b ++ out).length = off + b.length + out.length := by simp; omega
    rw [e]; exact ih

theorem mapOK_expandsPure {defs : List (Def K)} {sel : String → Bool} {k off : Nat} {src out : List (Instr K)}
    {m : List Entry} (h : MapOK defs sel k off src out m) : ExpandsPure defs sel src out := by
  induction h with
  | nil => exact .nil
  | keep hn _ ih => exact .keep hn ih
  | unfold hsel hm hinst _ _ ih1 ih2 => exact .unfold hsel hm hinst ih1 ih2

theorem mapOK_unmodified {defs : List (Def K)} {sel : String → Bool} {k off : Nat} {src out : List (Instr K)}
    {m : List Entry} (h : MapOK defs sel k off src out m) (j s idx : Nat)
    (hj : m[j]? = some (.unmodified s idx)) :
    s = k + j ∧ off ≤ idx ∧ ∃ i, src[j]? = some i ∧ out[idx - off]? = some i ∧ ¬ IsSelectedInvocation defs sel i := by
  induction h generalizing j with
  | nil => simp at hj
  | @keep k off i rest out m hn _ ih =>
    cases j with
    | zero =>
      simp at hj
      obtain ⟨h1, h2⟩ := hj; subst h1; subst h2
      exact ⟨rfl, Nat.le_refl _, i, by simp, by simp, hn⟩
    | succ j =>
      simp only [List.getElem?_cons_succ] at hj
      obtain ⟨h1, h2, i', h3, h4, h5⟩ := ih j hj
      refine ⟨by omega, by omega, i', by simpa using h3, ?_, h5⟩
      have : idx - off = (idx - (off + 1)) + 1 := by omega
      rw [this]; simpa using h4
  | @unfold k off g d body b nm rest out m _ _ _ _ _ _ ih =>
    cases j with
    | zero => simp at hj
    | succ j =>
      simp only [List.getElem?_cons_succ] at hj
      obtain ⟨h1, h2, i', h3, h4, h5⟩ := ih j hj
      refine ⟨by omega, by omega, i', by simpa using h3, ?_, h5⟩
      rw [List.getElem?_append_right (by omega)]
      have : idx - off - b.length = idx - (off + b.length) := by omega
      rw [this]; exact h4

theorem mapOK_rewritten {defs : List (Def K)} {sel : String → Bool} {k off : Nat} {src out : List (Instr K)}
    {m : List Entry} (h : MapOK defs sel k off src out m) (j s : Nat) (name : String) (lo hi : Nat)
    (nested : List Entry) (hj : m[j]? = some (.rewritten s name lo hi nested)) :
    s = k + j ∧ off ≤ lo ∧ lo ≤ hi ∧ hi ≤ off + out.length ∧
      ∃ g d body, src[j]? = some (.gate g) ∧ Selected defs sel g d ∧ g.mods = [] ∧ Instantiates d g body ∧
        name = d.name ∧
        MapOK defs sel 0 0 (body.map Instr.gate) ((out.drop (lo - off)).take (hi - lo)) nested := by
  induction h generalizing j with
  | nil => simp at hj
  | @keep k off i rest out m hn _ ih =>
    cases j with
    | zero => simp at hj
    | succ j =>
      simp only [List.getElem?_cons_succ] at hj
      obtain ⟨h1, h2, h3, h4, g, d, body, h5, h6, h7, h8, h9, h10⟩ := ih j hj
      refine ⟨by omega, by omega, h3, by simp <;> omega, g, d, body, by simpa using h5, h6, h7, h8, h9, ?_⟩
      have : lo - off = (lo - (off + 1)) + 1 := by omega
      rw [this, List.drop_succ_cons]; exact h10
  | @unfold k off g d body b nm rest out m hsel hm hinst hb _ _ ih =>
    cases j with
    | zero =>
      simp at hj
      obtain ⟨h1, h2, h3, h4, h5⟩ := hj
      subst h1; subst h2; subst h3; subst h4; subst h5
      refine ⟨rfl, Nat.le_refl _, by omega, by simp <;> omega, g, d, body, by simp, hsel, hm, hinst, rfl, ?_⟩
      have : off + b.length - off = b.length := by omega
      simp [this]; exact hb
    | succ j =>
      simp only [List.getElem?_cons_succ] at hj
      obtain ⟨h1, h2, h3, h4, g', d', body', h5, h6, h7, h8, h9, h10⟩ := ih j hj
      refine ⟨by omega, by omega, h3, by simp <;> omega, g', d', body', by simpa using h5, h6, h7, h8, h9, ?_⟩
      have e : (b ++ out).drop (lo - off) = out.drop (lo - (off + b.length)) := by
        rw [List.drop_append, List.drop_eq_nil_of_le (by omega)]
        simp only [List.nil_append]
        congr 1; omega
      rw [e]; exact h10


/-! ### the Bool checker -/

theorem notSelected_iff (defs : List (Def K)) (sel : String → Bool) (i : Instr K) :
    notSelected defs sel i = true ↔ ¬ IsSelectedInvocation defs sel i := by
  rw [← gsfi_none_iff defs sel i []]
  unfold notSelected
  split <;> simp_all

theorem unfold?_some_iff (defs : List (Def K)) (sel : String → Bool) (i : Instr K)
    (body' : List (Instr K)) (name : String) :
    unfold? defs sel i = some (body', name) ↔
      ∃ g d body, i = .gate g ∧ Selected defs sel g d ∧ g.mods = [] ∧ Instantiates d g body ∧
        body' = body.map Instr.gate ∧ name = d.name := by
  have := gsfi_some_iff defs sel i [] body' name
  simp only [List.not_mem_nil, not_false_eq_true, true_and] at this
  rw [← this]
  unfold unfold?
  split
  · rename_i p hp; simp [hp]
  · rename_i hn
    constructor
    · intro h; cases h
    · intro h; exact absurd h (hn _)

theorem mapOK_cons_iff {defs : List (Def K)} {sel : String → Bool} {k off : Nat} {i : Instr K}
    {rest out : List (Instr K)} {e : Entry} {m : List Entry} :
    MapOK defs sel k off (i :: rest) out (e :: m) ↔
      ∃ chunk out', out = chunk ++ out' ∧ EntryOK defs sel e k off i chunk ∧
        MapOK defs sel (k + 1) (off + chunk.length) rest out' m := by
  constructor
  · intro h
    cases h with
    | keep hn hrest => exact ⟨[i], _, rfl, .unmodified hn, hrest⟩
    | unfold hsel hm hinst hb hrest => exact ⟨_, _, rfl, .rewritten hsel hm hinst hb, hrest⟩
  · rintro ⟨chunk, out', rfl, he, hrest⟩
    cases he with
    | unmodified hn => exact .keep hn hrest
    | rewritten hsel hm hinst hb => exact .unfold hsel hm hinst hb hrest

theorem checkMap_sound [DecidableEq K] (defs : List (Def K)) (sel : String → Bool) (m : List Entry) (k off : Nat)
    (src out : List (Instr K)) (h : checkMap defs sel m k off src out = true) :
    MapOK defs sel k off src out m := by
  revert h
  apply checkMap.induct (K := K)
    (motive_1 := fun e k off i chunk => checkEntry defs sel e k off i chunk = true → EntryOK defs sel e k off i chunk)
    (motive_2 := fun m k off src out => checkMap defs sel m k off src out = true → MapOK defs sel k off src out m)
  · intro s idx k off i chunk h
    simp only [checkEntry, Bool.and_eq_true, beq_iff_eq, decide_eq_true_eq] at h
    obtain ⟨⟨⟨h1, h2⟩, h3⟩, h4⟩ := h
    subst h1; subst h2; subst h4
    exact .unmodified ((notSelected_iff _ _ _).1 h3)
  · intro s name start stop nested k off i chunk ih h
    simp only [checkEntry, Bool.and_eq_true, beq_iff_eq] at h
    obtain ⟨⟨⟨h1, h2⟩, h3⟩, h4⟩ := h
    subst h1; subst h2; subst h3
    split at h4
    · rename_i body nm hu
      simp only [Bool.and_eq_true, beq_iff_eq] at h4
      obtain ⟨h5, h6⟩ := h4
      subst h5
      obtain ⟨g, d, body0, hi, hsel, hm, hinst, hb, hn⟩ := (unfold?_some_iff _ _ _ _ _).1 hu
      subst hi; subst hb; subst hn
      exact .rewritten hsel hm hinst (ih _ h6)
    · cases h4
  · intro k off _
    exact .nil _ _
  · intro e m k off i rest out ih1 ih2 h
    simp only [checkMap, Bool.and_eq_true, decide_eq_true_eq] at h
    obtain ⟨⟨⟨h1, h2⟩, h3⟩, h4⟩ := h
    have hl : (out.take (e.hi - e.lo)).length = e.hi - e.lo := by rw [List.length_take]; omega
    refine mapOK_cons_iff.2 ⟨out.take (e.hi - e.lo), out.drop (e.hi - e.lo), (List.take_append_drop _ _).symm,
      ih1 h3, ?_⟩
    rw [hl]; exact ih2 h4
  · intro t k off src out h1 h2 h
    exfalso
    cases t with
    | nil =>
      cases src with
      | nil =>
        cases out with
        | nil => exact h1 rfl rfl rfl
        | cons => simp [checkMap] at h
      | cons => simp [checkMap] at h
    | cons e m =>
      cases src with
      | nil => simp [checkMap] at h
      | cons i rest => exact h2 e m i rest rfl rfl

theorem checkEntry_complete [DecidableEq K] (defs : List (Def K)) (sel : String → Bool)
    (hrec : ∀ body b nm, MapOK defs sel 0 0 body b nm → checkMap defs sel nm 0 0 body b = true)
    {e : Entry} {k off : Nat} {i : Instr K} {chunk : List (Instr K)} (h : EntryOK defs sel e k off i chunk) :
    checkEntry defs sel e k off i chunk = true := by
  cases h with
  | unmodified hn => simp [checkEntry, (notSelected_iff _ _ _).2 hn]
  | @rewritten _ _ g d body b nm hsel hm hinst hb =>
    have hu := (unfold?_some_iff defs sel (.gate g) (body.map Instr.gate) d.name).2
      ⟨g, d, body, rfl, hsel, hm, hinst, rfl, rfl⟩
    simp [checkEntry, hu, hrec _ _ _ hb]

theorem entryOK_width {defs : List (Def K)} {sel : String → Bool} {e : Entry} {k off : Nat} {i : Instr K}
    {chunk : List (Instr K)} (h : EntryOK defs sel e k off i chunk) :
    e.lo ≤ e.hi ∧ e.hi - e.lo = chunk.length := by
  cases h with
  | unmodified _ => simp [Entry.lo, Entry.hi]
  | rewritten _ _ _ _ => simp [Entry.lo, Entry.hi]

theorem checkMap_complete [DecidableEq K] (defs : List (Def K)) (sel : String → Bool) (m : List Entry) (k off : Nat)
    (src out : List (Instr K)) (h : MapOK defs sel k off src out m) :
    checkMap defs sel m k off src out = true := by
  induction h with
  | nil => simp [checkMap]
  | @keep k off i rest out m hn _ ih =>
    have he : EntryOK defs sel (.unmodified k off) k off i [i] := .unmodified hn
    simp [checkMap, Entry.lo, Entry.hi, checkEntry, (notSelected_iff _ _ _).2 hn, ih]
  | @unfold k off g d body b nm rest out m hsel hm hinst hb _ ih1 ih2 =>
    have hu := (unfold?_some_iff defs sel (.gate g) (body.map Instr.gate) d.name).2
      ⟨g, d, body, rfl, hsel, hm, hinst, rfl, rfl⟩
    have e : off + b.length - off = b.length := by omega
    simp [checkMap, Entry.lo, Entry.hi, checkEntry, hu, e, ih1, ih2]

theorem checkMap_iff [DecidableEq K] (defs : List (Def K)) (sel : String → Bool) (m : List Entry) (k off : Nat)
    (src out : List (Instr K)) :
    checkMap defs sel m k off src out = true ↔ MapOK defs sel k off src out m :=
  ⟨checkMap_sound defs sel m k off src out, checkMap_complete defs sel m k off src out⟩

/-- `MapOK` determines both the output and the map. -/
theorem mapOK_unique {defs : List (Def K)} {sel : String → Bool} {k off : Nat} {src o1 o2 : List (Instr K)}
    {m1 m2 : List Entry} (h1 : MapOK defs sel k off src o1 m1) (h2 : MapOK defs sel k off src o2 m2) :
    o1 = o2 ∧ m1 = m2 := by
  induction h1 generalizing o2 m2 with
  | nil => cases h2; exact ⟨rfl, rfl⟩
  | keep hn _ ih =>
    cases h2 with
    | keep _ h => obtain ⟨e1, e2⟩ := ih h; subst e1; subst e2; exact ⟨rfl, rfl⟩
    | unfold hsel _ _ _ _ => exact absurd ⟨_, _, rfl, hsel⟩ hn
  | unfold hsel _ hinst _ _ ih1 ih2 =>
    cases h2 with
    | keep hn _ => exact absurd ⟨_, _, rfl, hsel⟩ hn
    | unfold hsel' _ hinst' hb hr =>
      have e := hsel.1.symm.trans hsel'.1
      simp at e; subst e
      obtain ⟨qv, gs, fs, σ, ρ, hs, hp, a1, a2, a3, a4, a5⟩ := hinst
      obtain ⟨qv', gs', fs', σ', ρ', hs', _, a1', a2', a3', a4', a5'⟩ := hinst'
      rw [hs] at hs'; cases hs'
      have e1 := (expandSeq_ok_iff qv gs _ _ _ hp.symm).2 ⟨fs, σ, ρ, a1, a2, a3, a4, a5⟩
      have e2 := (expandSeq_ok_iff qv gs _ _ _ hp.symm).2 ⟨fs', σ', ρ', a1', a2', a3', a4', a5'⟩
      rw [e1] at e2; cases e2
      obtain ⟨b1, b2⟩ := ih1 hb
      subst b1; subst b2
      obtain ⟨c1, c2⟩ := ih2 hr
      subst c1; subst c2
      exact ⟨rfl, rfl⟩

/-! ### lookups -/

theorem count_range' (k n s : Nat) : (List.range' k n).count s = if k ≤ s ∧ s < k + n then 1 else 0 := by
  induction n generalizing k with
  | zero => simp
  | succ n ih =>
    rw [List.range'_succ, List.count_cons, ih]
    by_cases h : k = s
    · subst h
      have h1 : ¬ (k + 1 ≤ k ∧ k < k + 1 + n) := by omega
      have h2 : (k ≤ k ∧ k < k + (n + 1)) := by omega
      simp [h1, h2]
    · have : (k == s) = false := by simp [h]
      simp only [this]
      by_cases h1 : k + 1 ≤ s ∧ s < k + 1 + n
      · have h2 : k ≤ s ∧ s < k + (n + 1) := by omega
        simp [h1, h2]
      · have h2 : ¬ (k ≤ s ∧ s < k + (n + 1)) := by omega
        simp [h1, h2]

theorem tiles_lo_ge {off stop : Nat} {m : List Entry} (h : Tiles off m stop) : ∀ x ∈ m, off ≤ x.lo := by
  induction h with
  | nil => simp
  | @cons e m off stop h1 h2 _ ih =>
    intro x hx
    cases hx with
    | head => omega
    | tail _ hx' => have := ih x hx'; omega

theorem tiles_unique_container {off stop : Nat} {m : List Entry} (h : Tiles off m stop) (t : Nat)
    (h1 : off ≤ t) (h2 : t < stop) : ∃ e, m.filter (·.contains t) = [e] := by
  induction h with
  | nil => omega
  | @cons e m off stop hlo hle htl ih =>
    by_cases ht : t < e.hi
    · refine ⟨e, ?_⟩
      have hc : e.contains t = true := by simp [Entry.contains]; omega
      have hrest : m.filter (·.contains t) = [] := by
        rw [List.filter_eq_nil_iff]
        intro x hx
        have := tiles_lo_ge htl x hx
        simp [Entry.contains]; omega
      simp [List.filter_cons, hc, hrest]
    · have hc : e.contains t = false := by simp [Entry.contains]; omega
      obtain ⟨e', he'⟩ := ih (by omega) h2
      exact ⟨e', by simp [List.filter_cons, hc, he']⟩

end QV.C21
