import QV.Wire
import QV.C21.Model
import QV.C21.Spec
import QV.Shared.SeqGateWire
/-! Driver side of the C21 correspondence check. -/
namespace QV.C21
open QV QV.C20 QV.SeqGateWire

partial def decodeEntry : Sexp → Option Entry
  | .list [.atom "u", .atom s, .atom i] =>
    match s.toNat?, i.toNat? with
    | some s, some i => some (.unmodified s i)
    | _, _ => none
  | .list [.atom "r", .atom s, .str n, .atom a, .atom b, .list nested] =>
    match s.toNat?, a.toNat?, b.toNat?, decodeAll decodeEntry nested with
    | some s, some a, some b, some ns => some (.rewritten s n a b ns)
    | _, _, _, _ => none
  | _ => none

partial def entryBeq : Entry → Entry → Bool
  | .unmodified s i, .unmodified s' i' => s == s' && i == i'
  | .rewritten s n a b ns, .rewritten s' n' a' b' ns' =>
    s == s' && n == n' && a == a' && b == b' && ns.length == ns'.length &&
      (ns.zip ns').all fun (x, y) => entryBeq x y
  | _, _ => false

def mapBeq (m m' : List Entry) : Bool := m.length == m'.length && (m.zip m').all fun (x, y) => entryBeq x y

partial def mapDepth (m : List Entry) : Nat :=
  m.foldl (fun acc e => match e with
    | .unmodified .. => acc
    | .rewritten _ _ _ _ ns => max acc (1 + mapDepth ns)) 0

partial def mapSize (m : List Entry) : Nat :=
  m.foldl (fun acc e => match e with
    | .unmodified .. => acc + 1
    | .rewritten _ _ _ _ ns => acc + 1 + mapSize ns) 0

def decodeNatList : Sexp → Option (List Nat)
  | .list xs => decodeAll (fun x => match x with | .atom a => a.toNat? | _ => none) xs
  | _ => none

/-- `(map entry…) (ls (src…)…) (lt n…)` of a successful source-map call -/
structure MapObs where
  map : List Entry
  ls : List (List Nat)
  lt : List Nat

def decodeMapObs : List Sexp → Option MapObs
  | [.list (.atom "map" :: es), .list (.atom "ls" :: ls), .list (.atom "lt" :: lt)] =>
    match decodeAll decodeEntry es, decodeAll decodeNatList ls, decodeNatList (.list lt) with
    | some es, some ls, some lt => some { map := es, ls := ls, lt := lt }
    | _, _, _ => none
  | _ => none

/-- same names, order aside -/
def sameNames (a b : List String) : Bool :=
  a.length == b.length && a.all b.contains && b.all a.contains

/-- model output = implementation output, for BOTH entry points, the map and the lookups. Successes are
compared exactly; for failures any misuse kind applicable somewhere the expansion can reach counts as
agreeing (`C20.misuseKinds`; the model's own error is one of them), payloads are not compared and the two
entry points need not pick the same one. -/
def agrees (p : Program String) (sel : String → Bool) (obs : Obs) (mo : Option MapObs) : Bool :=
  match expandProgramWithMap p sel, obs.mapped, obs.plain, mo with
  | .ok (q, m), .ok body kept intact, .ok body' kept' intact', some mo =>
    decide (q.body = body) && sameNames kept (q.defs.map (·.name)) && intact &&
      decide (q.body = body') && sameNames kept' (q.defs.map (·.name)) && intact' &&
      mapBeq m mo.map &&
      mo.ls == (List.range q.body.length).map (listSources m) &&
      mo.lt == (List.range p.body.length).map (listTargetsCount m)
  | .err _, .err e', .err e'', _ =>
    let kinds := misuseKinds p.defs sel p.body
    kinds.contains e'.kind && kinds.contains e''.kind
  | _, _, _, _ => false

/-- The specification evaluated on the implementation's output:
* `Ok`: the two entry points returned the same program in every component (`fullsame`, compared through
  Debug text and used-qubit sets), the map is a faithful source map of "source body ↦ returned body"
  (`checkMap`, proved `↔ MapOK`, which implies every clause of the statement: `C21_sources`, `C21_tiles`,
  `C21_unmodified`, `C21_rewritten`, `C21_map_certifies_expansion`), the public lookups agree with the map
  the implementation returned and are unique (`C21_list_sources`, `C21_list_targets`), repeated calls return
  the same (`again`), the definitions are the ones C20 retains;
* `Err`: the other entry point failed too (`C21_same_outcome`), each with a misuse kind that is applicable
  somewhere the expansion can reach (`C20_misuseKinds_iff`, `C20_error_iff_misuse`; which one, its payload and
  text are not demanded), and formatting them did not panic. -/
def specCheck (p : Program String) (sel : String → Bool) (obs : Obs) (mo : Option MapObs) : Bool :=
  obs.fullsame && obs.again && obs.errfmt &&
  match obs.mapped, obs.plain, mo with
  | .ok body kept intact, .ok body' _ _, some mo =>
    intact && decide (body = body') && sameNames kept ((keptDefs p.defs sel).map (·.name)) &&
      checkMap p.defs sel mo.map 0 0 p.body body &&
      mo.ls == (List.range body.length).map (listSources mo.map) && mo.ls.all (·.length == 1) &&
      mo.lt == (List.range p.body.length).map (listTargetsCount mo.map) && mo.lt.all (· == 1)
  | .err e, .err e', _ =>
    let kinds := misuseKinds p.defs sel p.body
    kinds.contains e.kind && kinds.contains e'.kind
  | _, _, _ => false

def handle (inp out : Sexp) : CaseResult :=
  match decodeInput inp with
  | none => .bad s!"undecodable input {inp}"
  | some (p, selNames) =>
    let sel : String → Bool := fun n => selNames.contains n
    match decodeObs out with
    | none =>
      { agree := false, specOk := false, nontrivial := false, tags := ["impl-undecodable-or-crash"],
        detail := s!"impl={out}" }
    | some obs =>
      let mo := decodeMapObs obs.mappedRest
      let tags :=
        (match obs.mapped, mo with
          | .ok .., some mo =>
            let m := mo.map
            ["ok", s!"mapdepth{min (mapDepth m) 6}", s!"mapsize{min (mapSize m / 8 * 8) 64}",
             s!"toplevel{if m.length ≤ 8 then m.length else if m.length ≤ 32 then 32 else 128}"] ++
            (if m.any (fun e => match e with | .rewritten _ _ a b _ => a == b | _ => false) then ["empty-range"] else []) ++
            (if m.any (fun e => match e with | .rewritten .. => true | _ => false) &&
                m.any (fun e => match e with | .unmodified .. => true | _ => false) then ["mixed"] else [])
          | .ok .., none => ["ok-map-undecodable"]
          | .err e, _ => ["err", "err-" ++ errKind e]) ++
        [s!"defs{if p.defs.length ≤ 5 then p.defs.length else if p.defs.length ≤ 16 then 16 else 64}",
         s!"body{if p.body.length ≤ 8 then p.body.length else if p.body.length ≤ 32 then 32 else 128}"] ++
        (if inputHasExtras inp then ["extras"] else [])
      let nontrivial := match mo with
        | some mo => mo.map.any fun e => match e with | .rewritten .. => true | _ => false
        | none => false
      let agree := agrees p sel obs mo
      let specOk := specCheck p sel obs mo
      { agree := agree,
        specOk := specOk,
        nontrivial := nontrivial,
        tags := tags,
        -- only built on failure (the structure is strict)
        detail := if agree && specOk then "" else s!"model={repr (expandProgramWithMap p sel)} impl={out}" }

end QV.C21

def main : IO UInt32 := QV.runMain QV.C21.handle
