import QV.Wire
import QV.C21.Model
import QV.C21.Spec
import QV.Shared.SeqGateWire
/-! Driver side of the C21 correspondence check. -/
namespace QV.C21
open QV QV.C20 QV.SeqGateWire

partial def decodeEntry : Sexp → Option Entry
  | .list [.atom "u", .atom s, .atom i] =>
    match s.toNat?, i.toNat? with
    | some s, some i => some (.unmodified s i)
    | _, _ => none
  | .list [.atom "r", .atom s, .str n, .atom a, .atom b, .list nested] =>
    match s.toNat?, a.toNat?, b.toNat?, decodeAll decodeEntry nested with
    | some s, some a, some b, some ns => some (.rewritten s n a b ns)
    | _, _, _, _ => none
  | _ => none

partial def entryBeq : Entry → Entry → Bool
  | .unmodified s i, .unmodified s' i' => s == s' && i == i'
  | .rewritten s n a b ns, .rewritten s' n' a' b' ns' =>
    s == s' && n == n' && a == a' && b == b' && ns.length == ns'.length &&
      (ns.zip ns').all fun (x, y) => entryBeq x y
  | _, _ => false

def mapBeq (m m' : List Entry) : Bool := m.length == m'.length && (m.zip m').all fun (x, y) => entryBeq x y

partial def mapDepth (m : List Entry) : Nat :=
  m.foldl (fun acc e => match e with
    | .unmodified .. => acc
    | .rewritten _ _ _ _ ns => max acc (1 + mapDepth ns)) 0

partial def mapSize (m : List Entry) : Nat :=
  m.foldl (fun acc e => match e with
    | .unmodified .. => acc + 1
    | .rewritten _ _ _ _ ns => acc + 1 + mapSize ns) 0

/-- what the real `expand_defgate_sequences_with_source_map` returned, decoded -/
inductive ImplOut where
  | ok (body : List (Instr String)) (kept : List String) (intact same : Bool) (map : List Entry)
  | err (e : Err) (same : Bool)

def decodeOut : Sexp → Option ImplOut
  | .list [.atom "ok", .list (.atom "body" :: is), .list (.atom "kept" :: ks), .list [.atom "intact", .atom b],
      .list [.atom "same", .atom s], .list (.atom "map" :: es)] =>
    match decodeAll decodeInstr is, decodeAll decodeStr ks, decodeAll decodeEntry es with
    | some is, some ks, some es => some (.ok is ks (b == "true") (s == "true") es)
    | _, _, _ => none
  | .list [.atom "err", e, .list [.atom "same", .atom s]] => (decodeErr e).map fun e => .err e (s == "true")
  | _ => none

/-- model output = implementation output -/
def agrees (p : Program String) (sel : String → Bool) (o : ImplOut) : Bool :=
  match expandProgramWithMap p sel, o with
  | .ok (q, m), .ok body kept intact same m' =>
    decide (q.body = body) && kept == q.defs.map (·.name) && intact && same && mapBeq m m'
  | .err e, .err e' same => decide (e = e') && same
  | _, _ => false

/-- The specification evaluated on the implementation's output:
* `Ok`: the two entry points returned equal programs (`same`), the map is a faithful source map of
  "source body ↦ returned body" (`checkMap`, proved `↔ MapOK`, which implies every clause of the statement:
  `C21_sources`, `C21_tiles`, `C21_unmodified`, `C21_rewritten`, `C21_map_certifies_expansion`),
  the definitions are the ones C20 retains;
* `Err`: the other entry point returned the same error, which is the one `C20.expand` reports
  (`C21_same_outcome`). -/
def specCheck (p : Program String) (sel : String → Bool) (o : ImplOut) : Bool :=
  match o with
  | .ok body kept intact same m =>
    same && intact && kept == (keptDefs p.defs sel).map (·.name) && checkMap p.defs sel m 0 0 p.body body
  | .err e same => same && decide (C20.expand p.defs sel p.body = .err e)

def handle (inp out : Sexp) : CaseResult :=
  match decodeInput inp with
  | none => .bad s!"undecodable input {inp}"
  | some (p, selNames) =>
    let sel : String → Bool := fun n => selNames.contains n
    match decodeOut out with
    | none =>
      { agree := false, specOk := false, nontrivial := false, tags := ["impl-undecodable-or-crash"],
        detail := s!"impl={out}" }
    | some o =>
      let tags :=
        (match o with
          | .ok _ _ _ _ m =>
            ["ok", s!"mapdepth{min (mapDepth m) 4}", s!"mapsize{min (mapSize m / 4 * 4) 24}",
             s!"toplevel{min m.length 8}"] ++
            (if m.any (fun e => match e with | .rewritten _ _ a b _ => a == b | _ => false) then ["empty-range"] else []) ++
            (if m.any (fun e => match e with | .rewritten .. => true | _ => false) &&
                m.any (fun e => match e with | .unmodified .. => true | _ => false) then ["mixed"] else [])
          | .err e _ => ["err", "err-" ++ errKind e]) ++
        [s!"defs{min p.defs.length 5}", s!"body{min p.body.length 8}"]
      let nontrivial := match o with
        | .ok _ _ _ _ m => m.any fun e => match e with | .rewritten .. => true | _ => false
        | .err .. => false
      { agree := agrees p sel o,
        specOk := specCheck p sel o,
        nontrivial := nontrivial,
        tags := tags,
        detail := s!"model={repr (expandProgramWithMap p sel)} impl={out}" }

end QV.C21

def main : IO UInt32 := QV.runMain QV.C21.handle
