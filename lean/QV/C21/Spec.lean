import QV.C20.Spec
import QV.C21.Model
/-
C21 — the property as declarative `Prop`s and a `Bool` checker.

`MapOK defs sel k off src out m`: `m` is a faithful source map of "`src` expands to `out`", where `k` is
the index of the first instruction of `src` in its enclosing list and `off` the index of the first
instruction of `out` in its enclosing target list. It has no stack and no fuel: it is the statement
"one entry per source instruction, in order; an unmodified entry points at the identical instruction;
a rewritten entry's range is contiguous with its neighbours and covers exactly what the invocation
produced; the nested map describes that expansion relative to the range (indices restart at 0)".

`checkMap` decides `MapOK` for a *given* output and map by walking the map tree (structural recursion on
the map, no fuel): it is what the driver evaluates on the implementation's output.
-/
namespace QV.C21
open QV QV.C20
variable {K : Type}

inductive MapOK (defs : List (Def K)) (sel : String → Bool) :
    Nat → Nat → List (Instr K) → List (Instr K) → List Entry → Prop
  | nil (k off) : MapOK defs sel k off [] [] []
  | keep {k off i rest out m} :
      ¬ IsSelectedInvocation defs sel i → MapOK defs sel (k + 1) (off + 1) rest out m →
      MapOK defs sel k off (i :: rest) (i :: out) (.unmodified k off :: m)
  | unfold {k off g d body b nm rest out m} :
      Selected defs sel g d → g.mods = [] → Instantiates d g body →
      MapOK defs sel 0 0 (body.map Instr.gate) b nm →
      MapOK defs sel (k + 1) (off + b.length) rest out m →
      MapOK defs sel k off (.gate g :: rest) (b ++ out) (.rewritten k d.name off (off + b.length) nm :: m)

/-- source index of an entry -/
def Entry.src : Entry → Nat
  | .unmodified s _ => s
  | .rewritten s _ _ _ _ => s

/-- the half-open target range `[lo, hi)` an entry denotes -/
def Entry.lo : Entry → Nat
  | .unmodified _ i => i
  | .rewritten _ _ a _ _ => a
def Entry.hi : Entry → Nat
  | .unmodified _ i => i + 1
  | .rewritten _ _ _ b _ => b

/-- the entries' ranges tile `[off, stop)`: each starts where the previous one ended -/
inductive Tiles : Nat → List Entry → Nat → Prop
  | nil (off) : Tiles off [] off
  | cons {e m off stop} : e.lo = off → e.lo ≤ e.hi → Tiles e.hi m stop → Tiles off (e :: m) stop

/-- `SourceMapIndexable<InstructionIndex>::contains` of an entry's target: `Unmodified(i)` contains exactly
`i`, `Rewritten` contains the indices of its range -/
def Entry.contains (e : Entry) (t : Nat) : Bool := decide (e.lo ≤ t) && decide (t < e.hi)

/-- `SourceMap::list_sources(&InstructionIndex(t))` (program/source_map.rs:30): the source indices of the
entries whose target contains `t`, in order -/
def listSources (m : List Entry) (t : Nat) : List Nat := (m.filter (·.contains t)).map Entry.src

/-- `SourceMap::list_targets(&InstructionIndex(s)).len()`: how many entries have source index `s` -/
def listTargetsCount (m : List Entry) (s : Nat) : Nat := (m.filter (·.src == s)).length

/-- the one-level unfolding of an instruction, if it is a well-formed selected invocation
(`gate_sequence_from_instruction` with an empty stack, i.e. without the cycle check) -/
def unfold? (defs : List (Def K)) (sel : String → Bool) (i : Instr K) : Option (List (Instr K) × String) :=
  match gateSequenceFromInstruction defs sel i [] with
  | .ok (some p) => some p
  | _ => none

/-- is the instruction not a selected invocation? -/
def notSelected (defs : List (Def K)) (sel : String → Bool) (i : Instr K) : Bool :=
  match gateSequenceFromInstruction defs sel i [] with
  | .ok none => true
  | _ => false

/-- one entry against its source instruction and exactly its slice `chunk` of the output -/
inductive EntryOK (defs : List (Def K)) (sel : String → Bool) :
    Entry → Nat → Nat → Instr K → List (Instr K) → Prop
  | unmodified {k off i} : ¬ IsSelectedInvocation defs sel i →
      EntryOK defs sel (.unmodified k off) k off i [i]
  | rewritten {k off g d body b nm} :
      Selected defs sel g d → g.mods = [] → Instantiates d g body →
      MapOK defs sel 0 0 (body.map Instr.gate) b nm →
      EntryOK defs sel (.rewritten k d.name off (off + b.length) nm) k off (.gate g) b

mutual
/-- **Bool checker**, one entry: `chunk` is the slice of the output the entry's range denotes. -/
def checkEntry [DecidableEq K] (defs : List (Def K)) (sel : String → Bool) :
    Entry → Nat → Nat → Instr K → List (Instr K) → Bool
  | .unmodified s idx, k, off, i, chunk =>
    s == k && idx == off && notSelected defs sel i && decide (chunk = [i])
  | .rewritten s name start stop nested, k, off, i, chunk =>
    s == k && start == off && stop == start + chunk.length &&
      (match unfold? defs sel i with
        | some (body, nm) => nm == name && checkMap defs sel nested 0 0 body chunk
        | none => false)
/-- **Bool checker for `MapOK`** (needs decidable equality of instructions): walks the map, cutting the
output into the slices the entries' ranges denote; structural recursion on the map tree. -/
def checkMap [DecidableEq K] (defs : List (Def K)) (sel : String → Bool) :
    List Entry → Nat → Nat → List (Instr K) → List (Instr K) → Bool
  | [], _, _, [], [] => true
  | e :: m, k, off, i :: rest, out =>
    e.lo ≤ e.hi && e.hi - e.lo ≤ out.length &&
      checkEntry defs sel e k off i (out.take (e.hi - e.lo)) &&
      checkMap defs sel m (k + 1) (off + (e.hi - e.lo)) rest (out.drop (e.hi - e.lo))
  | _, _, _, _, _ => false
end

end QV.C21
