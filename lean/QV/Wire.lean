/-
Wire format shared by the Rust harness and the Lean driver: one s-expression per line.
Atoms are bare words, strings are double-quoted with the escapes \\ \" \n \r \t \u{HEX}.
This file is import-free so the driver links as a native executable.
-/
namespace QV

inductive Sexp where
  | atom : String → Sexp
  | str : String → Sexp
  | list : List Sexp → Sexp
  deriving Repr, Inhabited, BEq

namespace Sexp

private def hexVal (c : Char) : Option Nat :=
  if '0' ≤ c ∧ c ≤ '9' then some (c.toNat - '0'.toNat)
  else if 'a' ≤ c ∧ c ≤ 'f' then some (c.toNat - 'a'.toNat + 10)
  else if 'A' ≤ c ∧ c ≤ 'F' then some (c.toNat - 'A'.toNat + 10)
  else none

private def isAtomChar (c : Char) : Bool :=
  !(c == ' ' || c == '(' || c == ')' || c == '"' || c == '\n' || c == '\t' || c == '\r')

/-- Parse a quoted string body starting after the opening quote. -/
private partial def parseStr (cs : Array Char) (i : Nat) (acc : List Char) : Option (String × Nat) :=
  if h : i < cs.size then
    let c := cs[i]
    if c == '"' then some (String.ofList acc.reverse, i + 1)
    else if c == '\\' then
      if h2 : i + 1 < cs.size then
        let d := cs[i+1]
        if d == 'n' then parseStr cs (i+2) ('\n' :: acc)
        else if d == 'r' then parseStr cs (i+2) ('\r' :: acc)
        else if d == 't' then parseStr cs (i+2) ('\t' :: acc)
        else if d == '\\' then parseStr cs (i+2) ('\\' :: acc)
        else if d == '"' then parseStr cs (i+2) ('"' :: acc)
        else if d == 'u' then
          -- \u{HEX}
          let rec hex (j : Nat) (v : Nat) : Option (Nat × Nat) :=
            if hj : j < cs.size then
              if cs[j] == '}' then some (v, j + 1)
              else match hexVal cs[j] with
                | some x => hex (j+1) (v * 16 + x)
                | none => none
            else none
          match hex (i+3) 0 with
          | some (v, j) => parseStr cs j (Char.ofNat v :: acc)
          | none => none
        else none
      else none
    else parseStr cs (i+1) (c :: acc)
  else none

mutual
private partial def parseOne (cs : Array Char) (i : Nat) : Option (Sexp × Nat) :=
  if h : i < cs.size then
    let c := cs[i]
    if c == ' ' || c == '\t' || c == '\n' || c == '\r' then parseOne cs (i+1)
    else if c == '(' then
      match parseList cs (i+1) [] with
      | some (xs, j) => some (.list xs, j)
      | none => none
    else if c == '"' then
      match parseStr cs (i+1) [] with
      | some (s, j) => some (.str s, j)
      | none => none
    else if c == ')' then none
    else
      let rec atomEnd (j : Nat) : Nat :=
        if hj : j < cs.size then (if isAtomChar cs[j] then atomEnd (j+1) else j) else j
      let j := atomEnd i
      some (.atom (String.ofList (cs.extract i j).toList), j)
  else none
private partial def parseList (cs : Array Char) (i : Nat) (acc : List Sexp) : Option (List Sexp × Nat) :=
  if h : i < cs.size then
    let c := cs[i]
    if c == ' ' || c == '\t' || c == '\n' || c == '\r' then parseList cs (i+1) acc
    else if c == ')' then some (acc.reverse, i+1)
    else match parseOne cs i with
      | some (x, j) => parseList cs j (x :: acc)
      | none => none
  else none
end

def parse (s : String) : Option Sexp :=
  match parseOne s.toList.toArray 0 with
  | some (x, _) => some x
  | none => none

private def hexDigit (n : Nat) : Char :=
  if n < 10 then Char.ofNat ('0'.toNat + n) else Char.ofNat ('a'.toNat + n - 10)

private partial def hexStr (n : Nat) : List Char :=
  if n < 16 then [hexDigit n] else hexStr (n / 16) ++ [hexDigit (n % 16)]

def escapeStr (s : String) : String :=
  String.ofList (s.toList.flatMap fun c =>
    if c == '\\' then ['\\', '\\']
    else if c == '"' then ['\\', '"']
    else if c == '\n' then ['\\', 'n']
    else if c == '\r' then ['\\', 'r']
    else if c == '\t' then ['\\', 't']
    else if c.toNat < 32 || c.toNat == 127 then ['\\', 'u', '{'] ++ hexStr c.toNat ++ ['}']
    else [c])

partial def toString : Sexp → String
  | .atom a => a
  | .str s => "\"" ++ escapeStr s ++ "\""
  | .list xs => "(" ++ " ".intercalate (xs.map toString) ++ ")"

instance : ToString Sexp := ⟨Sexp.toString⟩

/-! Decoding helpers -/

def asAtom? : Sexp → Option String
  | .atom a => some a
  | _ => none

def asStr? : Sexp → Option String
  | .str s => some s
  | _ => none

def asList? : Sexp → Option (List Sexp)
  | .list xs => some xs
  | _ => none

def asNat? : Sexp → Option Nat
  | .atom a => a.toNat?
  | _ => none

def asInt? : Sexp → Option Int
  | .atom a => a.toInt?
  | _ => none

/-- `(tag x y z)` → `some ("tag", [x,y,z])` -/
def tagged? : Sexp → Option (String × List Sexp)
  | .list (.atom t :: rest) => some (t, rest)
  | _ => none

end Sexp

/-- Result of checking one correspondence case. -/
structure CaseResult where
  /-- model output equals implementation output (after canonicalisation) -/
  agree : Bool
  /-- the property's Bool specification holds of the implementation's output -/
  specOk : Bool
  /-- the case exercises the property's mechanism (rule stated per property) -/
  nontrivial : Bool
  /-- distribution tags (branches, constructors, sizes) -/
  tags : List String := []
  /-- free-text detail, shown on failure -/
  detail : String := ""

def CaseResult.bad (msg : String) : CaseResult :=
  { agree := false, specOk := true, nontrivial := false, tags := ["undecodable"], detail := msg }

/-- The per-line protocol: `(case <idx> <in> <out>)` ↦ `R <idx> <agree> <spec> <nontriv> <hash of input> <tags,> | detail`. -/
def runLine (handle : Sexp → Sexp → CaseResult) (line : String) : String :=
  match Sexp.parse line with
  | some (.list [.atom "case", .atom idx, inp, out]) =>
    let r := handle inp out
    let b (x : Bool) := if x then "1" else "0"
    let tags := if r.tags.isEmpty then "-" else ",".intercalate r.tags
    let det := if r.agree && r.specOk then "" else " | " ++ (r.detail.replace "\n" "\\n")
    s!"R {idx} {b r.agree} {b r.specOk} {b r.nontrivial} {hash (Sexp.toString inp)} {tags}{det}"
  | _ => "E unparsable-line"

partial def runLoop (handle : Sexp → Sexp → CaseResult) (h : IO.FS.Stream) (out : IO.FS.Stream) : IO Unit := do
  let line ← h.getLine
  if line.isEmpty then return ()
  let l := line.trimAscii.toString
  if !l.isEmpty then out.putStrLn (runLine handle l)
  runLoop handle h out

/-- `main` of a per-property driver: read case lines on stdin, print result lines. -/
def runMain (handle : Sexp → Sexp → CaseResult) : IO UInt32 := do
  let stdin ← IO.getStdin
  let stdout ← IO.getStdout
  runLoop handle stdin stdout
  return 0

end QV
