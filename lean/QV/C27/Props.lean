import QV.C27.Lemmas
import QV.C27.Semantics
/-
C27 — Reported memory accesses match each instruction's semantics.

Property theorems only.  Every statement quantifies over ALL instructions (every one of the 40
variants, expressions of any depth, definition bodies of any length and nesting depth, calls with any
number of arguments) and ALL extern-signature maps; nothing is bounded.  The specification
(`Reads / Writes / Captures / Resolvable / Correct`, Spec.lean) is three uniform clauses (operand
positions by Quil semantics, every carried expression, every body instruction), written independently
of the 40 match arms of the model (`memoryAccesses`, Model.lean).

History: on the tree as first examined the full statement was FALSE (three shapes under-reported
reads: DEFFRAME attribute expressions, PAULI-SUM term expressions, CALL arguments beyond the
signature); they were found while proving this file, confirmed on the real code, and repaired by the
`fix:` commits 9c5e66f, 595a980, 8044518.  The model mirrors the repaired code, the full statement
`C27_memoryAccesses_correct` is proved without side condition, and the former counterexamples are kept
below as regression witnesses (`C27_regression_*`) and in the harness corpus.
-/
namespace QV.C27

/-- model output `a` against the executable specification -/
private def Rel (sigs : Sigs) (i : Instr) (a : Accesses) : Prop :=
  (∀ r, r ∈ a.reads ↔ r ∈ specReads sigs i) ∧
  (∀ r, r ∈ a.writes ↔ r ∈ specWrites sigs i) ∧
  (∀ r, r ∈ a.captures ↔ r ∈ specCaptures i)

private def Goal (sigs : Sigs) (i : Instr) : Prop :=
  match memoryAccesses sigs i with
  | .error _ => resolvableB sigs i = false
  | .ok a => resolvableB sigs i = true ∧ Rel sigs i a

private def GoalAll (sigs : Sigs) (acc : Accesses) (body : List Instr) : Prop :=
  match foldOk sigs acc body with
  | .error _ => resolvableAllB sigs body = false
  | .ok a => resolvableAllB sigs body = true ∧
      (∀ r, r ∈ a.reads ↔ r ∈ acc.reads ∨ r ∈ specReadsAll sigs body) ∧
      (∀ r, r ∈ a.writes ↔ r ∈ acc.writes ∨ r ∈ specWritesAll sigs body) ∧
      (∀ r, r ∈ a.captures ↔ r ∈ acc.captures ∨ r ∈ specCapturesAll body)

/-- arms without recursion: unfold both sides and compare memberships -/
local macro "c27_arm" : tactic =>
  `(tactic| (simp [Goal, Rel, memoryAccesses, resolvableB, specReads_eq, specWrites_eq,
      specCaptures_eq, consultsOperandL, assignsOperandL, receivesOperandL, ownExprs, bodyOf,
      specReadsAll, specWritesAll, specCapturesAll, likeMove, binary, readWrite, readOne, readAll,
      gateApplication, accessOpt, accessesWithOperand, Accesses.none, memRefs_eq, memRefsAll_eq,
      mem_toList]))

private theorem goal_of_body (sigs : Sigs) (i : Instr) (acc : Accesses) (body : List Instr)
    (hm : memoryAccesses sigs i = foldOk sigs acc body)
    (hres : resolvableB sigs i = resolvableAllB sigs body)
    (hr : ∀ r, r ∈ specReads sigs i ↔ r ∈ acc.reads ∨ r ∈ specReadsAll sigs body)
    (hw : ∀ r, r ∈ specWrites sigs i ↔ r ∈ specWritesAll sigs body)
    (hc : ∀ r, r ∈ specCaptures i ↔ r ∈ specCapturesAll body)
    (hacc : acc.writes = [] ∧ acc.captures = [])
    (h : GoalAll sigs acc body) : Goal sigs i := by
  unfold Goal GoalAll at *
  rw [hm]
  cases hf : foldOk sigs acc body with
  | error e => simp only [hf] at h; simpa [hres] using h
  | ok a =>
    simp only [hf] at h
    obtain ⟨h0, h1, h3, h4⟩ := h
    refine ⟨by rw [hres]; exact h0, ?_, ?_, ?_⟩
    · intro r; rw [h1, hr]
    · intro r; rw [h3, hw, hacc.1]; simp
    · intro r; rw [h4, hc, hacc.2]; simp

mutual
private theorem model_spec (sigs : Sigs) : (i : Instr) → Goal sigs i
  | .calibrationDefinition ps body =>
    goal_of_body sigs _ (readAll (memRefsAll ps)) body (by simp [memoryAccesses])
      (by simp [resolvableB])
      (by intro r; simp [specReads, readAll, memRefsAll_eq])
      (by intro r; simp [specWrites]) (by intro r; simp [specCaptures]) (by simp [readAll])
      (model_spec_all sigs body _)
  | .circuitDefinition body =>
    goal_of_body sigs _ Accesses.none body (by simp [memoryAccesses])
      (by simp [resolvableB])
      (by intro r; simp [specReads, Accesses.none])
      (by intro r; simp [specWrites]) (by intro r; simp [specCaptures]) (by simp [Accesses.none])
      (model_spec_all sigs body _)
  | .measureCalibrationDefinition body =>
    goal_of_body sigs _ Accesses.none body (by simp [memoryAccesses])
      (by simp [resolvableB])
      (by intro r; simp [specReads, Accesses.none])
      (by intro r; simp [specWrites]) (by intro r; simp [specCaptures]) (by simp [Accesses.none])
      (model_spec_all sigs body _)
  | .call name args => by
    have h := callAccesses_spec sigs name args
    unfold Goal
    simp only [memoryAccesses]
    cases hc : callAccesses sigs name args with
    | error e => simp only [hc] at h; simp [resolvableB, h]
    | ok a =>
      simp only [hc] at h
      obtain ⟨h0, h1, h3, h4⟩ := h
      refine ⟨by simpa [resolvableB] using h0, ?_, ?_, ?_⟩
      · intro r; rw [h1, specReads_eq]; simp [ownExprs, bodyOf, specReadsAll]
      · intro r; rw [h3, specWrites_eq]; simp [bodyOf, specWritesAll]
      · intro r; rw [h4, specCaptures_eq]; simp [bodyOf, specCapturesAll, receivesOperandL]
  | .gateDefinition spec => by
    cases spec with
    | matrix rows =>
      have hR : ∀ r, r ∈ specReads sigs (.gateDefinition (.matrix rows)) ↔ r ∈ (rows.map memRefsAll).flatten := by
        intro r; rw [specReads_eq, mem_rows]; simp [consultsOperandL, ownExprs, bodyOf, specReadsAll]
      simp only [Goal, memoryAccesses, gateSpecAccesses, readAll, Rel, hR]
      simp [resolvableB, specWrites_eq, specCaptures_eq, assignsOperandL, receivesOperandL, bodyOf,
        specWritesAll, specCapturesAll]
    | permutation => simp [Goal, Rel, memoryAccesses, gateSpecAccesses, resolvableB, specReads_eq,
        specWrites_eq, specCaptures_eq, consultsOperandL, assignsOperandL, receivesOperandL, ownExprs, bodyOf,
        specReadsAll, specWritesAll, specCapturesAll, Accesses.none]
    | pauliSum es => simp [Goal, Rel, memoryAccesses, gateSpecAccesses, resolvableB, specReads_eq,
        specWrites_eq, specCaptures_eq, consultsOperandL, assignsOperandL, receivesOperandL, ownExprs, bodyOf,
        specReadsAll, specWritesAll, specCapturesAll, readAll, memRefsAll_eq]
    | sequence gs =>
      have hR : ∀ r, r ∈ specReads sigs (.gateDefinition (.sequence gs)) ↔ r ∈ (gs.map memRefsAll).flatten := by
        intro r; rw [specReads_eq, mem_rows]; simp [consultsOperandL, ownExprs, bodyOf, specReadsAll]
      simp only [Goal, memoryAccesses, gateSpecAccesses, foldl_gateApplication, Accesses.none, Rel, hR,
        List.nil_append]
      simp [resolvableB, specWrites_eq, specCaptures_eq, assignsOperandL, receivesOperandL, bodyOf,
        specWritesAll, specCapturesAll]
  | .frameDefinition es => by c27_arm
  | .arithmetic dst src => by cases src <;> c27_arm
  | .binaryLogic dst src => by cases src <;> c27_arm
  | .move dst src => by cases src <;> c27_arm
  | .comparison dst lhs rhs => by cases rhs <;> c27_arm
  | .store dst off src => by cases src <;> c27_arm
  | .measurement t => by cases t <;> c27_arm
  | .declaration n s => by c27_arm
  | .capture t ps => by c27_arm
  | .convert d s => by c27_arm
  | .delay e => by c27_arm
  | .exchange l r => by c27_arm
  | .fence => by c27_arm
  | .gate ps => by c27_arm
  | .halt => by c27_arm
  | .include => by c27_arm
  | .jump => by c27_arm
  | .jumpUnless c => by c27_arm
  | .jumpWhen c => by c27_arm
  | .label => by c27_arm
  | .load d s o => by c27_arm
  | .nop => by c27_arm
  | .pragma => by c27_arm
  | .pulse ps => by c27_arm
  | .rawCapture t d => by c27_arm
  | .reset => by c27_arm
  | .setFrequency e => by c27_arm
  | .setPhase e => by c27_arm
  | .setScale e => by c27_arm
  | .shiftFrequency e => by c27_arm
  | .shiftPhase e => by c27_arm
  | .swapPhases => by c27_arm
  | .unaryLogic x => by c27_arm
  | .waveformDefinition m => by c27_arm
  | .wait => by c27_arm
private theorem model_spec_all (sigs : Sigs) : (body : List Instr) → (acc : Accesses) → GoalAll sigs acc body
  | [], acc => by simp [GoalAll, foldOk, resolvableAllB, specReadsAll, specWritesAll, specCapturesAll]
  | j :: js, acc => by
    have hj := model_spec sigs j
    unfold Goal at hj
    unfold GoalAll
    simp only [foldOk]
    cases hm : memoryAccesses sigs j with
    | error e =>
      simp only [hm] at hj
      simp [resolvableAllB, hj]
    | ok a =>
      simp only [hm] at hj
      obtain ⟨hres, h1, h3, h4⟩ := hj
      have hrest := model_spec_all sigs js (acc.union a)
      unfold GoalAll at hrest
      cases hf : foldOk sigs (acc.union a) js with
      | error e =>
        simp only [hf] at hrest
        simp [hf, resolvableAllB, hrest]
      | ok b =>
        simp only [hf] at hrest
        obtain ⟨g0, g1, g3, g4⟩ := hrest
        simp only [hf]
        refine ⟨by simp [resolvableAllB, hres, g0], ?_, ?_, ?_⟩
        · intro r
          rw [g1]
          simp only [Accesses.union, List.mem_append, specReadsAll, h1 r, or_assoc]
        · intro r
          rw [g3]
          simp only [Accesses.union, List.mem_append, specWritesAll, h3 r, or_assoc]
        · intro r
          rw [g4]
          simp only [Accesses.union, List.mem_append, specCapturesAll, h4 r, or_assoc]
end

/-! ### property theorems -/

/-- **C27 (full statement).**  For EVERY instruction and signature map, what
`DefaultHandler::memory_accesses` returns is correct:
* it fails iff some CALL (at any nesting depth) names a function without signature;
* otherwise the regions it reports as read are EXACTLY those whose contents the instruction consults
  (operands in consult position, every region occurring in any expression it carries, and whatever a
  definition body's instructions consult), the regions reported as written are EXACTLY those assigned,
  and those reported as captured are EXACTLY those receiving a measurement / capture result. -/
theorem C27_memoryAccesses_correct (sigs : Sigs) (i : Instr) : Correct sigs i (memoryAccesses sigs i) := by
  have h := model_spec sigs i
  unfold Goal at h
  unfold Correct
  cases hm : memoryAccesses sigs i with
  | error e =>
    simp only [hm] at h
    simp only [← resolvableB_iff, h]
    simp
  | ok a =>
    simp only [hm] at h
    obtain ⟨h0, h1, h3, h4⟩ := h
    refine ⟨(resolvableB_iff sigs i).1 h0, ?_, ?_, ?_⟩
    · intro r; rw [h1, mem_specReads]
    · intro r; rw [h3, mem_specWrites]
    · intro r; rw [h4, mem_specCaptures]

/-- the statement's CALL sentence, spelled out: if `name` has a signature, the handler succeeds, every
passed region is read (also those passed beyond the signature's parameters), the return slot and every
region passed to a mutable parameter are written, nothing is captured — and nothing else is read or
written. -/
theorem C27_call (sigs : Sigs) (name : String) (args : List Arg) (sig : Sig)
    (hs : sigs.lookup name = some sig) :
    ∃ a, memoryAccesses sigs (.call name args) = .ok a ∧
      (∀ r, r ∈ a.reads ↔ ∃ x, x ∈ args ∧ passed x = some r) ∧
      (∀ r, r ∈ a.writes ↔
        (sig.hasReturn = true ∧ ∃ x, args.head? = some x ∧ passed x = some r) ∨
        (∃ (k : Nat) (x : Arg), args[k + retSlots sig]? = some x ∧ sig.params[k]? = some true ∧
          passed x = some r)) ∧
      a.captures = [] := by
  have h := C27_memoryAccesses_correct sigs (.call name args)
  cases hm : memoryAccesses sigs (.call name args) with
  | error e =>
    simp only [hm, Correct] at h
    exact absurd (Resolvable.call hs) h
  | ok a =>
    simp only [hm, Correct] at h
    obtain ⟨_, hr, hw, hc⟩ := h
    refine ⟨a, rfl, ?_, ?_, ?_⟩
    · intro r
      rw [hr]
      constructor
      · intro h
        cases h with
        | operand h =>
          obtain ⟨sig', x, _, hx, hp⟩ := h
          exact ⟨x, hx, hp⟩
        | expr he _ => simp [ownExprs] at he
        | body hj _ => simp [bodyOf] at hj
      · rintro ⟨x, hx, hp⟩
        exact .operand ⟨sig, x, hs, hx, hp⟩
    · intro r
      rw [hw]
      constructor
      · intro h
        cases h with
        | operand h =>
          obtain ⟨sig', hs', h⟩ := h
          have : sig' = sig := by rw [hs] at hs'; exact (Option.some.inj hs').symm
          subst this
          exact h
        | body hj _ => simp [bodyOf] at hj
      · intro h
        exact .operand ⟨sig, hs, h⟩
    · have : ∀ r, r ∉ a.captures := by
        intro r hmem
        have := (hc r).1 hmem
        cases this with
        | operand h => simp [ReceivesOperand] at h
        | body hj _ => simp [bodyOf] at hj
      exact List.eq_nil_iff_forall_not_mem.2 this

/-- unknown function ⇒ error -/
theorem C27_call_unknown (sigs : Sigs) (name : String) (args : List Arg) (hs : sigs.lookup name = none) :
    ∃ e, memoryAccesses sigs (.call name args) = .error e := by
  simp [memoryAccesses, callAccesses, hs]

/-- `MemoryAccesses::union` (the fold step of every definition body, also driven directly by the harness)
is the componentwise set union. -/
theorem C27_union_spec (a b : Accesses) (r : Region) :
    (r ∈ (a.union b).reads ↔ r ∈ a.reads ∨ r ∈ b.reads) ∧
    (r ∈ (a.union b).writes ↔ r ∈ a.writes ∨ r ∈ b.writes) ∧
    (r ∈ (a.union b).captures ↔ r ∈ a.captures ∨ r ∈ b.captures) := by
  simp [Accesses.union]

/-! ### the Bool checker run on the implementation's output is the specification -/

/-- `checkB` (evaluated by the driver on the IMPLEMENTATION's reported sets) decides `Correct`. -/
theorem C27_checkB_iff (sigs : Sigs) (i : Instr) (res : Except Err Accesses) :
    checkB sigs i res = true ↔ Correct sigs i res := by
  cases res with
  | error e => simp [checkB, Correct, ← resolvableB_iff]
  | ok a =>
    simp only [checkB, Correct, Bool.and_eq_true, sameSetB_iff, resolvableB_iff, mem_specReads,
      mem_specWrites, mem_specCaptures, and_assoc]

/-- hence the model's own output always passes the checker -/
theorem C27_checkB_model (sigs : Sigs) (i : Instr) : checkB sigs i (memoryAccesses sigs i) = true :=
  (C27_checkB_iff sigs i _).2 (C27_memoryAccesses_correct sigs i)

/-! ### regression witnesses: the three former counterexamples (see the header) -/

/-- `DEFFRAME 0 "f": INITIAL-FREQUENCY: a[0]` now reports the read of `a` (was: nothing). -/
theorem C27_regression_defframe :
    memoryAccesses [] (.frameDefinition [.addr "a"]) = .ok ⟨["a"], [], []⟩ := by rfl

/-- `DEFGATE pg p AS PAULI-SUM: X(a[0]) p` now reports the read of `a` (was: nothing). -/
theorem C27_regression_paulisum :
    memoryAccesses [] (.gateDefinition (.pauliSum [.addr "a"])) = .ok ⟨["a"], [], []⟩ := by rfl

/-- `EXTERN f : INTEGER (p0 : INTEGER)`; `CALL f a b[0] c[0]`: `c`, passed beyond the signature, is now
reported as read (was: dropped by the `zip`); it is not written. -/
theorem C27_regression_call :
    memoryAccesses [("f", ⟨true, [false]⟩)] (.call "f" [.ident "a", .memref "b", .memref "c"])
      = .ok ⟨["a", "b", "c"], ["a"], []⟩ := by rfl

/-- the specification really rejects the old answers (so the checker would flag a regression) -/
theorem C27_old_answers_rejected :
    ¬ Correct [] (.frameDefinition [.addr "a"]) (.ok ⟨[], [], []⟩) ∧
    ¬ Correct [] (.gateDefinition (.pauliSum [.addr "a"])) (.ok ⟨[], [], []⟩) ∧
    ¬ Correct [("f", ⟨true, [false]⟩)] (.call "f" [.ident "a", .memref "b", .memref "c"])
        (.ok ⟨["a", "b"], ["a"], []⟩) := by
  refine ⟨?_, ?_, ?_⟩ <;> (rw [← C27_checkB_iff]; decide)

/-! ### non-vacuity -/

private def sigsFG : Sigs := [("f", ⟨true, [false]⟩), ("g", ⟨false, [true, false]⟩)]

example : memoryAccesses sigsFG (.arithmetic "a" (some "b")) = .ok ⟨["a", "b"], ["a"], []⟩ := by rfl
example : memoryAccesses sigsFG (.load "a" "b" "c") = .ok ⟨["b", "c"], ["a"], []⟩ := by rfl
example : memoryAccesses sigsFG (.store "a" "b" none) = .ok ⟨["b"], ["a"], []⟩ := by rfl
example : memoryAccesses sigsFG (.capture "c" [.bin (.addr "a") (.un (.addr "b")), .leaf])
    = .ok ⟨["a", "b"], [], ["c"]⟩ := by rfl
example : memoryAccesses sigsFG (.call "f" [.ident "a", .memref "b"]) = .ok ⟨["a", "b"], ["a"], []⟩ := by rfl
example : memoryAccesses sigsFG (.call "g" [.ident "a", .memref "b"]) = .ok ⟨["a", "b"], ["a"], []⟩ := by rfl
example : memoryAccesses sigsFG (.call "h" [.ident "a"]) = .error (.noMatchingExtern "h") := by rfl
example : memoryAccesses sigsFG
    (.calibrationDefinition [.addr "c"] [.measurement (some "b"), .circuitDefinition [.move "a" (some "b")]])
    = .ok ⟨["c", "b"], ["a"], ["b"]⟩ := by rfl
example : Reads sigsFG (.calibrationDefinition [] [.circuitDefinition [.gate [.un (.addr "a")]]]) "a" :=
  .body (j := .circuitDefinition [.gate [.un (.addr "a")]]) (by simp [bodyOf])
    (.body (j := .gate [.un (.addr "a")]) (by simp [bodyOf]) (.expr (e := .un (.addr "a")) (by simp [ownExprs]) (.un .addr)))
example : ¬ Resolvable sigsFG (.circuitDefinition [.halt, .call "h" []]) := by
  rw [← resolvableB_iff]; decide

/-! ### semantic justification of the specification's role table

`Reads / Writes / Captures` are not only "my reading": against the executable semantics of
Semantics.lean (arbitrary operator interpretations, arbitrary readout function),
* an instruction changes only cells of regions it `Writes` or `Captures` (frame property);
* what it does — its observable action and every cell it changes — depends only on the contents of
  the regions it `Reads` (non-interference);
hence, with `C27_memoryAccesses_correct`, the same holds for the sets the handler REPORTS
(`C27_sem_reported_sets_sound`): this is exactly what a scheduler that reorders instructions with
disjoint accesses relies on. -/

open Sem in
/-- an expression's value depends only on the regions occurring in it -/
theorem C27_sem_eval (e : Ex) (m m' : Mem) (h : AgreeOn (Occurs e.erase) m m') : e.eval m = e.eval m' := by
  induction e with
  | addr r => exact h r.region .addr r.index
  | const v => rfl
  | un f e ih =>
    simp only [Ex.eval]
    rw [ih (fun r hr k => h r (.un hr) k)]
  | bin f l x ihl ihx =>
    simp only [Ex.eval]
    rw [ihl (fun r hr k => h r (.binL hr) k), ihx (fun r hr k => h r (.binR hr) k)]

open Sem in
private theorem evalAll_congr (ps : List Ex) (m m' : Mem)
    (h : ∀ r, (∃ e, e ∈ ps.map Ex.erase ∧ Occurs e r) → ∀ k, m r k = m' r k) :
    ps.map (Ex.eval m) = ps.map (Ex.eval m') := by
  apply List.map_congr_left
  intro p hp
  exact C27_sem_eval p m m' (fun r hr k => h r ⟨p.erase, List.mem_map.2 ⟨p, hp, rfl⟩, hr⟩ k)


open Sem in
/-- **frame property**: a region that the instruction neither `Writes` nor `Captures` is left unchanged,
whatever the operators and the readout are. -/
theorem C27_sem_frame (sigs : Sigs) (i : XInstr) (readout : List Val → Val) (m : Mem) (r : Region)
    (hw : ¬ Writes sigs i.erase r) (hc : ¬ Captures i.erase r) (k : Nat) :
    i.exec readout m r k = m r k := by
  rw [← mem_specWrites, specWrites_eq] at hw
  rw [← mem_specCaptures, specCaptures_eq] at hc
  cases i <;>
    simp [XInstr.erase, assignsOperandL, receivesOperandL, bodyOf, specWritesAll, specCapturesAll] at hw hc <;>
    simp [XInstr.exec, upd] <;> try (intro h; simp_all)
  case exchange a b => simp [hw.1, hw.2]
  case measurement t =>
    cases t with
    | none => simp [XInstr.exec]
    | some t =>
      simp only [XInstr.exec, upd]
      have : r ≠ t.region := by simpa [eq_comm] using hc
      simp [this]

open Sem in
/-- **non-interference**: if two memories agree on every region the instruction `Reads`, the
instruction's observable action is the same in both, and every cell ends up either with the same
content in both or untouched in both — whatever the operators and the readout are. -/
theorem C27_sem_noninterference (sigs : Sigs) (i : XInstr) (readout : List Val → Val) (m m' : Mem)
    (h : AgreeOn (Reads sigs i.erase) m m') :
    i.observe m = i.observe m' ∧ SameOrUntouched m m' (i.exec readout m) (i.exec readout m') := by
  have key : ∀ r, r ∈ specReads sigs i.erase → ∀ k, m r k = m' r k :=
    fun r hr k => h r ((mem_specReads sigs _ r).1 hr) k
  have opv : ∀ (s : Operand), (∀ r, s.erase = some r → ∀ k, m r k = m' r k) → s.val m = s.val m' := by
    intro s hs
    cases s with
    | lit v => rfl
    | ref x => exact hs x.region rfl x.index
  cases i with
  | arithmetic op d s =>
    refine ⟨rfl, rel_upd (rel_refl _ _) d ?_⟩
    rw [key d.region (by simp [specReads_eq, XInstr.erase, consultsOperandL]),
      opv s (fun r hr => key r (by simp [specReads_eq, XInstr.erase, consultsOperandL, hr]))]
  | binaryLogic op d s =>
    refine ⟨rfl, rel_upd (rel_refl _ _) d ?_⟩
    rw [key d.region (by simp [specReads_eq, XInstr.erase, consultsOperandL]),
      opv s (fun r hr => key r (by simp [specReads_eq, XInstr.erase, consultsOperandL, hr]))]
  | unaryLogic op x =>
    refine ⟨rfl, rel_upd (rel_refl _ _) x ?_⟩
    rw [key x.region (by simp [specReads_eq, XInstr.erase, consultsOperandL])]
  | move d s =>
    refine ⟨rfl, rel_upd (rel_refl _ _) d ?_⟩
    exact opv s (fun r hr => key r (by simp [specReads_eq, XInstr.erase, consultsOperandL, hr]))
  | convert conv d s =>
    refine ⟨rfl, rel_upd (rel_refl _ _) d ?_⟩
    rw [key s.region (by simp [specReads_eq, XInstr.erase, consultsOperandL])]
  | exchange a b =>
    refine ⟨rfl, rel_upd (rel_upd (rel_refl _ _) a ?_) b ?_⟩
    · exact key b.region (by simp [specReads_eq, XInstr.erase, consultsOperandL]) _
    · exact key a.region (by simp [specReads_eq, XInstr.erase, consultsOperandL]) _
  | comparison op d l x =>
    refine ⟨rfl, rel_upd (rel_refl _ _) d ?_⟩
    rw [key l.region (by simp [specReads_eq, XInstr.erase, consultsOperandL]),
      opv x (fun r hr => key r (by simp [specReads_eq, XInstr.erase, consultsOperandL, hr]))]
  | load d s o =>
    refine ⟨rfl, rel_upd (rel_refl _ _) d ?_⟩
    rw [key o.region (by simp [specReads_eq, XInstr.erase, consultsOperandL]),
      key s (by simp [specReads_eq, XInstr.erase, consultsOperandL])]
  | store d o s =>
    refine ⟨rfl, ?_⟩
    simp only [XInstr.exec]
    rw [key o.region (by simp [specReads_eq, XInstr.erase, consultsOperandL])]
    exact rel_upd (rel_refl _ _) _
      (opv s (fun r hr => key r (by simp [specReads_eq, XInstr.erase, consultsOperandL, hr])))
  | measurement t =>
    cases t with
    | none => exact ⟨rfl, rel_refl _ _⟩
    | some t => exact ⟨rfl, rel_upd (rel_refl _ _) t rfl⟩
  | capture t ps =>
    have hps : ps.map (Ex.eval m) = ps.map (Ex.eval m') :=
      evalAll_congr ps m m' (fun r ⟨e, he, ho⟩ => key r (by
        rw [specReads_eq, mem_exprRegionsAll]; exact Or.inr (Or.inl ⟨e, by simpa [XInstr.erase, ownExprs] using he, ho⟩)))
    refine ⟨hps, ?_⟩
    simp only [XInstr.exec, hps]
    exact rel_upd (rel_refl _ _) t rfl
  | rawCapture t d =>
    have hd : d.eval m = d.eval m' :=
      C27_sem_eval d m m' (fun r hr => key r (by
        rw [specReads_eq, mem_exprRegionsAll]; exact Or.inr (Or.inl ⟨d.erase, by simp [XInstr.erase, ownExprs], hr⟩)))
    refine ⟨by simp [XInstr.observe, hd], ?_⟩
    simp only [XInstr.exec, hd]
    exact rel_upd (rel_refl _ _) t rfl
  | jumpWhen c =>
    refine ⟨?_, rel_refl _ _⟩
    simp only [XInstr.observe]
    rw [key c.region (by simp [specReads_eq, XInstr.erase, consultsOperandL])]
  | jumpUnless c =>
    refine ⟨?_, rel_refl _ _⟩
    simp only [XInstr.observe]
    rw [key c.region (by simp [specReads_eq, XInstr.erase, consultsOperandL])]
  | pulse ps =>
    exact ⟨evalAll_congr ps m m' (fun r ⟨e, he, ho⟩ => key r (by
      rw [specReads_eq, mem_exprRegionsAll]; exact Or.inr (Or.inl ⟨e, by simpa [XInstr.erase, ownExprs] using he, ho⟩))),
      rel_refl _ _⟩
  | gate ps =>
    exact ⟨evalAll_congr ps m m' (fun r ⟨e, he, ho⟩ => key r (by
      rw [specReads_eq, mem_exprRegionsAll]; exact Or.inr (Or.inl ⟨e, by simpa [XInstr.erase, ownExprs] using he, ho⟩))),
      rel_refl _ _⟩
  | delay e | setFrequency e | setPhase e | setScale e | shiftFrequency e | shiftPhase e =>
    have hd : e.eval m = e.eval m' :=
      C27_sem_eval e m m' (fun r hr => key r (by
        rw [specReads_eq, mem_exprRegionsAll]; exact Or.inr (Or.inl ⟨e.erase, by simp [XInstr.erase, ownExprs], hr⟩)))
    exact ⟨by simp [XInstr.observe, hd], rel_refl _ _⟩

open Sem in
/-- the same two guarantees for the sets the handler REPORTS: with `a = memory_accesses(i)`,
a region outside `a.writes ∪ a.captures` is unchanged, and memories agreeing on `a.reads` give the same
observable action and the same / untouched cells. -/
theorem C27_sem_reported_sets_sound (sigs : Sigs) (i : XInstr) (readout : List Val → Val) (a : Accesses)
    (ha : memoryAccesses sigs i.erase = .ok a) :
    (∀ m r, r ∉ a.writes → r ∉ a.captures → ∀ k, i.exec readout m r k = m r k) ∧
    (∀ m m', (∀ r, r ∈ a.reads → ∀ k, m r k = m' r k) →
      i.observe m = i.observe m' ∧ SameOrUntouched m m' (i.exec readout m) (i.exec readout m')) := by
  have hc := C27_memoryAccesses_correct sigs i.erase
  rw [ha] at hc
  obtain ⟨_, hr, hw, hcap⟩ := hc
  constructor
  · intro m r h1 h2 k
    exact C27_sem_frame sigs i readout m r (fun h => h1 ((hw r).2 h)) (fun h => h2 ((hcap r).2 h)) k
  · intro m m' h
    exact C27_sem_noninterference sigs i readout m m' (fun r hr' k => h r ((hr r).2 hr') k)

/-! ### the expression clause is tight: every occurring region can matter -/


open Sem in
private theorem liftE_erase (e : E) : (liftE e).erase = e := by
  induction e <;> simp_all [liftE, Ex.erase]

open Sem in
private theorem eval_liftE (e : E) (r : Region) :
    (liftE e).eval (fun _ _ => 0) = 0 ∧
    (liftE e).eval (fun reg _ => if reg = r then 1 else 0) = (count r e : Int) := by
  induction e with
  | addr x => by_cases h : x = r <;> simp [liftE, Ex.eval, count, h]
  | leaf => simp [liftE, Ex.eval, count]
  | un e ih => simpa [liftE, Ex.eval, count] using ih
  | bin l x ihl ihx => simp [liftE, Ex.eval, count, ihl.1, ihl.2, ihx.1, ihx.2]

open Sem in
private theorem count_pos (e : E) (r : Region) (h : Occurs e r) : 0 < count r e := by
  induction h with
  | addr => simp [count]
  | un _ ih => simpa [count] using ih
  | binL _ ih => simp only [count]; omega
  | binR _ ih => simp only [count]; omega

open Sem in
/-- **tightness of the expression clause**: for every expression shape and every region occurring in
it there is an executable expression of that shape and two memories that differ ONLY in that region on
which it evaluates differently — so no region reported through an expression is superfluous. -/
theorem C27_sem_eval_tight (e : E) (r : Region) (h : Occurs e r) :
    ∃ (x : Ex) (m m' : Mem), x.erase = e ∧ (∀ r', r' ≠ r → ∀ k, m r' k = m' r' k) ∧ x.eval m ≠ x.eval m' := by
  refine ⟨liftE e, fun _ _ => 0, fun reg _ => if reg = r then 1 else 0, liftE_erase e, ?_, ?_⟩
  · intro r' hr k; simp [hr]
  · rw [(eval_liftE e r).1, (eval_liftE e r).2]
    have hpos := count_pos e r h
    intro heq
    have h2 : (0 : Int) < (count r e : Int) := Int.natCast_pos.2 hpos
    rw [← heq] at h2
    exact absurd h2 (by decide)

end QV.C27
