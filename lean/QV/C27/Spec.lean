import QV.C27.Model
/-
C27 specification — written from the property's sentences, independently of the 40 match arms:

  "For every instruction, the default handler reports as read exactly the regions whose contents it
   consults (including those referenced in its expressions).  It reports as written the regions it
   assigns, and as captured the regions that receive measurement or capture results.  For CALL, the
   return slot and every region passed to a mutable parameter are written and every passed region is
   read."

Shape of the specification (three uniform clauses instead of one clause per instruction kind):

  * OPERANDS.  `ConsultsOperand / AssignsOperand / ReceivesOperand` say, from the Quil semantics of each
    classical / measuring instruction, which operand POSITIONS have their content consulted, assigned, or
    filled with a readout (`ADD a b` is `a := a + b`: consults a and b, assigns a; `LOAD d s o` is
    `d := s[o]`: consults s and o, assigns d; …).
  * EXPRESSIONS.  Every expression the instruction carries (`ownExprs`, a purely structural listing of
    ALL expression-typed fields, whatever the instruction kind) is evaluated when the instruction is
    interpreted, so every region occurring in one (`Occurs`, recursive through the expression) is
    consulted.
  * BODIES.  A definition (DEFCAL, DEFCAL MEASURE, DEFCIRCUIT) consults / assigns / captures whatever an
    instruction of its body does, at any nesting depth.

  * ERRORS.  The handler must fail exactly when the instruction (or a body instruction) CALLs a function
    without signature (`Resolvable`).
-/
namespace QV.C27

/-- region `r` occurs in expression `e` -/
inductive Occurs : E → Region → Prop
  | addr {r} : Occurs (.addr r) r
  | un {e r} : Occurs e r → Occurs (.un e) r
  | binL {l x r} : Occurs l r → Occurs (.bin l x) r
  | binR {l x r} : Occurs x r → Occurs (.bin l x) r

/-- the instructions of a definition's body -/
def bodyOf : Instr → List Instr
  | .calibrationDefinition _ body | .circuitDefinition body | .measureCalibrationDefinition body => body
  | _ => []

/-- ALL expressions carried directly by an instruction (by data structure; not those inside a nested
body, which `bodyOf` covers). -/
def ownExprs : Instr → List E
  | .calibrationDefinition ps _ => ps
  | .capture _ ps => ps
  | .pulse ps => ps
  | .gate ps => ps
  | .delay e | .setFrequency e | .setPhase e | .setScale e | .shiftFrequency e | .shiftPhase e => [e]
  | .rawCapture _ d => [d]
  | .frameDefinition es => es
  | .gateDefinition (.matrix rows) => rows.flatten
  | .gateDefinition (.pauliSum es) => es
  | .gateDefinition (.sequence gs) => gs.flatten
  | .gateDefinition .permutation => []
  | .waveformDefinition m => m
  | _ => []

/-- the region an argument passes, if any -/
def passed : Arg → Option Region
  | .ident r | .memref r => some r
  | .immediate => none

/-- number of leading arguments that are return slots (0 or 1) -/
def retSlots (sig : Sig) : Nat := if sig.hasReturn then 1 else 0

/-- operand positions whose CONTENT is consulted -/
def ConsultsOperand (sigs : Sigs) : Instr → Region → Prop
  | .arithmetic dst src, r | .binaryLogic dst src, r => r = dst ∨ src = some r   -- dst := dst ∘ src
  | .convert _ src, r => r = src
  | .move _ src, r => src = some r
  | .unaryLogic x, r => r = x                                                        -- x := ∘ x
  | .exchange a b, r => r = a ∨ r = b
  | .jumpWhen c, r | .jumpUnless c, r => r = c
  | .comparison _ lhs rhs, r => r = lhs ∨ rhs = some r                               -- dst := lhs ⋈ rhs
  | .load _ src off, r => r = src ∨ r = off                                           -- dst := src[off]
  | .store _ off src, r => r = off ∨ src = some r                                    -- dst[off] := src
  | .call name args, r =>                                                              -- every passed region
      ∃ sig a, sigs.lookup name = some sig ∧ a ∈ args ∧ passed a = some r
  | _, _ => False

/-- operand positions that are ASSIGNED by the processor -/
def AssignsOperand (sigs : Sigs) : Instr → Region → Prop
  | .arithmetic dst _, r | .binaryLogic dst _, r | .convert dst _, r | .move dst _, r
  | .comparison dst _ _, r | .load dst _ _, r | .store dst _ _, r => r = dst
  | .unaryLogic x, r => r = x
  | .exchange a b, r => r = a ∨ r = b
  | .call name args, r =>
      ∃ sig, sigs.lookup name = some sig ∧
        ((sig.hasReturn = true ∧ ∃ a, args.head? = some a ∧ passed a = some r) ∨          -- the return slot
         (∃ k a, args[k + retSlots sig]? = some a ∧ sig.params[k]? = some true ∧ passed a = some r))
  | _, _ => False

/-- operand positions that RECEIVE a measurement / capture result -/
def ReceivesOperand : Instr → Region → Prop
  | .capture t _, r | .rawCapture t _, r => r = t
  | .measurement t, r => t = some r
  | _, _ => False

/-- "the contents of region `r` are consulted by instruction `i`" -/
inductive Reads (sigs : Sigs) : Instr → Region → Prop
  | operand {i r} : ConsultsOperand sigs i r → Reads sigs i r
  | expr {i e r} : e ∈ ownExprs i → Occurs e r → Reads sigs i r
  | body {i j r} : j ∈ bodyOf i → Reads sigs j r → Reads sigs i r

/-- "region `r` is assigned by instruction `i`" -/
inductive Writes (sigs : Sigs) : Instr → Region → Prop
  | operand {i r} : AssignsOperand sigs i r → Writes sigs i r
  | body {i j r} : j ∈ bodyOf i → Writes sigs j r → Writes sigs i r

/-- "region `r` receives a measurement or capture result from instruction `i`" -/
inductive Captures : Instr → Region → Prop
  | operand {i r} : ReceivesOperand i r → Captures i r
  | body {i j r} : j ∈ bodyOf i → Captures j r → Captures i r

/-- every CALL in the instruction (at any depth) names a function that has a signature -/
inductive Resolvable (sigs : Sigs) : Instr → Prop
  | call {name args sig} : sigs.lookup name = some sig → Resolvable sigs (.call name args)
  | other {i} : (∀ name args, i ≠ .call name args) → (∀ j, j ∈ bodyOf i → Resolvable sigs j) →
      Resolvable sigs i

/-- The property for one instruction and one reported result. -/
def Correct (sigs : Sigs) (i : Instr) : Except Err Accesses → Prop
  | .error _ => ¬ Resolvable sigs i
  | .ok a => Resolvable sigs i ∧
      (∀ r, r ∈ a.reads ↔ Reads sigs i r) ∧
      (∀ r, r ∈ a.writes ↔ Writes sigs i r) ∧
      (∀ r, r ∈ a.captures ↔ Captures i r)

/-! ### executable form of the specification (evaluated by the driver on the implementation's output) -/

def exprRegions : E → List Region
  | .addr r => [r]
  | .leaf => []
  | .un e => exprRegions e
  | .bin l r => exprRegions l ++ exprRegions r

def consultsOperandL (sigs : Sigs) : Instr → List Region
  | .arithmetic dst src | .binaryLogic dst src => dst :: src.toList
  | .convert _ src => [src]
  | .move _ src => src.toList
  | .unaryLogic x => [x]
  | .exchange a b => [a, b]
  | .jumpWhen c | .jumpUnless c => [c]
  | .comparison _ lhs rhs => lhs :: rhs.toList
  | .load _ src off => [src, off]
  | .store _ off src => off :: src.toList
  | .call name args => match sigs.lookup name with
      | none => []
      | some _ => args.filterMap passed
  | _ => []

/-- regions passed at positions `k ≥ off` whose parameter `k - off` is mutable -/
def mutablePassed (params : List Bool) : List Arg → List Region
  | [] => []
  | a :: as =>
    match params with
    | [] => []
    | m :: ms => (if m then (passed a).toList else []) ++ mutablePassed ms as

def assignsOperandL (sigs : Sigs) : Instr → List Region
  | .arithmetic dst _ | .binaryLogic dst _ | .convert dst _ | .move dst _
  | .comparison dst _ _ | .load dst _ _ | .store dst _ _ => [dst]
  | .unaryLogic x => [x]
  | .exchange a b => [a, b]
  | .call name args => match sigs.lookup name with
      | none => []
      | some sig =>
        (if sig.hasReturn then (args.head?.bind passed).toList else []) ++
        mutablePassed sig.params (args.drop (retSlots sig))
  | _ => []

def receivesOperandL : Instr → List Region
  | .capture t _ | .rawCapture t _ => [t]
  | .measurement t => t.toList
  | _ => []

mutual
def specReads (sigs : Sigs) : Instr → List Region
  | .calibrationDefinition ps body => (ps.map exprRegions).flatten ++ specReadsAll sigs body
  | .circuitDefinition body | .measureCalibrationDefinition body => specReadsAll sigs body
  | i => consultsOperandL sigs i ++ ((ownExprs i).map exprRegions).flatten
def specReadsAll (sigs : Sigs) : List Instr → List Region
  | [] => []
  | j :: js => specReads sigs j ++ specReadsAll sigs js
end

mutual
def specWrites (sigs : Sigs) : Instr → List Region
  | .calibrationDefinition _ body | .circuitDefinition body | .measureCalibrationDefinition body =>
    specWritesAll sigs body
  | i => assignsOperandL sigs i
def specWritesAll (sigs : Sigs) : List Instr → List Region
  | [] => []
  | j :: js => specWrites sigs j ++ specWritesAll sigs js
end

mutual
def specCaptures : Instr → List Region
  | .calibrationDefinition _ body | .circuitDefinition body | .measureCalibrationDefinition body =>
    specCapturesAll body
  | i => receivesOperandL i
def specCapturesAll : List Instr → List Region
  | [] => []
  | j :: js => specCaptures j ++ specCapturesAll js
end

mutual
def resolvableB (sigs : Sigs) : Instr → Bool
  | .call name _ => (sigs.lookup name).isSome
  | .calibrationDefinition _ body | .circuitDefinition body | .measureCalibrationDefinition body =>
    resolvableAllB sigs body
  | _ => true
def resolvableAllB (sigs : Sigs) : List Instr → Bool
  | [] => true
  | j :: js => resolvableB sigs j && resolvableAllB sigs js
end

def subsetB (a b : List Region) : Bool := a.all (fun x => b.contains x)
def sameSetB (a b : List Region) : Bool := subsetB a b && subsetB b a

def checkB (sigs : Sigs) (i : Instr) : Except Err Accesses → Bool
  | .error _ => !resolvableB sigs i
  | .ok a => resolvableB sigs i && sameSetB a.reads (specReads sigs i) &&
      sameSetB a.writes (specWrites sigs i) && sameSetB a.captures (specCaptures i)

end QV.C27
