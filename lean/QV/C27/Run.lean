import QV.Wire
import QV.C27.Model
import QV.C27.Spec
/-! Driver side of the C27 correspondence check.

Case input: `(ma (SIG…) I)`, `SIG = (sig "name" ret (m…))` with `ret, m ∈ {t,f}` (has a return type; the
parameters' `mutable` flags), `I` the projected instruction (see `decInstr`).
Output: `(ok (reads…) (writes…) (captures…))` (sorted strings) | `(err nomatch)` | `(err other)`. -/
namespace QV.C27
open QV

def decBool : Sexp → Option Bool
  | .atom "t" => some true
  | .atom "f" => some false
  | _ => none

def decStr : Sexp → Option String
  | .str s => some s
  | _ => none

/-- operand: a region name, or `lit` -/
def decOperand : Sexp → Option (Option Region)
  | .str s => some (some s)
  | .atom "lit" => some none
  | _ => none

partial def decE : Sexp → Option E
  | .list [.atom "a", .str r] => some (.addr r)
  | .atom "l" => some .leaf
  | .list [.atom "u", e] => do some (.un (← decE e))
  | .list [.atom "b", l, r] => do some (.bin (← decE l) (← decE r))
  | _ => none

def decEs (xs : List Sexp) : Option (List E) := xs.mapM decE

def decRows (xs : List Sexp) : Option (List (List E)) :=
  xs.mapM fun | .list row => decEs row | _ => none

def decArg : Sexp → Option Arg
  | .list [.atom "id", .str r] => some (.ident r)
  | .list [.atom "mr", .str r] => some (.memref r)
  | .atom "imm" => some .immediate
  | _ => none

def decSig : Sexp → Option (String × Sig)
  | .list [.atom "sig", .str n, r, .list ms] => do some (n, ⟨← decBool r, ← ms.mapM decBool⟩)
  | _ => none

/-- returns the instruction and its variant name -/
partial def decInstr : Sexp → Option (Instr × String)
  | .list [.atom "arith", .str d, s] => do some (.arithmetic d (← decOperand s), "Arithmetic")
  | .list [.atom "logic", .str d, s] => do some (.binaryLogic d (← decOperand s), "BinaryLogic")
  | .list [.atom "defcal", .list ps, .list body] => do
      some (.calibrationDefinition (← decEs ps) ((← body.mapM decInstr).map (·.1)), "CalibrationDefinition")
  | .list (.atom "call" :: .str n :: args) => do some (.call n (← args.mapM decArg), "Call")
  | .list (.atom "capture" :: .str t :: ps) => do some (.capture t (← decEs ps), "Capture")
  | .list (.atom "defcircuit" :: body) => do
      some (.circuitDefinition ((← body.mapM decInstr).map (·.1)), "CircuitDefinition")
  | .list [.atom "convert", .str d, .str s] => some (.convert d s, "Convert")
  | .list [.atom "cmp", .str d, .str l, s] => do some (.comparison d l (← decOperand s), "Comparison")
  | .list [.atom "declare", .str n, s] => do some (.declaration n (← decOperand s), "Declaration")
  | .list [.atom "delay", e] => do some (.delay (← decE e), "Delay")
  | .list [.atom "exchange", .str l, .str r] => some (.exchange l r, "Exchange")
  | .list [.atom "fence"] => some (.fence, "Fence")
  | .list (.atom "defframe" :: es) => do some (.frameDefinition (← decEs es), "FrameDefinition")
  | .list (.atom "gate" :: ps) => do some (.gate (← decEs ps), "Gate")
  | .list (.atom "defgate-matrix" :: rows) => do
      some (.gateDefinition (.matrix (← decRows rows)), "GateDefinition")
  | .list [.atom "defgate-perm"] => some (.gateDefinition .permutation, "GateDefinition")
  | .list (.atom "defgate-pauli" :: es) => do some (.gateDefinition (.pauliSum (← decEs es)), "GateDefinition")
  | .list (.atom "defgate-seq" :: gs) => do
      some (.gateDefinition (.sequence (← decRows gs)), "GateDefinition")
  | .list [.atom "halt"] => some (.halt, "Halt")
  | .list [.atom "include"] => some (.include, "Include")
  | .list [.atom "jump"] => some (.jump, "Jump")
  | .list [.atom "jumpunless", .str c] => some (.jumpUnless c, "JumpUnless")
  | .list [.atom "jumpwhen", .str c] => some (.jumpWhen c, "JumpWhen")
  | .list [.atom "label"] => some (.label, "Label")
  | .list [.atom "load", .str d, .str s, .str o] => some (.load d s o, "Load")
  | .list (.atom "defcalm" :: body) => do
      some (.measureCalibrationDefinition ((← body.mapM decInstr).map (·.1)), "MeasureCalibrationDefinition")
  | .list [.atom "measure", t] => do some (.measurement (← decOperand t), "Measurement")
  | .list [.atom "move", .str d, s] => do some (.move d (← decOperand s), "Move")
  | .list [.atom "nop"] => some (.nop, "Nop")
  | .list [.atom "pragma"] => some (.pragma, "Pragma")
  | .list (.atom "pulse" :: ps) => do some (.pulse (← decEs ps), "Pulse")
  | .list [.atom "rawcapture", .str t, e] => do some (.rawCapture t (← decE e), "RawCapture")
  | .list [.atom "reset"] => some (.reset, "Reset")
  | .list [.atom "setfreq", e] => do some (.setFrequency (← decE e), "SetFrequency")
  | .list [.atom "setphase", e] => do some (.setPhase (← decE e), "SetPhase")
  | .list [.atom "setscale", e] => do some (.setScale (← decE e), "SetScale")
  | .list [.atom "shiftfreq", e] => do some (.shiftFrequency (← decE e), "ShiftFrequency")
  | .list [.atom "shiftphase", e] => do some (.shiftPhase (← decE e), "ShiftPhase")
  | .list [.atom "store", .str d, .str o, s] => do some (.store d o (← decOperand s), "Store")
  | .list [.atom "swap"] => some (.swapPhases, "SwapPhases")
  | .list [.atom "unary", .str r] => some (.unaryLogic r, "UnaryLogic")
  | .list (.atom "defwaveform" :: es) => do some (.waveformDefinition (← decEs es), "WaveformDefinition")
  | .list [.atom "wait"] => some (.wait, "Wait")
  | _ => none

/-- implementation output: `error` payloads are reduced to the error kind -/
def decOut : Sexp → Option (Except Err Accesses × Bool)
  | .list [.atom "ok", .list r, .list w, .list c] => do
      some (.ok ⟨← r.mapM decStr, ← w.mapM decStr, ← c.mapM decStr⟩, true)
  | .list [.atom "err", .atom "nomatch"] => some (.error (.noMatchingExtern ""), true)
  | .list [.atom "err", .atom _] => some (.error (.noMatchingExtern ""), false)
  | _ => none

def sameL (a b : List Region) : Bool := sameSetB a b && a.eraseDups.length == b.length

def agreeOut : Except Err Accesses → Except Err Accesses → Bool
  | .error _, .error _ => true
  | .ok a, .ok b => sameL a.reads b.reads && sameL a.writes b.writes && sameL a.captures b.captures
  | _, _ => false

mutual
partial def depthOf : Instr → Nat
  | .calibrationDefinition _ b | .circuitDefinition b | .measureCalibrationDefinition b => 1 + depthAll b
  | _ => 0
partial def depthAll : List Instr → Nat
  | [] => 0
  | j :: js => max (depthOf j) (depthAll js)
end

mutual
/-- distribution tags for the three shapes that used to be mis-reported (fixed by 9c5e66f, 595a980,
8044518): shows that every run still exercises them -/
partial def shapeTags (sigs : Sigs) : Instr → List String
  | .frameDefinition es => if (es.map exprRegions).flatten.isEmpty then [] else ["shape:defframe-attribute-refs"]
  | .gateDefinition (.pauliSum es) =>
      if (es.map exprRegions).flatten.isEmpty then [] else ["shape:paulisum-term-refs"]
  | .call name args => match sigs.lookup name with
      | none => ["shape:call-unknown"]
      | some sig =>
        if args.length > sig.params.length + retSlots sig then ["shape:call-extra-arguments"]
        else if args.length < sig.params.length + retSlots sig then ["shape:call-missing-arguments"]
        else ["shape:call-exact-arity"]
  | .calibrationDefinition _ b | .circuitDefinition b | .measureCalibrationDefinition b => shapeTagsAll sigs b
  | _ => []
partial def shapeTagsAll (sigs : Sigs) : List Instr → List String
  | [] => []
  | j :: js => shapeTags sigs j ++ shapeTagsAll sigs js
end

def bucket (n : Nat) : String := if n ≥ 4 then "4+" else toString n

def decAcc : List Sexp → Option Accesses
  | [.list r, .list w, .list c] => do some ⟨← r.mapM decStr, ← w.mapM decStr, ← c.mapM decStr⟩
  | _ => none

def handle (inp out : Sexp) : CaseResult :=
  match inp with
  -- `MemoryAccesses::union` driven directly (the fold step of every definition body)
  | .list [.atom "union", .list a, .list b] =>
    match decAcc a, decAcc b, out with
    | some x, some y, .list (.atom "acc" :: o) =>
      match decAcc o with
      | some z =>
        let m := x.union y
        { agree := sameL m.reads z.reads && sameL m.writes z.writes && sameL m.captures z.captures
          specOk := sameSetB z.reads (x.reads ++ y.reads) && sameSetB z.writes (x.writes ++ y.writes) &&
            sameSetB z.captures (x.captures ++ y.captures)
          nontrivial := true
          tags := ["union", s!"lhs-empty-rw:{x.reads.isEmpty && x.writes.isEmpty}",
                   s!"rhs-captures:{!y.captures.isEmpty}"]
          detail := s!"model={repr m} impl={out}" }
      | none => .bad s!"undecodable output {out}"
    | _, _, _ => .bad s!"undecodable case {inp} {out}"
  | .list [.atom "ma", .list ss, i] =>
    match ss.mapM decSig, decInstr i, decOut out with
    | some sigs, some (instr, kind), some (o, knownErr) =>
      let m := memoryAccesses sigs instr
      let agree := agreeOut m o && knownErr
      let specOk := checkB sigs instr o
      let (nr, nw, nc) := match o with
        | .ok a => (a.reads.length, a.writes.length, a.captures.length)
        | .error _ => (0, 0, 0)
      let exprRefs := !((ownExprs instr).map exprRegions).flatten.isEmpty
      { agree := agree
        specOk := specOk
        nontrivial := match o with
          | .ok a => !(a.reads.isEmpty && a.writes.isEmpty && a.captures.isEmpty)
          | .error _ => true
        tags := [s!"i-{kind}", s!"reads{bucket nr}", s!"writes{bucket nw}", s!"captures{bucket nc}",
                 s!"depth{bucket (depthOf instr)}"] ++
                (match o with | .ok _ => ["ok"] | .error _ => ["error"]) ++
                (if exprRefs then ["expr-refs"] else []) ++
                (shapeTags sigs instr).eraseDups
        detail := s!"model={repr m} specReads={specReads sigs instr} specWrites={specWrites sigs instr} specCaptures={specCaptures instr} impl={out}" }
    | _, _, _ => .bad s!"undecodable case {inp} {out}"
  | _ => .bad s!"undecodable input {inp}"

end QV.C27

def main : IO UInt32 := QV.runMain QV.C27.handle
