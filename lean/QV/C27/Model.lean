/-
C27 model: reported memory accesses.

  * `DefaultHandler::memory_accesses`     quil-rs/src/instruction/mod.rs:1009-1346 (helpers 1016-1118,
                                          the match 1122-1345), as of /repo fix: commits 9c5e66f, 595a980
  * `Call::default_memory_accesses`       quil-rs/src/instruction/extern_call.rs:1004-1060, as of fix: 8044518
  * `Expression::memory_references`       quil-rs/src/program/memory.rs:120-226 (explicit-stack DFS)
  * `WaveformInvocation::memory_references` quil-rs/src/program/memory.rs:228-235
  * `MemoryAccesses::{none, union}`       quil-rs/src/program/memory.rs:76-94

Projection (done by the harness): a memory reference is its region NAME (the code never looks at the
index), an expression is its tree shape with `Address` leaves kept and every other leaf / operator
forgotten, an operand is `some region` (memory reference) or `none` (literal).  `HashSet<String>`s
are lists, compared as sets by the driver.
-/
namespace QV.C27

abbrev Region := String

/-- `Expression` projected: `Address` ↦ `addr`, `Number | PiConstant | Variable` ↦ `leaf`,
`FunctionCall | Prefix` ↦ `un`, `Infix` ↦ `bin`. -/
inductive E where
  | addr (r : Region)
  | leaf
  | un (e : E)
  | bin (l r : E)
  deriving DecidableEq, Repr

/-- `Expression::memory_references` (memory.rs:130-216): left-to-right depth-first. -/
def memRefs : E → List Region
  | .addr r => [r]
  | .leaf => []
  | .un e => memRefs e
  | .bin l r => memRefs l ++ memRefs r

/-- `exprs.iter().flat_map(Expression::memory_references)` -/
def memRefsAll : List E → List Region
  | [] => []
  | e :: es => memRefs e ++ memRefsAll es

/-- `UnresolvedCallArgument` (extern_call.rs:461-469) -/
inductive Arg where
  | ident (r : Region)
  | memref (r : Region)
  | immediate
  deriving DecidableEq, Repr

/-- `ExternSignature { return_type, parameters }` projected to: has a return type, and the `mutable`
flag of each parameter (the only things `default_memory_accesses` looks at). -/
structure Sig where
  hasReturn : Bool
  params : List Bool
  deriving DecidableEq, Repr

/-- `ExternSignatureMap` (an `IndexMap<String, ExternSignature>`): association list, unique keys. -/
abbrev Sigs := List (String × Sig)

/-- `GateSpecification` (gate.rs:946-956), projected -/
inductive GateSpec where
  | matrix (rows : List (List E))
  | permutation
  | pauliSum (termExprs : List E)
  | sequence (gateParams : List (List E))
  deriving Repr

/-- `Instruction` (mod.rs:141-185), all 40 variants, projected to the memory-relevant fields. -/
inductive Instr where
  | arithmetic (dst : Region) (src : Option Region)
  | binaryLogic (dst : Region) (src : Option Region)
  | calibrationDefinition (params : List E) (body : List Instr)
  | call (name : String) (args : List Arg)
  | capture (target : Region) (wfParams : List E)
  | circuitDefinition (body : List Instr)
  | convert (dst src : Region)
  | comparison (dst lhs : Region) (rhs : Option Region)
  | declaration (name : Region) (sharing : Option Region)
  | delay (duration : E)
  | exchange (l r : Region)
  | fence
  | frameDefinition (attrExprs : List E)
  | gate (params : List E)
  | gateDefinition (spec : GateSpec)
  | halt
  | include
  | jump
  | jumpUnless (cond : Region)
  | jumpWhen (cond : Region)
  | label
  | load (dst : Region) (src : Region) (offset : Region)
  | measureCalibrationDefinition (body : List Instr)
  | measurement (target : Option Region)
  | move (dst : Region) (src : Option Region)
  | nop
  | pragma
  | pulse (wfParams : List E)
  | rawCapture (target : Region) (duration : E)
  | reset
  | setFrequency (e : E)
  | setPhase (e : E)
  | setScale (e : E)
  | shiftFrequency (e : E)
  | shiftPhase (e : E)
  | store (dst : Region) (offset : Region) (src : Option Region)
  | swapPhases
  | unaryLogic (operand : Region)
  | waveformDefinition (matrix : List E)
  | wait

/-- `MemoryAccesses { reads, writes, captures }` (memory.rs:55-74) -/
structure Accesses where
  reads : List Region
  writes : List Region
  captures : List Region
  deriving DecidableEq, Repr

/-- `MemoryAccessesError` as far as the default handler can produce it:
`CallResolution(NoMatchingExternInstruction(name))` (extern_call.rs:1011). -/
inductive Err where
  | noMatchingExtern (name : String)
  deriving DecidableEq, Repr

namespace Accesses
/-- `MemoryAccesses::none` -/
def none : Accesses := ⟨[], [], []⟩
/-- `MemoryAccesses::union` (memory.rs:83-94) -/
def union (a b : Accesses) : Accesses :=
  ⟨a.reads ++ b.reads, a.writes ++ b.writes, a.captures ++ b.captures⟩
end Accesses

/-! the access-set helpers, mod.rs:994-1039 -/
def accessOpt : Option Region → List Region
  | some r => [r]
  | Option.none => []

/-- `accesses_with_operand` (mod.rs:1030-1039) -/
def accessesWithOperand (r : Region) : Option Region → List Region
  | some o => [r, o]
  | Option.none => [r]

/-! the access-pattern helpers, mod.rs:1044-1096 -/
def likeMove (dst : Region) (srcAccesses : List Region) : Accesses := ⟨srcAccesses, [dst], []⟩
def binary (dst : Region) (src : Option Region) : Accesses := ⟨accessesWithOperand dst src, [dst], []⟩
def readWrite (places : List Region) : Accesses := ⟨places, places, []⟩
def readOne (r : Region) : Accesses := ⟨[r], [], []⟩
def readAll (places : List Region) : Accesses := ⟨places, [], []⟩
/-- `gate_application` (mod.rs:1094-1096) -/
def gateApplication (params : List E) : Accesses := readAll (memRefsAll params)

/-- the `for argument in arguments` loop of `Call::default_memory_accesses`
(extern_call.rs:1034-1054, as of `fix:` commit 8044518): EVERY remaining argument is visited;
`parameters.next()` advances in step and an argument beyond the parameters is not mutable
(`parameters.next().is_some_and(|p| p.mutable)`). -/
def callLoop : List Arg → List Bool → List Region × List Region
  | [], _ => ([], [])
  | a :: as, ms =>
    let mutable := match ms with
      | m :: _ => m
      | [] => false
    let (rs, ws) := callLoop as ms.tail
    match a with
    | .memref r | .ident r => (r :: rs, if mutable then r :: ws else ws)
    | .immediate => (rs, ws)

/-- `Call::default_memory_accesses` (extern_call.rs:1004-1060). -/
def callAccesses (sigs : Sigs) (name : String) (args : List Arg) : Except Err Accesses :=
  match sigs.lookup name with
  | Option.none => .error (.noMatchingExtern name)
  | some sig =>
    -- `if return_type.is_some() { if let Some(argument) = arguments.next() { … } }`
    let (ret, rest) : List Region × List Arg :=
      if sig.hasReturn then
        match args with
        | .memref r :: rest | .ident r :: rest => ([r], rest)
        | .immediate :: rest => ([], rest)
        | [] => ([], [])
      else ([], args)
    let (rs, ws) := callLoop rest sig.params
    .ok ⟨ret ++ rs, ret ++ ws, []⟩

/-- the `GateDefinition` arm (mod.rs:1230-1247) -/
def gateSpecAccesses : GateSpec → Accesses
  | .matrix rows => readAll (rows.map memRefsAll).flatten
  | .permutation => Accesses.none
  | .pauliSum termExprs => readAll (memRefsAll termExprs)   -- `fix:` commit 595a980
  | .sequence gates => (gates.map gateApplication).foldl Accesses.union Accesses.none

mutual
/-- `DefaultHandler::memory_accesses`, the match at mod.rs:1122-1345 (arms in source order). -/
def memoryAccesses (sigs : Sigs) : Instr → Except Err Accesses
  | .convert dst src => .ok (likeMove dst [src])
  | .move dst src => .ok (likeMove dst (accessOpt src))
  | .binaryLogic dst src => .ok (binary dst src)
  | .arithmetic dst src => .ok (binary dst src)
  | .unaryLogic r => .ok (readWrite [r])
  | .exchange l r => .ok (readWrite [l, r])
  | .jumpWhen c | .jumpUnless c => .ok (readOne c)
  | .comparison dst lhs rhs => .ok ⟨accessesWithOperand lhs rhs, [dst], []⟩
  | .delay e | .setPhase e | .setScale e | .shiftPhase e | .setFrequency e | .shiftFrequency e =>
    .ok (readAll (memRefs e))
  | .pulse ps => .ok (readAll (memRefsAll ps))
  | .gate ps => .ok (gateApplication ps)
  | .capture target ps => .ok ⟨memRefsAll ps, [], [target]⟩
  | .measurement target => .ok ⟨[], [], accessOpt target⟩
  | .rawCapture target d => .ok ⟨memRefs d, [], [target]⟩
  | .call name args => callAccesses sigs name args
  | .calibrationDefinition ps body => foldOk sigs (readAll (memRefsAll ps)) body
  | .gateDefinition spec => .ok (gateSpecAccesses spec)
  | .circuitDefinition body | .measureCalibrationDefinition body => foldOk sigs Accesses.none body
  | .waveformDefinition m => .ok (readAll (memRefsAll m))
  | .load dst src off => .ok ⟨[src, off], [dst], []⟩
  | .store dst off src => .ok ⟨accessesWithOperand off src, [dst], []⟩
  | .frameDefinition attrExprs => .ok (readAll (memRefsAll attrExprs))   -- `fix:` commit 9c5e66f
  | .declaration _ _ | .fence | .halt | .wait | .include | .jump | .label | .nop
  | .pragma | .reset | .swapPhases => .ok Accesses.none
/-- `instructions.iter().map(|i| self.memory_accesses(sigs, i)).fold_ok(init, MemoryAccesses::union)`:
stops at the first error. -/
def foldOk (sigs : Sigs) (acc : Accesses) : List Instr → Except Err Accesses
  | [] => .ok acc
  | i :: is =>
    match memoryAccesses sigs i with
    | .error e => .error e
    | .ok a => foldOk sigs (acc.union a) is
end

end QV.C27
