import QV.C27.Spec
/-
C27 helper lemmas:
  (A) the executable specification (`specReads` …, `resolvableB`) decides the declarative one
      (`Reads` …, `Resolvable`) — mutual structural induction through bodies of any depth;
  (B) the model (`memoryAccesses`, `foldOk`, `callAccesses`) against the executable specification.
-/
namespace QV.C27

/-! ## (A) executable spec ↔ declarative spec -/

theorem mem_exprRegions (e : E) (r : Region) : r ∈ exprRegions e ↔ Occurs e r := by
  induction e with
  | addr x =>
    simp only [exprRegions, List.mem_singleton]
    exact ⟨fun h => h ▸ .addr, fun h => by cases h; rfl⟩
  | leaf => simp only [exprRegions]; exact ⟨fun h => by simp at h, fun h => by cases h⟩
  | un e ih =>
    simp only [exprRegions, ih]
    exact ⟨.un, fun h => by cases h; assumption⟩
  | bin l x ihl ihx =>
    simp only [exprRegions, List.mem_append, ihl, ihx]
    constructor
    · rintro (h | h)
      · exact .binL h
      · exact .binR h
    · intro h
      cases h with
      | binL h => exact Or.inl h
      | binR h => exact Or.inr h

theorem mem_exprRegionsAll (es : List E) (r : Region) :
    r ∈ (es.map exprRegions).flatten ↔ ∃ e, e ∈ es ∧ Occurs e r := by
  simp only [List.mem_flatten, List.mem_map]
  constructor
  · rintro ⟨l, ⟨e, he, rfl⟩, hr⟩; exact ⟨e, he, (mem_exprRegions e r).1 hr⟩
  · rintro ⟨e, he, ho⟩; exact ⟨_, ⟨e, he, rfl⟩, (mem_exprRegions e r).2 ho⟩

theorem memRefs_eq (e : E) : memRefs e = exprRegions e := by
  induction e with
  | addr x => rfl
  | leaf => rfl
  | un e ih => simpa [memRefs, exprRegions] using ih
  | bin l x ihl ihx => simp [memRefs, exprRegions, ihl, ihx]

theorem memRefsAll_eq (es : List E) : memRefsAll es = (es.map exprRegions).flatten := by
  induction es with
  | nil => rfl
  | cons e es ih => simp [memRefsAll, memRefs_eq, ih]

theorem mem_toList {α} (o : Option α) (x : α) : x ∈ o.toList ↔ o = some x := by
  cases o <;> simp [eq_comm]

theorem mem_consultsOperandL (sigs : Sigs) (i : Instr) (r : Region) :
    r ∈ consultsOperandL sigs i ↔ ConsultsOperand sigs i r := by
  cases i <;> simp [consultsOperandL, ConsultsOperand, mem_toList]
  case call name args =>
    cases h : sigs.lookup name with
    | none => simp
    | some sig => simp

theorem mem_mutablePassed (params : List Bool) (args : List Arg) (r : Region) :
    r ∈ mutablePassed params args ↔
      ∃ (k : Nat) (a : Arg), args[k]? = some a ∧ params[k]? = some true ∧ passed a = some r := by
  induction args generalizing params with
  | nil => simp [mutablePassed]
  | cons a as ih =>
    cases params with
    | nil => simp [mutablePassed]
    | cons m ms =>
      simp only [mutablePassed, List.mem_append, ih]
      constructor
      · rintro (h | ⟨k, b, h1, h2, h3⟩)
        · cases m with
          | false => simp at h
          | true => exact ⟨0, a, by simp, by simp, by simpa [mem_toList] using h⟩
        · exact ⟨k + 1, b, by simpa using h1, by simpa using h2, h3⟩
      · rintro ⟨k, b, h1, h2, h3⟩
        cases k with
        | zero =>
          simp at h1 h2
          subst h1; subst h2
          exact Or.inl (by simpa [mem_toList] using h3)
        | succ k => exact Or.inr ⟨k, b, by simpa using h1, by simpa using h2, h3⟩

theorem mem_assignsOperandL (sigs : Sigs) (i : Instr) (r : Region) :
    r ∈ assignsOperandL sigs i ↔ AssignsOperand sigs i r := by
  cases i <;> simp [assignsOperandL, AssignsOperand]
  case call name args =>
    cases h : sigs.lookup name with
    | none => simp
    | some sig =>
      simp only [Option.some.injEq, exists_eq_left', List.mem_append, mem_mutablePassed,
        List.getElem?_drop]
      have hidx : ∀ k, args[retSlots sig + k]? = args[k + retSlots sig]? := by
        intro k; rw [Nat.add_comm]
      constructor
      · rintro (h1 | ⟨k, a, h1, h2, h3⟩)
        · left
          cases hr : sig.hasReturn with
          | false => simp [hr] at h1
          | true =>
            simp only [hr, if_true, mem_toList] at h1
            refine ⟨rfl, ?_⟩
            cases hh : args.head? with
            | none => simp [hh] at h1
            | some a => exact ⟨a, rfl, by simpa [hh] using h1⟩
        · right; exact ⟨k, a, by rw [← hidx]; exact h1, h2, h3⟩
      · rintro (⟨hr, a, h1, h2⟩ | ⟨k, a, h1, h2, h3⟩)
        · left; simp [hr, mem_toList, h1, h2]
        · right; exact ⟨k, a, by rw [hidx]; exact h1, h2, h3⟩

theorem mem_receivesOperandL (i : Instr) (r : Region) :
    r ∈ receivesOperandL i ↔ ReceivesOperand i r := by
  cases i <;> simp [receivesOperandL, ReceivesOperand, mem_toList]

/-- unfolding of `specReads` that is uniform in the instruction -/
theorem specReads_eq (sigs : Sigs) (i : Instr) (r : Region) :
    r ∈ specReads sigs i ↔
      r ∈ consultsOperandL sigs i ∨ r ∈ ((ownExprs i).map exprRegions).flatten ∨
      r ∈ specReadsAll sigs (bodyOf i) := by
  cases i <;> simp [specReads, specReadsAll, consultsOperandL, ownExprs, bodyOf]

theorem specWrites_eq (sigs : Sigs) (i : Instr) (r : Region) :
    r ∈ specWrites sigs i ↔ r ∈ assignsOperandL sigs i ∨ r ∈ specWritesAll sigs (bodyOf i) := by
  cases i <;> simp [specWrites, specWritesAll, assignsOperandL, bodyOf]

theorem specCaptures_eq (i : Instr) (r : Region) :
    r ∈ specCaptures i ↔ r ∈ receivesOperandL i ∨ r ∈ specCapturesAll (bodyOf i) := by
  cases i <;> simp [specCaptures, specCapturesAll, receivesOperandL, bodyOf]

/-- size used for the inductions through bodies -/
theorem sizeOf_body_lt (i : Instr) (j : Instr) (h : j ∈ bodyOf i) : sizeOf j < sizeOf i := by
  cases i <;> simp only [bodyOf, List.not_mem_nil] at h
  all_goals
    have := List.sizeOf_lt_of_mem h
    simp only [Instr.calibrationDefinition.sizeOf_spec, Instr.circuitDefinition.sizeOf_spec,
      Instr.measureCalibrationDefinition.sizeOf_spec]
    omega

theorem mem_specReadsAll (sigs : Sigs) (js : List Instr) (r : Region) :
    r ∈ specReadsAll sigs js ↔ ∃ j, j ∈ js ∧ r ∈ specReads sigs j := by
  induction js with
  | nil => simp [specReadsAll]
  | cons j js ih => simp [specReadsAll, ih]

theorem mem_specWritesAll (sigs : Sigs) (js : List Instr) (r : Region) :
    r ∈ specWritesAll sigs js ↔ ∃ j, j ∈ js ∧ r ∈ specWrites sigs j := by
  induction js with
  | nil => simp [specWritesAll]
  | cons j js ih => simp [specWritesAll, ih]

theorem mem_specCapturesAll (js : List Instr) (r : Region) :
    r ∈ specCapturesAll js ↔ ∃ j, j ∈ js ∧ r ∈ specCaptures j := by
  induction js with
  | nil => simp [specCapturesAll]
  | cons j js ih => simp [specCapturesAll, ih]

private theorem mem_specReads_aux (sigs : Sigs) (r : Region) (n : Nat) :
    ∀ i : Instr, sizeOf i < n → (r ∈ specReads sigs i ↔ Reads sigs i r) := by
  induction n with
  | zero => intro i h; omega
  | succ n ih =>
    intro i hi
    have ihb : ∀ j, j ∈ bodyOf i → (r ∈ specReads sigs j ↔ Reads sigs j r) := fun j hj =>
      ih j (by have := sizeOf_body_lt i j hj; omega)
    rw [specReads_eq, mem_consultsOperandL, mem_exprRegionsAll, mem_specReadsAll]
    constructor
    · rintro (h | ⟨e, he, ho⟩ | ⟨j, hj, hr⟩)
      · exact .operand h
      · exact .expr he ho
      · exact .body hj ((ihb j hj).1 hr)
    · intro h
      cases h with
      | operand h => exact Or.inl h
      | expr he ho => exact Or.inr (Or.inl ⟨_, he, ho⟩)
      | body hj hr => exact Or.inr (Or.inr ⟨_, hj, (ihb _ hj).2 hr⟩)

theorem mem_specReads (sigs : Sigs) (i : Instr) (r : Region) :
    r ∈ specReads sigs i ↔ Reads sigs i r :=
  mem_specReads_aux sigs r (sizeOf i + 1) i (Nat.lt_succ_self _)

private theorem mem_specWrites_aux (sigs : Sigs) (r : Region) (n : Nat) :
    ∀ i : Instr, sizeOf i < n → (r ∈ specWrites sigs i ↔ Writes sigs i r) := by
  induction n with
  | zero => intro i h; omega
  | succ n ih =>
    intro i hi
    have ihb : ∀ j, j ∈ bodyOf i → (r ∈ specWrites sigs j ↔ Writes sigs j r) := fun j hj =>
      ih j (by have := sizeOf_body_lt i j hj; omega)
    rw [specWrites_eq, mem_assignsOperandL, mem_specWritesAll]
    constructor
    · rintro (h | ⟨j, hj, hr⟩)
      · exact .operand h
      · exact .body hj ((ihb j hj).1 hr)
    · intro h
      cases h with
      | operand h => exact Or.inl h
      | body hj hr => exact Or.inr ⟨_, hj, (ihb _ hj).2 hr⟩

theorem mem_specWrites (sigs : Sigs) (i : Instr) (r : Region) :
    r ∈ specWrites sigs i ↔ Writes sigs i r :=
  mem_specWrites_aux sigs r (sizeOf i + 1) i (Nat.lt_succ_self _)

private theorem mem_specCaptures_aux (r : Region) (n : Nat) :
    ∀ i : Instr, sizeOf i < n → (r ∈ specCaptures i ↔ Captures i r) := by
  induction n with
  | zero => intro i h; omega
  | succ n ih =>
    intro i hi
    have ihb : ∀ j, j ∈ bodyOf i → (r ∈ specCaptures j ↔ Captures j r) := fun j hj =>
      ih j (by have := sizeOf_body_lt i j hj; omega)
    rw [specCaptures_eq, mem_receivesOperandL, mem_specCapturesAll]
    constructor
    · rintro (h | ⟨j, hj, hr⟩)
      · exact .operand h
      · exact .body hj ((ihb j hj).1 hr)
    · intro h
      cases h with
      | operand h => exact Or.inl h
      | body hj hr => exact Or.inr ⟨_, hj, (ihb _ hj).2 hr⟩

theorem mem_specCaptures (i : Instr) (r : Region) :
    r ∈ specCaptures i ↔ Captures i r :=
  mem_specCaptures_aux r (sizeOf i + 1) i (Nat.lt_succ_self _)

theorem resolvableAllB_iff (sigs : Sigs) (js : List Instr) :
    resolvableAllB sigs js = true ↔ ∀ j, j ∈ js → resolvableB sigs j = true := by
  induction js with
  | nil => simp [resolvableAllB]
  | cons j js ih => simp [resolvableAllB, ih]

theorem resolvableB_eq (sigs : Sigs) (i : Instr) :
    resolvableB sigs i = true ↔
      (∀ name args, i = .call name args → (sigs.lookup name).isSome = true) ∧
      resolvableAllB sigs (bodyOf i) = true := by
  cases i <;> simp [resolvableB, resolvableAllB, bodyOf]

private theorem resolvableB_iff_aux (sigs : Sigs) (n : Nat) :
    ∀ i : Instr, sizeOf i < n → (resolvableB sigs i = true ↔ Resolvable sigs i) := by
  induction n with
  | zero => intro i h; omega
  | succ n ih =>
    intro i hi
    have ihb : ∀ j, j ∈ bodyOf i → (resolvableB sigs j = true ↔ Resolvable sigs j) := fun j hj =>
      ih j (by have := sizeOf_body_lt i j hj; omega)
    rw [resolvableB_eq, resolvableAllB_iff]
    constructor
    · rintro ⟨hc, hb⟩
      by_cases hcall : ∃ name args, i = .call name args
      · obtain ⟨name, args, rfl⟩ := hcall
        have := hc name args rfl
        obtain ⟨sig, hs⟩ := Option.isSome_iff_exists.1 this
        exact .call hs
      · refine .other (fun name args h => hcall ⟨name, args, h⟩) ?_
        intro j hj
        exact (ihb j hj).1 (hb j hj)
    · intro h
      cases h with
      | call hs =>
        refine ⟨?_, by simp [bodyOf]⟩
        intro name args e
        cases e
        simp [hs]
      | other hne hb =>
        refine ⟨fun name args e => absurd e (hne name args), ?_⟩
        intro j hj
        exact (ihb j hj).2 (hb j hj)

theorem resolvableB_iff (sigs : Sigs) (i : Instr) : resolvableB sigs i = true ↔ Resolvable sigs i :=
  resolvableB_iff_aux sigs (sizeOf i + 1) i (Nat.lt_succ_self _)

theorem subsetB_iff (a b : List Region) : subsetB a b = true ↔ ∀ x, x ∈ a → x ∈ b := by
  simp [subsetB]

theorem sameSetB_iff (a b : List Region) : sameSetB a b = true ↔ ∀ x, x ∈ a ↔ x ∈ b := by
  simp only [sameSetB, Bool.and_eq_true, subsetB_iff]
  exact ⟨fun h x => ⟨h.1 x, h.2 x⟩, fun h => ⟨fun x => (h x).1, fun x => (h x).2⟩⟩

/-! ## (B) the model against the executable specification -/

theorem mem_callLoop (args : List Arg) (ms : List Bool) (r : Region) :
    (r ∈ (callLoop args ms).1 ↔ r ∈ args.filterMap passed) ∧
    (r ∈ (callLoop args ms).2 ↔ r ∈ mutablePassed ms args) := by
  induction args generalizing ms with
  | nil => simp [callLoop, mutablePassed]
  | cons a as ih =>
    have ih1 := (ih ms.tail).1
    have ih2 := (ih ms.tail).2
    cases ms with
    | nil =>
      have hnil : mutablePassed [] as = [] := by cases as <;> simp [mutablePassed]
      simp only [List.tail_nil, hnil, List.not_mem_nil, iff_false] at ih2
      cases a <;> simp_all [callLoop, mutablePassed, passed]
    | cons m ms =>
      simp only [List.tail_cons] at ih1 ih2
      cases a <;> cases m <;> simp_all [callLoop, mutablePassed, passed]

/-- what the model's CALL arm returns, against the executable specification -/
theorem callAccesses_spec (sigs : Sigs) (name : String) (args : List Arg) :
    match callAccesses sigs name args with
    | .error _ => sigs.lookup name = none
    | .ok a =>
      (sigs.lookup name).isSome = true ∧
      (∀ r, r ∈ a.reads ↔ r ∈ consultsOperandL sigs (.call name args)) ∧
      (∀ r, r ∈ a.writes ↔ r ∈ assignsOperandL sigs (.call name args)) ∧
      a.captures = [] := by
  cases hl : sigs.lookup name with
  | none => simp [callAccesses, hl]
  | some sig =>
    cases hr : sig.hasReturn with
    | false =>
      simp only [callAccesses, hl, hr, consultsOperandL, assignsOperandL, retSlots]
      refine ⟨rfl, ?_, ?_, trivial⟩
      · intro r; simpa using (mem_callLoop args sig.params r).1
      · intro r; simpa using (mem_callLoop args sig.params r).2
    | true =>
      cases args with
      | nil => simp [callAccesses, hl, hr, consultsOperandL, assignsOperandL, retSlots, callLoop, mutablePassed]
      | cons a rest =>
        simp only [callAccesses, hl, hr, consultsOperandL, assignsOperandL, retSlots]
        have h1 := fun r => (mem_callLoop rest sig.params r).1
        have h2 := fun r => (mem_callLoop rest sig.params r).2
        cases a <;> simp [passed, h1, h2]

/-- `gates.iter().map(gate_application).fold(none, union)` only accumulates reads -/
theorem foldl_gateApplication (gs : List (List E)) (acc : Accesses) :
    (gs.map gateApplication).foldl Accesses.union acc =
      ⟨acc.reads ++ (gs.map memRefsAll).flatten, acc.writes, acc.captures⟩ := by
  induction gs generalizing acc with
  | nil => simp
  | cons g gs ih => simp [ih, Accesses.union, gateApplication, readAll]

theorem mem_rows (rows : List (List E)) (r : Region) :
    r ∈ (rows.map memRefsAll).flatten ↔ r ∈ (rows.flatten.map exprRegions).flatten := by
  induction rows with
  | nil => simp
  | cons row rows ih => simp [memRefsAll_eq, ih]

end QV.C27
