import QV.C27.Spec
/-
C27, semantic layer: an executable semantics of the classical / measuring / expression-evaluating
instructions, used to JUSTIFY the operand-role table of Spec.lean (`ConsultsOperand`,
`AssignsOperand`, `ReceivesOperand`, the expression clause) instead of merely asserting it.

Memory is `region → index → value`; values are integers; the arithmetic / logic / comparison / conversion
operators and the expression operators are ARBITRARY functions (parameters of the instruction), so the
theorems in Props.lean hold for every interpretation of the operators.  `erase` forgets indices and
operators and gives the projected instruction the rest of C27 talks about.
-/
namespace QV.C27.Sem
open QV.C27

abbrev Val := Int
abbrev Mem := Region → Nat → Val

structure Ref where
  region : Region
  index : Nat
  deriving DecidableEq, Repr

inductive Operand where
  | lit (v : Val)
  | ref (r : Ref)

def Operand.val (m : Mem) : Operand → Val
  | .lit v => v
  | .ref r => m r.region r.index

def Operand.erase : Operand → Option Region
  | .lit _ => none
  | .ref r => some r.region

/-- expressions with indices and (arbitrary) operators -/
inductive Ex where
  | addr (r : Ref)
  | const (v : Val)
  | un (f : Val → Val) (e : Ex)
  | bin (f : Val → Val → Val) (l r : Ex)

def Ex.eval (m : Mem) : Ex → Val
  | .addr r => m r.region r.index
  | .const v => v
  | .un f e => f (e.eval m)
  | .bin f l r => f (l.eval m) (r.eval m)

def Ex.erase : Ex → E
  | .addr r => .addr r.region
  | .const _ => .leaf
  | .un _ e => .un e.erase
  | .bin _ l r => .bin l.erase r.erase

/-- point update of one cell -/
def upd (m : Mem) (r : Ref) (v : Val) : Mem :=
  fun reg k => if reg = r.region ∧ k = r.index then v else m reg k

/-- executable instructions: what the projected `Instr` forgets is kept here -/
inductive XInstr where
  | arithmetic (op : Val → Val → Val) (dst : Ref) (src : Operand)      -- dst := dst ∘ src
  | binaryLogic (op : Val → Val → Val) (dst : Ref) (src : Operand)
  | unaryLogic (op : Val → Val) (x : Ref)                               -- x := ∘ x
  | move (dst : Ref) (src : Operand)
  | convert (conv : Val → Val) (dst src : Ref)
  | exchange (a b : Ref)
  | comparison (op : Val → Val → Val) (dst lhs : Ref) (rhs : Operand)  -- dst := lhs ⋈ rhs
  | load (dst : Ref) (src : Region) (off : Ref)                         -- dst := src[off]
  | store (dst : Region) (off : Ref) (src : Operand)                    -- dst[off] := src
  | measurement (target : Option Ref)                                   -- target := readout
  | capture (target : Ref) (params : List Ex)                           -- target := readout(params)
  | rawCapture (target : Ref) (duration : Ex)
  | jumpWhen (c : Ref)
  | jumpUnless (c : Ref)
  | pulse (params : List Ex)
  | gate (params : List Ex)
  | delay (e : Ex)
  | setFrequency (e : Ex)
  | setPhase (e : Ex)
  | setScale (e : Ex)
  | shiftFrequency (e : Ex)
  | shiftPhase (e : Ex)

def XInstr.erase : XInstr → Instr
  | .arithmetic _ d s => .arithmetic d.region s.erase
  | .binaryLogic _ d s => .binaryLogic d.region s.erase
  | .unaryLogic _ x => .unaryLogic x.region
  | .move d s => .move d.region s.erase
  | .convert _ d s => .convert d.region s.region
  | .exchange a b => .exchange a.region b.region
  | .comparison _ d l r => .comparison d.region l.region r.erase
  | .load d s o => .load d.region s o.region
  | .store d o s => .store d o.region s.erase
  | .measurement t => .measurement (t.map (·.region))
  | .capture t ps => .capture t.region (ps.map Ex.erase)
  | .rawCapture t d => .rawCapture t.region d.erase
  | .jumpWhen c => .jumpWhen c.region
  | .jumpUnless c => .jumpUnless c.region
  | .pulse ps => .pulse (ps.map Ex.erase)
  | .gate ps => .gate (ps.map Ex.erase)
  | .delay e => .delay e.erase
  | .setFrequency e => .setFrequency e.erase
  | .setPhase e => .setPhase e.erase
  | .setScale e => .setScale e.erase
  | .shiftFrequency e => .shiftFrequency e.erase
  | .shiftPhase e => .shiftPhase e.erase

/-- The memory after the instruction.  `readout` is what the quantum side delivers to a MEASURE /
CAPTURE target (a function of the evaluated waveform parameters / duration, arbitrary). -/
def XInstr.exec (readout : List Val → Val) (m : Mem) : XInstr → Mem
  | .arithmetic op d s | .binaryLogic op d s => upd m d (op (m d.region d.index) (s.val m))
  | .unaryLogic op x => upd m x (op (m x.region x.index))
  | .move d s => upd m d (s.val m)
  | .convert conv d s => upd m d (conv (m s.region s.index))
  | .exchange a b => upd (upd m a (m b.region b.index)) b (m a.region a.index)
  | .comparison op d l r => upd m d (op (m l.region l.index) (r.val m))
  | .load d s o => upd m d (m s (m o.region o.index).toNat)
  | .store d o s => upd m ⟨d, (m o.region o.index).toNat⟩ (s.val m)
  | .measurement none => m
  | .measurement (some t) => upd m t (readout [])
  | .capture t ps => upd m t (readout (ps.map (Ex.eval m)))
  | .rawCapture t d => upd m t (readout [d.eval m])
  | _ => m

/-- What the instruction shows to the rest of the machine besides its memory effect: the branch it
takes, or the numbers it hands to the control hardware. -/
def XInstr.observe (m : Mem) : XInstr → List Val
  | .jumpWhen c => [if m c.region c.index ≠ 0 then 1 else 0]
  | .jumpUnless c => [if m c.region c.index = 0 then 1 else 0]
  | .pulse ps | .gate ps | .capture _ ps => ps.map (Ex.eval m)
  | .delay e | .setFrequency e | .setPhase e | .setScale e | .shiftFrequency e | .shiftPhase e
  | .rawCapture _ e => [e.eval m]
  | _ => []

/-- two memories hold the same contents in every region of `S` -/
def AgreeOn (S : Region → Prop) (m m' : Mem) : Prop := ∀ r, S r → ∀ k, m r k = m' r k

/-- every cell is either equal in `n`,`n'` or untouched relative to the bases `m`,`m'` -/
def SameOrUntouched (m m' n n' : Mem) : Prop := ∀ r k, n r k = n' r k ∨ (n r k = m r k ∧ n' r k = m' r k)

theorem rel_refl (m m' : Mem) : SameOrUntouched m m' m m' := fun _ _ => Or.inr ⟨rfl, rfl⟩

theorem rel_upd {m m' n n' : Mem} (h : SameOrUntouched m m' n n') (c : Ref) {v v' : Val} (hv : v = v') :
    SameOrUntouched m m' (upd n c v) (upd n' c v') := by
  intro r k
  unfold upd
  by_cases hc : r = c.region ∧ k = c.index
  · simp [hc, hv]
  · simp only [hc, if_false]; exact h r k

/-- an executable expression of shape `e`: indices 0, unary operators the identity, binary `+` -/
def liftE : E → Ex
  | .addr r => .addr ⟨r, 0⟩
  | .leaf => .const 0
  | .un e => .un id (liftE e)
  | .bin l r => .bin (· + ·) (liftE l) (liftE r)

/-- number of `Address` leaves of region `r` -/
def count (r : Region) : E → Nat
  | .addr x => if x = r then 1 else 0
  | .leaf => 0
  | .un e => count r e
  | .bin l x => count r l + count r x

end QV.C27.Sem
