import QV.Shared.SchedFrames
import QV.C24.Spec
import QV.C23.Lemmas
import QV.Shared.HandlerLemmas
/-
C24 — Frame conflicts are ordered and every frame edge is justified.
Property theorems only; the invariants live in `QV.Shared.SchedLemmas` / `QV.Shared.SchedFrames`.
All statements are for blocks of any length over any number of frames.
-/
namespace QV.C24
open QV.Sched

/-! ### helpers -/

private theorem mem_ordLog {P : List (Node × Instr)} {a : Access} :
    a ∈ ordLog P ↔ ∃ p ∈ P, p.1 = a.node ∧ (a.res, a.kind) ∈ frameAccesses p.2 := by
  simp only [ordLog, List.mem_flatMap, List.mem_map]
  constructor
  · rintro ⟨p, hp, c, hc, rfl⟩
    exact ⟨p, hp, rfl, hc⟩
  · rintro ⟨p, hp, h1, h2⟩
    exact ⟨p, hp, (a.res, a.kind), h2, by cases a; simp_all⟩

private theorem mem_timedLog {P : List (Node × Instr)} {a : Access} :
    a ∈ timedLog P ↔ ∃ p ∈ P, p.1 = a.node ∧ (a.res, a.kind) ∈ frameAccesses p.2 ∧ p.2.scheduled = true := by
  simp only [timedLog, List.mem_flatMap]
  constructor
  · rintro ⟨p, hp, hin⟩
    split at hin
    · rename_i hs
      simp only [List.mem_map] at hin
      obtain ⟨c, hc, rfl⟩ := hin
      exact ⟨p, hp, rfl, hc, hs⟩
    · simp at hin
  · rintro ⟨p, hp, h1, h2, h3⟩
    refine ⟨p, hp, ?_⟩
    rw [if_pos h3]
    exact List.mem_map.2 ⟨(a.res, a.kind), h2, by cases a; simp_all⟩

private theorem mem_classicalNodes {P : List (Node × Instr)} {x : Node} :
    x ∈ classicalNodes P ↔ ∃ p ∈ P, p.1 = x ∧ p.2.role = .classical := by
  simp only [classicalNodes, List.mem_flatMap]
  constructor
  · rintro ⟨p, hp, hin⟩
    split at hin
    · rename_i hr
      simp only [List.mem_singleton] at hin
      exact ⟨p, hp, hin.symm, hr⟩
    · simp at hin
  · rintro ⟨p, hp, h1, h2⟩
    exact ⟨p, hp, by simp [h2, h1]⟩

/-- an item of a block is a body instruction (position ≤ length) or the terminator -/
private theorem item_cases (b : Block) (p : Node × Instr) (hp : p ∈ b.items) :
    p.1.pos b.instrs.length ≤ b.instrs.length ∨ (p.1 = .stop ∧ b.term = some p.2) := by
  unfold Block.items at hp
  rcases List.mem_append.1 hp with hp | hp
  · obtain ⟨i, h1, _, h3, _⟩ := mem_enumFrom _ _ p hp
    left; rw [h1]; simp only [Node.pos]; omega
  · cases ht : b.term with
    | none => simp [ht] at hp
    | some t =>
      simp only [ht, List.mem_singleton] at hp
      subst hp
      exact .inr ⟨rfl, rfl⟩

private theorem mem_pendingAll {m : QMap} {d : Dep} (h : d ∈ m.pendingAll) :
    ∃ r, (d.kind = .read ∧ d.node ∈ (m.get r).reads) ∨ (m.get r).write = some d := by
  simp only [QMap.pendingAll, List.mem_flatMap, Queue.pending, List.mem_append, List.mem_map,
    Option.mem_toList] at h
  obtain ⟨r, _, h | h⟩ := h
  · obtain ⟨x, hx, rfl⟩ := h
    exact ⟨r, .inl ⟨rfl, hx⟩⟩
  · exact ⟨r, .inr h⟩

/-- whatever is pending in a frame queue is the block start or a logged access -/
private theorem pending_logged {m : QMap} {R : Node → Node → Prop} {log : List Access} {d : Dep}
    (hq : QInv Queue.frameInit m R log) (h : d ∈ m.pendingAll) :
    d.node = .start ∨ ∃ r k, (⟨d.node, r, k⟩ : Access) ∈ log := by
  obtain ⟨r, ⟨_, h⟩ | h⟩ := mem_pendingAll h
  · exact .inr ⟨r, .read, hq.jr r _ h⟩
  · rcases (hq.jw r d h).2 with h' | h'
    · exact .inr ⟨r, d.kind, h'⟩
    · simp only [Queue.frameInit, Option.some.injEq] at h'
      subst h'
      exact .inl rfl

private theorem finish_cases (b : Block) (st : St) (e : Edge) (he : e ∈ finish b st) :
    e ∈ st.edges ∨ (∃ t ∈ st.trailing, e = ⟨t, .stop, .stable⟩) ∨
    (∃ d ∈ st.timed.pendingAll, e = ⟨d.node, .stop, .scheduled⟩) ∨
    (∃ d ∈ st.ord.pendingAll, e = ⟨d.node, .stop, .stable⟩) ∨
    (b.instrs = [] ∧ e = ⟨.start, .stop, .stable⟩) := by
  simp only [finish, List.mem_append, List.mem_map] at he
  rcases he with (((he | ⟨t, ht, rfl⟩) | ⟨d, hd, rfl⟩) | ⟨d, hd, rfl⟩) | he
  · exact .inl he
  · exact .inr (.inl ⟨t, ht, rfl⟩)
  · exact .inr (.inr (.inl ⟨d, hd, rfl⟩))
  · exact .inr (.inr (.inr (.inl ⟨d, hd, rfl⟩)))
  · split at he
    · rename_i hemp
      simp only [List.mem_singleton] at he
      exact .inr (.inr (.inr (.inr ⟨by simpa using hemp, he⟩)))
    · simp at he

private theorem sub_finish (b : Block) (st : St) : ∀ e ∈ st.edges, e ∈ finish b st := by
  intro e he; simp [finish, he]

/-- hypotheses: the frames one instruction uses/blocks are pairwise distinct (true of `FrameSet::filter`,
frame.rs:49-65, which removes the used frames from the blocked ones), and the terminator instruction is a
control-flow instruction (true of `BasicBlockTerminator::into_instruction` with the default handler) -/
def Hyp (b : Block) : Prop :=
  (∀ p ∈ b.items, ((frameAcc p.2).map (·.1)).Nodup) ∧ (∀ t, b.term = some t → t.role = .controlFlow)

private theorem term_noframes {b : Block} (hterm : ∀ t, b.term = some t → t.role = .controlFlow)
    {p : Node × Instr} (hp : p ∈ b.items) {a : Nat × Kind} (ha : a ∈ frameAccesses p.2) :
    p.1.pos b.instrs.length ≤ b.instrs.length := by
  rcases item_cases b p hp with h | ⟨_, h2⟩
  · exact h
  · have := hterm _ h2
    simp [frameAccesses, this] at ha

private theorem justLog_ord {b : Block} {e : Edge} (h : FrameJustLog (ordLog b.items) e) : FrameJust b false e := by
  obtain ⟨f, k1, k2, h1, h2, h3⟩ := h
  refine ⟨f, k1, k2, ?_, ?_, h3⟩
  · rcases h1 with h1 | h1
    · obtain ⟨p, hp, hp1, hp2⟩ := mem_ordLog.1 h1
      simp only at hp1 hp2
      exact .inr ⟨p.2, by rw [← hp1]; exact hp, hp2, by simp⟩
    · exact .inl h1
  · obtain ⟨p, hp, hp1, hp2⟩ := mem_ordLog.1 h2
    simp only at hp1 hp2
    exact ⟨p.2, by rw [← hp1]; exact hp, hp2, by simp⟩

private theorem justLog_timed {b : Block} {e : Edge} (h : FrameJustLog (timedLog b.items) e) : FrameJust b true e := by
  obtain ⟨f, k1, k2, h1, h2, h3⟩ := h
  refine ⟨f, k1, k2, ?_, ?_, h3⟩
  · rcases h1 with h1 | h1
    · obtain ⟨p, hp, hp1, hp2, hp3⟩ := mem_timedLog.1 h1
      simp only at hp1 hp2
      exact .inr ⟨p.2, by rw [← hp1]; exact hp, hp2, fun _ => hp3⟩
    · exact .inl h1
  · obtain ⟨p, hp, hp1, hp2, hp3⟩ := mem_timedLog.1 h2
    simp only at hp1 hp2
    exact ⟨p.2, by rw [← hp1]; exact hp, hp2, fun _ => hp3⟩

/-- **C24, block level (all blocks, any length, any number of frames).** Whenever `build` succeeds, the graph
satisfies the frame specification: instructions conflicting on a frame are ordered through `StableOrdering`
edges and, when both are timed, through `Scheduled` edges; everything that touches a frame comes after the
block start; every `Scheduled` / `StableOrdering` edge goes forward and is justified by a frame conflict, a
block boundary, or (for `StableOrdering`) a classical instruction. -/
theorem C24_build_frameSpec (b : Block) (es : List Edge) (h : buildBlock b = .ok es) (hyp : Hyp b) :
    FrameSpec b es := by
  obtain ⟨hnd, hterm⟩ := hyp
  obtain ⟨st, _, rfl, -, -, ho, hoj, ht, htj, htr⟩ := build_inv b es h hnd
  have hsub := sub_finish b st
  refine ⟨?_, ?_, ?_, ?_⟩
  · -- ordered
    have hpo := ho.pw
    have hpt := ht.pw
    simp only [ordLog] at hpo
    simp only [timedLog] at hpt
    rw [List.pairwise_flatMap] at hpo hpt
    refine (hpo.2.and hpt.2).imp ?_
    rintro p q ⟨hpq, hpq'⟩ f k1 k2 h1 h2 hc
    constructor
    · exact (hpq ⟨p.1, f, k1⟩ (List.mem_map.2 ⟨(f, k1), h1, rfl⟩) ⟨q.1, f, k2⟩
        (List.mem_map.2 ⟨(f, k2), h2, rfl⟩) rfl hc).mono hsub
    · intro hs1 hs2
      exact (hpq' ⟨p.1, f, k1⟩ (by rw [if_pos hs1]; exact List.mem_map.2 ⟨(f, k1), h1, rfl⟩) ⟨q.1, f, k2⟩
        (by rw [if_pos hs2]; exact List.mem_map.2 ⟨(f, k2), h2, rfl⟩) rfl hc).mono hsub
  · -- fromStart
    intro p hp hne
    obtain ⟨a, ha⟩ := List.exists_mem_of_ne_nil _ hne
    constructor
    · exact (ho.ini ⟨.write, .start⟩ rfl ⟨p.1, a.1, a.2⟩ (mem_ordLog.2 ⟨p, hp, rfl, ha⟩)).mono hsub
    · intro hs
      exact (ht.ini ⟨.write, .start⟩ rfl ⟨p.1, a.1, a.2⟩ (mem_timedLog.2 ⟨p, hp, rfl, ha, hs⟩)).mono hsub
  · -- schedJust
    intro e he hl
    rcases finish_cases b st e he with hin | ⟨t, _, rfl⟩ | ⟨d, hd, rfl⟩ | ⟨d, _, rfl⟩ | ⟨_, rfl⟩
    · obtain ⟨h1, h2⟩ := htj e hin hl
      exact ⟨h1, .inl (justLog_timed h2)⟩
    · cases hl
    · rcases pending_logged ht hd with h0 | ⟨r, k, hlog⟩
      · exact ⟨by rw [h0]; simp [Node.pos], .inr ⟨rfl, .inl h0⟩⟩
      · obtain ⟨p, hp, hp1, hp2, hp3⟩ := mem_timedLog.1 hlog
        simp only at hp1 hp2
        refine ⟨?_, .inr ⟨rfl, .inr ⟨r, k, p.2, by rw [← hp1]; exact hp, hp2, fun _ => hp3⟩⟩⟩
        have := term_noframes hterm hp hp2
        rw [hp1] at this
        show Node.pos b.instrs.length _ < b.instrs.length + 1
        simp only
        omega
    · cases hl
    · cases hl
  · -- stableJust
    intro e he hl
    rcases finish_cases b st e he with hin | ⟨t, htt, rfl⟩ | ⟨d, _, rfl⟩ | ⟨d, hd, rfl⟩ | ⟨hemp, rfl⟩
    · obtain ⟨h1, h2⟩ := hoj e hin hl
      refine ⟨h1, ?_⟩
      rcases h2 with ⟨h3, h4⟩ | h2
      · obtain ⟨p, hp, hp1, hp2⟩ := mem_classicalNodes.1 h4
        exact .inr (.inr (.inl ⟨h3, p.2, by rw [← hp1]; exact hp, hp2⟩))
      · exact .inl (justLog_ord h2)
    · obtain ⟨p, hp, hp1, hp2⟩ := mem_classicalNodes.1 (htr t htt)
      refine ⟨?_, .inr (.inr (.inr (.inl ⟨⟨p.2, by rw [← hp1]; exact hp, hp2⟩, rfl⟩)))⟩
      rcases item_cases b p hp with h1 | ⟨_, h2⟩
      · rw [hp1] at h1
        show Node.pos b.instrs.length _ < b.instrs.length + 1
        simp only
        omega
      · have := hterm _ h2
        rw [this] at hp2; cases hp2
    · cases hl
    · rcases pending_logged ho hd with h0 | ⟨r, k, hlog⟩
      · exact ⟨by rw [h0]; simp [Node.pos], .inr (.inl ⟨rfl, .inl h0⟩)⟩
      · obtain ⟨p, hp, hp1, hp2⟩ := mem_ordLog.1 hlog
        simp only at hp1 hp2
        refine ⟨?_, .inr (.inl ⟨rfl, .inr ⟨r, k, p.2, by rw [← hp1]; exact hp, hp2, by simp⟩⟩)⟩
        have := term_noframes hterm hp hp2
        rw [hp1] at this
        show Node.pos b.instrs.length _ < b.instrs.length + 1
        simp only
        omega
    · exact ⟨by simp [Node.pos], .inr (.inr (.inr (.inr ⟨rfl, rfl, hemp⟩)))⟩

/-! ### Last clause: instructions that only block a frame are not ordered on its account -/

private theorem ReachVia.le {E : List Edge} {P : Edge → Prop} (μ : Node → Nat)
    (hμ : ∀ e ∈ E, P e → μ e.src < μ e.dst) {u v : Node} (h : ReachVia E P u v) : u = v ∨ μ u < μ v := by
  induction h with
  | refl => exact .inl rfl
  | step _ he hp ih =>
    rcases ih with rfl | ih
    · exact .inr (hμ _ he hp)
    · exact .inr (Nat.lt_trans ih (hμ _ he hp))

private theorem ReachVia.head {E : List Edge} {P : Edge → Prop} {u v : Node} (h : ReachVia E P u v) :
    u = v ∨ ∃ e ∈ E, P e ∧ e.src = u ∧ ReachVia E P e.dst v := by
  induction h with
  | refl => exact .inl rfl
  | @step e' _ he hp ih =>
    rcases ih with rfl | ⟨e, he', hpe, hs, hr⟩
    · exact .inr ⟨e', he, hp, rfl, .refl _⟩
    · exact .inr ⟨e, he', hpe, hs, .step hr he hp⟩

/-- **C24, last clause (per frame).** In any graph satisfying the specification: if no node positioned from `u`
to `v` uses frame `f` (so `u`, `v` and everything between at most block it), then no path made of
`StableOrdering` (resp. `Scheduled`) edges that `f` justifies leads from `u` to a different node `v`. -/
theorem C24_blockers_unordered (b : Block) (es : List Edge) (hs : FrameSpec b es) (timed : Bool) (f : Nat)
    (u v : Node) (hne : u ≠ v)
    (hbetween : ∀ x k, TouchesF b false x f k → u.pos b.instrs.length ≤ x.pos b.instrs.length →
      x.pos b.instrs.length ≤ v.pos b.instrs.length → k = .read) :
    ¬ ReachVia es (JustByFrame b timed (if timed then isScheduled else isStable) f) u v := by
  intro hreach
  have hμ : ∀ e ∈ es, JustByFrame b timed (if timed then isScheduled else isStable) f e →
      e.src.pos b.instrs.length < e.dst.pos b.instrs.length := by
    rintro e he ⟨hc, _⟩
    cases timed
    · have : e.label = .stable := by
        cases hl : e.label <;> simp_all [isStable]
      exact (hs.stableJust e he this).1
    · have : e.label = .scheduled := by
        cases hl : e.label <;> simp_all [isScheduled]
      exact (hs.schedJust e he this).1
  have weaken : ∀ x k, TouchesF b timed x f k → TouchesF b false x f k := by
    rintro x k ⟨ins, h1, h2, _⟩
    exact ⟨ins, h1, h2, by simp⟩
  rcases ReachVia.head hreach with h | ⟨e, he, hj, hsrc, hrest⟩
  · exact hne h
  · have hlt := hμ e he hj
    obtain ⟨_, k1, k2, ht1, ht2, hc⟩ := hj
    have hle : e.dst.pos b.instrs.length ≤ v.pos b.instrs.length := by
      rcases ReachVia.le _ hμ hrest with h | h
      · rw [h]; exact Nat.le_refl _
      · exact Nat.le_of_lt h
    rw [hsrc] at ht1 hlt
    have hk1 : k1 = .read := hbetween u k1 (weaken _ _ ht1) (Nat.le_refl _) (by omega)
    have hk2 : k2 = .read := hbetween e.dst k2 (weaken _ _ ht2) (by omega) hle
    subst hk1 hk2
    simp [Conflict, Kind.isWrite] at hc

/-! ### Queue level: the same `DependencyQueue` with block start as the initial user -/

/-- **C24, queue level (all use/block histories, any length).** With the block start as initial writer:
conflicting accesses are ordered by the induced edges, every access is ordered after the start, and no
queue ever loses its writer (so every `record` reports at least one dependency). -/
theorem C24_history (h : List Access) :
    h.Pairwise (fun a c => a.res = c.res → Conflict a.kind c.kind →
      Reach (historyEdges (QMap.empty Queue.frameInit) h) anyLabel a.node c.node) ∧
    (∀ a ∈ h, Reach (historyEdges (QMap.empty Queue.frameInit) h) anyLabel .start a.node) := by
  have := history_inv Queue.frameInit h (QMap.empty Queue.frameInit) [] []
    (QInv.empty _ rfl (by simp [Queue.frameInit, Kind.isWrite]) _)
  simp only [List.nil_append] at this
  exact ⟨this.pw, this.ini ⟨.write, .start⟩ rfl⟩

/-- **C24, queue level, exact (all use/block histories).** With `use ↦ write`, `block ↦ read`: at every step the
frame queue reports exactly the most recent earlier user of the frame — the block start if there is none —
plus, when the access is itself a use, every instruction that blocked the frame since that use. Blockers never
depend on blockers. -/
theorem C24_history_exact (h : List Access) :
    C23.AllExact Queue.frameInit [] h (runHistory (QMap.empty Queue.frameInit) h).2 :=
  C23.history_exact _ h _ [] (C23.Exact.empty _ rfl)

/-! ### The Bool checker -/

private theorem mem_accOf {b : Block} {t : Bool} {x : Node} {a : Nat × Kind} (h : a ∈ accOf b t x) :
    TouchesF b t x a.1 a.2 := by
  simp only [accOf, List.mem_flatMap] at h
  obtain ⟨p, hp, hin⟩ := h
  split at hin
  · rename_i hpx
    exact ⟨p.2, by rw [← hpx.1]; exact hp, hin, hpx.2⟩
  · simp at hin

private theorem orderedB_sound (fuel : Nat) (es : List Edge) : ∀ (items : List (Node × Instr)),
    orderedB fuel es items = true →
    items.Pairwise fun p q => ∀ f k1 k2, (f, k1) ∈ frameAcc p.2 → (f, k2) ∈ frameAcc q.2 →
      Conflict k1 k2 → Reach es isStable p.1 q.1 ∧
        (p.2.scheduled = true → q.2.scheduled = true → Reach es isScheduled p.1 q.1) := by
  intro items
  induction items with
  | nil => intro _; exact .nil
  | cons p rest ih =>
    intro h
    simp only [orderedB, Bool.and_eq_true, List.all_eq_true] at h
    refine List.pairwise_cons.2 ⟨?_, ih h.2⟩
    intro q hq f k1 k2 h1 h2 hc
    have := h.1 q hq (f, k1) h1 (f, k2) h2
    simp only [Bool.or_eq_true, Bool.not_eq_true', Bool.and_eq_false_iff, decide_eq_false_iff_not,
      not_true_eq_false, false_or, Bool.or_eq_false_iff, Bool.and_eq_true] at this
    rcases this with ⟨h3, h4⟩ | ⟨h3, h4⟩
    · rcases hc with hc | hc <;> simp_all
    · refine ⟨reachFrom_sound (by simpa using h3), fun hs1 hs2 => ?_⟩
      rcases h4 with h4 | h4
      · rcases h4 with h4 | h4 <;> simp_all
      · exact reachFrom_sound (by simpa using h4)

private theorem frameJustB_sound {b : Block} {t : Bool} {e : Edge} (h : frameJustB b t e = true) :
    FrameJust b t e := by
  simp only [frameJustB, List.any_eq_true, Bool.or_eq_true, decide_eq_true_eq, Bool.and_eq_true] at h
  obtain ⟨c, hc, h | ⟨a, ha, hac, hconf⟩⟩ := h
  · exact ⟨c.1, .write, c.2, .inl ⟨h, rfl⟩, mem_accOf hc, .inl rfl⟩
  · refine ⟨c.1, a.2, c.2, .inr ?_, mem_accOf hc, hconf⟩
    have := mem_accOf ha; rw [hac] at this; exact this

private theorem endJustB_sound {b : Block} {t : Bool} {e : Edge} (h : endJustB b t e = true) :
    EndJust b t e := by
  simp only [endJustB, Bool.and_eq_true, decide_eq_true_eq, Bool.or_eq_true, Bool.not_eq_true',
    List.isEmpty_eq_false_iff] at h
  refine ⟨h.1, h.2.imp id fun hne => ?_⟩
  obtain ⟨a, ha⟩ := List.exists_mem_of_ne_nil _ hne
  exact ⟨a.1, a.2, mem_accOf ha⟩

private theorem isClassicalB_sound {b : Block} {x : Node} (h : isClassicalB b x = true) : IsClassical b x := by
  simp only [isClassicalB, List.any_eq_true, Bool.and_eq_true, decide_eq_true_eq] at h
  obtain ⟨p, hp, h1, h2⟩ := h
  exact ⟨p.2, by rw [← h1]; exact hp, h2⟩

/-- `frameSpecB` is sound: when the executable checker accepts a graph, the graph satisfies `FrameSpec`. -/
theorem C24_checker_sound (b : Block) (es : List Edge) (h : frameSpecB b es = true) : FrameSpec b es := by
  simp only [frameSpecB, Bool.and_eq_true] at h
  obtain ⟨⟨h1, h2⟩, h3⟩ := h
  refine ⟨orderedB_sound _ _ _ h1, ?_, ?_, ?_⟩
  · intro p hp hne
    simp only [fromStartB, List.all_eq_true, Bool.or_eq_true, List.isEmpty_iff, Bool.and_eq_true,
      Bool.not_eq_true'] at h2
    rcases h2 p hp with h | ⟨h, h'⟩
    · exact absurd h hne
    · refine ⟨reachFrom_sound (by simpa using h), fun hs => ?_⟩
      rcases h' with h' | h'
      · rw [hs] at h'; cases h'
      · exact reachFrom_sound (by simpa using h')
  · intro e he hl
    simp only [edgesJustB, List.all_eq_true] at h3
    have := h3 e he
    rw [hl] at this
    simp only [Bool.and_eq_true, decide_eq_true_eq, Bool.or_eq_true] at this
    exact ⟨this.1, this.2.imp frameJustB_sound endJustB_sound⟩
  · intro e he hl
    simp only [edgesJustB, List.all_eq_true] at h3
    have := h3 e he
    rw [hl] at this
    simp only [Bool.and_eq_true, decide_eq_true_eq, Bool.or_eq_true] at this
    refine ⟨this.1, ?_⟩
    rcases this.2 with (h | h) | h
    · exact .inl (frameJustB_sound h)
    · exact .inr (.inl (endJustB_sound h))
    · right; right
      simp only [classicalJustB, Bool.or_eq_true, Bool.and_eq_true, decide_eq_true_eq,
        List.isEmpty_iff] at h
      rcases h with (⟨h1, h2⟩ | ⟨h1, h2⟩) | ⟨⟨h1, h2⟩, h3⟩
      · exact .inl ⟨h1, isClassicalB_sound h2⟩
      · exact .inr (.inl ⟨isClassicalB_sound h1, h2⟩)
      · exact .inr (.inr ⟨h1, h2, h3⟩)

theorem C24_hyp_checker (b : Block) (h : hypB b = true) : Hyp b := by
  simp only [hypB, Bool.and_eq_true, List.all_eq_true, decide_eq_true_eq] at h
  refine ⟨h.1, ?_⟩
  intro t ht
  have := h.2
  rw [ht] at this
  simpa using this

/-! ### Composition with C26: the frame clauses over the SPECIFICATION of which frames an instruction uses / blocks

`HandlerFromAst.answersOf` computes `matching_frames` from the shared full AST through C26's proved model;
`FrameAccessA p i f .write` / `.read` is C26's specification "`i` uses / blocks the defined frame `f`"
(`UsedBy` / `BlockedBy`, with the program's used qubits).  The hypothesis `Hyp` of `C24_build_frameSpec` is a
THEOREM here (`schedBlock_hyp`): used and blocked frames are disjoint sets of defined frames, the terminator is
a control-flow instruction. -/

open QV.HandlerFromAst in
/-- node `x` of the block is an instruction that (by C26's specification) interacts with frame `f` in way `k` -/
def ATouches (p : AProgram) (ab : ABlock) (timed : Bool) (x : Node) (f : C26.Frame) (k : Kind) : Prop :=
  ∃ i, (x, i) ∈ ab.items ∧ FrameAccessA p i f k ∧ (timed = true → HandlerFromAst.isScheduled i = true)

open QV.HandlerFromAst in
structure AstFrameSpec (p : AProgram) (ab : ABlock) (es : List Edge) : Prop where
  /-- instructions in block order of which one uses a frame the other uses or blocks (C26's specification) are
  ordered through `StableOrdering` edges, and through `Scheduled` edges when both are timed -/
  ordered : ab.items.Pairwise fun x y => ∀ f k1 k2, FrameAccessA p x.2 f k1 → FrameAccessA p y.2 f k2 →
    Conflict k1 k2 → Reach es isStable x.1 y.1 ∧
      (HandlerFromAst.isScheduled x.2 = true → HandlerFromAst.isScheduled y.2 = true →
        Reach es isScheduled x.1 y.1)
  fromStart : ∀ x ∈ ab.items, (∃ f k, FrameAccessA p x.2 f k) → Reach es isStable .start x.1 ∧
    (HandlerFromAst.isScheduled x.2 = true → Reach es isScheduled .start x.1)
  /-- every `Scheduled` edge goes forward and joins timed instructions conflicting on a frame, or a block boundary -/
  schedJust : ∀ e ∈ es, e.label = .scheduled →
    e.src.pos ab.instrs.length < e.dst.pos ab.instrs.length ∧
    ((∃ f k1 k2, ((e.src = .start ∧ k1 = .write) ∨ ATouches p ab true e.src f k1) ∧ ATouches p ab true e.dst f k2 ∧
        Conflict k1 k2) ∨
     (e.dst = .stop ∧ (e.src = .start ∨ ∃ f k, ATouches p ab true e.src f k)))
  /-- every `StableOrdering` edge goes forward and is frame-justified, a boundary edge, or a classical one -/
  stableJust : ∀ e ∈ es, e.label = .stable →
    e.src.pos ab.instrs.length < e.dst.pos ab.instrs.length ∧
    ((∃ f k1 k2, ((e.src = .start ∧ k1 = .write) ∨ ATouches p ab false e.src f k1) ∧ ATouches p ab false e.dst f k2 ∧
        Conflict k1 k2) ∨
     (e.dst = .stop ∧ (e.src = .start ∨ ∃ f k, ATouches p ab false e.src f k)) ∨
     ((e.src = .start ∧ ∃ i, (e.dst, i) ∈ ab.items ∧ HandlerFromAst.role i = .classical) ∨
      ((∃ i, (e.src, i) ∈ ab.items ∧ HandlerFromAst.role i = .classical) ∧ e.dst = .stop) ∨
      (e.src = .start ∧ e.dst = .stop ∧ ab.instrs = [])))

open QV.HandlerFromAst in
private theorem touches_ast {p : AProgram} {ab : ABlock} {t : Bool} {x : Node} {fid : Nat} {k : Kind}
    (h : TouchesF (schedBlock p ab) t x fid k) : ∃ f, fid = frameId p f ∧ ATouches p ab t x f k := by
  obtain ⟨ins, hi, hm, ht⟩ := h
  rw [schedBlock_items] at hi
  obtain ⟨y, hy, hye⟩ := List.mem_map.1 hi
  simp only [Prod.mk.injEq] at hye
  obtain ⟨hy1, rfl⟩ := hye
  obtain ⟨f, hf1, hf2⟩ := (mem_frameAccesses_answers p y.2 (fid, k)).1 hm
  exact ⟨f, hf1, y.2, by rw [← hy1]; exact hy, hf2, fun h => by simpa [answersOf, answersWith] using ht h⟩

open QV.HandlerFromAst in
private theorem frameAccessA_defined {p : AProgram} {i : Ast.Instruction} {f : C26.Frame} {k : Kind}
    (h : FrameAccessA p i f k) : f ∈ definedFrames p := by
  cases k
  · exact h.1
  · exact h.1
  · exact absurd h (by simp [FrameAccessA])

open QV.HandlerFromAst in
/-- **C24 ∘ C26 (every AST program, every block).** The frame clauses hold for the graph built from the default
handler's answers computed from the AST, with "uses / blocks frame f" meaning C26's specification — and without
any hypothesis about the handler. -/
theorem C24_ast_frameSpec (p : AProgram) (ab : ABlock) (hab : ab ∈ astBlocks p) (es : List Edge)
    (h : buildBlock (schedBlock p ab) = .ok es) : AstFrameSpec p ab es := by
  have hspec := C24_build_frameSpec _ es h (schedBlock_hyp p ab hab)
  have hlen : (schedBlock p ab).instrs.length = ab.instrs.length := by simp [schedBlock]
  have toF : ∀ (x : Node × Ast.Instruction) f k, FrameAccessA p x.2 f k →
      (frameId p f, k) ∈ frameAcc (answersOf p x.2) :=
    fun x f k hf => (mem_frameAccesses_answers p x.2 (frameId p f, k)).2 ⟨f, rfl, hf⟩
  have sameFrame : ∀ {x y : Node} {t : Bool} {f g : C26.Frame} {k1 k2 : Kind},
      ATouches p ab t x f k1 → ATouches p ab t y g k2 → frameId p f = frameId p g → f = g := by
    rintro x y t f g k1 k2 ⟨_, _, h1, _⟩ ⟨_, _, h2, _⟩ heq
    exact indexIn_inj _ f g (frameAccessA_defined h1) (frameAccessA_defined h2) heq
  have frameJust : ∀ t e, FrameJust (schedBlock p ab) t e →
      ∃ f k1 k2, ((e.src = .start ∧ k1 = .write) ∨ ATouches p ab t e.src f k1) ∧ ATouches p ab t e.dst f k2 ∧
        Conflict k1 k2 := by
    rintro t e ⟨fid, k1, k2, hsrc, hdst, hc⟩
    obtain ⟨g, hg1, hg2⟩ := touches_ast hdst
    rcases hsrc with hs | hs
    · exact ⟨g, k1, k2, .inl hs, hg2, hc⟩
    · obtain ⟨f, hf1, hf2⟩ := touches_ast hs
      have : f = g := sameFrame hf2 hg2 (by rw [← hf1, ← hg1])
      subst this
      exact ⟨f, k1, k2, .inr hf2, hg2, hc⟩
  have endJust : ∀ t e, EndJust (schedBlock p ab) t e →
      e.dst = .stop ∧ (e.src = .start ∨ ∃ f k, ATouches p ab t e.src f k) := by
    rintro t e ⟨h1, h2⟩
    refine ⟨h1, h2.imp id ?_⟩
    rintro ⟨fid, k, ht⟩
    obtain ⟨f, _, hf⟩ := touches_ast ht
    exact ⟨f, k, hf⟩
  have classical : ∀ x, IsClassical (schedBlock p ab) x → ∃ i, (x, i) ∈ ab.items ∧ role i = .classical := by
    rintro x ⟨ins, hi, hr⟩
    rw [schedBlock_items] at hi
    obtain ⟨y, hy, hye⟩ := List.mem_map.1 hi
    simp only [Prod.mk.injEq] at hye
    obtain ⟨hy1, rfl⟩ := hye
    exact ⟨y.2, by rw [← hy1]; exact hy, by simpa [answersOf, answersWith] using hr⟩
  refine ⟨?_, ?_, ?_, ?_⟩
  · have ho := hspec.ordered
    rw [schedBlock_items, List.pairwise_map] at ho
    refine ho.imp ?_
    intro x y hxy f k1 k2 h1 h2 hc
    have := hxy (frameId p f) k1 k2 (toF x f k1 h1) (toF y f k2 h2) hc
    exact ⟨this.1, fun s1 s2 => this.2 (by simpa [answersOf, answersWith] using s1) (by simpa [answersOf, answersWith] using s2)⟩
  · intro x hx ⟨f, k, hf⟩
    have hne : frameAcc (answersOf p x.2) ≠ [] := by
      intro hnil
      have := toF x f k hf
      rw [hnil] at this; simp at this
    have := hspec.fromStart (x.1, answersOf p x.2) (by
      rw [schedBlock_items]; exact List.mem_map.2 ⟨x, hx, rfl⟩) hne
    exact ⟨this.1, fun s => this.2 (by simpa [answersOf, answersWith] using s)⟩
  · intro e he hl
    obtain ⟨hpos, hj⟩ := hspec.schedJust e he hl
    rw [hlen] at hpos
    exact ⟨hpos, hj.imp (frameJust true e) (endJust true e)⟩
  · intro e he hl
    obtain ⟨hpos, hj⟩ := hspec.stableJust e he hl
    rw [hlen] at hpos
    refine ⟨hpos, ?_⟩
    rcases hj with hj | hj | hj
    · exact .inl (frameJust false e hj)
    · exact .inr (.inl (endJust false e hj))
    · right; right
      rcases hj with ⟨h1, h2⟩ | ⟨h1, h2⟩ | ⟨h1, h2, h3⟩
      · exact .inl ⟨h1, classical _ h2⟩
      · exact .inr (.inl ⟨classical _ h1, h2⟩)
      · exact .inr (.inr ⟨h1, h2, by simpa [schedBlock] using h3⟩)

/-! ### Non-vacuity -/

/-- frames 0,1: pulse on 0 blocking 1; nonblocking pulse on 1; an untimed RESET-like use of 0; a fence (uses
0 and 1); a classical instruction; HALT -/
private def exBlock : Block :=
  { instrs := [
      ⟨.rf, true, false, [], [], [], some ([0], [1])⟩,
      ⟨.rf, true, false, [], [], [], some ([1], [])⟩,
      ⟨.rf, false, false, [], [], [], some ([0], [])⟩,
      ⟨.rf, true, false, [], [], [], some ([0, 1], [])⟩,
      ⟨.classical, false, false, [], [], [], none⟩],
    term := some ⟨.controlFlow, false, false, [], [], [], none⟩ }

example : hypB exBlock = true := by decide

example : ∃ es, buildBlock exBlock = .ok es ∧ frameSpecB exBlock es = true ∧
    (⟨.instr 0, .instr 1, .scheduled⟩ : Edge) ∈ es ∧ (⟨.instr 2, .instr 3, .stable⟩ : Edge) ∈ es ∧
    (⟨.instr 2, .instr 3, .scheduled⟩ : Edge) ∉ es :=
  ⟨_, rfl, by decide, by decide, by decide, by decide⟩

/-- the checker rejects a graph from which the timed edge 0 → 1 (0 blocks frame 1, 1 uses it) was removed… -/
example : ∃ es, buildBlock exBlock = .ok es ∧
    frameSpecB exBlock (es.filter fun e => e ≠ ⟨.instr 0, .instr 1, .scheduled⟩) = false :=
  ⟨_, rfl, by decide⟩

/-- … and one with a timed edge out of the untimed instruction 2 -/
example : ∃ es, buildBlock exBlock = .ok es ∧
    frameSpecB exBlock (⟨.instr 2, .instr 3, .scheduled⟩ :: es) = false :=
  ⟨_, rfl, by decide⟩

end QV.C24
