import QV.Shared.Sched
/-
C24 — Frame conflicts are ordered and every frame edge is justified.

  "Take any two RF-control instructions in a block where one uses a frame that the other uses or blocks.
   The later one depends (transitively) on the earlier through ordering edges, and through timed edges when
   both are timed instructions. Every frame edge connects such a conflicting pair or the block boundaries,
   and instructions that only block the same frames are not ordered by it."

Written against the block (what each node uses / blocks, which nodes are timed) and an arbitrary edge list;
queues are not mentioned. `use ↦ Kind.write`, `block ↦ Kind.read`.
-/
namespace QV.C24
open QV.Sched

/-- the frame interactions of an instruction: `(f, write)` for every used frame, `(f, read)` for every
blocked one; nothing unless the instruction is RF-control with `matching_frames = Some(..)` -/
abbrev frameAcc (ins : Instr) : List (Nat × Kind) := frameAccesses ins

/-- node `x` of `b` interacts with frame `f` in way `k`; with `timed`, only if it is a timed instruction -/
def TouchesF (b : Block) (timed : Bool) (x : Node) (f : Nat) (k : Kind) : Prop :=
  ∃ ins, (x, ins) ∈ b.items ∧ (f, k) ∈ frameAcc ins ∧ (timed = true → ins.scheduled = true)

/-- an edge between a pair that conflicts on some frame; the block start counts as a user of every frame -/
def FrameJust (b : Block) (timed : Bool) (e : Edge) : Prop :=
  ∃ f k1 k2, ((e.src = .start ∧ k1 = .write) ∨ TouchesF b timed e.src f k1) ∧ TouchesF b timed e.dst f k2 ∧
    Conflict k1 k2

/-- an edge into the block end from the block start or from a node that interacts with some frame -/
def EndJust (b : Block) (timed : Bool) (e : Edge) : Prop :=
  e.dst = .stop ∧ (e.src = .start ∨ ∃ f k, TouchesF b timed e.src f k)

def IsClassical (b : Block) (x : Node) : Prop := ∃ ins, (x, ins) ∈ b.items ∧ ins.role = .classical

/-- the `StableOrdering` edges that classical instructions get: from the start, to the end; and the
start → end edge of an empty block -/
def ClassicalJust (b : Block) (e : Edge) : Prop :=
  (e.src = .start ∧ IsClassical b e.dst) ∨ (IsClassical b e.src ∧ e.dst = .stop) ∨
  (e.src = .start ∧ e.dst = .stop ∧ b.instrs = [])

structure FrameSpec (b : Block) (es : List Edge) : Prop where
  /-- (1) of two items in block order where one uses a frame that the other uses or blocks, the later is
  reachable from the earlier through `StableOrdering` edges, and through `Scheduled` edges if both are timed -/
  ordered : b.items.Pairwise fun p q => ∀ f k1 k2, (f, k1) ∈ frameAcc p.2 → (f, k2) ∈ frameAcc q.2 →
    Conflict k1 k2 → Reach es isStable p.1 q.1 ∧
      (p.2.scheduled = true → q.2.scheduled = true → Reach es isScheduled p.1 q.1)
  /-- every node that interacts with a frame is ordered after the block start -/
  fromStart : ∀ p ∈ b.items, frameAcc p.2 ≠ [] → Reach es isStable .start p.1 ∧
    (p.2.scheduled = true → Reach es isScheduled .start p.1)
  /-- (2) every `Scheduled` edge goes forward and joins timed instructions conflicting on a frame, or the
  block boundaries -/
  schedJust : ∀ e ∈ es, e.label = .scheduled →
    e.src.pos b.instrs.length < e.dst.pos b.instrs.length ∧ (FrameJust b true e ∨ EndJust b true e)
  /-- (2') every `StableOrdering` edge goes forward and joins RF instructions conflicting on a frame, or the
  block boundaries, or is one of the edges classical instructions get -/
  stableJust : ∀ e ∈ es, e.label = .stable →
    e.src.pos b.instrs.length < e.dst.pos b.instrs.length ∧
    (FrameJust b false e ∨ EndJust b false e ∨ ClassicalJust b e)

/-- the edges with label class `C` that frame `f` justifies -/
def JustByFrame (b : Block) (timed : Bool) (C : Label → Bool) (f : Nat) (e : Edge) : Prop :=
  C e.label = true ∧ ∃ k1 k2, TouchesF b timed e.src f k1 ∧ TouchesF b timed e.dst f k2 ∧ Conflict k1 k2

inductive ReachVia (E : List Edge) (P : Edge → Prop) : Node → Node → Prop where
  | refl (u : Node) : ReachVia E P u u
  | step {u : Node} {e : Edge} : ReachVia E P u e.src → e ∈ E → P e → ReachVia E P u e.dst

/-! Bool checker -/

def accOf (b : Block) (timed : Bool) (x : Node) : List (Nat × Kind) :=
  b.items.flatMap fun p => if p.1 = x ∧ (timed = true → p.2.scheduled = true) then frameAcc p.2 else []

def orderedB (fuel : Nat) (es : List Edge) : List (Node × Instr) → Bool
  | [] => true
  | p :: rest =>
    let stableFrom := reachFrom es isStable p.1
    let timedFrom := reachFrom es isScheduled p.1
    (rest.all fun q => (frameAcc p.2).all fun a => (frameAcc q.2).all fun c =>
      !(a.1 = c.1 && (a.2.isWrite || c.2.isWrite)) ||
      (stableFrom.contains q.1 &&
        (!(p.2.scheduled && q.2.scheduled) || timedFrom.contains q.1)))
    && orderedB fuel es rest

def fromStartB (_fuel : Nat) (b : Block) (es : List Edge) : Bool :=
  let stableFrom := reachFrom es isStable .start
  let timedFrom := reachFrom es isScheduled .start
  b.items.all fun p => (frameAcc p.2).isEmpty ||
    (stableFrom.contains p.1 && (!p.2.scheduled || timedFrom.contains p.1))

def frameJustB (b : Block) (timed : Bool) (e : Edge) : Bool :=
  (accOf b timed e.dst).any fun c =>
    (decide (e.src = .start) || (accOf b timed e.src).any fun a => a.1 = c.1 && (a.2.isWrite || c.2.isWrite))
    -- start is a writer: conflict holds whatever `c` is

def endJustB (b : Block) (timed : Bool) (e : Edge) : Bool :=
  decide (e.dst = .stop) && (decide (e.src = .start) || !(accOf b timed e.src).isEmpty)

def isClassicalB (b : Block) (x : Node) : Bool :=
  b.items.any fun p => p.1 = x && p.2.role = .classical

def classicalJustB (b : Block) (e : Edge) : Bool :=
  (decide (e.src = .start) && isClassicalB b e.dst) || (isClassicalB b e.src && decide (e.dst = .stop)) ||
  (decide (e.src = .start) && decide (e.dst = .stop) && b.instrs.isEmpty)

def edgesJustB (b : Block) (es : List Edge) : Bool :=
  es.all fun e =>
    match e.label with
    | .scheduled => decide (e.src.pos b.instrs.length < e.dst.pos b.instrs.length) &&
        (frameJustB b true e || endJustB b true e)
    | .stable => decide (e.src.pos b.instrs.length < e.dst.pos b.instrs.length) &&
        (frameJustB b false e || endJustB b false e || classicalJustB b e)
    | .await _ => true

def frameSpecB (b : Block) (es : List Edge) : Bool :=
  orderedB (b.instrs.length + 2) es b.items && fromStartB (b.instrs.length + 2) b es && edgesJustB b es

/-- hypotheses of the theorem, measured on every case: used/blocked frames of one instruction are pairwise
distinct; the terminator's role is control flow -/
def hypB (b : Block) : Bool :=
  (b.items.all fun p => decide (((frameAcc p.2).map (·.1)).Nodup)) &&
  (match b.term with | some t => t.role = .controlFlow | none => true)

end QV.C24
