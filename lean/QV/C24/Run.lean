import QV.Wire
import QV.Shared.SchedWire
import QV.Shared.HandlerWire
import QV.C24.Spec
/-! Driver side of the C24 correspondence check. -/
namespace QV.C24
open QV QV.Sched QV.Sched.Wire

def histN : Nat := 1000

/-- `(node frame u|b)`: use ↦ write, block ↦ read -/
def decAccess : Sexp → Option Access
  | .list [n, r, k] => do
    let n ← n.asNat?
    let r ← r.asNat?
    let k ← match k with
      | .atom "u" => some Kind.write
      | .atom "b" => some Kind.read
      | _ => none
    pure ⟨decNode histN n, r, k⟩
  | _ => none

def natLe (a b : Nat) : Bool := a ≤ b

/-- frame dependencies are bare nodes (dependency_queue.rs:142) -/
def encNodes (ds : List Dep) : Sexp :=
  .list ((((ds.map fun d => encNode histN d.node).mergeSort natLe).eraseDups).map fun c => .atom (toString c))

def modelHistory (h : List Access) : Sexp :=
  let r := runHistory (QMap.empty Queue.frameInit) h
  let keys := r.1.keys.mergeSort natLe
  .list [.list (.atom "deps" :: r.2.map encNodes),
         .list (.atom "pending" :: keys.map fun k => .list [.atom (toString k), encNodes (r.1.get k).pending])]

/-- spec on the implementation's per-step dependencies: (1) conflicting accesses ordered by the induced
edges, everything after start; (2) every dependency is start or an earlier access to the same frame, and
one of the two is a use -/
def histSpec (h : List Access) (dss : List (List Nat)) : Bool :=
  let es : List Edge := (h.zip dss).flatMap fun (a, ds) =>
    (ds.filter fun c => decNode histN c ≠ a.node).map fun c => ⟨decNode histN c, a.node, .stable⟩
  let fuel := h.length + 2
  let ordered := h.zipIdx.all fun (a, i) => (h.drop (i + 1)).all fun c =>
    !(a.res = c.res && (a.kind.isWrite || c.kind.isWrite)) || (reachFrom es anyLabel a.node).contains c.node
  let fromStart := h.all fun a => (reachFrom es anyLabel .start).contains a.node
  let justified := (h.zip dss).zipIdx.all fun ((a, ds), i) => ds.all fun c =>
    c == 0 || (h.take i).any fun p => encNode histN p.node == c && p.res == a.res &&
      (p.kind.isWrite || a.kind.isWrite)
  ordered && fromStart && justified && dss.length == h.length

def conflictingPair : List (Node × Instr) → Bool
  | [] => false
  | p :: rest =>
    (rest.any fun q => (frameAcc p.2).any fun a => (frameAcc q.2).any fun c =>
      a.1 = c.1 && (a.2.isWrite || c.2.isWrite)) || conflictingPair rest

def tagsOf (b : Block) (es : List Edge) : List String :=
  (if hypB b then [] else ["hyp-violated"]) ++
  (if b.instrs.any (fun i => i.role == .rf && i.frames.isNone) then ["rf-noframes"] else []) ++
  (if b.instrs.any (fun i => i.role == .rf && !i.scheduled && !(frameAcc i).isEmpty) then ["untimed-rf"] else []) ++
  (if b.instrs.any (fun i => (frameAcc i).any (·.2 == .read)) then ["blocking"] else []) ++
  (if b.instrs.any (fun i => (frameAcc i).length ≥ 3) then ["multiframe"] else []) ++
  (if es.any (fun e => e.label == .scheduled) then ["edge-S"] else []) ++
  (if es.any (fun e => e.label == .stable && e.src != .start && e.dst != .stop) then ["edge-O-inner"] else [])

def handleProgram (stream : String) (p out : Sexp) : CaseResult :=
  handleProgramWith stream p out (fun b _ es => !hypB b || frameSpecB b es)
    (fun b => conflictingPair b.items) tagsOf

def handle (inp out : Sexp) : CaseResult :=
  match inp with
  | .list [.atom "corpus", p] => handleProgram "corpus" p out
  | .list [.atom "table", p] => handleProgram "table" p out
  | .list [.atom "random", p] => handleProgram "random" p out
  | .list [.atom "ast", instrs, sigs, real] =>
    -- no `hypB` escape here: for answers computed from the AST the hypothesis is a theorem (`C24_ast_hyp`)
    HandlerWire.handleAst instrs sigs real out (fun _ _ b _ es => hypB b && frameSpecB b es)
      (fun b => conflictingPair b.items) tagsOf
  | .list (.atom "fq" :: xs) =>
    match xs.mapM decAccess with
    | none => .bad s!"undecodable history {inp}"
    | some h =>
      let mOut := modelHistory h
      let specOk := match out with
        | .list [.list (.atom "deps" :: steps), _] =>
          match steps.mapM decNats with
          | some dss => histSpec h dss
          | none => false
        | _ => false
      let shared := (h.map (·.node)).eraseDups.length < h.length
      let conflict := h.zipIdx.any fun (a, i) => (h.drop (i + 1)).any fun c =>
        a.res = c.res && (a.kind.isWrite || c.kind.isWrite)
      { agree := mOut == out, specOk, nontrivial := conflict,
        tags := ["fq", s!"hlen{h.length}"] ++ (if shared then ["shared-node"] else []),
        detail := s!"model={mOut} impl={out}" }
  | _ => .bad s!"undecodable input {inp}"

end QV.C24

def main : IO UInt32 := QV.runMain QV.C24.handle
