import QV.C17.Drv
/-! Driver side of the C17 correspondence check (oracles and encoders: `QV/C17/Drv.lean`). -/
namespace QV.C17.Drv
open QV QV.Ast QV.AstWire QV.C17

/-! ### the case handler -/

/-- the body of an implementation result listing = what follows the definitions (definitions are never
left in the body when hoisting works; `hoistedB` checks exactly that on the split below) -/
def splitDefs (is : List Instruction) : List Instruction × List Instruction :=
  (is.takeWhile isDefinition, is.dropWhile isDefinition)

def handleProg (is : List Instruction) (out : Sexp) : CaseResult :=
  let p := Prog.fromInstructions is
  let mOut := modelProg env codeSubst is
  let agree := mOut == out
  let liteDiffers := modelProg envLite codeSubst is != mOut
  let covered := coveredB p.cals
  -- outside the domain of the faithful-substitution theorems: some calibration body holds a nested definition
  -- that is not admitted (`nestedOkB`: its unvisited positions mention the enclosing calibration's variables)
  let nestedExcluded := nestedExcludedB p.cals
  let maxDepth := (p.instructions.map (depthOf env p.cals 6 [])).foldl max 0
  -- the specification evaluated on the implementation's output
  let specTags : List String × Bool × Bool :=
    match out with
    | .list [.atom "out", r, m, again] =>
      -- "gives the same program with or without a source map"
      let sameMap : Bool := match r, m with
        | .list [.atom "ok", a], .list [.atom "ok", b, _] => a == b
        | .list [.atom "recursive", a], .list [.atom "recursive", b] => a == b
        | _, _ => false
      match r with
      | .list [.atom "ok", listing] =>
        match decodeInstructionList listing with
        | none => (["undecodable-output"], false, false)
        | some res =>
          let (defs, body) := splitDefs res
          -- "hoists declarations out of the body"
          let hoisted := hoistedB body
          -- "repeats until no body instruction has a match"
          let fix := fixpointB env p.cals res
          -- "keeps unmatched instructions in order"
          let kept := subseqB keyText (p.instructions.filter (noMatchB env p.cals)) body
          -- the whole statement: the result is the one the specification's substitution gives
          let sOut := match expandCalibrationsWith env specSubst p FUEL false with
            | .ok q => .list [.atom "ok", encodeInstructionList q.1.toInstructions]
            | .recursiveCalibration i => .list [.atom "recursive", encodeInstruction i]
            | .outOfFuel => .list [.atom "out-of-fuel"]
          let faithful := sOut == r
          -- every declaration the expansion produced is a memory region of the result
          let declsIn := match expandCalibrationsWith env specSubst p FUEL false with
            | .ok q => q.1.memoryRegions.all (fun kv => defs.any (fun d => keyText d == keyText kv.2))
            | _ => true
          -- known finding: the implementation does exactly what the mirroring model does, every other clause
          -- holds, and some measurement calibration uses its formal target in a position the code's
          -- measurement arm does not rewrite
          let formalElsewhere := p.cals.mcals.any (fun c =>
            c.instructions.any (fun i => !formalCoveredB c.identifier.target i))
          -- a fixpoint is not changed by a second expansion (unless the expansion itself hoisted new calibrations)
          let newCals := defs.filter (fun d => match d with
            | .calibrationDefinition _ _ | .measureCalibrationDefinition _ _ => true | _ => false)
          let idem := again == .atom "same" || newCals.length != p.cals.cals.length + p.cals.mcals.length
          let kf := !faithful && agree && formalElsewhere && sameMap && hoisted && fix && kept && declsIn && idem
          -- the reference expansion makes no claim outside the theorems' domain (the implementation must still
          -- be what the mirroring model says, and every other clause must hold)
          let excused := !faithful && agree && nestedExcluded && !formalElsewhere
          ((if sameMap then [] else ["FAIL-with-map-differs"]) ++
           (if hoisted then [] else ["FAIL-definition-left-in-body"]) ++
           (if fix then [] else ["FAIL-not-a-fixpoint"]) ++
           (if kept then [] else ["FAIL-unmatched-not-kept"]) ++
           (if declsIn then [] else ["FAIL-declaration-not-hoisted"]) ++
           (if idem then [] else ["FAIL-second-expansion-differs"]) ++
           (if faithful || excused then [] else ["FAIL-not-the-specified-substitution"]) ++
           (if excused then ["excluded-nested-definition"] else []) ++
           (if kf then ["kf:C17/formal-target-in-other-instructions"] else []) ++
           (if defs.length > p.definitions.length then ["hoisted-new-definition"] else []) ++
           outKindTags { instructions := body },
           sameMap && hoisted && fix && kept && declsIn && idem && (faithful || excused), true)
      | .list [.atom "recursive", _] => (["recursive"], sameMap, true)
      | _ => (["impl-error"], false, true)
    | _ => (["undecodable-output"], false, false)
  { agree := agree, specOk := specTags.2.1,
    nontrivial := maxDepth ≥ 1,
    tags := ["prog", s!"depth{min maxDepth 5}"] ++ calTags p ++ specTags.1 ++
      (if covered then ["covered"] else ["uncovered"]) ++
      (if liteDiffers then ["simp-lite-differs"] else []),
    detail := s!"model={mOut} impl={out}" }

def handleExpand (is : List Instruction) (i : Instruction) (prev : List Instruction) (out : Sexp) :
    CaseResult :=
  let p := Prog.fromInstructions is
  let mOut := modelExpand env codeSubst is i prev
  let agree := mOut == out
  -- spec on the implementation's answer: with and without detail the same; an expansion is a fixpoint and is
  -- the one the specification's substitution gives; `none` means nothing matches
  let sOut := modelExpand env specSubst is i prev
  let faithful := sOut == out
  let basic := match out with
    | .list [.atom "ok", .list [.atom "none"], .atom "same"] => noMatchB env p.cals i
    | .list [.atom "ok", .list [.atom "some", l], .atom "same"] =>
      match decodeInstructionList l with
      | some res => fixpointB env p.cals res && !noMatchB env p.cals i
      | none => false
    | .list [.atom "recursive", _, .atom "same"] => true
    | _ => false
  let formalElsewhere := p.cals.mcals.any (fun c =>
    c.instructions.any (fun i => !formalCoveredB c.identifier.target i))
  let kf := basic && !faithful && agree && formalElsewhere
  let nestedExcluded := nestedExcludedB p.cals
  let excused := basic && !faithful && agree && nestedExcluded && !formalElsewhere
  let kindTag := match out with
    | .list [.atom "ok", .list [.atom "none"], _] => "expand-none"
    | .list [.atom "ok", _, _] => "expand-some"
    | .list [.atom "recursive", _, _] => "expand-recursive"
    | _ => "expand-error"
  { agree := agree, specOk := basic && (faithful || excused), nontrivial := !noMatchB env p.cals i,
    tags := ["expand", kindTag, s!"prev{min prev.length 3}"] ++
      (if (prev.map keyText).contains (keyText i) then ["in-breadcrumbs"] else []) ++
      (if basic then [] else ["FAIL-expand-basic"]) ++
      (if faithful || excused then [] else ["FAIL-not-the-specified-substitution"]) ++
      (if excused then ["excluded-nested-definition"] else []) ++
      (if kf then ["kf:C17/formal-target-in-other-instructions"] else []),
    detail := s!"model={mOut} impl={out}" }

def handle (inp out : Sexp) : CaseResult :=
  match inp with
  | .list [.atom "prog", l] =>
    match decodeInstructionList l with
    | some is => handleProg is out
    | none => .bad s!"undecodable program {l}"
  | .list [.atom "expand", l, i, prev] =>
    match decodeInstructionList l, decodeInstruction i, decodeInstructionList prev with
    | some is, some i, some prev => handleExpand is i prev out
    | _, _, _ => .bad s!"undecodable expand case {inp}"
  | _ => .bad s!"undecodable input {inp}"

end QV.C17.Drv

def main : IO UInt32 := QV.runMain QV.C17.Drv.handle
