import QV.Wire
import QV.Shared.AstWire
import QV.Shared.CFloat
import QV.C12.Model
import QV.C17.Model
import QV.C17.Spec
/-!
Driver side of the C17 correspondence check (also used by C18's driver: `QV.C17.Drv`).

The model's two oracles are instantiated here:
* `simp` := C12's model of `Expression::into_simplified` (`QV.C12.simplifyTop`, run on `CFloat`), followed by
  the canonical representative of the `Expression::eq` class of every number (`-0.0 ↦ +0.0`, NaN ↦ one NaN);
  `simpLite` (constant folding of closed real arithmetic, nothing else) is a self-contained fallback that is
  always compiled and run alongside: cases where the two oracles make the model answer differently are
  tagged `simp-lite-differs`.  If `QV.C12.Model` ever stops building, replace `simpC12` by `simpLite` in
  `env` and drop the import: the C17/C18 generators stay inside the fragment where both agree.
* `key` := the text of the shared wire encoding of the instruction.
-/
namespace QV.C17.Drv
open QV QV.Ast QV.AstWire QV.C17

/-! ### the simplifier oracle -/

def toCF (z : CBits) : CFloat := (Float.ofBits z.re.toUInt64, Float.ofBits z.im.toUInt64)

def canonBits (x : Float) : Nat :=
  if x.isNaN then 0x7FF8000000000000 else if x == 0.0 then 0 else x.toBits.toNat

def ofCF (z : CFloat) : CBits := ⟨canonBits z.1, canonBits z.2⟩

/-- C12's model of `into_simplified`, numbers canonicalised -/
def simpC12 (e : PExpr) : PExpr :=
  (QV.C12.simplifyTop ([] : List CFloat) (e.mapNum toCF)).mapNum ofCF

/-- value of a closed expression built from real literals, `pi`, `+ - * /` and prefix signs -/
def evalLite : PExpr → Option Float
  | .number z => if z.im == 0 then some (Float.ofBits z.re.toUInt64) else none
  | .pi => some CFloat.piF
  | .pre .plus e => evalLite e
  | .pre .minus e => (evalLite e).map (fun v => 0.0 - v)
  | .bin l op r =>
    match evalLite l, evalLite r with
    | some a, some b =>
      match op with
      | .plus => some (a + b)
      | .minus => some (a - b)
      | .star => some (a * b)
      | .slash => some (a / b)
      | .caret => none
    | _, _ => none
  | _ => none

/-- fallback oracle: fold closed real arithmetic, leave everything else as written -/
def simpLite (e : PExpr) : PExpr :=
  match evalLite e with
  | some v => .number ⟨canonBits v, 0⟩
  | none => e.mapNum (fun z => ofCF (toCF z))

def keyText (i : Instruction) : String := toString (encodeInstruction i)

def env : Env String := { simp := simpC12, key := keyText }
def envLite : Env String := { simp := simpLite, key := keyText }

/-- fuel of the drivers: far above the depth any generated finite case reaches -/
def FUEL : Nat := 10000

/-! ### encoding of the model's results -/

def encErr {α : Type} (f : α → Sexp) : Outcome α → Sexp
  | .ok a => f a
  | .recursiveCalibration i => .list [.atom "recursive", encodeInstruction i]
  | .outOfFuel => .list [.atom "out-of-fuel"]

def encLoc : Loc → Sexp
  | .unmodified t => .list [.atom "u", encodeNat t]
  | .rewritten a b => .list [.atom "r", encodeNat a, encodeNat b]

def encEntry (e : Entry) : Sexp := .list [encodeNat e.source, encLoc e.target]

def modelProg (E : Env String) (S : Subst) (is : List Instruction) : Sexp :=
  let p := Prog.fromInstructions is
  let r := match expandCalibrationsWith E S p FUEL false with
    | .ok r => .list [.atom "ok", encodeInstructionList r.1.toInstructions]
    | .recursiveCalibration i => .list [.atom "recursive", encodeInstruction i]
    | .outOfFuel => .list [.atom "out-of-fuel"]
  let m := match expandCalibrationsWith E S p FUEL true with
    | .ok r => .list [.atom "ok", encodeInstructionList r.1.toInstructions,
        .list ((r.2.getD []).map encEntry)]
    | .recursiveCalibration i => .list [.atom "recursive", encodeInstruction i]
    | .outOfFuel => .list [.atom "out-of-fuel"]
  .list [.atom "out", r, m]

def modelExpand (E : Env String) (is : List Instruction) (i : Instruction) (prev : List Instruction) : Sexp :=
  let p := Prog.fromInstructions is
  match expandInner E p.cals FUEL prev i with
  | .ok none => .list [.atom "ok", .list [.atom "none"]]
  | .ok (some out) => .list [.atom "ok", .list [.atom "some", encodeInstructionList out]]
  | .recursiveCalibration j => .list [.atom "recursive", encodeInstruction j]
  | .outOfFuel => .list [.atom "out-of-fuel"]

/-! ### tags -/

def calTags (p : Prog) : List String :=
  let cs := p.cals.cals
  let ms := p.cals.mcals
  (if cs.any (fun c => c.identifier.parameters.any (fun e => match e with | .var _ => true | _ => false))
    then ["cal-param-var"] else []) ++
  (if cs.any (fun c => c.identifier.qubits.any (fun q => match q with | .variable _ => true | _ => false))
    then ["cal-qubit-var"] else []) ++
  (if cs.any (fun c => c.instructions.any isDefinition) || ms.any (fun c => c.instructions.any isDefinition)
    then ["cal-with-definition"] else []) ++
  (if ms.any (fun c => match c.identifier.qubit with | .variable _ => true | _ => false)
    then ["mcal-qubit-var"] else []) ++
  (if ms.any (fun c => c.identifier.target.isSome) then ["mcal-target"] else []) ++
  [s!"ncal{min cs.length 4}", s!"nmcal{min ms.length 3}", s!"nbody{min p.instructions.length 5}"]

/-- depth of the expansion of one instruction (0 = no match), by the model; a revisit on the current path
(the recursion error) is not followed -/
def depthOf (E : Env String) (cals : Cals) : Nat → List String → Instruction → Nat
  | 0, _, _ => 0
  | fuel + 1, path, i =>
    if path.contains (keyText i) then 0
    else match oneStep E codeSubst cals i with
      | none => 0
      | some (body, _) => 1 + (body.map (depthOf E cals fuel (keyText i :: path))).foldl max 0

def outKindTags (p : Prog) : List String :=
  let kinds := p.instructions.map Instruction.variantName
  (["Gate", "Measurement", "Capture", "RawCapture", "Pulse", "Fence", "Delay", "Reset", "SwapPhases",
    "ShiftPhase", "SetFrequency", "Pragma"].filter (fun k => kinds.contains k)).map (fun k => "out-" ++ k)

/-! ### the case handler -/

/-- the body of an implementation result listing = what follows the definitions (definitions are never
left in the body when hoisting works; `hoistedB` checks exactly that on the split below) -/
def splitDefs (is : List Instruction) : List Instruction × List Instruction :=
  (is.takeWhile isDefinition, is.dropWhile isDefinition)

def handleProg (is : List Instruction) (out : Sexp) : CaseResult :=
  let p := Prog.fromInstructions is
  let mOut := modelProg env codeSubst is
  let agree := mOut == out
  let liteDiffers := modelProg envLite codeSubst is != mOut
  let covered := coveredB p.cals
  let maxDepth := (p.instructions.map (depthOf env p.cals 6 [])).foldl max 0
  -- the specification evaluated on the implementation's output
  let specTags : List String × Bool × Bool :=
    match out with
    | .list [.atom "out", r, m] =>
      -- "gives the same program with or without a source map"
      let sameMap : Bool := match r, m with
        | .list [.atom "ok", a], .list [.atom "ok", b, _] => a == b
        | .list [.atom "recursive", a], .list [.atom "recursive", b] => a == b
        | _, _ => false
      match r with
      | .list [.atom "ok", listing] =>
        match decodeInstructionList listing with
        | none => (["undecodable-output"], false, false)
        | some res =>
          let (defs, body) := splitDefs res
          -- "hoists declarations out of the body"
          let hoisted := hoistedB body
          -- "repeats until no body instruction has a match"
          let fix := fixpointB env p.cals res
          -- "keeps unmatched instructions in order"
          let kept := subseqB keyText (p.instructions.filter (noMatchB env p.cals)) body
          -- the whole statement: the result is the one the specification's substitution gives
          let sOut := match expandCalibrationsWith env specSubst p FUEL false with
            | .ok q => .list [.atom "ok", encodeInstructionList q.1.toInstructions]
            | .recursiveCalibration i => .list [.atom "recursive", encodeInstruction i]
            | .outOfFuel => .list [.atom "out-of-fuel"]
          let faithful := sOut == r
          -- every declaration the expansion produced is a memory region of the result
          let declsIn := match expandCalibrationsWith env specSubst p FUEL false with
            | .ok q => q.1.memoryRegions.all (fun kv => defs.any (fun d => keyText d == keyText kv.2))
            | _ => true
          -- known finding: the implementation does exactly what the mirroring model does, every other clause
          -- holds, and some measurement calibration uses its formal target in a position the code's
          -- measurement arm does not rewrite
          let formalElsewhere := p.cals.mcals.any (fun c =>
            c.instructions.any (fun i => !formalCoveredB c.identifier.target i))
          let kf := !faithful && agree && formalElsewhere && sameMap && hoisted && fix && kept && declsIn
          ((if sameMap then [] else ["FAIL-with-map-differs"]) ++
           (if hoisted then [] else ["FAIL-definition-left-in-body"]) ++
           (if fix then [] else ["FAIL-not-a-fixpoint"]) ++
           (if kept then [] else ["FAIL-unmatched-not-kept"]) ++
           (if declsIn then [] else ["FAIL-declaration-not-hoisted"]) ++
           (if faithful then [] else ["FAIL-not-the-specified-substitution"]) ++
           (if kf then ["kf:C17/formal-target-in-other-instructions"] else []) ++
           (if defs.length > p.definitions.length then ["hoisted-new-definition"] else []) ++
           outKindTags { instructions := body },
           sameMap && hoisted && fix && kept && declsIn && faithful, true)
      | .list [.atom "recursive", _] => (["recursive"], sameMap, true)
      | _ => (["impl-error"], false, true)
    | _ => (["undecodable-output"], false, false)
  { agree := agree, specOk := specTags.2.1,
    nontrivial := maxDepth ≥ 1,
    tags := ["prog", s!"depth{min maxDepth 5}"] ++ calTags p ++ specTags.1 ++
      (if covered then ["covered"] else ["uncovered"]) ++
      (if liteDiffers then ["simp-lite-differs"] else []),
    detail := s!"model={mOut} impl={out}" }

def handleExpand (is : List Instruction) (i : Instruction) (prev : List Instruction) (out : Sexp) :
    CaseResult :=
  let p := Prog.fromInstructions is
  let mOut := modelExpand env is i prev
  -- spec on the implementation's answer: an expansion is a fixpoint; `none` means nothing matches
  let specOk := match out with
    | .list [.atom "ok", .list [.atom "none"]] => noMatchB env p.cals i
    | .list [.atom "ok", .list [.atom "some", l]] =>
      match decodeInstructionList l with
      | some res => fixpointB env p.cals res && !noMatchB env p.cals i
      | none => false
    | .list [.atom "recursive", _] => true
    | _ => false
  let kindTag := match out with
    | .list [.atom "ok", .list [.atom "none"]] => "expand-none"
    | .list [.atom "ok", _] => "expand-some"
    | .list [.atom "recursive", _] => "expand-recursive"
    | _ => "expand-error"
  { agree := mOut == out, specOk := specOk, nontrivial := !noMatchB env p.cals i,
    tags := ["expand", kindTag, s!"prev{min prev.length 3}"] ++
      (if (prev.map keyText).contains (keyText i) then ["in-breadcrumbs"] else []),
    detail := s!"model={mOut} impl={out}" }

def handle (inp out : Sexp) : CaseResult :=
  match inp with
  | .list [.atom "prog", l] =>
    match decodeInstructionList l with
    | some is => handleProg is out
    | none => .bad s!"undecodable program {l}"
  | .list [.atom "expand", l, i, prev] =>
    match decodeInstructionList l, decodeInstruction i, decodeInstructionList prev with
    | some is, some i, some prev => handleExpand is i prev out
    | _, _, _ => .bad s!"undecodable expand case {inp}"
  | _ => .bad s!"undecodable input {inp}"

end QV.C17.Drv

def main : IO UInt32 := QV.runMain QV.C17.Drv.handle
