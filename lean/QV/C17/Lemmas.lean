import QV.C17.Spec
import QV.C16.Props
/-! Helper lemmas for C17 / C18 (core Lean only). -/
namespace QV.C17
open QV QV.Ast

/-! ### lookup: from C16's theorems to the projection -/

section
variable {κ : Type} (E : Env κ)

theorem toCals16_length (cs : List CalDef) (g : Gate) : (toCals16 E cs g).length = cs.length := by
  simp [toCals16]

theorem toMCals16_length (cs : List MCalDef) : (toMCals16 cs).length = cs.length := by
  simp [toMCals16]

theorem getMatchForGate_some {cs : List CalDef} {g : Gate} {c : CalDef}
    (h : getMatchForGate E cs g = some c) : GateWinner E cs g c := by
  unfold getMatchForGate at h
  have hs := C16.getMatchForGate_spec (toCals16 E cs g) (toGate16 E (paramUniverse E cs g) g)
  split at h
  · rename_i i hi
    rw [hi] at hs
    exact ⟨i, hs, h⟩
  · cases h

theorem getMatchForGate_none {cs : List CalDef} {g : Gate}
    (h : getMatchForGate E cs g = none) :
    ∀ d ∈ toCals16 E cs g, ¬ C16.GateMatches d (toGate16 E (paramUniverse E cs g) g) := by
  unfold getMatchForGate at h
  split at h
  · rename_i i hi
    have hs := C16.getMatchForGate_spec (toCals16 E cs g) (toGate16 E (paramUniverse E cs g) g)
    rw [hi] at hs
    obtain ⟨c16, hc, _, _⟩ := hs
    have hlt : i < cs.length := by
      have := (List.getElem?_eq_some_iff.mp hc).1
      rwa [toCals16_length] at this
    rw [List.getElem?_eq_getElem hlt] at h
    cases h
  · rename_i hn
    exact (C16.getMatchForGate_none_iff _ _).mp hn

theorem getMatchForMeasurement_some {cs : List MCalDef} {m : Measurement} {c : MCalDef}
    (h : getMatchForMeasurement cs m = some c) : MeasWinner cs m c := by
  unfold getMatchForMeasurement at h
  have hs := C16.getMatchForMeasurement_spec (toMCals16 cs) (toMeas16 m)
  split at h
  · rename_i i hi
    rw [hi] at hs
    exact ⟨i, hs, h⟩
  · cases h

theorem getMatchForMeasurement_none {cs : List MCalDef} {m : Measurement}
    (h : getMatchForMeasurement cs m = none) :
    ∀ d ∈ toMCals16 cs, ¬ C16.MeasMatches d (toMeas16 m) := by
  unfold getMatchForMeasurement at h
  split at h
  · rename_i i hi
    have hs := C16.getMatchForMeasurement_spec (toMCals16 cs) (toMeas16 m)
    rw [hi] at hs
    obtain ⟨c16, hc, _, _⟩ := hs
    have hlt : i < cs.length := by
      have := (List.getElem?_eq_some_iff.mp hc).1
      rwa [toMCals16_length] at this
    rw [List.getElem?_eq_getElem hlt] at h
    cases h
  · rename_i hn
    exact (C16.getMatchForMeasurement_none_iff _ _).mp hn

/-- a winner matches, so an instruction with a winner is not `NoMatch` -/
theorem gateWinner_not_noMatch {cals : Cals} {g : Gate} {c : CalDef}
    (h : GateWinner E cals.cals g c) : ¬ NoMatch E cals (.gate g) := by
  obtain ⟨i, ⟨c16, hc, hm, _⟩, _⟩ := h
  intro hn
  exact hn c16 (List.mem_of_getElem? hc) hm

theorem measWinner_not_noMatch {cals : Cals} {m : Measurement} {c : MCalDef}
    (h : MeasWinner cals.mcals m c) : ¬ NoMatch E cals (.measurement m) := by
  obtain ⟨i, ⟨c16, hc, hm, _⟩, _⟩ := h
  intro hn
  exact hn c16 (List.mem_of_getElem? hc) hm

/-! ### the relation -/

variable {S : Subst} {cals : Cals}

theorem Expands.append {xs o ys os : List Instruction}
    (h1 : Expands E S cals xs o) (h2 : Expands E S cals ys os) :
    Expands E S cals (xs ++ ys) (o ++ os) := by
  induction h1 with
  | nil => simpa using h2
  | keep hn _ ih => exact Expands.keep hn ih
  | gate hw hb _ _ ih =>
    rw [List.cons_append, List.append_assoc]
    exact Expands.gate hw hb ih
  | meas hw hb _ _ ih =>
    rw [List.cons_append, List.append_assoc]
    exact Expands.meas hw hb ih

theorem Expands.cons {i : Instruction} {o ys os : List Instruction}
    (h1 : Expands E S cals [i] o) (h2 : Expands E S cals ys os) :
    Expands E S cals (i :: ys) (o ++ os) := by
  simpa using Expands.append E h1 h2

theorem Expands.fixpoint {is out : List Instruction} (h : Expands E S cals is out) :
    Fixpoint E cals out := by
  induction h with
  | nil => intro i hi; cases hi
  | keep hn _ ih =>
    intro i hi
    rcases List.mem_cons.mp hi with rfl | hi
    · exact hn
    · exact ih i hi
  | gate _ _ _ ihb ih =>
    intro i hi
    rcases List.mem_append.mp hi with hi | hi
    · exact ihb i hi
    · exact ih i hi
  | meas _ _ _ ihb ih =>
    intro i hi
    rcases List.mem_append.mp hi with hi | hi
    · exact ihb i hi
    · exact ih i hi

theorem Expands.sublist {is out : List Instruction} (h : Expands E S cals is out) :
    ∀ sub : List Instruction, sub.Sublist is → (∀ i ∈ sub, NoMatch E cals i) → sub.Sublist out := by
  induction h with
  | nil => intro sub hs _; exact hs
  | keep hn _ ih =>
    intro sub hs hall
    cases hs with
    | cons _ hs => exact (ih _ hs hall).cons _
    | cons_cons _ hs => exact (ih _ hs (fun i hi => hall i (List.mem_cons_of_mem _ hi))).cons_cons _
  | gate hw _ _ _ ih =>
    intro sub hs hall
    cases hs with
    | cons _ hs => exact (ih _ hs hall).trans (List.sublist_append_right _ _)
    | cons_cons _ hs => exact absurd (hall _ (List.mem_cons_self ..)) (gateWinner_not_noMatch E hw)
  | meas hw _ _ _ ih =>
    intro sub hs hall
    cases hs with
    | cons _ hs => exact (ih _ hs hall).trans (List.sublist_append_right _ _)
    | cons_cons _ hs => exact absurd (hall _ (List.mem_cons_self ..)) (measWinner_not_noMatch E hw)

/-- only the instantiation of the bodies of WINNING calibrations matters -/
theorem Expands.congr {S' : Subst} {is out : List Instruction}
    (hg : ∀ c g i, GateWinner E cals.cals g c → i ∈ c.instructions → S.gate c g i = S'.gate c g i)
    (hm : ∀ c m i, MeasWinner cals.mcals m c → i ∈ c.instructions → S.meas c m i = S'.meas c m i)
    (h : Expands E S cals is out) : Expands E S' cals is out := by
  induction h with
  | nil => exact Expands.nil
  | keep hn _ ih => exact Expands.keep hn ih
  | @gate g c _ _ _ hw _ _ ihb ih =>
    have : c.instructions.map (S.gate c g) = c.instructions.map (S'.gate c g) :=
      List.map_congr_left (fun i hi => hg c g i hw hi)
    rw [this] at ihb
    exact Expands.gate hw ihb ih
  | @meas m c _ _ _ hw _ _ ihb ih =>
    have : c.instructions.map (S.meas c m) = c.instructions.map (S'.meas c m) :=
      List.map_congr_left (fun i hi => hm c m i hw hi)
    rw [this] at ihb
    exact Expands.meas hw ihb ih

end

/-! ### the algorithm against the relation -/

section
variable {κ : Type} [DecidableEq κ] (E : Env κ) (S : Subst) (cals : Cals)

theorem oneStep_none {i : Instruction} (h : oneStep E S cals i = none) : NoMatch E cals i := by
  cases i <;> simp only [NoMatch] <;> try trivial
  · rename_i g
    simp only [oneStep] at h
    split at h
    · cases h
    · rename_i hn; exact getMatchForGate_none E hn
  · rename_i m
    simp only [oneStep] at h
    split at h
    · cases h
    · rename_i hn; exact getMatchForMeasurement_none hn

/-- what `oneStep` returns is the winner's instantiated body -/
theorem oneStep_some {i : Instruction} {body : List Instruction} {src : CalSource}
    (h : oneStep E S cals i = some (body, src)) :
    (∃ g c, i = .gate g ∧ GateWinner E cals.cals g c ∧ body = c.instructions.map (S.gate c g)) ∨
    (∃ m c, i = .measurement m ∧ MeasWinner cals.mcals m c ∧ body = c.instructions.map (S.meas c m)) := by
  cases i <;> simp only [oneStep] at h <;> try (cases h)
  · rename_i g
    left
    split at h
    · rename_i c hc
      simp only [Option.some.injEq, Prod.mk.injEq] at h
      exact ⟨g, c, rfl, getMatchForGate_some E hc, h.1.symm⟩
    · cases h
  · rename_i m
    right
    split at h
    · rename_i c hc
      simp only [Option.some.injEq, Prod.mk.injEq] at h
      exact ⟨m, c, rfl, getMatchForMeasurement_some hc, h.1.symm⟩
    · cases h

/-- what one successful call of the expansion means -/
def SoundAt (i : Instruction) : Option (List Instruction) → Prop
  | none => NoMatch E cals i
  | some out => Expands E S cals [i] out

theorem expandSeq_sound (rec : Instruction → Outcome (Option (List Instruction)))
    (hrec : ∀ i r, rec i = .ok r → SoundAt E S cals i r) :
    ∀ (body out : List Instruction), expandSeq rec body = .ok out → Expands E S cals body out := by
  intro body
  induction body with
  | nil =>
    intro out h
    simp only [expandSeq, Outcome.ok.injEq] at h
    subst h; exact Expands.nil
  | cons i rest ih =>
    intro out h
    unfold expandSeq at h
    split at h
    · rename_i o ho
      split at h
      · rename_i outs hrest
        simp only [Outcome.ok.injEq] at h
        subst h
        exact Expands.cons E (hrec i _ ho) (ih _ hrest)
      · cases h
      · cases h
    · rename_i ho
      split at h
      · rename_i outs hrest
        simp only [Outcome.ok.injEq] at h
        subst h
        exact Expands.keep (hrec i _ ho) (ih _ hrest)
      · cases h
      · cases h
    · cases h
    · cases h

theorem expandInnerWith_sound :
    ∀ (fuel : Nat) (prev : List Instruction) (i : Instruction) (r : Option (List Instruction)),
      expandInnerWith E S cals fuel prev i = .ok r → SoundAt E S cals i r := by
  intro fuel
  induction fuel with
  | zero => intro prev i r h; simp [expandInnerWith] at h
  | succ fuel ih =>
    intro prev i r h
    unfold expandInnerWith at h
    split at h
    · cases h
    · split at h
      · rename_i hn
        simp only [Outcome.ok.injEq] at h
        subst h
        exact oneStep_none E S cals hn
      · rename_i body src hs
        split at h
        · rename_i out hseq
          simp only [Outcome.ok.injEq] at h
          subst h
          have hb := expandSeq_sound E S cals _ (fun j r hj => ih (i :: prev) j r hj) body out hseq
          rcases oneStep_some E S cals hs with ⟨g, c, rfl, hw, rfl⟩ | ⟨m, c, rfl, hw, rfl⟩
          · have := Expands.gate (E := E) (S := S) (cals := cals) hw hb Expands.nil
            simpa [SoundAt] using this
          · have := Expands.meas (E := E) (S := S) (cals := cals) hw hb Expands.nil
            simpa [SoundAt] using this
        · cases h
        · cases h

end

end QV.C17

namespace QV.C17
open QV QV.Ast

/-! ### the program level -/

def Outcome.map {α β : Type} (f : α → β) : Outcome α → Outcome β
  | .ok a => .ok (f a)
  | .recursiveCalibration i => .recursiveCalibration i
  | .outOfFuel => .outOfFuel

theorem appendExpansion_fst (p : Prog) (out : List Instruction) (src : Nat) (sm : Option (List Entry)) :
    (p.appendExpansion out src sm).1 = p.addMany out := by
  cases sm <;> rfl

theorem addMany_append (p : Prog) (xs ys : List Instruction) :
    p.addMany (xs ++ ys) = (p.addMany xs).addMany ys := by
  simp [Prog.addMany, List.foldl_append]

theorem addMany_cons (p : Prog) (x : Instruction) (xs : List Instruction) :
    p.addMany (x :: xs) = (p.add x).addMany xs := rfl

/-- `add_instruction` pushes exactly the non-definitions onto the body -/
theorem add_instructions (p : Prog) (i : Instruction) :
    (p.add i).instructions = if isDefinition i then p.instructions else p.instructions ++ [i] := by
  cases i <;> simp [Prog.add, isDefinition]
  rename_i pr
  split <;> simp_all

theorem addMany_instructions (p : Prog) (is : List Instruction) :
    (p.addMany is).instructions = p.instructions ++ is.filter (fun i => !isDefinition i) := by
  induction is generalizing p with
  | nil => simp [Prog.addMany]
  | cons i is ih =>
    rw [addMany_cons, ih, add_instructions]
    cases h : isDefinition i <;> simp [h]

theorem add_cals (p : Prog) (i : Instruction) (h : plainB i = true) : (p.add i).cals = p.cals := by
  cases i <;> simp_all [Prog.add, plainB]
  split <;> rfl

theorem upsert_keys {K V : Type} [DecidableEq K] (m : List (K × V)) (k : K) (v : V) (k' : K) :
    k' ∈ (upsert m k v).map (·.1) ↔ k' = k ∨ k' ∈ m.map (·.1) := by
  induction m with
  | nil => simp [upsert]
  | cons kv rest ih =>
    obtain ⟨a, b⟩ := kv
    unfold upsert
    split
    · rename_i h; subst h; simp
    · simp only [List.map_cons, List.mem_cons, ih]
      constructor
      · rintro (h | h | h) <;> simp [h]
      · rintro (h | h | h) <;> simp [h]

theorem add_memoryRegions_mono (p : Prog) (i : Instruction) (k : String)
    (h : k ∈ p.memoryRegions.map (·.1)) : k ∈ (p.add i).memoryRegions.map (·.1) := by
  cases i <;> simp only [Prog.add] <;> try exact h
  · exact (upsert_keys _ _ _ _).mpr (Or.inr h)
  · split <;> exact h

theorem addMany_memoryRegions_mono (p : Prog) (is : List Instruction) (k : String)
    (h : k ∈ p.memoryRegions.map (·.1)) : k ∈ (p.addMany is).memoryRegions.map (·.1) := by
  induction is generalizing p with
  | nil => exact h
  | cons i is ih => rw [addMany_cons]; exact ih _ (add_memoryRegions_mono p i k h)

theorem addMany_declared (p : Prog) (is : List Instruction) (d : Declaration)
    (h : Instruction.declaration d ∈ is) : d.name ∈ (p.addMany is).memoryRegions.map (·.1) := by
  induction is generalizing p with
  | nil => cases h
  | cons i is ih =>
    rw [addMany_cons]
    rcases List.mem_cons.mp h with rfl | h
    · apply addMany_memoryRegions_mono
      simp only [Prog.add]
      exact (upsert_keys _ _ _ _).mpr (Or.inl rfl)
    · exact ih _ h

section
variable {κ : Type} [DecidableEq κ] (E : Env κ) (S : Subst)

theorem expandLoop_sound (src : Prog) (fuel : Nat) :
    ∀ (is : List Instruction) (idx : Nat) (np : Prog) (sm : Option (List Entry))
      (r : Prog × Option (List Entry)),
      expandLoop E S src fuel is idx np sm = .ok r →
      ∃ flat, Expands E S src.cals is flat ∧ r.1 = np.addMany flat := by
  intro is
  induction is with
  | nil =>
    intro idx np sm r h
    simp only [expandLoop, Outcome.ok.injEq] at h
    subst h
    exact ⟨[], Expands.nil, rfl⟩
  | cons i rest ih =>
    intro idx np sm r h
    unfold expandLoop at h
    split at h
    · rename_i out ho
      obtain ⟨flat, hf, hr⟩ := ih _ _ _ _ h
      refine ⟨out ++ flat, Expands.cons E (expandInnerWith_sound E S src.cals _ _ _ _ ho) hf, ?_⟩
      rw [hr, appendExpansion_fst, addMany_append]
    · rename_i ho
      obtain ⟨flat, hf, hr⟩ := ih _ _ _ _ h
      exact ⟨i :: flat, Expands.keep (expandInnerWith_sound E S src.cals _ _ _ _ ho) hf, by rw [hr]; rfl⟩
    · cases h
    · cases h

/-- the program the loop builds does not depend on whether a source map is recorded -/
theorem expandLoop_fst_indep (src : Prog) (fuel : Nat) :
    ∀ (is : List Instruction) (idx : Nat) (np : Prog) (sm sm' : Option (List Entry)),
      (expandLoop E S src fuel is idx np sm).map (·.1) = (expandLoop E S src fuel is idx np sm').map (·.1) := by
  intro is
  induction is with
  | nil => intro idx np sm sm'; simp [expandLoop, Outcome.map]
  | cons i rest ih =>
    intro idx np sm sm'
    unfold expandLoop
    split
    · simp only [appendExpansion_fst]
      exact ih _ _ _ _
    · exact ih _ _ _ _
    · rfl
    · rfl

end

end QV.C17
