import QV.C17.Spec
import QV.C16.Props
/-! Helper lemmas for C17 / C18 (core Lean only). -/
namespace QV.C17
open QV QV.Ast

/-! ### lookup: from C16's theorems to the projection -/

section
variable {κ : Type} (E : Env κ)

theorem toCals16_length (cs : List CalDef) (g : Gate) : (toCals16 E cs g).length = cs.length := by
  simp [toCals16]

theorem toMCals16_length (cs : List MCalDef) : (toMCals16 cs).length = cs.length := by
  simp [toMCals16]

theorem getMatchForGate_some {cs : List CalDef} {g : Gate} {c : CalDef}
    (h : getMatchForGate E cs g = some c) : GateWinner E cs g c := by
  unfold getMatchForGate at h
  have hs := C16.getMatchForGate_spec (toCals16 E cs g) (toGate16 E (paramUniverse E cs g) g)
  split at h
  · rename_i i hi
    rw [hi] at hs
    exact ⟨i, hs, h⟩
  · cases h

theorem getMatchForGate_none {cs : List CalDef} {g : Gate}
    (h : getMatchForGate E cs g = none) :
    ∀ d ∈ toCals16 E cs g, ¬ C16.GateMatches d (toGate16 E (paramUniverse E cs g) g) := by
  unfold getMatchForGate at h
  split at h
  · rename_i i hi
    have hs := C16.getMatchForGate_spec (toCals16 E cs g) (toGate16 E (paramUniverse E cs g) g)
    rw [hi] at hs
    obtain ⟨c16, hc, _, _⟩ := hs
    have hlt : i < cs.length := by
      have := (List.getElem?_eq_some_iff.mp hc).1
      rwa [toCals16_length] at this
    rw [List.getElem?_eq_getElem hlt] at h
    cases h
  · rename_i hn
    exact (C16.getMatchForGate_none_iff _ _).mp hn

theorem getMatchForMeasurement_some {cs : List MCalDef} {m : Measurement} {c : MCalDef}
    (h : getMatchForMeasurement cs m = some c) : MeasWinner cs m c := by
  unfold getMatchForMeasurement at h
  have hs := C16.getMatchForMeasurement_spec (toMCals16 cs) (toMeas16 m)
  split at h
  · rename_i i hi
    rw [hi] at hs
    exact ⟨i, hs, h⟩
  · cases h

theorem getMatchForMeasurement_none {cs : List MCalDef} {m : Measurement}
    (h : getMatchForMeasurement cs m = none) :
    ∀ d ∈ toMCals16 cs, ¬ C16.MeasMatches d (toMeas16 m) := by
  unfold getMatchForMeasurement at h
  split at h
  · rename_i i hi
    have hs := C16.getMatchForMeasurement_spec (toMCals16 cs) (toMeas16 m)
    rw [hi] at hs
    obtain ⟨c16, hc, _, _⟩ := hs
    have hlt : i < cs.length := by
      have := (List.getElem?_eq_some_iff.mp hc).1
      rwa [toMCals16_length] at this
    rw [List.getElem?_eq_getElem hlt] at h
    cases h
  · rename_i hn
    exact (C16.getMatchForMeasurement_none_iff _ _).mp hn

/-- a winner matches, so an instruction with a winner is not `NoMatch` -/
theorem gateWinner_not_noMatch {cals : Cals} {g : Gate} {c : CalDef}
    (h : GateWinner E cals.cals g c) : ¬ NoMatch E cals (.gate g) := by
  obtain ⟨i, ⟨c16, hc, hm, _⟩, _⟩ := h
  intro hn
  exact hn c16 (List.mem_of_getElem? hc) hm

theorem measWinner_not_noMatch {cals : Cals} {m : Measurement} {c : MCalDef}
    (h : MeasWinner cals.mcals m c) : ¬ NoMatch E cals (.measurement m) := by
  obtain ⟨i, ⟨c16, hc, hm, _⟩, _⟩ := h
  intro hn
  exact hn c16 (List.mem_of_getElem? hc) hm

/-! ### the relation -/

variable {S : Subst} {cals : Cals}

theorem Expands.append {xs o ys os : List Instruction}
    (h1 : Expands E S cals xs o) (h2 : Expands E S cals ys os) :
    Expands E S cals (xs ++ ys) (o ++ os) := by
  induction h1 with
  | nil => simpa using h2
  | keep hn _ ih => exact Expands.keep hn ih
  | gate hw hb _ _ ih =>
    rw [List.cons_append, List.append_assoc]
    exact Expands.gate hw hb ih
  | meas hw hb _ _ ih =>
    rw [List.cons_append, List.append_assoc]
    exact Expands.meas hw hb ih

theorem Expands.cons {i : Instruction} {o ys os : List Instruction}
    (h1 : Expands E S cals [i] o) (h2 : Expands E S cals ys os) :
    Expands E S cals (i :: ys) (o ++ os) := by
  simpa using Expands.append E h1 h2

theorem Expands.fixpoint {is out : List Instruction} (h : Expands E S cals is out) :
    Fixpoint E cals out := by
  induction h with
  | nil => intro i hi; cases hi
  | keep hn _ ih =>
    intro i hi
    rcases List.mem_cons.mp hi with rfl | hi
    · exact hn
    · exact ih i hi
  | gate _ _ _ ihb ih =>
    intro i hi
    rcases List.mem_append.mp hi with hi | hi
    · exact ihb i hi
    · exact ih i hi
  | meas _ _ _ ihb ih =>
    intro i hi
    rcases List.mem_append.mp hi with hi | hi
    · exact ihb i hi
    · exact ih i hi

theorem Expands.sublist {is out : List Instruction} (h : Expands E S cals is out) :
    ∀ sub : List Instruction, sub.Sublist is → (∀ i ∈ sub, NoMatch E cals i) → sub.Sublist out := by
  induction h with
  | nil => intro sub hs _; exact hs
  | keep hn _ ih =>
    intro sub hs hall
    cases hs with
    | cons _ hs => exact (ih _ hs hall).cons _
    | cons_cons _ hs => exact (ih _ hs (fun i hi => hall i (List.mem_cons_of_mem _ hi))).cons_cons _
  | gate hw _ _ _ ih =>
    intro sub hs hall
    cases hs with
    | cons _ hs => exact (ih _ hs hall).trans (List.sublist_append_right _ _)
    | cons_cons _ hs => exact absurd (hall _ (List.mem_cons_self ..)) (gateWinner_not_noMatch E hw)
  | meas hw _ _ _ ih =>
    intro sub hs hall
    cases hs with
    | cons _ hs => exact (ih _ hs hall).trans (List.sublist_append_right _ _)
    | cons_cons _ hs => exact absurd (hall _ (List.mem_cons_self ..)) (measWinner_not_noMatch E hw)

/-- only the instantiation of the bodies of WINNING calibrations matters -/
theorem Expands.congr {S' : Subst} {is out : List Instruction}
    (hg : ∀ c g i, GateWinner E cals.cals g c → i ∈ c.instructions → S.gate c g i = S'.gate c g i)
    (hm : ∀ c m i, MeasWinner cals.mcals m c → i ∈ c.instructions → S.meas c m i = S'.meas c m i)
    (h : Expands E S cals is out) : Expands E S' cals is out := by
  induction h with
  | nil => exact Expands.nil
  | keep hn _ ih => exact Expands.keep hn ih
  | @gate g c _ _ _ hw _ _ ihb ih =>
    have : c.instructions.map (S.gate c g) = c.instructions.map (S'.gate c g) :=
      List.map_congr_left (fun i hi => hg c g i hw hi)
    rw [this] at ihb
    exact Expands.gate hw ihb ih
  | @meas m c _ _ _ hw _ _ ihb ih =>
    have : c.instructions.map (S.meas c m) = c.instructions.map (S'.meas c m) :=
      List.map_congr_left (fun i hi => hm c m i hw hi)
    rw [this] at ihb
    exact Expands.meas hw ihb ih

end

/-! ### the algorithm against the relation -/

section
variable {κ : Type} [DecidableEq κ] (E : Env κ) (S : Subst) (cals : Cals)

theorem oneStep_none {i : Instruction} (h : oneStep E S cals i = none) : NoMatch E cals i := by
  cases i <;> simp only [NoMatch] <;> try trivial
  · rename_i g
    simp only [oneStep] at h
    split at h
    · cases h
    · rename_i hn; exact getMatchForGate_none E hn
  · rename_i m
    simp only [oneStep] at h
    split at h
    · cases h
    · rename_i hn; exact getMatchForMeasurement_none hn

/-- what `oneStep` returns is the winner's instantiated body -/
theorem oneStep_some {i : Instruction} {body : List Instruction} {src : CalSource}
    (h : oneStep E S cals i = some (body, src)) :
    (∃ g c, i = .gate g ∧ GateWinner E cals.cals g c ∧ body = c.instructions.map (S.gate c g)) ∨
    (∃ m c, i = .measurement m ∧ MeasWinner cals.mcals m c ∧ body = c.instructions.map (S.meas c m)) := by
  cases i <;> simp only [oneStep] at h <;> try (cases h)
  · rename_i g
    left
    split at h
    · rename_i c hc
      simp only [Option.some.injEq, Prod.mk.injEq] at h
      exact ⟨g, c, rfl, getMatchForGate_some E hc, h.1.symm⟩
    · cases h
  · rename_i m
    right
    split at h
    · rename_i c hc
      simp only [Option.some.injEq, Prod.mk.injEq] at h
      exact ⟨m, c, rfl, getMatchForMeasurement_some hc, h.1.symm⟩
    · cases h

/-- what one successful call of the expansion means -/
def SoundAt (i : Instruction) : Option (List Instruction) → Prop
  | none => NoMatch E cals i
  | some out => Expands E S cals [i] out

theorem expandSeq_sound (rec : Instruction → Outcome (Option (List Instruction)))
    (hrec : ∀ i r, rec i = .ok r → SoundAt E S cals i r) :
    ∀ (body out : List Instruction), expandSeq rec body = .ok out → Expands E S cals body out := by
  intro body
  induction body with
  | nil =>
    intro out h
    simp only [expandSeq, Outcome.ok.injEq] at h
    subst h; exact Expands.nil
  | cons i rest ih =>
    intro out h
    unfold expandSeq at h
    split at h
    · rename_i o ho
      split at h
      · rename_i outs hrest
        simp only [Outcome.ok.injEq] at h
        subst h
        exact Expands.cons E (hrec i _ ho) (ih _ hrest)
      · cases h
      · cases h
    · rename_i ho
      split at h
      · rename_i outs hrest
        simp only [Outcome.ok.injEq] at h
        subst h
        exact Expands.keep (hrec i _ ho) (ih _ hrest)
      · cases h
      · cases h
    · cases h
    · cases h

theorem expandInnerWith_sound :
    ∀ (fuel : Nat) (prev : List κ) (i : Instruction) (r : Option (List Instruction)),
      expandInnerWith E S cals fuel prev i = .ok r → SoundAt E S cals i r := by
  intro fuel
  induction fuel with
  | zero => intro prev i r h; simp [expandInnerWith] at h
  | succ fuel ih =>
    intro prev i r h
    unfold expandInnerWith at h
    split at h
    · cases h
    · split at h
      · rename_i hn
        simp only [Outcome.ok.injEq] at h
        subst h
        exact oneStep_none E S cals hn
      · rename_i body src hs
        split at h
        · rename_i out hseq
          simp only [Outcome.ok.injEq] at h
          subst h
          have hb := expandSeq_sound E S cals _ (fun j r hj => ih (E.key i :: prev) j r hj) body out hseq
          rcases oneStep_some E S cals hs with ⟨g, c, rfl, hw, rfl⟩ | ⟨m, c, rfl, hw, rfl⟩
          · have := Expands.gate (E := E) (S := S) (cals := cals) hw hb Expands.nil
            simpa [SoundAt] using this
          · have := Expands.meas (E := E) (S := S) (cals := cals) hw hb Expands.nil
            simpa [SoundAt] using this
        · cases h
        · cases h

end

end QV.C17

namespace QV.C17
open QV QV.Ast

/-! ### the program level -/

def Outcome.map {α β : Type} (f : α → β) : Outcome α → Outcome β
  | .ok a => .ok (f a)
  | .recursiveCalibration i => .recursiveCalibration i
  | .outOfFuel => .outOfFuel

/-- the with-source-map loop adds exactly what `add_instructions` adds (for every instruction kind: both call
`add_instruction`, whose routing is `Prog.add`) -/
theorem appendLoop_fst (previous : Nat) :
    ∀ (out : List Instruction) (p : Prog) (removed : List Nat),
      (Prog.appendLoop previous p out removed).1 = p.addMany out := by
  intro out
  induction out with
  | nil => intro p removed; rfl
  | cons i rest ih =>
    intro p removed
    simp only [Prog.appendLoop]
    split <;> exact ih _ _

theorem appendExpansion_fst (p : Prog) (out : List Instruction) (src : Nat) (sm : Option (List Entry)) :
    (p.appendExpansion out src sm).1 = p.addMany out := by
  cases sm with
  | none => rfl
  | some es => simp [Prog.appendExpansion, appendLoop_fst]

theorem addMany_append (p : Prog) (xs ys : List Instruction) :
    p.addMany (xs ++ ys) = (p.addMany xs).addMany ys := by
  simp [Prog.addMany, List.foldl_append]

theorem addMany_cons (p : Prog) (x : Instruction) (xs : List Instruction) :
    p.addMany (x :: xs) = (p.add x).addMany xs := rfl

/-- `add_instruction` pushes exactly the non-definitions onto the body -/
theorem add_instructions (p : Prog) (i : Instruction) :
    (p.add i).instructions = if isDefinition i then p.instructions else p.instructions ++ [i] := by
  cases i <;> simp [Prog.add, isDefinition]
  rename_i pr
  split <;> simp_all

theorem addMany_instructions (p : Prog) (is : List Instruction) :
    (p.addMany is).instructions = p.instructions ++ is.filter (fun i => !isDefinition i) := by
  induction is generalizing p with
  | nil => simp [Prog.addMany]
  | cons i is ih =>
    rw [addMany_cons, ih, add_instructions]
    cases h : isDefinition i <;> simp [h]

theorem add_cals (p : Prog) (i : Instruction) (h : plainB i = true) : (p.add i).cals = p.cals := by
  cases i <;> simp_all [Prog.add, plainB]
  split <;> rfl

theorem upsert_keys {K V : Type} [DecidableEq K] (m : List (K × V)) (k : K) (v : V) (k' : K) :
    k' ∈ (upsert m k v).map (·.1) ↔ k' = k ∨ k' ∈ m.map (·.1) := by
  induction m with
  | nil => simp [upsert]
  | cons kv rest ih =>
    obtain ⟨a, b⟩ := kv
    unfold upsert
    split
    · rename_i h; subst h; simp
    · simp only [List.map_cons, List.mem_cons, ih]
      constructor
      · rintro (h | h | h) <;> simp [h]
      · rintro (h | h | h) <;> simp [h]

theorem add_memoryRegions_mono (p : Prog) (i : Instruction) (k : String)
    (h : k ∈ p.memoryRegions.map (·.1)) : k ∈ (p.add i).memoryRegions.map (·.1) := by
  cases i <;> simp only [Prog.add] <;> try exact h
  · exact (upsert_keys _ _ _ _).mpr (Or.inr h)
  · split <;> exact h

theorem addMany_memoryRegions_mono (p : Prog) (is : List Instruction) (k : String)
    (h : k ∈ p.memoryRegions.map (·.1)) : k ∈ (p.addMany is).memoryRegions.map (·.1) := by
  induction is generalizing p with
  | nil => exact h
  | cons i is ih => rw [addMany_cons]; exact ih _ (add_memoryRegions_mono p i k h)

theorem addMany_declared (p : Prog) (is : List Instruction) (d : Declaration)
    (h : Instruction.declaration d ∈ is) : d.name ∈ (p.addMany is).memoryRegions.map (·.1) := by
  induction is generalizing p with
  | nil => cases h
  | cons i is ih =>
    rw [addMany_cons]
    rcases List.mem_cons.mp h with rfl | h
    · apply addMany_memoryRegions_mono
      simp only [Prog.add]
      exact (upsert_keys _ _ _ _).mpr (Or.inl rfl)
    · exact ih _ h

section
variable {κ : Type} [DecidableEq κ] (E : Env κ) (S : Subst)

theorem expandLoop_sound (src : Prog) (fuel : Nat) :
    ∀ (is : List Instruction) (idx : Nat) (np : Prog) (sm : Option (List Entry))
      (r : Prog × Option (List Entry)),
      expandLoop E S src fuel is idx np sm = .ok r →
      ∃ flat, Expands E S src.cals is flat ∧ r.1 = np.addMany flat := by
  intro is
  induction is with
  | nil =>
    intro idx np sm r h
    simp only [expandLoop, Outcome.ok.injEq] at h
    subst h
    exact ⟨[], Expands.nil, rfl⟩
  | cons i rest ih =>
    intro idx np sm r h
    unfold expandLoop at h
    split at h
    · rename_i out ho
      obtain ⟨flat, hf, hr⟩ := ih _ _ _ _ h
      refine ⟨out ++ flat, Expands.cons E (expandInnerWith_sound E S src.cals _ _ _ _ ho) hf, ?_⟩
      rw [hr, appendExpansion_fst, addMany_append]
    · rename_i ho
      obtain ⟨flat, hf, hr⟩ := ih _ _ _ _ h
      exact ⟨i :: flat, Expands.keep (expandInnerWith_sound E S src.cals _ _ _ _ ho) hf, by rw [hr]; rfl⟩
    · cases h
    · cases h

/-- the program the loop builds does not depend on whether a source map is recorded -/
theorem expandLoop_fst_indep (src : Prog) (fuel : Nat) :
    ∀ (is : List Instruction) (idx : Nat) (np : Prog) (sm sm' : Option (List Entry)),
      (expandLoop E S src fuel is idx np sm).map (·.1) = (expandLoop E S src fuel is idx np sm').map (·.1) := by
  intro is
  induction is with
  | nil => intro idx np sm sm'; simp [expandLoop, Outcome.map]
  | cons i rest ih =>
    intro idx np sm sm'
    unfold expandLoop
    split
    · simp only [appendExpansion_fst]
      exact ih _ _ _ _
    · exact ih _ _ _ _
    · rfl
    · rfl

end

end QV.C17

namespace QV.C17
open QV QV.Ast

/-! ### the code's substitution against the generic traversals -/

theorem bindQ_cons (cq gq : Qubit) (cqs gqs : List Qubit) (n : String) :
    bindQ (cq :: cqs) (gq :: gqs) n =
      (bindQ cqs gqs n).or (if cq = .variable n then some gq else none) := by
  simp only [bindQ, List.zip_cons_cons, List.reverse_cons, List.find?_append]
  cases h : List.find? (fun p => decide (p.1 = Qubit.variable n)) (cqs.zip gqs).reverse with
  | some p => simp
  | none =>
    by_cases hc : cq = .variable n <;> simp [hc]

theorem lookup_qubitExpansions (cqs gqs : List Qubit) (acc : List (String × Qubit)) (n : String) :
    (qubitExpansions cqs gqs acc).lookup n = (bindQ cqs gqs n).or (acc.lookup n) := by
  induction cqs generalizing gqs acc with
  | nil => simp [qubitExpansions, bindQ]
  | cons cq cqs ih =>
    cases gqs with
    | nil => cases cq <;> simp [qubitExpansions, bindQ]
    | cons gq gqs =>
      rw [bindQ_cons]
      rcases cq with k | k | name
      · simp [qubitExpansions, ih]
      · simp [qubitExpansions, ih]
      · simp only [qubitExpansions, ih, List.lookup_cons]
        by_cases hn : n = name
        · subst hn; cases bindQ cqs gqs n <;> simp
        · have : ¬ (Qubit.variable name = Qubit.variable n) := by
            intro h; injection h with h; exact hn h.symm
          have hb : (n == name) = false := by simp [hn]
          cases bindQ cqs gqs n <;> simp [hb, this]

theorem bindP_cons (cp gp : PExpr) (cps gps : List PExpr) (n : String) :
    bindP (cp :: cps) (gp :: gps) n =
      (bindP cps gps n).or (if cp = .var n then some gp else none) := by
  simp only [bindP, List.zip_cons_cons, List.reverse_cons, List.find?_append]
  cases h : List.find? (fun p => decide (p.1 = Expr.var n)) (cps.zip gps).reverse with
  | some p => simp
  | none =>
    by_cases hc : cp = .var n <;> simp [hc]

theorem lookup_variableExpansions (cps gps : List PExpr) (acc : List (String × PExpr)) (n : String) :
    (variableExpansions cps gps acc).lookup n = (bindP cps gps n).or (acc.lookup n) := by
  induction cps generalizing gps acc with
  | nil => simp [variableExpansions, bindP]
  | cons cp cps ih =>
    cases gps with
    | nil => cases cp <;> simp [variableExpansions, bindP]
    | cons gp gps =>
      rw [bindP_cons]
      cases cp with
      | var name =>
        simp only [variableExpansions, ih, List.lookup_cons]
        by_cases hn : n = name
        · subst hn; cases bindP cps gps n <;> simp
        · have : ¬ ((Expr.var name : PExpr) = Expr.var n) := by
            intro h; injection h with h; exact hn h.symm
          have hb : (n == name) = false := by simp [hn]
          cases bindP cps gps n <;> simp [hb, this]
      | _ => simp [variableExpansions, ih]

theorem substituteQubitVariable_eq (σ : List (String × Qubit)) (q : Qubit) :
    substituteQubitVariable σ q = substQ (fun n => σ.lookup n) q := by
  rcases q with k | k | name <;> simp [substituteQubitVariable, substQ]
  cases List.lookup name σ <;> simp

theorem substFrame_eq (σ : List (String × Qubit)) (f : FrameIdentifier) :
    substFrame σ f = mapFrameQ (substQ (fun n => σ.lookup n)) f := by
  simp [substFrame, mapFrameQ, substituteQubitVariable_eq]

/-- the code's qubit substitution visits every qubit position of a plain instruction -/
theorem substituteQubitVariables_eq (σ : List (String × Qubit)) (i : Instruction) (h : plainB i = true) :
    substituteQubitVariables σ i = mapQubits (substQ (fun n => σ.lookup n)) i := by
  cases i <;> simp_all [substituteQubitVariables, mapQubits, plainB, substFrame_eq, mapGateQ,
    substituteQubitVariable_eq]
  rename_i r
  rcases r with ⟨_ | q⟩ <;> simp [substituteQubitVariable_eq]

/-- the code's parameter substitution visits every expression of a plain instruction -/
theorem applyToExpressions_eq (f : PExpr → PExpr) (i : Instruction) (h : plainB i = true) :
    applyToExpressions f i = mapExprs f i := by
  cases i <;> simp_all [applyToExpressions, mapExprs, plainB, mapGateE]

theorem plainB_mapQubits (f : Qubit → Qubit) (i : Instruction) (h : plainB i = true) :
    plainB (mapQubits f i) = true := by
  cases i <;> simp_all [mapQubits, plainB]

theorem gateSubstCode_eq (c : CalDef) (g : Gate) (i : Instruction) (h : plainB i = true) :
    gateSubstCode c g i = gateSubstSpec c g i := by
  simp only [gateSubstCode, gateSubstSpec]
  rw [substituteQubitVariables_eq _ _ h, applyToExpressions_eq _ _ (plainB_mapQubits _ _ h)]
  congr 1
  · funext x; simp [lookup_variableExpansions]
  · congr 1; funext n; simp [lookup_qubitExpansions]

/-! ### measurement calibrations -/

theorem retarget_of_ne {formal : String} {actual r : MemRef} (h : r.name ≠ formal) :
    retarget formal actual r = r := by simp [retarget, h]

theorem mapAddr_retarget_id (formal : String) (actual : MemRef) (e : PExpr)
    (h : ∀ r ∈ e.addrs, r.name ≠ formal) : mapAddr (retarget formal actual) e = e := by
  induction e with
  | address r => simp [mapAddr, retarget_of_ne (h r (by simp [Expr.addrs]))]
  | call f e ih => simp [mapAddr, ih (by simpa [Expr.addrs] using h)]
  | bin l o r ihl ihr =>
    simp only [Expr.addrs, List.mem_append] at h
    simp [mapAddr, ihl (fun r hr => h r (Or.inl hr)), ihr (fun r hr => h r (Or.inr hr))]
  | number z => rfl
  | pi => rfl
  | pre o e ih => simp [mapAddr, ih (by simpa [Expr.addrs] using h)]
  | var x => rfl

theorem map_mapAddr_id (formal : String) (actual : MemRef) (es : List PExpr)
    (h : ∀ e ∈ es, ∀ r ∈ e.addrs, r.name ≠ formal) : es.map (mapAddr (retarget formal actual)) = es := by
  induction es with
  | nil => rfl
  | cons e es ih =>
    simp only [List.map_cons, List.cons.injEq]
    exact ⟨mapAddr_retarget_id _ _ _ (h e (List.mem_cons_self ..)),
      ih (fun e' he' => h e' (List.mem_cons_of_mem _ he'))⟩

theorem mapInvocation_id (formal : String) (actual : MemRef) (w : WaveformInvocation)
    (h : ∀ kv ∈ w.parameters, ∀ r ∈ kv.2.addrs, r.name ≠ formal) :
    mapInvocation (mapAddr (retarget formal actual)) w = w := by
  obtain ⟨name, ps⟩ := w
  simp only [mapInvocation, WaveformInvocation.mk.injEq, true_and]
  induction ps with
  | nil => rfl
  | cons kv ps ih =>
    simp only [List.map_cons, List.cons.injEq]
    refine ⟨?_, ih (fun kv' h' => h kv' (List.mem_cons_of_mem _ h'))⟩
    rw [mapAddr_retarget_id _ _ _ (h kv (List.mem_cons_self ..))]

theorem mapArithOperand_id (formal : String) (actual : MemRef) (o : ArithmeticOperand)
    (h : ∀ r ∈ refsOfArith o, r.name ≠ formal) : mapArithOperand (retarget formal actual) o = o := by
  cases o <;> simp_all [mapArithOperand, refsOfArith, retarget]

theorem mapBinaryOperand_id (formal : String) (actual : MemRef) (o : BinaryOperand)
    (h : ∀ r ∈ refsOfBinary o, r.name ≠ formal) : mapBinaryOperand (retarget formal actual) o = o := by
  cases o <;> simp_all [mapBinaryOperand, refsOfBinary, retarget]

theorem mapComparisonOperand_id (formal : String) (actual : MemRef) (o : ComparisonOperand)
    (h : ∀ r ∈ refsOfComparison o, r.name ≠ formal) :
    mapComparisonOperand (retarget formal actual) o = o := by
  cases o <;> simp_all [mapComparisonOperand, refsOfComparison, retarget]

theorem mapCallArguments_id (formal : String) (actual : MemRef) (as : List UnresolvedCallArgument)
    (h : ∀ a ∈ as, ∀ r ∈ refsOfCallArg a, r.name ≠ formal) :
    as.map (mapCallArgument (retarget formal actual)) = as := by
  induction as with
  | nil => rfl
  | cons a as ih =>
    simp only [List.map_cons, List.cons.injEq]
    refine ⟨?_, ih (fun a' h' => h a' (List.mem_cons_of_mem _ h'))⟩
    have := h a (List.mem_cons_self ..)
    cases a <;> simp_all [mapCallArgument, refsOfCallArg, retarget]

theorem all_ne_iff (l : List MemRef) (f : String) :
    (l.all (fun r => r.name != f)) = true ↔ ∀ r ∈ l, r.name ≠ f := by
  simp

/-- where the formal target occurs only in the positions the code rewrites, the code's rewriting is the
specified one -/
theorem measureTargetSubst_eq (f : String) (a : MemRef) (j : Instruction) (hp : plainB j = true)
    (hc : formalCoveredB (some f) j = true) :
    measureTargetSubst (some f) (some a) j = retargetInstr f a j := by
  simp only [formalCoveredB, all_ne_iff] at hc
  cases j <;> simp only [plainB] at hp <;>
    simp only [measureTargetSubst, retargetInstr, retargetPragma, mapMemRefs, mapDirectRefs, mapExprs,
      otherRefs, invocationAddrs, List.mem_cons, List.mem_flatMap, List.mem_append, forall_eq_or_imp,
      List.not_mem_nil, false_imp_iff, implies_true, and_true, mapGateE] at hc ⊢
  case arithmetic x => rw [retarget_of_ne hc.1, mapArithOperand_id _ _ _ hc.2]
  case binaryLogic x => rw [retarget_of_ne hc.1, mapBinaryOperand_id _ _ _ hc.2]
  case calibrationDefinition => cases hp
  case call x => rw [mapCallArguments_id _ _ _ (fun a' ha r hr => hc r ⟨a', ha, hr⟩)]
  case capture x =>
    rw [mapInvocation_id _ _ _ (fun kv hkv r hr => hc r ⟨kv, hkv, hr⟩)]
    by_cases hn : x.memoryReference.name = f <;> simp [hn, retarget]
  case convert x => rw [retarget_of_ne hc.1, retarget_of_ne hc.2]
  case comparison x =>
    rw [retarget_of_ne hc.1, retarget_of_ne hc.2.1, mapComparisonOperand_id _ _ _ hc.2.2]
  case delay x => rw [mapAddr_retarget_id _ _ _ hc]
  case exchange x => rw [retarget_of_ne hc.1, retarget_of_ne hc.2]
  case frameDefinition => cases hp
  case gate x => rw [map_mapAddr_id _ _ _ (fun e he r hr => hc r ⟨e, he, hr⟩)]
  case gateDefinition => cases hp
  case jumpUnless x => rw [retarget_of_ne hc]
  case jumpWhen x => rw [retarget_of_ne hc]
  case load x => rw [retarget_of_ne hc.1, retarget_of_ne hc.2]
  case measurement x =>
    rcases x with ⟨nm, q, _ | t⟩
    · rfl
    · by_cases hn : t.name = f <;> simp [hn, retarget]
  case move x => rw [retarget_of_ne hc.1, mapArithOperand_id _ _ _ hc.2]
  case pragma x =>
    by_cases h1 : x.name = "LOAD-MEMORY" <;> by_cases h2 : x.data = some f <;> simp [h1, h2]
  case pulse x => rw [mapInvocation_id _ _ _ (fun kv hkv r hr => hc r ⟨kv, hkv, hr⟩)]
  case rawCapture x =>
    rw [mapAddr_retarget_id _ _ _ hc]
    by_cases hn : x.memoryReference.name = f <;> simp [hn, retarget]
  case setFrequency x => rw [mapAddr_retarget_id _ _ _ hc]
  case setPhase x => rw [mapAddr_retarget_id _ _ _ hc]
  case setScale x => rw [mapAddr_retarget_id _ _ _ hc]
  case shiftFrequency x => rw [mapAddr_retarget_id _ _ _ hc]
  case shiftPhase x => rw [mapAddr_retarget_id _ _ _ hc]
  case store x => rw [retarget_of_ne hc.1, mapArithOperand_id _ _ _ hc.2]
  case unaryLogic x => rw [retarget_of_ne hc]
  case waveformDefinition x => rw [map_mapAddr_id _ _ _ (fun e he r hr => hc r ⟨e, he, hr⟩)]

theorem measureTargetSubst_none (formal : Option String) (j : Instruction) :
    measureTargetSubst formal none j = j := by
  cases j <;> simp only [measureTargetSubst] <;> try rfl
  all_goals (repeat' split) <;> rfl

theorem otherRefs_mapQubits (f : Qubit → Qubit) (i : Instruction) (h : plainB i = true) :
    otherRefs (mapQubits f i) = otherRefs i := by
  cases i <;> simp_all [mapQubits, otherRefs, plainB, mapGateQ]

theorem measLookup_eq (c : MCalDef) (m : Measurement) (n : String) :
    (measQubitExpansions c.identifier.qubit m.qubit).lookup n = measBindQ c m n := by
  unfold measBindQ measQubitExpansions
  rcases hq : c.identifier.qubit with k | k | name <;> simp
  by_cases hn : n = name
  · subst hn; simp
  · have : ¬ name = n := fun h => hn h.symm
    simp [hn, this]

/-- the code's instantiation of a measurement calibration's body instruction is the specified one when the
instruction is plain and uses the formal target only where the code rewrites it -/
theorem measSubstCode_eq (c : MCalDef) (m : Measurement) (i : Instruction) (hp : plainB i = true)
    (hc : formalCoveredB c.identifier.target i = true)
    (hm : c.identifier.target.isSome = m.target.isSome) :
    measSubstCode c m i = measSubstSpec c m i := by
  simp only [measSubstCode, measSubstSpec]
  rw [substituteQubitVariables_eq _ _ hp]
  have hσ : (fun n => List.lookup n (measQubitExpansions c.identifier.qubit m.qubit)) = measBindQ c m := by
    funext n; exact measLookup_eq c m n
  rw [hσ]
  cases hf : c.identifier.target with
  | none =>
    cases ha : m.target with
    | none => simp [measureTargetSubst_none]
    | some a => simp [hf, ha] at hm
  | some f =>
    cases ha : m.target with
    | none => simp [hf, ha] at hm
    | some a =>
      simp only []
      apply measureTargetSubst_eq _ _ _ (plainB_mapQubits _ _ hp)
      rw [hf] at hc
      simpa [formalCoveredB, otherRefs_mapQubits _ _ hp] using hc
end QV.C17

namespace QV.C17
open QV QV.Ast

/-! ### the relation is deterministic -/

section
variable {κ : Type} (E : Env κ) {S : Subst} {cals : Cals}

theorem GateWinner.unique {cs : List CalDef} {g : Gate} {c c' : CalDef}
    (h : GateWinner E cs g c) (h' : GateWinner E cs g c') : c = c' := by
  obtain ⟨i, hi, hc⟩ := h
  obtain ⟨j, hj, hc'⟩ := h'
  have := C16.gateWinner_unique _ _ i j hi hj
  subst this
  rw [hc] at hc'
  exact Option.some.inj hc'

theorem MeasWinner.unique {cs : List MCalDef} {m : Measurement} {c c' : MCalDef}
    (h : MeasWinner cs m c) (h' : MeasWinner cs m c') : c = c' := by
  obtain ⟨i, hi, hc⟩ := h
  obtain ⟨j, hj, hc'⟩ := h'
  have := C16.measWinner_unique _ _ i j hi hj
  subst this
  rw [hc] at hc'
  exact Option.some.inj hc'

/-- the big-step semantics determines the result -/
theorem Expands.deterministic {is o1 : List Instruction} (h1 : Expands E S cals is o1) :
    ∀ o2, Expands E S cals is o2 → o1 = o2 := by
  induction h1 with
  | nil => intro o2 h2; cases h2; rfl
  | keep hn _ ih =>
    intro o2 h2
    cases h2 with
    | keep _ h2' => rw [ih _ h2']
    | gate hw _ _ => exact absurd hn (gateWinner_not_noMatch E hw)
    | meas hw _ _ => exact absurd hn (measWinner_not_noMatch E hw)
  | gate hw _ _ ihb ih =>
    intro o2 h2
    cases h2 with
    | keep hn _ => exact absurd hn (gateWinner_not_noMatch E hw)
    | gate hw' hb' hr' =>
      have := GateWinner.unique E hw hw'
      subst this
      rw [ihb _ hb', ih _ hr']
  | meas hw _ _ ihb ih =>
    intro o2 h2
    cases h2 with
    | keep hn _ => exact absurd hn (measWinner_not_noMatch E hw)
    | meas hw' hb' hr' =>
      have := MeasWinner.unique hw hw'
      subst this
      rw [ihb _ hb', ih _ hr']

end
end QV.C17

namespace QV.C17
open QV QV.Ast

/-! ### the projection onto C16's alphabet is faithful -/

theorem idxOf_eq_iff {α : Type} [DecidableEq α] (l : List α) (a b : α) (ha : a ∈ l) :
    l.idxOf a = l.idxOf b ↔ a = b := by
  constructor
  · intro h
    have h1 : l.idxOf a < l.length := List.idxOf_lt_length_iff.mpr ha
    have h2 : l[l.idxOf a]'h1 = a := List.getElem_idxOf h1
    have h3 : l.idxOf b < l.length := h ▸ h1
    have h4 : l[l.idxOf b]'h3 = b := List.getElem_idxOf h3
    rw [← h2, ← h4]
    congr 1
  · intro h; rw [h]

section
variable {κ : Type} (E : Env κ)

theorem toMod16_injective : Function.Injective toMod16 := by
  intro a b h; cases a <;> cases b <;> simp_all [toMod16]

theorem map_toMod16_inj : ∀ (a b : List GateModifier), a.map toMod16 = b.map toMod16 → a = b
  | [], [], _ => rfl
  | [], _ :: _, h => by simp at h
  | _ :: _, [], h => by simp at h
  | x :: xs, y :: ys, h => by
    simp only [List.map_cons, List.cons.injEq] at h
    rw [toMod16_injective h.1, map_toMod16_inj xs ys h.2]

theorem qubitOk_iff (cq gq : Qubit) : C16.QubitOk (toQubit16 cq) (toQubit16 gq) ↔ QubitOkAst cq gq := by
  rcases cq with a | a | a <;> rcases gq with b | b | b <;> simp [C16.QubitOk, QubitOkAst, toQubit16]

theorem paramOk_iff (univ : List PExpr) (cp gp : PExpr) (hc : E.simp cp ∈ univ) :
    C16.ParamOk (toParam16 E univ cp) (toParam16 E univ gp) ↔
      ((∃ v, E.simp cp = .var v) ∨ E.simp cp = E.simp gp) := by
  unfold C16.ParamOk toParam16
  cases hcs : E.simp cp <;> cases hgs : E.simp gp <;>
    simp [classOf, idxOf_eq_iff univ _ _ (hcs ▸ hc)]

theorem simp_mem_universe (cs : List CalDef) (g : Gate) (c : CalDef) (hc : c ∈ cs) (cp : PExpr)
    (hp : cp ∈ c.identifier.parameters) : E.simp cp ∈ paramUniverse E cs g := by
  simp only [paramUniverse, List.mem_append, List.mem_map, List.mem_flatMap]
  exact Or.inr ⟨cp, Or.inl ⟨c, hc, hp⟩, rfl⟩

/-- C16's matching relation on the projection is the matching relation on the real identifiers -/
theorem gateMatches_iff (cs : List CalDef) (g : Gate) (c : CalDef) (hc : c ∈ cs) (idx : Nat) :
    C16.GateMatches (toCal16 E (paramUniverse E cs g) c idx) (toGate16 E (paramUniverse E cs g) g) ↔
      GateMatchesAst E c g := by
  unfold C16.GateMatches GateMatchesAst
  simp only [toCal16, toGate16, List.length_map, List.getElem?_map]
  constructor
  · rintro ⟨h1, h2, h3, h4, h5, h6⟩
    refine ⟨h1, map_toMod16_inj _ _ h2, h3, h4, ?_, ?_⟩
    · intro i cq gq hcq hgq
      exact (qubitOk_iff cq gq).mp (h5 i _ _ (by simp [hcq]) (by simp [hgq]))
    · intro i cp gp hcp hgp
      have hmem := simp_mem_universe E cs g c hc cp (List.mem_of_getElem? hcp)
      exact (paramOk_iff E _ cp gp hmem).mp (h6 i _ _ (by simp [hcp]) (by simp [hgp]))
  · rintro ⟨h1, h2, h3, h4, h5, h6⟩
    refine ⟨h1, by rw [h2], h3, h4, ?_, ?_⟩
    · intro i cq16 gq16 hcq hgq
      obtain ⟨cq, hcq', rfl⟩ := Option.map_eq_some_iff.mp hcq
      obtain ⟨gq, hgq', rfl⟩ := Option.map_eq_some_iff.mp hgq
      exact (qubitOk_iff cq gq).mpr (h5 i cq gq hcq' hgq')
    · intro i cp16 gp16 hcp hgp
      obtain ⟨cp, hcp', rfl⟩ := Option.map_eq_some_iff.mp hcp
      obtain ⟨gp, hgp', rfl⟩ := Option.map_eq_some_iff.mp hgp
      have hmem := simp_mem_universe E cs g c hc cp (List.mem_of_getElem? hcp')
      exact (paramOk_iff E _ cp gp hmem).mpr (h6 i cp gp hcp' hgp')

theorem measMatches_iff (c : MCalDef) (m : Measurement) (idx : Nat) :
    C16.MeasMatches (toMCal16 c idx) (toMeas16 m) ↔ MeasMatchesAst c m := by
  unfold C16.MeasMatches MeasMatchesAst
  simp only [toMCal16, toMeas16, Option.isSome_map]
  rcases hq : c.identifier.qubit with a | a | a <;> rcases hm : m.qubit with b | b | b <;>
    simp [toQubit16]

end

end QV.C17

namespace QV.C17
open QV QV.Ast

/-! ### `add_instruction`'s routing, kind by kind; the with-source-map loop -/

theorem upsert_mem {K V : Type} [DecidableEq K] (m : List (K × V)) (k : K) (v : V) :
    (k, v) ∈ upsert m k v := by
  induction m with
  | nil => simp [upsert]
  | cons kv rest ih =>
    obtain ⟨a, b⟩ := kv
    unfold upsert
    split
    · simp
    · exact List.mem_cons_of_mem _ ih

theorem replace_mem {α σ : Type} [DecidableEq σ] (sig : α → σ) (cs : List α) (v : α) :
    v ∈ (C16.replace sig cs v).1 := by
  unfold C16.replace
  split
  · rename_i i hi
    obtain ⟨c, hc, _, _⟩ := C16.sigPos_some sig _ cs i hi
    have hlt : i < cs.length := (List.getElem?_eq_some_iff.mp hc).1
    exact List.mem_iff_getElem.mpr ⟨i, by simpa using hlt, by simp⟩
  · simp

/-- the `start_length == end_length` test of the with-source-map loop recognises exactly the kinds that
`add_instruction` routes outside the body -/
theorem add_hoists_iff (p : Prog) (i : Instruction) :
    (p.add i).instructions.length = p.instructions.length ↔ isDefinition i = true := by
  rw [add_instructions]
  cases isDefinition i <;> simp

/-- every kind routed outside the body is kept: the instruction itself is listed among the definitions of the
program (`to_instructions` rebuilds it from its container) -/
theorem add_definition_stored (p : Prog) (i : Instruction) (h : isDefinition i = true) :
    i ∈ (p.add i).definitions := by
  cases i <;> simp only [isDefinition] at h <;> try (cases h)
  all_goals simp only [Prog.add, Prog.definitions, Cals.toInstructions, List.mem_append, List.mem_map]
  · -- calibrationDefinition
    rename_i id is
    refine Or.inl (Or.inl (Or.inr (Or.inl ⟨⟨id, is⟩, replace_mem _ _ _, rfl⟩)))
  · rename_i n ps qs is
    exact Or.inr ⟨(n, _), upsert_mem _ _ _, rfl⟩
  · rename_i d
    exact Or.inl (Or.inl (Or.inl (Or.inl (Or.inl (Or.inr ⟨(d.name, _), upsert_mem _ _ _, rfl⟩)))))
  · rename_i f
    exact Or.inl (Or.inl (Or.inl (Or.inl (Or.inr ⟨(f.identifier, _), upsert_mem _ _ _, rfl⟩))))
  · rename_i g
    exact Or.inl (Or.inr ⟨(g.name, _), upsert_mem _ _ _, rfl⟩)
  · rename_i id is
    refine Or.inl (Or.inl (Or.inr (Or.inr ⟨⟨id, is⟩, replace_mem _ _ _, rfl⟩)))
  · rename_i pr
    have hn : (pr.name == "EXTERN") = true := h
    simp only [hn, if_true]
    exact Or.inl (Or.inl (Or.inl (Or.inl (Or.inl (Or.inl ⟨(externKey pr, _), upsert_mem _ _ _, rfl⟩)))))
  · rename_i w
    exact Or.inl (Or.inl (Or.inl (Or.inr ⟨(w.name, _), upsert_mem _ _ _, rfl⟩)))


/-- an instruction that is not a definition leaves every container but the body alone -/
theorem add_nondefinition (p : Prog) (i : Instruction) (h : isDefinition i = false) :
    (p.add i).definitions = p.definitions ∧ (p.add i).instructions = p.instructions ++ [i] := by
  refine ⟨?_, by rw [add_instructions, h]; simp⟩
  cases i <;> simp only [isDefinition] at h <;> try (cases h)
  all_goals try rfl
  rename_i pr
  have hn : (pr.name == "EXTERN") = false := h
  simp [Prog.add, hn, Prog.definitions]

/-- the relative target indices the with-source-map loop must remove: the position (among the instructions that
land in the body) of every hoisted instruction -/
def removedSpec : Nat → List Instruction → List Nat
  | _, [] => []
  | k, i :: rest => if isDefinition i then k :: removedSpec k rest else removedSpec (k + 1) rest

theorem appendLoop_removed (previous : Nat) :
    ∀ (out : List Instruction) (p : Prog) (removed : List Nat), previous ≤ p.instructions.length →
      (Prog.appendLoop previous p out removed).2 =
        removed ++ removedSpec (p.instructions.length - previous) out := by
  intro out
  induction out with
  | nil => intro p removed _; simp [Prog.appendLoop, removedSpec]
  | cons i rest ih =>
    intro p removed hle
    simp only [Prog.appendLoop, removedSpec]
    have hadd := add_instructions p i
    cases hd : isDefinition i
    · have hlen : (p.add i).instructions.length = p.instructions.length + 1 := by
        rw [hadd, hd]; simp
      have hne : (p.instructions.length == (p.add i).instructions.length) = false := by
        rw [hlen]; simp
      simp only [hne, Bool.false_eq_true, if_false]
      rw [ih _ _ (by omega), hlen]
      congr 2
      omega
    · have hlen : (p.add i).instructions.length = p.instructions.length := by
        rw [hadd, hd]; simp
      have heq : (p.instructions.length == (p.add i).instructions.length) = true := by
        rw [hlen]; simp
      simp only [heq, if_true]
      rw [ih _ _ (by omega), hlen]
      simp

end QV.C17

namespace QV.C17
open QV QV.Ast

/-! ### nested definitions in gate-calibration bodies -/

theorem bindQ_none (cqs gqs : List Qubit) (n : String) (h : n ∉ qubitVarNames cqs) :
    bindQ cqs gqs n = none := by
  induction cqs generalizing gqs with
  | nil => simp [bindQ]
  | cons cq cqs ih =>
    cases gqs with
    | nil => simp [bindQ]
    | cons gq gqs =>
      rw [bindQ_cons]
      have h1 : n ∉ qubitVarNames cqs := by
        intro hm; apply h
        simp only [qubitVarNames, List.filterMap_cons] at hm ⊢
        split <;> simp_all
      have h2 : cq ≠ .variable n := by
        intro hc; apply h; subst hc
        simp [qubitVarNames]
      simp [ih gqs h1, h2]

theorem bindP_none (cps gps : List PExpr) (n : String) (h : n ∉ paramVarNames cps) :
    bindP cps gps n = none := by
  induction cps generalizing gps with
  | nil => simp [bindP]
  | cons cp cps ih =>
    cases gps with
    | nil => simp [bindP]
    | cons gp gps =>
      rw [bindP_cons]
      have h1 : n ∉ paramVarNames cps := by
        intro hm; apply h
        simp only [paramVarNames, List.filterMap_cons] at hm ⊢
        split <;> simp_all
      have h2 : cp ≠ .var n := by
        intro hc; apply h; subst hc
        simp [paramVarNames]
      simp [ih gps h1, h2]

theorem subst_id (σ : String → Option PExpr) (e : PExpr) (h : ∀ x ∈ e.vars, σ x = none) :
    QV.subst σ e = e := by
  induction e with
  | address r => rfl
  | call f e ih => simp [QV.subst, ih (by simpa [Expr.vars] using h)]
  | bin l o r ihl ihr =>
    simp only [Expr.vars, List.mem_append] at h
    simp [QV.subst, ihl (fun x hx => h x (Or.inl hx)), ihr (fun x hx => h x (Or.inr hx))]
  | number z => rfl
  | pi => rfl
  | pre o e ih => simp [QV.subst, ih (by simpa [Expr.vars] using h)]
  | var x => simp [QV.subst, h x (by simp [Expr.vars])]

theorem substQ_free (σ : String → Option Qubit) (qn : List String) (hσ : ∀ n, n ∉ qn → σ n = none)
    (q : Qubit) (h : qubitFree qn q = true) : substQ σ q = q := by
  rcases q with k | k | n <;> simp_all [substQ, qubitFree]

theorem map_substQ_free (σ : String → Option Qubit) (qn : List String) (hσ : ∀ n, n ∉ qn → σ n = none)
    (qs : List Qubit) (h : qs.all (qubitFree qn) = true) : qs.map (substQ σ) = qs := by
  induction qs with
  | nil => rfl
  | cons q qs ih =>
    simp only [List.all_cons, Bool.and_eq_true] at h
    simp [substQ_free σ qn hσ q h.1, ih h.2]

theorem subst_free (σ : String → Option PExpr) (pn : List String) (hσ : ∀ n, n ∉ pn → σ n = none)
    (e : PExpr) (h : exprFree pn e = true) : QV.subst σ e = e := by
  apply subst_id
  intro x hx
  apply hσ
  simp only [exprFree, List.all_eq_true, Bool.not_eq_true', List.contains_eq_mem, decide_eq_false_iff_not] at h
  exact h x hx


theorem map_subst_free (σ : String → Option PExpr) (pn : List String) (hσ : ∀ n, n ∉ pn → σ n = none)
    (es : List PExpr) (h : es.all (exprFree pn) = true) : es.map (QV.subst σ) = es := by
  induction es with
  | nil => rfl
  | cons e es ih =>
    simp only [List.all_cons, Bool.and_eq_true] at h
    simp [subst_free σ pn hσ e h.1, ih h.2]

theorem map_terms_free (f : PExpr → PExpr) (pn : List String)
    (hf : ∀ e, exprFree pn e = true → f e = e) (ts : List PauliTerm)
    (h : ts.all (fun t => exprFree pn t.expression) = true) :
    ts.map (fun t => { t with expression := f t.expression }) = ts := by
  induction ts with
  | nil => rfl
  | cons t ts ih =>
    simp only [List.all_cons, Bool.and_eq_true] at h
    simp [hf _ h.1, ih h.2]

theorem map_gates_free (fq : Qubit → Qubit) (fe : PExpr → PExpr) (qn pn : List String)
    (hq : ∀ qs : List Qubit, qs.all (qubitFree qn) = true → qs.map fq = qs)
    (he : ∀ es : List PExpr, es.all (exprFree pn) = true → es.map fe = es) (gs : List Gate)
    (h : gs.all (gateFree qn pn) = true) : (gs.map (mapGateQ fq)).map (mapGateE fe) = gs := by
  induction gs with
  | nil => rfl
  | cons t ts ih =>
    simp only [List.all_cons, Bool.and_eq_true, gateFree] at h
    simp [mapGateQ, mapGateE, hq _ h.1.1, he _ h.1.2, ih h.2]

/-- an admitted nested definition is instantiated by the code exactly as the generic traversals say -/
theorem gateSubstCode_eq_nested (c : CalDef) (g : Gate) (i : Instruction)
    (h : nestedOkB (qubitVarNames c.identifier.qubits) (paramVarNames c.identifier.parameters) i = true) :
    gateSubstCode c g i = gateSubstSpec c g i := by
  have hq : ∀ n, n ∉ qubitVarNames c.identifier.qubits → bindQ c.identifier.qubits g.qubits n = none :=
    fun n hn => bindQ_none _ _ n hn
  have hp : ∀ n, n ∉ paramVarNames c.identifier.parameters →
      bindP c.identifier.parameters g.parameters n = none := fun n hn => bindP_none _ _ n hn
  have hσp : (fun x => List.lookup x (variableExpansions c.identifier.parameters g.parameters [])) =
      bindP c.identifier.parameters g.parameters := by funext x; simp [lookup_variableExpansions]
  simp only [gateSubstCode, gateSubstSpec, hσp]
  cases i <;> simp only [nestedOkB] at h <;> try (cases h)
  case calibrationDefinition id is =>
    simp [substituteQubitVariables, applyToExpressions, mapQubits, mapExprs, map_substQ_free _ _ hq _ h]
  case circuitDefinition n ps qs is => rfl
  case frameDefinition fd =>
    simp [substituteQubitVariables, applyToExpressions, mapQubits, mapExprs, mapFrameQ,
      map_substQ_free _ _ hq _ h]
  case measureCalibrationDefinition id is =>
    simp [substituteQubitVariables, applyToExpressions, mapQubits, mapExprs, substQ_free _ _ hq _ h]
  case gateDefinition gd =>
    obtain ⟨name, params, spec⟩ := gd
    cases spec with
    | matrix rows => simp [substituteQubitVariables, applyToExpressions, mapQubits, mapExprs, mapSpecE]
    | permutation perm => simp [substituteQubitVariables, applyToExpressions, mapQubits, mapExprs, mapSpecE]
    | pauliSum s =>
      simp only [] at h
      have := map_terms_free (QV.subst (bindP c.identifier.parameters g.parameters)) _
        (fun e he => subst_free _ _ hp e he) s.terms h
      simp [substituteQubitVariables, applyToExpressions, mapQubits, mapExprs, mapSpecE, this]
    | sequence s =>
      simp only [] at h
      have := map_gates_free (substQ (bindQ c.identifier.qubits g.qubits))
        (QV.subst (bindP c.identifier.parameters g.parameters)) _ _
        (fun qs hqs => map_substQ_free _ _ hq qs hqs) (fun es hes => map_subst_free _ _ hp es hes) s.gates h
      simp [substituteQubitVariables, applyToExpressions, mapQubits, mapExprs, mapSpecE, this]

/-- plain instructions and admitted nested definitions alike -/
theorem gateSubstCode_eq_admit (c : CalDef) (g : Gate) (i : Instruction)
    (h : admitB (qubitVarNames c.identifier.qubits) (paramVarNames c.identifier.parameters) i = true) :
    gateSubstCode c g i = gateSubstSpec c g i := by
  simp only [admitB, Bool.or_eq_true] at h
  rcases h with h | h
  · exact gateSubstCode_eq c g i h
  · exact gateSubstCode_eq_nested c g i h

end QV.C17

namespace QV.C17
open QV QV.Ast

/-! ### nested definitions in measurement-calibration bodies -/

theorem map_attr_id (g : PExpr → PExpr) (attrs : List (String × AttributeValue))
    (h : ∀ e ∈ attrs.filterMap (fun kv => match kv.2 with | .expression e => some e | _ => none), g e = e) :
    attrs.map (mapAttribute g) = attrs := by
  induction attrs with
  | nil => rfl
  | cons kv rest ih =>
    obtain ⟨k, v⟩ := kv
    cases v with
    | string s =>
      simp only [List.filterMap_cons] at h
      simp [mapAttribute, ih h]
    | expression e =>
      simp only [List.filterMap_cons, List.mem_cons, forall_eq_or_imp] at h
      simp [mapAttribute, h.1, ih h.2]

theorem map_id_of_forall {α : Type} (g : α → α) (l : List α) (h : ∀ e ∈ l, g e = e) : l.map g = l := by
  induction l with
  | nil => rfl
  | cons a t ih =>
    simp [h a (List.mem_cons_self ..), ih (fun e he => h e (List.mem_cons_of_mem _ he))]

/-- the expression traversal is the identity on a nested definition whose expressions it fixes -/
theorem mapExprs_nested_id (g : PExpr → PExpr) (qn pn : List String) (i : Instruction)
    (hk : nestedOkB qn pn i = true) (h : ∀ e ∈ nestedExprs i, g e = e) : mapExprs g i = i := by
  cases i <;> simp only [nestedOkB] at hk <;> try (cases hk)
  case calibrationDefinition id is =>
    simp only [nestedExprs] at h
    simp [mapExprs, map_id_of_forall g _ h]
  case circuitDefinition => rfl
  case frameDefinition fd =>
    simp only [nestedExprs] at h
    simp [mapExprs, map_attr_id g _ h]
  case measureCalibrationDefinition => rfl
  case gateDefinition gd =>
    obtain ⟨name, params, spec⟩ := gd
    cases spec with
    | matrix rows =>
      simp only [nestedExprs, List.mem_flatten] at h
      have : rows.map (fun r => r.map g) = rows :=
        map_id_of_forall _ _ (fun r hr => map_id_of_forall g r (fun e he => h e ⟨r, hr, he⟩))
      simp [mapExprs, mapSpecE, this]
    | permutation perm => simp [mapExprs, mapSpecE]
    | pauliSum s =>
      simp only [nestedExprs, List.mem_map] at h
      have : s.terms.map (fun t => { t with expression := g t.expression }) = s.terms :=
        map_id_of_forall _ _ (fun t ht => by simp [h t.expression ⟨t, ht, rfl⟩])
      simp [mapExprs, mapSpecE, this]
    | sequence s =>
      simp only [nestedExprs, List.mem_flatMap] at h
      have : s.gates.map (mapGateE g) = s.gates :=
        map_id_of_forall _ _ (fun t ht => by
          simp [mapGateE, map_id_of_forall g t.parameters (fun e he => h e ⟨t, ht, he⟩)])
      simp [mapExprs, mapSpecE, this]

theorem measBindQ_none (c : MCalDef) (m : Measurement) (n : String)
    (h : n ∉ qubitVarNames [c.identifier.qubit]) : measBindQ c m n = none := by
  unfold measBindQ
  split
  · rename_i hq
    exfalso; apply h
    simp [qubitVarNames, hq]
  · rfl

/-- an admitted nested definition in a measurement calibration body is left as written by the code and by the
specification alike -/
theorem measSubstCode_eq_nested (c : MCalDef) (m : Measurement) (i : Instruction)
    (hk : nestedOkB (qubitVarNames [c.identifier.qubit]) [] i = true)
    (hf : ∀ f, c.identifier.target = some f →
      ∀ e ∈ nestedExprs i, ∀ r ∈ e.addrs, r.name ≠ f) :
    measSubstCode c m i = measSubstSpec c m i := by
  have hq : ∀ n, n ∉ qubitVarNames [c.identifier.qubit] → measBindQ c m n = none :=
    fun n hn => measBindQ_none c m n hn
  -- the qubit traversal fixes the definition
  have hmq : mapQubits (substQ (measBindQ c m)) i = i := by
    cases i <;> simp only [nestedOkB] at hk <;> try (cases hk)
    case calibrationDefinition id is => simp [mapQubits, map_substQ_free _ _ hq _ hk]
    case circuitDefinition => rfl
    case frameDefinition fd => simp [mapQubits, mapFrameQ, map_substQ_free _ _ hq _ hk]
    case measureCalibrationDefinition id is => simp [mapQubits, substQ_free _ _ hq _ hk]
    case gateDefinition gd =>
      obtain ⟨name, params, spec⟩ := gd
      cases spec with
      | matrix rows => rfl
      | permutation perm => rfl
      | pauliSum s => rfl
      | sequence s =>
        simp only [] at hk
        have : s.gates.map (mapGateQ (substQ (measBindQ c m))) = s.gates :=
          map_id_of_forall _ _ (fun t ht => by
            have := (List.all_eq_true.mp hk) t ht
            simp only [gateFree, Bool.and_eq_true] at this
            simp [mapGateQ, map_substQ_free _ _ hq _ this.1])
        simp [mapQubits, this]
  -- the code does nothing to it
  have hcode : measSubstCode c m i = i := by
    cases i <;> simp only [nestedOkB] at hk <;> try (cases hk)
    all_goals simp [measSubstCode, substituteQubitVariables, measureTargetSubst]
  rw [hcode]
  simp only [measSubstSpec, hmq]
  cases hft : c.identifier.target with
  | none => simp
  | some f =>
    cases hat : m.target with
    | none => simp
    | some a =>
      simp only []
      have hd : mapDirectRefs (retarget f a) i = i := by
        cases i <;> simp only [nestedOkB] at hk <;> try (cases hk)
        all_goals rfl
      have he : mapExprs (mapAddr (retarget f a)) i = i :=
        mapExprs_nested_id _ _ _ i hk (fun e he => mapAddr_retarget_id f a e (hf f hft e he))
      have hp : retargetPragma f a i = i := by
        cases i <;> simp only [nestedOkB] at hk <;> try (cases hk)
        all_goals rfl
      simp [retargetInstr, mapMemRefs, hd, he, hp]

theorem measSubstCode_eq_admit (c : MCalDef) (m : Measurement) (i : Instruction)
    (h : admitMB (qubitVarNames [c.identifier.qubit]) c.identifier.target i = true)
    (hm : c.identifier.target.isSome = m.target.isSome) :
    measSubstCode c m i = measSubstSpec c m i := by
  simp only [admitMB, Bool.or_eq_true, Bool.and_eq_true] at h
  rcases h with ⟨hp, hc⟩ | ⟨hk, hf⟩
  · exact measSubstCode_eq c m i hp hc hm
  · apply measSubstCode_eq_nested c m i hk
    intro f hft e he r hr
    rw [hft] at hf
    simp only [List.all_eq_true, bne_iff_ne, ne_eq] at hf
    exact hf e he r hr

end QV.C17

namespace QV.C17
open QV QV.Ast

/-! ### definitions are stored under their keys, for every kind -/

theorem upsert_keys_mono {K V : Type} [DecidableEq K] (m : List (K × V)) (k : K) (v : V) (k' : K)
    (h : k' ∈ m.map (·.1)) : k' ∈ (upsert m k v).map (·.1) :=
  (upsert_keys m k v k').mpr (Or.inr h)

theorem upsert_key_mem {K V : Type} [DecidableEq K] (m : List (K × V)) (k : K) (v : V) :
    k ∈ (upsert m k v).map (·.1) := (upsert_keys m k v k).mpr (Or.inl rfl)

theorem replace_sigs {α σ : Type} [DecidableEq σ] (sig : α → σ) (cs : List α) (v : α) (s : σ)
    (h : s ∈ cs.map sig) : s ∈ (C16.replace sig cs v).1.map sig := by
  unfold C16.replace
  split
  · rename_i i hi
    obtain ⟨c, hc, hs, _⟩ := C16.sigPos_some sig _ cs i hi
    obtain ⟨a, ha, rfl⟩ := List.mem_map.mp h
    obtain ⟨j, hj, rfl⟩ := List.getElem_of_mem ha
    by_cases hij : j = i
    · subst hij
      have : cs[j] = c := by
        have := List.getElem?_eq_getElem hj
        rw [this] at hc; exact Option.some.inj hc
      rw [this, hs]
      exact List.mem_map.mpr ⟨v, by
        exact List.mem_iff_getElem.mpr ⟨j, by simpa using hj, by simp⟩, rfl⟩
    · exact List.mem_map.mpr ⟨cs[j], by
        exact List.mem_iff_getElem.mpr ⟨j, by simpa using hj, by simp [List.getElem_set, Ne.symm hij]⟩, rfl⟩
  · simp only [List.map_append, List.mem_append]
    exact Or.inl h

theorem replace_sig_mem {α σ : Type} [DecidableEq σ] (sig : α → σ) (cs : List α) (v : α) :
    sig v ∈ (C16.replace sig cs v).1.map sig :=
  List.mem_map.mpr ⟨v, replace_mem sig cs v, rfl⟩


theorem keys_subset (p q : Prog)
    (h1 : ∀ s ∈ p.cals.cals.map (·.identifier), s ∈ q.cals.cals.map (·.identifier))
    (h2 : ∀ s ∈ p.cals.mcals.map (·.identifier), s ∈ q.cals.mcals.map (·.identifier))
    (h3 : ∀ a ∈ p.circuits.map (·.1), a ∈ q.circuits.map (·.1))
    (h4 : ∀ a ∈ p.frames.map (·.1), a ∈ q.frames.map (·.1))
    (h5 : ∀ a ∈ p.memoryRegions.map (·.1), a ∈ q.memoryRegions.map (·.1))
    (h6 : ∀ a ∈ p.gateDefinitions.map (·.1), a ∈ q.gateDefinitions.map (·.1))
    (h7 : ∀ a ∈ p.waveforms.map (·.1), a ∈ q.waveforms.map (·.1))
    (h8 : ∀ a ∈ p.externs.map (·.1), a ∈ q.externs.map (·.1)) :
    ∀ k ∈ p.keys, k ∈ q.keys := by
  intro k hk
  simp only [Prog.keys, List.mem_append, List.mem_map] at hk ⊢
  rcases hk with ((((((⟨c, hc, rfl⟩ | ⟨c, hc, rfl⟩) | ⟨a, ha, rfl⟩) | ⟨a, ha, rfl⟩) | ⟨a, ha, rfl⟩) |
    ⟨a, ha, rfl⟩) | ⟨a, ha, rfl⟩) | ⟨a, ha, rfl⟩
  · obtain ⟨c', hc', he⟩ := List.mem_map.mp (h1 _ (List.mem_map.mpr ⟨c, hc, rfl⟩))
    exact Or.inl (Or.inl (Or.inl (Or.inl (Or.inl (Or.inl (Or.inl ⟨c', hc', by rw [he]⟩))))))
  · obtain ⟨c', hc', he⟩ := List.mem_map.mp (h2 _ (List.mem_map.mpr ⟨c, hc, rfl⟩))
    exact Or.inl (Or.inl (Or.inl (Or.inl (Or.inl (Or.inl (Or.inr ⟨c', hc', by rw [he]⟩))))))
  · obtain ⟨b, hb, he⟩ := List.mem_map.mp (h3 _ (List.mem_map.mpr ⟨a, ha, rfl⟩))
    exact Or.inl (Or.inl (Or.inl (Or.inl (Or.inl (Or.inr ⟨b, hb, by rw [he]⟩)))))
  · obtain ⟨b, hb, he⟩ := List.mem_map.mp (h4 _ (List.mem_map.mpr ⟨a, ha, rfl⟩))
    exact Or.inl (Or.inl (Or.inl (Or.inl (Or.inr ⟨b, hb, by rw [he]⟩))))
  · obtain ⟨b, hb, he⟩ := List.mem_map.mp (h5 _ (List.mem_map.mpr ⟨a, ha, rfl⟩))
    exact Or.inl (Or.inl (Or.inl (Or.inr ⟨b, hb, by rw [he]⟩)))
  · obtain ⟨b, hb, he⟩ := List.mem_map.mp (h6 _ (List.mem_map.mpr ⟨a, ha, rfl⟩))
    exact Or.inl (Or.inl (Or.inr ⟨b, hb, by rw [he]⟩))
  · obtain ⟨b, hb, he⟩ := List.mem_map.mp (h7 _ (List.mem_map.mpr ⟨a, ha, rfl⟩))
    exact Or.inl (Or.inr ⟨b, hb, by rw [he]⟩)
  · obtain ⟨b, hb, he⟩ := List.mem_map.mp (h8 _ (List.mem_map.mpr ⟨a, ha, rfl⟩))
    exact Or.inr ⟨b, hb, by rw [he]⟩

/-- `add_instruction` never forgets a key -/
theorem add_keys_mono (p : Prog) (i : Instruction) : ∀ k ∈ p.keys, k ∈ (p.add i).keys := by
  have T : ∀ {α : Type} (l : List α), ∀ a ∈ l, a ∈ l := fun _ _ h => h
  cases i
  case calibrationDefinition id is =>
    exact keys_subset _ _ (fun s hs => replace_sigs _ _ _ s hs) (T _) (T _) (T _) (T _) (T _) (T _) (T _)
  case measureCalibrationDefinition id is =>
    exact keys_subset _ _ (T _) (fun s hs => replace_sigs _ _ _ s hs) (T _) (T _) (T _) (T _) (T _) (T _)
  case circuitDefinition n ps qs is =>
    exact keys_subset _ _ (T _) (T _) (fun a ha => upsert_keys_mono _ _ _ a ha) (T _) (T _) (T _) (T _) (T _)
  case frameDefinition f =>
    exact keys_subset _ _ (T _) (T _) (T _) (fun a ha => upsert_keys_mono _ _ _ a ha) (T _) (T _) (T _) (T _)
  case declaration d =>
    exact keys_subset _ _ (T _) (T _) (T _) (T _) (fun a ha => upsert_keys_mono _ _ _ a ha) (T _) (T _) (T _)
  case gateDefinition g =>
    exact keys_subset _ _ (T _) (T _) (T _) (T _) (T _) (fun a ha => upsert_keys_mono _ _ _ a ha) (T _) (T _)
  case waveformDefinition w =>
    exact keys_subset _ _ (T _) (T _) (T _) (T _) (T _) (T _) (fun a ha => upsert_keys_mono _ _ _ a ha) (T _)
  case pragma pr =>
    simp only [Prog.add]
    split
    · exact keys_subset _ _ (T _) (T _) (T _) (T _) (T _) (T _) (T _) (fun a ha => upsert_keys_mono _ _ _ a ha)
    · exact keys_subset _ _ (T _) (T _) (T _) (T _) (T _) (T _) (T _) (T _)
  all_goals exact keys_subset _ _ (T _) (T _) (T _) (T _) (T _) (T _) (T _) (T _)

/-- `add_instruction` stores a definition under its key -/
theorem add_key_mem (p : Prog) (i : Instruction) (k : DefKey) (h : defKey i = some k) : k ∈ (p.add i).keys := by
  cases i <;> simp only [defKey] at h <;> try (cases h)
  case calibrationDefinition id is =>
    simp only [Prog.add, Prog.keys, List.mem_append, List.mem_map]
    obtain ⟨c, hc, he⟩ := List.mem_map.mp (replace_sig_mem (fun c : CalDef => c.identifier) p.cals.cals ⟨id, is⟩)
    exact Or.inl (Or.inl (Or.inl (Or.inl (Or.inl (Or.inl (Or.inl ⟨c, hc, by rw [he]⟩))))))
  case measureCalibrationDefinition id is =>
    simp only [Prog.add, Prog.keys, List.mem_append, List.mem_map]
    obtain ⟨c, hc, he⟩ := List.mem_map.mp (replace_sig_mem (fun c : MCalDef => c.identifier) p.cals.mcals ⟨id, is⟩)
    exact Or.inl (Or.inl (Or.inl (Or.inl (Or.inl (Or.inl (Or.inr ⟨c, hc, by rw [he]⟩))))))
  case circuitDefinition n ps qs is =>
    simp only [Prog.add, Prog.keys, List.mem_append, List.mem_map]
    obtain ⟨b, hb, he⟩ := List.mem_map.mp (upsert_key_mem p.circuits n (Instruction.circuitDefinition n ps qs is))
    exact Or.inl (Or.inl (Or.inl (Or.inl (Or.inl (Or.inr ⟨b, hb, by rw [he]⟩)))))
  case frameDefinition f =>
    simp only [Prog.add, Prog.keys, List.mem_append, List.mem_map]
    obtain ⟨b, hb, he⟩ := List.mem_map.mp (upsert_key_mem p.frames f.identifier (Instruction.frameDefinition f))
    exact Or.inl (Or.inl (Or.inl (Or.inl (Or.inr ⟨b, hb, by rw [he]⟩))))
  case declaration d =>
    simp only [Prog.add, Prog.keys, List.mem_append, List.mem_map]
    obtain ⟨b, hb, he⟩ := List.mem_map.mp (upsert_key_mem p.memoryRegions d.name (Instruction.declaration d))
    exact Or.inl (Or.inl (Or.inl (Or.inr ⟨b, hb, by rw [he]⟩)))
  case gateDefinition g =>
    simp only [Prog.add, Prog.keys, List.mem_append, List.mem_map]
    obtain ⟨b, hb, he⟩ := List.mem_map.mp (upsert_key_mem p.gateDefinitions g.name (Instruction.gateDefinition g))
    exact Or.inl (Or.inl (Or.inr ⟨b, hb, by rw [he]⟩))
  case waveformDefinition w =>
    simp only [Prog.add, Prog.keys, List.mem_append, List.mem_map]
    obtain ⟨b, hb, he⟩ := List.mem_map.mp (upsert_key_mem p.waveforms w.name (Instruction.waveformDefinition w))
    exact Or.inl (Or.inr ⟨b, hb, by rw [he]⟩)
  case pragma pr =>
    split at h
    · rename_i hn
      cases h
      simp only [Prog.add, hn, if_true, Prog.keys, List.mem_append, List.mem_map]
      obtain ⟨b, hb, he⟩ := List.mem_map.mp (upsert_key_mem p.externs (externKey pr) (Instruction.pragma pr))
      exact Or.inr ⟨b, hb, by rw [he]⟩
    · cases h

theorem addMany_keys_mono (p : Prog) (is : List Instruction) : ∀ k ∈ p.keys, k ∈ (p.addMany is).keys := by
  induction is generalizing p with
  | nil => intro k hk; exact hk
  | cons i is ih => intro k hk; rw [addMany_cons]; exact ih _ k (add_keys_mono p i k hk)

/-- every definition handed to `add_instructions` is stored under its key (possibly replaced later by another
definition with the same key) -/
theorem addMany_key_mem (p : Prog) (is : List Instruction) (i : Instruction) (k : DefKey)
    (hi : i ∈ is) (hk : defKey i = some k) : k ∈ (p.addMany is).keys := by
  induction is generalizing p with
  | nil => cases hi
  | cons j is ih =>
    rw [addMany_cons]
    rcases List.mem_cons.mp hi with rfl | hi
    · exact addMany_keys_mono _ _ k (add_key_mem p i k hk)
    · exact ih _ hi

theorem defKey_isSome_iff (i : Instruction) : (defKey i).isSome = isDefinition i := by
  cases i <;> simp [defKey, isDefinition]
  split <;> simp_all

end QV.C17
