import QV.C17.Lemmas
/-
C17 — Calibration expansion is a complete, faithful substitution.

Property theorems.  All of them quantify over arbitrary calibration sets, programs, instructions, fuel and
breadcrumb lists (no size bound), over every simplifier oracle and every instruction key (`Env`).

The statement is FALSE of the code in one respect (known finding `C17/formal-target-in-other-instructions`):
"its target replaces uses of the target name" — the code replaces the formal target of a `DEFCAL MEASURE` only
in the `memory_reference` of CAPTURE / RAW-CAPTURE, in the target of a nested MEASURE and in the data of
`PRAGMA LOAD-MEMORY`; in any other position (`MOVE addr 1`, `addr[0]` inside an expression, LOAD / STORE /
EXCHANGE operands, JUMP-WHEN conditions …) the formal name survives.  The full statement is therefore proved
as `…_partial` under the decidable hypothesis `coveredB cals` (calibration bodies consist of plain instructions
and use formal targets only in those four positions), and its negation is proved on the minimal witness
(`measurement_substitution_counterexample`).  Everything else is proved without that hypothesis.
-/
namespace QV.C17
open QV QV.Ast

section
variable {κ : Type} [DecidableEq κ] (E : Env κ)

/-! ## Lookup -/

/-- the index `gate.qubits[index]` of `expand_inner` (calibration.rs:413) is in bounds: a matching
calibration has as many qubits (and parameters) as the gate -/
theorem getMatchForGate_lengths (cs : List CalDef) (g : Gate) (c : CalDef)
    (h : getMatchForGate E cs g = some c) :
    c.identifier.qubits.length = g.qubits.length ∧ c.identifier.parameters.length = g.parameters.length := by
  obtain ⟨i, ⟨c16, hc, hm, _⟩, hi⟩ := getMatchForGate_some E h
  have : (toCals16 E cs g)[i]? = some (toCal16 E (paramUniverse E cs g) c i) := by
    simp [toCals16, List.getElem?_map, List.getElem?_zipIdx, hi]
  rw [this] at hc
  cases hc
  obtain ⟨_, _, hp, hq, _⟩ := hm
  simp only [toCal16, toGate16, List.length_map] at hp hq
  exact ⟨hq, hp⟩

/-- "no calibration matches the gate", on the real identifiers -/
theorem noMatch_gate_iff (cals : Cals) (g : Gate) :
    NoMatch E cals (.gate g) ↔ ∀ c ∈ cals.cals, ¬ GateMatchesAst E c g := by
  simp only [NoMatch, toCals16, List.mem_map]
  constructor
  · intro h c hc hm
    obtain ⟨i, hi, rfl⟩ := List.getElem_of_mem hc
    refine h _ ⟨(cals.cals[i], i), ?_, rfl⟩ ((gateMatches_iff E cals.cals g _ hc i).mpr hm)
    simp [List.mem_zipIdx_iff_getElem?]
  · rintro h d ⟨⟨c, i⟩, hci, rfl⟩ hm
    have hc : c ∈ cals.cals := by
      have := List.mem_zipIdx_iff_getElem?.mp hci
      exact List.mem_of_getElem? this
    exact h c hc ((gateMatches_iff E cals.cals g c hc i).mp hm)


/-- "no calibration matches the measurement", on the real identifiers -/
theorem noMatch_measurement_iff (cals : Cals) (m : Measurement) :
    NoMatch E cals (.measurement m) ↔ ∀ c ∈ cals.mcals, ¬ MeasMatchesAst c m := by
  simp only [NoMatch, toMCals16, List.mem_map]
  constructor
  · intro h c hc hm
    obtain ⟨i, hi, rfl⟩ := List.getElem_of_mem hc
    refine h _ ⟨(cals.mcals[i], i), ?_, rfl⟩ ((measMatches_iff _ m i).mpr hm)
    simp [List.mem_zipIdx_iff_getElem?]
  · rintro h d ⟨⟨c, i⟩, hci, rfl⟩ hm
    have hc : c ∈ cals.mcals := List.mem_of_getElem? (List.mem_zipIdx_iff_getElem?.mp hci)
    exact h c hc ((measMatches_iff c m i).mp hm)

/-! ## Substitution -/

/-- **"with the gate's qubits and parameters substituted for the calibration's variables"**: on every plain
instruction (anything but a nested definition with an identifier of its own) the code's instantiation
(`substitute_qubit_variables`, which lists instruction kinds one by one, then `apply_to_expressions`) IS the
generic one: every qubit position and every expression of the instruction is rewritten, a variable standing
for the gate's qubit / parameter at the last position where the calibration's identifier names it.  (This is
the theorem that failed before fix 93b5b59: MEASURE, RESET and SWAP-PHASES were not among the listed kinds.) -/
theorem gate_substitution_faithful (c : CalDef) (g : Gate) (i : Instruction) (h : plainB i = true) :
    gateSubstCode c g i = gateSubstSpec c g i :=
  gateSubstCode_eq c g i h

/- FULL STATEMENT (false of the code for nested definitions, see `nested_definition_counterexample`):
     ∀ c g i, gateSubstCode c g i = gateSubstSpec c g i -/
/-- **nested definitions admitted**: the same holds of a definition nested in the calibration body — DEFFRAME,
DEFCAL, DEFCAL MEASURE, DEFGATE (matrix / permutation / PAULI-SUM / SEQUENCE), DEFCIRCUIT — provided the positions
of it that the code's substitution does NOT visit (identifier qubits of a nested DEFFRAME / DEFCAL / DEFCAL
MEASURE, PAULI-SUM term expressions, the gates of a SEQUENCE) mention none of the enclosing calibration's
variables (`nestedOkB`, decidable).  Everything the parser can put into a calibration body (DECLARE, PRAGMA EXTERN,
DEFWAVEFORM) is plain. -/
theorem gate_substitution_faithful_partial (c : CalDef) (g : Gate) (i : Instruction)
    (h : admitB (qubitVarNames c.identifier.qubits) (paramVarNames c.identifier.parameters) i = true) :
    gateSubstCode c g i = gateSubstSpec c g i :=
  gateSubstCode_eq_admit c g i h

/-- `DEFCAL X q: DEFFRAME q "xy"` (an API-built body; the parser cannot nest a DEFFRAME) used for `X 0` -/
def nestedCal : CalDef :=
  { identifier := { modifiers := [], name := "X", parameters := [], qubits := [Qubit.variable "q"] }
    instructions := [.frameDefinition ⟨⟨"xy", [Qubit.variable "q"]⟩, []⟩] }
def nestedGate : Gate := { name := "X", parameters := [], qubits := [.fixed 0], modifiers := [] }

/-- **why the excluded nested definitions must stay excluded**: the code leaves the qubit variable in the
identifier of a nested DEFFRAME (`DEFFRAME q "xy"` stays as written, `substitute_qubit_variables` has no arm for
it), the generic traversal instantiates it (`DEFFRAME 0 "xy"`).  Replayed on the real code by the harness
(`api_shapes`, tag `excluded-nested-definition`). -/
theorem nested_definition_counterexample :
    gateSubstCode nestedCal nestedGate (.frameDefinition ⟨⟨"xy", [Qubit.variable "q"]⟩, []⟩)
      = .frameDefinition ⟨⟨"xy", [Qubit.variable "q"]⟩, []⟩ ∧
    gateSubstSpec nestedCal nestedGate (.frameDefinition ⟨⟨"xy", [Qubit.variable "q"]⟩, []⟩)
      = .frameDefinition ⟨⟨"xy", [.fixed 0]⟩, []⟩ ∧
    nestedOkB (qubitVarNames nestedCal.identifier.qubits) (paramVarNames nestedCal.identifier.parameters)
      (.frameDefinition ⟨⟨"xy", [Qubit.variable "q"]⟩, []⟩) = false := by
  refine ⟨?_, ?_, ?_⟩
  · simp [gateSubstCode, nestedCal, nestedGate, substituteQubitVariables, applyToExpressions]
  · simp [gateSubstSpec, nestedCal, nestedGate, mapQubits, mapExprs, mapFrameQ, substQ, bindQ]
  · simp [nestedOkB, nestedCal, qubitVarNames, qubitFree]

/-- `DEFGATE G(%t) p AS PAULI-SUM: X(%t) p` nested in `DEFCAL RX(%t) 0`, used for `RX(0.5) 0` -/
def nestedPauli : Instruction :=
  .gateDefinition ⟨"G", ["t"], .pauliSum ⟨["p"], [⟨[(.x, "p")], .var "t"⟩]⟩⟩
def nestedPauliCal : CalDef :=
  { identifier := { modifiers := [], name := "RX", parameters := [.var "t"], qubits := [.fixed 0] }
    instructions := [nestedPauli] }
def nestedPauliGate : Gate :=
  { name := "RX", parameters := [.number ⟨0x3FE0000000000000, 0⟩], qubits := [.fixed 0], modifiers := [] }

/-- the expression side of the exclusion: `apply_to_expressions` does not enter a PAULI-SUM specification, the
generic traversal does (and would capture the definition's own formal parameter) -/
theorem nested_paulisum_counterexample :
    gateSubstCode nestedPauliCal nestedPauliGate nestedPauli = nestedPauli ∧
    gateSubstSpec nestedPauliCal nestedPauliGate nestedPauli ≠ nestedPauli ∧
    nestedOkB (qubitVarNames nestedPauliCal.identifier.qubits)
      (paramVarNames nestedPauliCal.identifier.parameters) nestedPauli = false := by
  refine ⟨?_, ?_, ?_⟩
  · simp [gateSubstCode, nestedPauli, substituteQubitVariables, applyToExpressions]
  · simp [gateSubstSpec, nestedPauli, nestedPauliCal, nestedPauliGate, mapQubits, mapExprs, mapSpecE, bindP,
      QV.subst]
  · simp [nestedOkB, nestedPauli, nestedPauliCal, paramVarNames, exprFree, Expr.vars]

/- FULL STATEMENT (false of the code):
     ∀ c m i, plainB i → c.identifier.target.isSome = m.target.isSome →
       measSubstCode c m i = measSubstSpec c m i -/
/-- **"its qubit replaces the qubit variable and its target replaces uses of the target name, and other
memory references stay as written"**, PARTIAL: for a body instruction that uses the formal target only in
CAPTURE / RAW-CAPTURE memory references, nested MEASURE targets and PRAGMA LOAD-MEMORY data. -/
theorem measurement_substitution_faithful_partial (c : MCalDef) (m : Measurement) (i : Instruction)
    (hp : plainB i = true) (hc : formalCoveredB c.identifier.target i = true)
    (hm : c.identifier.target.isSome = m.target.isSome) :
    measSubstCode c m i = measSubstSpec c m i :=
  measSubstCode_eq c m i hp hc hm

/-- **nested definitions admitted in measurement calibrations**: a plain instruction covered as above, or a
nested definition whose unvisited positions do not mention the calibration's qubit variable and whose
expressions do not refer to the formal target (`admitMB`). -/
theorem measurement_substitution_faithful_admit_partial (c : MCalDef) (m : Measurement) (i : Instruction)
    (h : admitMB (qubitVarNames [c.identifier.qubit]) c.identifier.target i = true)
    (hm : c.identifier.target.isSome = m.target.isSome) :
    measSubstCode c m i = measSubstSpec c m i :=
  measSubstCode_eq_admit c m i h hm

/-- the witness of the known finding: `DEFCAL MEASURE 0 addr: MOVE addr 1`, used for `MEASURE 0 ro[2]` -/
def kfCal : MCalDef :=
  { identifier := { name := none, qubit := .fixed 0, target := some "addr" }
    instructions := [.move { destination := ⟨"addr", 0⟩, source := .literalInteger 1 }] }
def kfMeasure : Measurement := { name := none, qubit := .fixed 0, target := some ⟨"ro", 2⟩ }

/-- **negation of the full statement on the witness**: the code keeps `MOVE addr[0] 1`, the statement
demands `MOVE ro[2] 1`. -/
theorem measurement_substitution_counterexample :
    ¬ (∀ (c : MCalDef) (m : Measurement) (i : Instruction), plainB i = true →
        c.identifier.target.isSome = m.target.isSome → measSubstCode c m i = measSubstSpec c m i) := by
  intro h
  have := h kfCal kfMeasure (.move { destination := ⟨"addr", 0⟩, source := .literalInteger 1 }) rfl rfl
  simp [measSubstCode, measSubstSpec, kfCal, kfMeasure, measQubitExpansions, substituteQubitVariables,
    measureTargetSubst, mapQubits, retargetInstr, retargetPragma, mapMemRefs, mapDirectRefs, mapExprs,
    retarget, mapArithOperand] at this

/-! ## Expansion of one instruction (`Calibrations::expand`) -/

/-- **soundness of the algorithm, for any way `S` of instantiating a body**: a successful expansion is
related to its input by the big-step semantics; "no expansion" means nothing matches. -/
theorem expand_sound_with (S : Subst) (cals : Cals) (fuel : Nat) (prev : List κ) (i : Instruction) :
    (∀ out, expandInnerWith E S cals fuel prev i = .ok (some out) → Expands E S cals [i] out) ∧
    (expandInnerWith E S cals fuel prev i = .ok none → NoMatch E cals i) :=
  ⟨fun _ h => expandInnerWith_sound E S cals fuel prev i _ h,
   fun h => expandInnerWith_sound E S cals fuel prev i _ h⟩

/-- on covered calibration sets the code's instantiation of the body of a WINNING calibration is the
specified one -/
theorem codeSubst_eq_specSubst (cals : Cals) (hcov : coveredB cals = true) :
    (∀ c g i, GateWinner E cals.cals g c → i ∈ c.instructions → codeSubst.gate c g i = specSubst.gate c g i) ∧
    (∀ c m i, MeasWinner cals.mcals m c → i ∈ c.instructions → codeSubst.meas c m i = specSubst.meas c m i) := by
  simp only [coveredB, Bool.and_eq_true, List.all_eq_true] at hcov
  constructor
  · rintro c g i ⟨k, _, hk⟩ hi
    exact gateSubstCode_eq_admit c g i (hcov.1 c (List.mem_of_getElem? hk) i hi)
  · rintro c m i ⟨k, ⟨c16, hc, hm, _⟩, hk⟩ hi
    have hci := hcov.2 c (List.mem_of_getElem? hk) i hi
    have : (toMCals16 cals.mcals)[k]? = some (toMCal16 c k) := by
      simp [toMCals16, List.getElem?_map, List.getElem?_zipIdx, hk]
    rw [this] at hc
    cases hc
    have htgt : c.identifier.target.isSome = m.target.isSome := by
      have := hm.2.1
      simpa [toMCal16, toMeas16] using this
    exact measSubstCode_eq_admit c m i hci htgt

/- FULL STATEMENT (false of the code, see the file header):
     expandInner E cals fuel prev i = .ok (some out) → Expands E specSubst cals [i] out -/
/-- **C17 (expansion is the specified substitution), PARTIAL**: on covered calibration sets a successful
`Calibrations::expand` is related to its input by the SPECIFICATION's big-step semantics: each instruction
with a match is replaced by the body of the calibration C16's precedence rules select, instantiated by the
generic substitution, recursively; instructions without a match are kept. -/
theorem expand_sound_partial (cals : Cals) (hcov : coveredB cals = true) (fuel : Nat)
    (prev : List Instruction) (i : Instruction) (out : List Instruction)
    (h : expandInner E cals fuel prev i = .ok (some out)) : Expands E specSubst cals [i] out := by
  have hs := expandInnerWith_sound E codeSubst cals fuel _ i _ h
  obtain ⟨hg, hm⟩ := codeSubst_eq_specSubst E cals hcov
  exact Expands.congr E hg hm hs

/-- **"Expansion repeats until no body instruction has a match"**: the result of a successful expansion is
a fixpoint — none of its instructions has a matching calibration.  (No hypothesis on the calibrations.) -/
theorem expand_fixpoint (cals : Cals) (fuel : Nat) (prev : List Instruction) (i : Instruction)
    (out : List Instruction) (h : expandInner E cals fuel prev i = .ok (some out)) : Fixpoint E cals out :=
  Expands.fixpoint E (expandInnerWith_sound E codeSubst cals fuel _ i _ h)

/-- `expand` answers "no expansion" only for an instruction nothing matches -/
theorem expand_none_noMatch (cals : Cals) (fuel : Nat) (prev : List Instruction) (i : Instruction)
    (h : expandInner E cals fuel prev i = .ok none) : NoMatch E cals i :=
  expandInnerWith_sound E codeSubst cals fuel _ i _ h

/-- the specification determines the expansion: the big-step relation relates an instruction list to at most
one result (the winner is unique by C16, everything else is a function of it) -/
theorem expands_deterministic (S : Subst) (cals : Cals) (is o1 o2 : List Instruction)
    (h1 : Expands E S cals is o1) (h2 : Expands E S cals is o2) : o1 = o2 :=
  Expands.deterministic E h1 o2 h2

/-- **the relation determines what the algorithm returns**: whenever the expansion returns (no error, enough
fuel), its result is THE list the big-step semantics relates to the instruction — an expansion `out` is returned
as `some out`, and "no expansion" is returned exactly when the relation keeps the instruction (`out = [i]` by the
`keep` rule).  Soundness + determinism. -/
theorem expand_complete_with (S : Subst) (cals : Cals) (fuel : Nat) (prev : List κ) (i : Instruction)
    (r : Option (List Instruction)) (out : List Instruction)
    (h : expandInnerWith E S cals fuel prev i = .ok r) (hspec : Expands E S cals [i] out) :
    r.getD [i] = out := by
  have hs := expandInnerWith_sound E S cals fuel prev i r h
  cases r with
  | none => exact Expands.deterministic E (Expands.keep hs Expands.nil) _ hspec
  | some o => exact Expands.deterministic E hs _ hspec

/-- the calibrations of the known finding's witness -/
def kfCals : Cals := { cals := [], mcals := [kfCal] }
def kfMove (r : MemRef) : Instruction := .move { destination := r, source := .literalInteger 1 }

theorem kf_match : getMatchForMeasurement kfCals.mcals kfMeasure = some kfCal := by
  simp [getMatchForMeasurement, kfCals, C16.getMatchForMeasurement, toMCals16, toMCal16, toMeas16, kfCal,
    kfMeasure, C16.measScan, C16.measClass, toQubit16, C16.firstExtend, List.zipIdx]

/-- **negation of the full statement on the whole pipeline**: for `DEFCAL MEASURE 0 addr: MOVE addr 1` the
code expands `MEASURE 0 ro[2]` to `MOVE addr[0] 1`, which the specification does NOT relate to it (it relates
`MOVE ro[2] 1`, and only that).  For every simplifier oracle and every faithful instruction key. -/
theorem expand_counterexample (hkey : Function.Injective E.key) :
    expandInner E kfCals 2 [] (.measurement kfMeasure) = .ok (some [kfMove ⟨"addr", 0⟩]) ∧
    ¬ Expands E specSubst kfCals [.measurement kfMeasure] [kfMove ⟨"addr", 0⟩] := by
  have hne : E.key (kfMove ⟨"addr", 0⟩) ≠ E.key (.measurement kfMeasure) := by
    intro h; have := hkey h; simp [kfMove] at this
  constructor
  · have h1 : oneStep E codeSubst kfCals (.measurement kfMeasure) =
        some ([kfMove ⟨"addr", 0⟩], .measureCalibration kfCal.identifier) := by
      simp only [oneStep, kf_match]
      simp [kfCal, codeSubst, measSubstCode, measQubitExpansions, substituteQubitVariables,
        measureTargetSubst, kfMeasure, kfMove]
    have h2 : oneStep E codeSubst kfCals (kfMove ⟨"addr", 0⟩) = none := by simp [oneStep, kfMove]
    have hc : ([E.key (.measurement kfMeasure)] : List κ).contains (E.key (kfMove ⟨"addr", 0⟩)) = false := by
      simpa using hne
    simp only [expandInner, List.map_nil]
    unfold expandInnerWith
    simp only [List.contains_nil, Bool.false_eq_true, if_false, h1, expandSeq]
    unfold expandInnerWith
    simp only [hc, Bool.false_eq_true, if_false, h2]
  · intro hbad
    have hw : MeasWinner kfCals.mcals kfMeasure kfCal := getMatchForMeasurement_some kf_match
    have hbody : Expands E specSubst kfCals (kfCal.instructions.map (specSubst.meas kfCal kfMeasure))
        [kfMove ⟨"ro", 2⟩] := by
      have : kfCal.instructions.map (specSubst.meas kfCal kfMeasure) = [kfMove ⟨"ro", 2⟩] := by
        simp [kfCal, specSubst, measSubstSpec, kfMeasure, mapQubits, retargetInstr, retargetPragma, mapMemRefs,
          mapDirectRefs, mapExprs, retarget, mapArithOperand, kfMove]
      rw [this]
      exact Expands.keep (by simp [kfMove, NoMatch]) Expands.nil
    have hgood := Expands.meas (E := E) (S := specSubst) (cals := kfCals) hw hbody Expands.nil
    have := Expands.deterministic E hbad _ hgood
    simp [kfMove] at this

/-! ## The program level (`Program::expand_calibrations`) -/

/-- the expanded program is the source program without its body, plus — through `add_instruction` — the
instructions `flat` that the big-step semantics relates to the source body -/
theorem program_expand_sound_with (S : Subst) (p : Prog) (fuel : Nat) (withMap : Bool)
    (r : Prog × Option (List Entry)) (h : expandCalibrationsWith E S p fuel withMap = .ok r) :
    ∃ flat, Expands E S p.cals p.instructions flat ∧ r.1 = p.cloneWithoutBody.addMany flat :=
  expandLoop_sound E S p fuel _ _ _ _ r h

/-- **C17 at the program level, PARTIAL** (hypothesis `coveredB`, see `expand_sound_partial`) -/
theorem program_expand_sound_partial (p : Prog) (hcov : coveredB p.cals = true) (fuel : Nat) (q : Prog)
    (h : expandCalibrations E p fuel = .ok q) :
    ∃ flat, Expands E specSubst p.cals p.instructions flat ∧ q = p.cloneWithoutBody.addMany flat := by
  unfold expandCalibrations at h
  split at h
  · rename_i r hr
    simp only [Outcome.ok.injEq] at h
    subst h
    obtain ⟨flat, hf, hq⟩ := program_expand_sound_with E codeSubst p fuel false r hr
    obtain ⟨hg, hm⟩ := codeSubst_eq_specSubst E p.cals hcov
    exact ⟨flat, Expands.congr E hg hm hf, hq⟩
  · cases h
  · cases h

/-- what `expand_calibrations` returns, in terms of the code's own instantiation (no hypothesis) -/
theorem program_expand_flat (p : Prog) (fuel : Nat) (q : Prog) (h : expandCalibrations E p fuel = .ok q) :
    ∃ flat, Expands E codeSubst p.cals p.instructions flat ∧ q = p.cloneWithoutBody.addMany flat := by
  unfold expandCalibrations at h
  split at h
  · rename_i r hr
    simp only [Outcome.ok.injEq] at h
    subst h
    exact program_expand_sound_with E codeSubst p fuel false r hr
  · cases h
  · cases h

/-- **fixpoint at the program level**: no instruction of the expanded body has a matching calibration -/
theorem program_expand_fixpoint (p : Prog) (fuel : Nat) (q : Prog)
    (h : expandCalibrations E p fuel = .ok q) : Fixpoint E p.cals q.instructions := by
  obtain ⟨flat, hf, rfl⟩ := program_expand_flat E p fuel q h
  intro i hi
  rw [addMany_instructions] at hi
  simp only [Prog.cloneWithoutBody, List.nil_append, List.mem_filter] at hi
  exact Expands.fixpoint E hf i hi.1

/-- **"hoists declarations out of the body"**: the expanded body holds no definition; it is exactly the
non-definitions of the expansion, in order; and every `DECLARE` the expansion produced is a memory region of
the expanded program. -/
theorem declarations_hoisted (p : Prog) (fuel : Nat) (q : Prog) (h : expandCalibrations E p fuel = .ok q) :
    Hoisted q.instructions ∧
    ∃ flat, Expands E codeSubst p.cals p.instructions flat ∧
      q.instructions = flat.filter (fun i => !isDefinition i) ∧
      ∀ d, Instruction.declaration d ∈ flat → d.name ∈ q.memoryRegions.map (·.1) := by
  obtain ⟨flat, hf, rfl⟩ := program_expand_flat E p fuel q h
  have hb : (p.cloneWithoutBody.addMany flat).instructions = flat.filter (fun i => !isDefinition i) := by
    rw [addMany_instructions]; simp [Prog.cloneWithoutBody]
  refine ⟨?_, flat, hf, hb, fun d hd => addMany_declared _ _ d hd⟩
  intro i hi
  rw [hb] at hi
  simpa using (List.mem_filter.mp hi).2

/-- **hoisting, for every kind of definition**: every definition the expansion produced — DECLARE, DEFFRAME,
DEFWAVEFORM, DEFGATE, DEFCIRCUIT, DEFCAL, DEFCAL MEASURE, `PRAGMA EXTERN` — is stored in the expanded program under
its key (as itself, or as a later definition with the same key that replaced it), and nothing the source program
stored is forgotten. -/
theorem definitions_hoisted_all_kinds (p : Prog) (fuel : Nat) (q : Prog)
    (h : expandCalibrations E p fuel = .ok q) :
    (∀ k ∈ p.keys, k ∈ q.keys) ∧
    ∃ flat, Expands E codeSubst p.cals p.instructions flat ∧
      ∀ i ∈ flat, ∀ k, defKey i = some k → k ∈ q.keys := by
  obtain ⟨flat, hf, rfl⟩ := program_expand_flat E p fuel q h
  refine ⟨fun k hk => addMany_keys_mono _ _ k hk, flat, hf, fun i hi k hk => addMany_key_mem _ _ i k hi hk⟩

/-- the keyed kinds are exactly the hoisted kinds -/
theorem defKey_isSome_iff_definition (i : Instruction) : (defKey i).isSome = isDefinition i :=
  defKey_isSome_iff i

/-- **"keeps unmatched instructions in order"**: every subsequence of the source body made of instructions
without a match is a subsequence of the expanded body (the source body of a `Program` holds no definitions:
`fromInstructions_hoisted`). -/
theorem unmatched_kept_in_order (p : Prog) (hp : Hoisted p.instructions) (fuel : Nat) (q : Prog)
    (h : expandCalibrations E p fuel = .ok q) (sub : List Instruction) (hsub : sub.Sublist p.instructions)
    (hno : ∀ i ∈ sub, NoMatch E p.cals i) : sub.Sublist q.instructions := by
  obtain ⟨flat, hf, rfl⟩ := program_expand_flat E p fuel q h
  rw [addMany_instructions]
  simp only [Prog.cloneWithoutBody, List.nil_append]
  have h1 := Expands.sublist E hf sub hsub hno
  have h2 := h1.filter (fun i => !isDefinition i)
  have h3 : sub.filter (fun i => !isDefinition i) = sub := by
    apply List.filter_eq_self.mpr
    intro i hi
    simp [hp i (hsub.subset hi)]
  rwa [h3] at h2

/-- every `Program` built by `from_instructions` has a body without definitions -/
theorem fromInstructions_hoisted (is : List Instruction) : Hoisted (Prog.fromInstructions is).instructions := by
  intro i hi
  simp only [Prog.fromInstructions] at hi
  rw [addMany_instructions] at hi
  simp only [List.nil_append, List.mem_filter] at hi
  simpa using hi.2

/-! ### "gives the same program with or without a source map", kind by kind

`append_calibration_expansion_output_inner` has two branches: with a source map each instruction is added on its
own and is recognised as hoisted by `start_length == end_length`; without, `add_instructions`.  (Seeded change
C17-3 made the first branch recognise hoisting by KIND, `DECLARE` only, and push everything else into the body.) -/

/-- **hoisting is decided by `add_instruction`'s routing, for every instruction kind**: the body length is
unchanged by `add_instruction` exactly for DEFCAL, DEFCAL MEASURE, DEFCIRCUIT, DEFFRAME, DECLARE, DEFGATE,
DEFWAVEFORM and `PRAGMA EXTERN` … -/
theorem hoisted_iff_definition (p : Prog) (i : Instruction) :
    (p.add i).instructions.length = p.instructions.length ↔ isDefinition i = true :=
  add_hoists_iff p i

/-- … each of which is then listed among the program's definitions (it is stored, not dropped) and leaves the
body untouched … -/
theorem definition_routed (p : Prog) (i : Instruction) (h : isDefinition i = true) :
    i ∈ (p.add i).definitions ∧ (p.add i).instructions = p.instructions := by
  refine ⟨add_definition_stored p i h, ?_⟩
  rw [add_instructions, h]; simp

/-- … while every other instruction is appended to the body and touches no definition. -/
theorem nondefinition_routed (p : Prog) (i : Instruction) (h : isDefinition i = false) :
    (p.add i).definitions = p.definitions ∧ (p.add i).instructions = p.instructions ++ [i] :=
  add_nondefinition p i h

/-- **both branches of `append_calibration_expansion_output_inner` build the same program**, for every
program and every expansion output (any mixture of instruction kinds, any length) -/
theorem append_with_map_eq_without (p : Prog) (out : List Instruction) (source : Nat) (entries : List Entry) :
    (p.appendExpansion out source (some entries)).1 = (p.appendExpansion out source none).1 := by
  rw [appendExpansion_fst, appendExpansion_fst]

/-- the target indices the with-source-map branch removes from the expansion's detail are exactly the positions
(among the instructions that land in the body) of the hoisted instructions, for every kind -/
theorem with_map_removed_indices (p : Prog) (out : List Instruction) :
    (Prog.appendLoop p.instructions.length p out []).2 = removedSpec 0 out := by
  have := appendLoop_removed p.instructions.length out p [] (Nat.le_refl _)
  simpa using this

/-- the range the with-source-map branch records covers exactly the non-definitions of the output -/
theorem with_map_range (p : Prog) (out : List Instruction) :
    ((Prog.appendLoop p.instructions.length p out []).1).instructions.length =
      p.instructions.length + (out.filter (fun i => !isDefinition i)).length := by
  rw [appendLoop_fst, addMany_instructions]; simp

/-- non-vacuity: `DECLARE`, `NOP`, `PRAGMA EXTERN`, `DEFFRAME`, `WAIT` — three kinds are hoisted, at relative
positions 0, 1, 1 -/
example : removedSpec 0 [.declaration ⟨"a", ⟨.bit, 1⟩, none⟩, .nop,
    .pragma ⟨"EXTERN", [.identifier "f"], some "INTEGER"⟩,
    .frameDefinition ⟨⟨"xy", [.fixed 0]⟩, []⟩, .wait] = [0, 1, 1] := by
  simp [removedSpec, isDefinition]

/-- **"gives the same program with or without a source map"** (any fuel, any outcome: the same expanded
program, the same error, or both out of fuel) -/
theorem with_map_eq_without (p : Prog) (fuel : Nat) :
    (expandCalibrationsWithSourceMap E p fuel).map (·.1) = expandCalibrations E p fuel := by
  have h := expandLoop_fst_indep E codeSubst p fuel p.instructions 0 p.cloneWithoutBody (some []) none
  unfold expandCalibrationsWithSourceMap expandCalibrations expandCalibrationsWith
  simp only [if_true, Bool.false_eq_true, if_false]
  revert h
  cases expandLoop E codeSubst p fuel p.instructions 0 p.cloneWithoutBody (some []) <;>
    cases expandLoop E codeSubst p fuel p.instructions 0 p.cloneWithoutBody none <;>
    simp [Outcome.map]
  all_goals (intro h; simp_all)

/-! ## The Bool checkers the driver evaluates on the implementation's output -/

theorem noMatchB_iff (cals : Cals) (i : Instruction) : noMatchB E cals i = true ↔ NoMatch E cals i := by
  cases i <;> simp only [noMatchB, NoMatch, List.all_eq_true, Bool.not_eq_true', iff_true]
  · constructor
    · intro h d hd hm
      have := h d hd
      rw [← Bool.not_eq_true, C16.gateMatchesB_iff] at this
      exact this hm
    · intro h d hd
      rw [← Bool.not_eq_true, C16.gateMatchesB_iff]
      exact h d hd
  · constructor
    · intro h d hd hm
      have := h d hd
      rw [← Bool.not_eq_true, C16.measMatchesB_iff] at this
      exact this hm
    · intro h d hd
      rw [← Bool.not_eq_true, C16.measMatchesB_iff]
      exact h d hd

theorem fixpointB_iff (cals : Cals) (is : List Instruction) :
    fixpointB E cals is = true ↔ Fixpoint E cals is := by
  simp [fixpointB, Fixpoint, List.all_eq_true, noMatchB_iff]

end

theorem hoistedB_iff (body : List Instruction) : hoistedB body = true ↔ Hoisted body := by
  simp [hoistedB, Hoisted, List.all_eq_true]

/-! ## Non-vacuity -/

/-- `DEFCAL X q: MEASURE q ro[0]; RESET q` — a plain body with qubit variables in the kinds of fix 93b5b59 -/
example : gateSubstSpec
    { identifier := { modifiers := [], name := "X", parameters := [], qubits := [.variable "q"] }
      instructions := [] }
    { name := "X", parameters := [], qubits := [.fixed 2], modifiers := [] }
    (.reset { qubit := some (.variable "q") }) = .reset { qubit := some (.fixed 2) } := by
  simp [gateSubstSpec, mapQubits, mapExprs, substQ, bindQ]

/-- `CAPTURE q "ro_rx" flat addr[0]` -/
def exCapture : Instruction :=
  let fr : FrameIdentifier := FrameIdentifier.mk "ro_rx" [Qubit.variable "q"]
  let wf : WaveformInvocation := WaveformInvocation.mk "flat" []
  .capture (Capture.mk true fr (MemRef.mk "addr" 0) wf)

/-- the hypotheses of `measurement_substitution_faithful_partial` hold of a CAPTURE into the formal target -/
example : plainB exCapture = true ∧ formalCoveredB (some "addr") exCapture = true := by
  simp [exCapture, plainB, formalCoveredB, otherRefs, invocationAddrs]

/-- … and fail of the known finding's witness -/
example : formalCoveredB (some "addr")
    (.move { destination := ⟨"addr", 0⟩, source := .literalInteger 1 }) = false := by
  simp [formalCoveredB, otherRefs, refsOfArith]

/-- `coveredB` is satisfiable by a non-trivial calibration set -/
example : coveredB { cals := [{ identifier := { modifiers := [], name := "X", parameters := [], qubits := [.variable "q"] },
                                instructions := [.fence { qubits := [.variable "q"] }, .nop] }],
                     mcals := [{ identifier := { name := none, qubit := .variable "q", target := some "addr" },
                                 instructions := [.fence { qubits := [.variable "q"] }] }] } = true := by
  simp [coveredB, admitB, admitMB, plainB, formalCoveredB, otherRefs]

/-- … and by one with an admitted nested definition: `DEFCAL X q: DEFFRAME 0 "xy"; DEFCIRCUIT C: NOP` -/
example : coveredB { cals := [{ identifier := { modifiers := [], name := "X", parameters := [], qubits := [.variable "q"] },
                                instructions := [.frameDefinition ⟨⟨"xy", [.fixed 0]⟩, []⟩,
                                                 .circuitDefinition "C" [] [] [.nop]] }],
                     mcals := [] } = true := by
  simp [coveredB, admitB, plainB, nestedOkB, qubitFree]

/-- … and a measurement calibration with an admitted nested definition: `DEFCAL MEASURE q addr: DEFFRAME 0 "xy"` -/
example : coveredB { cals := [],
                     mcals := [{ identifier := { name := none, qubit := .variable "q", target := some "addr" },
                                 instructions := [.frameDefinition ⟨⟨"xy", [.fixed 0]⟩, []⟩] }] } = true := by
  simp [coveredB, admitMB, plainB, nestedOkB, qubitFree, nestedExprs]

end QV.C17
