import QV.C17.Model
import QV.C16.Spec
/-
C17 specification, written from the property text and independent of the expansion algorithm:

  "Expanding calibrations replaces each body instruction that has a matching calibration with that
   calibration's body, with the gate's qubits and parameters substituted for the calibration's variables.
   For a measurement, its qubit replaces the qubit variable and its target replaces uses of the target name,
   and other memory references stay as written.  Expansion repeats until no body instruction has a match,
   keeps unmatched instructions in order, hoists declarations out of the body, and gives the same program
   with or without a source map."

* WHICH calibration matches is property C16's specification (`C16.IsGateWinner`, `C16.IsMeasWinner`), used
  here through the projection of `Model.lean`.
* "substituted": `mapQubits` / `mapExprs` / `mapMemRefs` below are the generic traversals of an instruction —
  EVERY qubit position, EVERY expression, EVERY memory reference of the instruction itself, read off the
  AST types, not off the Rust `match` arms (which list instruction kinds one by one and may forget one).
* "the gate's qubits … for the calibration's variables": `bindQ` / `bindP` — the variable `n` stands for the
  gate's qubit (parameter) at the LAST position where the calibration's identifier has `n`.
* `Expands` is a big-step relation with one rule per clause.
-/
namespace QV.C17
open QV QV.Ast

/-! ### Generic traversals -/

def mapFrameQ (f : Qubit → Qubit) (fr : FrameIdentifier) : FrameIdentifier :=
  { fr with qubits := fr.qubits.map f }

def mapGateQ (f : Qubit → Qubit) (g : Gate) : Gate := { g with qubits := g.qubits.map f }

/-- every qubit position of the instruction itself (not of instructions nested in a definition's body) -/
def mapQubits (f : Qubit → Qubit) : Instruction → Instruction
  | .gate g => .gate (mapGateQ f g)
  | .delay d => .delay { d with qubits := d.qubits.map f }
  | .fence x => .fence { qubits := x.qubits.map f }
  | .capture c => .capture { c with frame := mapFrameQ f c.frame }
  | .rawCapture r => .rawCapture { r with frame := mapFrameQ f r.frame }
  | .pulse p => .pulse { p with frame := mapFrameQ f p.frame }
  | .setFrequency s => .setFrequency { s with frame := mapFrameQ f s.frame }
  | .setPhase s => .setPhase { s with frame := mapFrameQ f s.frame }
  | .setScale s => .setScale { s with frame := mapFrameQ f s.frame }
  | .shiftFrequency s => .shiftFrequency { s with frame := mapFrameQ f s.frame }
  | .shiftPhase s => .shiftPhase { s with frame := mapFrameQ f s.frame }
  | .swapPhases s => .swapPhases { frame1 := mapFrameQ f s.frame1, frame2 := mapFrameQ f s.frame2 }
  | .measurement m => .measurement { m with qubit := f m.qubit }
  | .reset r => .reset { qubit := r.qubit.map f }
  | .frameDefinition fd => .frameDefinition { fd with identifier := mapFrameQ f fd.identifier }
  | .calibrationDefinition id is => .calibrationDefinition { id with qubits := id.qubits.map f } is
  | .measureCalibrationDefinition id is => .measureCalibrationDefinition { id with qubit := f id.qubit } is
  | .gateDefinition gd =>
    match gd.specification with
    | .sequence s => .gateDefinition { gd with specification := .sequence { s with gates := s.gates.map (mapGateQ f) } }
    | _ => .gateDefinition gd
  | i => i

def mapGateE (f : PExpr → PExpr) (g : Gate) : Gate := { g with parameters := g.parameters.map f }

def mapSpecE (f : PExpr → PExpr) : GateSpecification → GateSpecification
  | .matrix rows => .matrix (rows.map (fun r => r.map f))
  | .permutation p => .permutation p
  | .pauliSum s => .pauliSum { s with terms := s.terms.map (fun t => { t with expression := f t.expression }) }
  | .sequence s => .sequence { s with gates := s.gates.map (mapGateE f) }

/-- every expression of the instruction itself -/
def mapExprs (f : PExpr → PExpr) : Instruction → Instruction
  | .gate g => .gate (mapGateE f g)
  | .capture c => .capture { c with waveform := mapInvocation f c.waveform }
  | .pulse p => .pulse { p with waveform := mapInvocation f p.waveform }
  | .delay d => .delay { d with duration := f d.duration }
  | .rawCapture r => .rawCapture { r with duration := f r.duration }
  | .setFrequency s => .setFrequency { s with frequency := f s.frequency }
  | .setPhase s => .setPhase { s with phase := f s.phase }
  | .setScale s => .setScale { s with scale := f s.scale }
  | .shiftFrequency s => .shiftFrequency { s with frequency := f s.frequency }
  | .shiftPhase s => .shiftPhase { s with phase := f s.phase }
  | .frameDefinition fd => .frameDefinition { fd with attributes := fd.attributes.map (mapAttribute f) }
  | .waveformDefinition w =>
    .waveformDefinition { w with definition := { w.definition with matrix := w.definition.matrix.map f } }
  | .gateDefinition gd => .gateDefinition { gd with specification := mapSpecE f gd.specification }
  | .calibrationDefinition id is => .calibrationDefinition { id with parameters := id.parameters.map f } is
  | i => i

/-- every memory reference inside an expression -/
def mapAddr (f : MemRef → MemRef) : PExpr → PExpr
  | .address r => .address (f r)
  | .call fn e => .call fn (mapAddr f e)
  | .bin l o r => .bin (mapAddr f l) o (mapAddr f r)
  | .pre o e => .pre o (mapAddr f e)
  | e => e

def mapArithOperand (f : MemRef → MemRef) : ArithmeticOperand → ArithmeticOperand
  | .memoryReference r => .memoryReference (f r)
  | o => o

def mapBinaryOperand (f : MemRef → MemRef) : BinaryOperand → BinaryOperand
  | .memoryReference r => .memoryReference (f r)
  | o => o

def mapComparisonOperand (f : MemRef → MemRef) : ComparisonOperand → ComparisonOperand
  | .memoryReference r => .memoryReference (f r)
  | o => o

def mapCallArgument (f : MemRef → MemRef) : UnresolvedCallArgument → UnresolvedCallArgument
  | .memoryReference r => .memoryReference (f r)
  | a => a

/-- every memory reference that is a field of the instruction (not inside an expression) -/
def mapDirectRefs (f : MemRef → MemRef) : Instruction → Instruction
  | .arithmetic a => .arithmetic { a with destination := f a.destination, source := mapArithOperand f a.source }
  | .binaryLogic b => .binaryLogic { b with destination := f b.destination, source := mapBinaryOperand f b.source }
  | .call c => .call { c with arguments := c.arguments.map (mapCallArgument f) }
  | .capture c => .capture { c with memoryReference := f c.memoryReference }
  | .convert c => .convert { destination := f c.destination, source := f c.source }
  | .comparison c =>
    .comparison { c with destination := f c.destination, lhs := f c.lhs, rhs := mapComparisonOperand f c.rhs }
  | .exchange e => .exchange { left := f e.left, right := f e.right }
  | .jumpUnless j => .jumpUnless { j with condition := f j.condition }
  | .jumpWhen j => .jumpWhen { j with condition := f j.condition }
  | .load l => .load { l with destination := f l.destination, offset := f l.offset }
  | .measurement m => .measurement { m with target := m.target.map f }
  | .move m => .move { destination := f m.destination, source := mapArithOperand f m.source }
  | .rawCapture r => .rawCapture { r with memoryReference := f r.memoryReference }
  | .store s => .store { s with offset := f s.offset, source := mapArithOperand f s.source }
  | .unaryLogic u => .unaryLogic { u with operand := f u.operand }
  | i => i

/-- every memory reference of the instruction itself -/
def mapMemRefs (f : MemRef → MemRef) (i : Instruction) : Instruction :=
  mapExprs (mapAddr f) (mapDirectRefs f i)

/-! ### "with the gate's qubits and parameters substituted for the calibration's variables" -/

/-- the gate qubit a qubit variable stands for: the one at the last position where the calibration's qubit
list has that variable -/
def bindQ (cqs gqs : List Qubit) (n : String) : Option Qubit :=
  ((cqs.zip gqs).reverse.find? (fun p => p.1 = .variable n)).map (·.2)

/-- the gate parameter a parameter variable stands for -/
def bindP (cps gps : List PExpr) (n : String) : Option PExpr :=
  ((cps.zip gps).reverse.find? (fun p => p.1 = .var n)).map (·.2)

def substQ (σ : String → Option Qubit) : Qubit → Qubit
  | .variable n => (σ n).getD (.variable n)
  | q => q

/-- a body instruction of gate calibration `c` instantiated for gate `g` -/
def gateSubstSpec (c : CalDef) (g : Gate) (i : Instruction) : Instruction :=
  mapExprs (QV.subst (bindP c.identifier.parameters g.parameters))
    (mapQubits (substQ (bindQ c.identifier.qubits g.qubits)) i)

/-! ### "its qubit replaces the qubit variable and its target replaces uses of the target name, and other
memory references stay as written" -/

def measBindQ (c : MCalDef) (m : Measurement) (n : String) : Option Qubit :=
  if c.identifier.qubit = .variable n then some m.qubit else none

/-- a reference to the formal target stands for the actual target, any other reference for itself -/
def retarget (formal : String) (actual : MemRef) (r : MemRef) : MemRef :=
  if r.name = formal then actual else r

/-- `PRAGMA LOAD-MEMORY "<formal>"` names the target too -/
def retargetPragma (formal : String) (actual : MemRef) : Instruction → Instruction
  | .pragma p =>
    if p.name = "LOAD-MEMORY" ∧ p.data = some formal then .pragma { p with data := some (memRefText actual) }
    else .pragma p
  | i => i

def retargetInstr (formal : String) (actual : MemRef) (i : Instruction) : Instruction :=
  retargetPragma formal actual (mapMemRefs (retarget formal actual) i)

/-- a body instruction of measurement calibration `c` instantiated for measurement `m` -/
def measSubstSpec (c : MCalDef) (m : Measurement) (i : Instruction) : Instruction :=
  let i1 := mapQubits (substQ (measBindQ c m)) i
  match c.identifier.target, m.target with
  | some formal, some actual => retargetInstr formal actual i1
  | _, _ => i1

def specSubst : Subst := { gate := gateSubstSpec, meas := measSubstSpec }

/-! ### Matching (C16's specification on the projection) -/

section
variable {κ : Type} (E : Env κ)

/-- the gate calibration the lookup rules select for `g` -/
def GateWinner (cs : List CalDef) (g : Gate) (c : CalDef) : Prop :=
  ∃ i, C16.IsGateWinner (toCals16 E cs g) (toGate16 E (paramUniverse E cs g) g) i ∧ cs[i]? = some c

/-- the measurement calibration the lookup rules select for `m` -/
def MeasWinner (cs : List MCalDef) (m : Measurement) (c : MCalDef) : Prop :=
  ∃ i, C16.IsMeasWinner (toMCals16 cs) (toMeas16 m) i ∧ cs[i]? = some c

/-- no calibration matches the instruction -/
def NoMatch (cals : Cals) : Instruction → Prop
  | .gate g => ∀ d ∈ toCals16 E cals.cals g, ¬ C16.GateMatches d (toGate16 E (paramUniverse E cals.cals g) g)
  | .measurement m => ∀ d ∈ toMCals16 cals.mcals, ¬ C16.MeasMatches d (toMeas16 m)
  | _ => True

/-- "Expansion repeats until no body instruction has a match" -/
def Fixpoint (cals : Cals) (is : List Instruction) : Prop := ∀ i ∈ is, NoMatch E cals i

/-- Big-step semantics of expanding a list of instructions (`S` = how a body is instantiated; the
specification is `Expands E specSubst`).
* `nil`  — nothing to expand;
* `keep` — an instruction without a match is kept, in place ("keeps unmatched instructions in order");
* `gate` — a gate with a match is replaced by the expansion of the winner's instantiated body;
* `meas` — likewise a measurement. -/
inductive Expands (S : Subst) (cals : Cals) : List Instruction → List Instruction → Prop
  | nil : Expands S cals [] []
  | keep {i is os} : NoMatch E cals i → Expands S cals is os → Expands S cals (i :: is) (i :: os)
  | gate {g c is os out} : GateWinner E cals.cals g c →
      Expands S cals (c.instructions.map (S.gate c g)) out → Expands S cals is os →
      Expands S cals (.gate g :: is) (out ++ os)
  | meas {m c is os out} : MeasWinner cals.mcals m c →
      Expands S cals (c.instructions.map (S.meas c m)) out → Expands S cals is os →
      Expands S cals (.measurement m :: is) (out ++ os)

/-! ### Matching stated on the real identifiers (proved equivalent to the projection in Props.lean) -/

/-- a calibration qubit accepts a gate qubit (AST level) -/
def QubitOkAst (cq gq : Qubit) : Prop :=
  (∃ n, cq = .fixed n ∧ gq = .fixed n) ∨ (∃ v, cq = .variable v ∧ ∀ p, gq ≠ .placeholder p)

/-- "A gate matches only calibrations with its name, modifiers, parameter and qubit counts whose fixed qubits
and non-variable parameters equal its own" on the real identifiers: parameters are compared after
simplification, a calibration parameter that simplifies to a variable accepts anything. -/
def GateMatchesAst (c : CalDef) (g : Gate) : Prop :=
  c.identifier.name = g.name ∧ c.identifier.modifiers = g.modifiers ∧
  c.identifier.parameters.length = g.parameters.length ∧
  c.identifier.qubits.length = g.qubits.length ∧
  (∀ (i : Nat) cq gq, c.identifier.qubits[i]? = some cq → g.qubits[i]? = some gq → QubitOkAst cq gq) ∧
  (∀ (i : Nat) cp gp, c.identifier.parameters[i]? = some cp → g.parameters[i]? = some gp →
    (∃ v, E.simp cp = .var v) ∨ E.simp cp = E.simp gp)

/-- "A measurement matches only calibrations with its name and record/effect kind" whose qubit is the measured
fixed qubit or a variable, on the real identifiers -/
def MeasMatchesAst (c : MCalDef) (m : Measurement) : Prop :=
  c.identifier.name = m.name ∧ c.identifier.target.isSome = m.target.isSome ∧
  ((∃ n, c.identifier.qubit = .fixed n ∧ m.qubit = .fixed n) ∨ (∃ v, c.identifier.qubit = .variable v))

/-! ### Bool checkers (evaluated by the driver on the IMPLEMENTATION's output) -/

/-- brute force over all definitions with C16's `gateMatchesB` / `measMatchesB` (not the lookup scans) -/
def noMatchB (cals : Cals) : Instruction → Bool
  | .gate g => (toCals16 E cals.cals g).all
      (fun d => !C16.gateMatchesB d (toGate16 E (paramUniverse E cals.cals g) g))
  | .measurement m => (toMCals16 cals.mcals).all (fun d => !C16.measMatchesB d (toMeas16 m))
  | _ => true

def fixpointB (cals : Cals) (is : List Instruction) : Bool := is.all (noMatchB E cals)

end

/-- the instruction kinds `Program::add_instruction` stores outside the body ("hoists") -/
def isDefinition : Instruction → Bool
  | .calibrationDefinition _ _ | .circuitDefinition _ _ _ _ | .frameDefinition _ | .declaration _
  | .gateDefinition _ | .measureCalibrationDefinition _ _ | .waveformDefinition _ => true
  | .pragma p => p.name == "EXTERN"
  | _ => false

/-- the key under which `add_instruction` stores a definition (container and key inside it) -/
inductive DefKey where
  | cal (id : CalibrationIdentifier)
  | mcal (id : MeasureCalibrationIdentifier)
  | circuit (name : String)
  | frame (id : FrameIdentifier)
  | region (name : String)
  | gate (name : String)
  | waveform (name : String)
  | extern (name : Option String)
  deriving DecidableEq

def defKey : Instruction → Option DefKey
  | .calibrationDefinition id _ => some (.cal id)
  | .measureCalibrationDefinition id _ => some (.mcal id)
  | .circuitDefinition n _ _ _ => some (.circuit n)
  | .frameDefinition f => some (.frame f.identifier)
  | .declaration d => some (.region d.name)
  | .gateDefinition g => some (.gate g.name)
  | .waveformDefinition w => some (.waveform w.name)
  | .pragma p => if p.name == "EXTERN" then some (.extern (externKey p)) else none
  | _ => none

/-- the keys of everything a program stores outside its body -/
def Prog.keys (p : Prog) : List DefKey :=
  p.cals.cals.map (fun c => .cal c.identifier) ++ p.cals.mcals.map (fun c => .mcal c.identifier) ++
  p.circuits.map (fun kv => .circuit kv.1) ++ p.frames.map (fun kv => .frame kv.1) ++
  p.memoryRegions.map (fun kv => .region kv.1) ++ p.gateDefinitions.map (fun kv => .gate kv.1) ++
  p.waveforms.map (fun kv => .waveform kv.1) ++ p.externs.map (fun kv => .extern kv.1)

/-- "hoists declarations out of the body": no definition is left in the body -/
def Hoisted (body : List Instruction) : Prop := ∀ i ∈ body, isDefinition i = false

def hoistedB (body : List Instruction) : Bool := body.all (fun i => !isDefinition i)

/-- `xs` is a subsequence of `ys` (same order), decided greedily with equality of keys -/
def subseqB {κ : Type} [DecidableEq κ] (key : Instruction → κ) : List Instruction → List Instruction → Bool
  | [], _ => true
  | _ :: _, [] => false
  | x :: xs, y :: ys => if key x = key y then subseqB key xs ys else subseqB key (x :: xs) ys

/-! ### The hypotheses under which the code's substitution is the specified one -/

/-- a definition whose own identifier / specification has qubit or expression positions that the code's
substitution does not visit (the statement is about body instructions; these never occur in a calibration
body that the parser produced) -/
def plainB : Instruction → Bool
  | .frameDefinition _ | .calibrationDefinition _ _ | .measureCalibrationDefinition _ _
  | .gateDefinition _ | .circuitDefinition _ _ _ _ => false
  | _ => true

/-! Nested definitions in a calibration body.  The specification's traversals are "of the instruction itself":
they rewrite the identifier and the specification of a nested definition (not the instructions of its body).
The code's substitution visits only SOME of those positions: it rewrites the parameters of a nested DEFCAL, the
attribute expressions of a DEFFRAME, the matrix of a DEFWAVEFORM / DEFGATE, but none of the qubits of a nested
DEFFRAME / DEFCAL / DEFCAL MEASURE identifier, none of the expressions of a `PAULI-SUM` specification and nothing
inside the gates of a `SEQUENCE` specification.  A nested definition is therefore admitted exactly when those
unvisited positions mention none of the enclosing calibration's variables (`nestedOkB`); `DEFCIRCUIT` is always
admitted (neither side enters it). -/

/-- the names of the qubit variables of a calibration identifier -/
def qubitVarNames (qs : List Qubit) : List String :=
  qs.filterMap (fun q => match q with | .variable n => some n | _ => none)

/-- the names of the parameter variables of a calibration identifier -/
def paramVarNames (ps : List PExpr) : List String :=
  ps.filterMap (fun e => match e with | .var n => some n | _ => none)

/-- the qubit is not one of the variables `qn` -/
def qubitFree (qn : List String) : Qubit → Bool
  | .variable n => !qn.contains n
  | _ => true

/-- the expression mentions none of the variables `pn` -/
def exprFree (pn : List String) (e : PExpr) : Bool := e.vars.all (fun x => !pn.contains x)

def gateFree (qn pn : List String) (g : Gate) : Bool :=
  g.qubits.all (qubitFree qn) && g.parameters.all (exprFree pn)

/-- a nested definition whose positions NOT visited by the code's substitution mention none of the enclosing
calibration's qubit variables `qn` / parameter variables `pn` -/
def nestedOkB (qn pn : List String) : Instruction → Bool
  | .frameDefinition fd => fd.identifier.qubits.all (qubitFree qn)
  | .calibrationDefinition id _ => id.qubits.all (qubitFree qn)
  | .measureCalibrationDefinition id _ => qubitFree qn id.qubit
  | .circuitDefinition _ _ _ _ => true
  | .gateDefinition gd =>
    match gd.specification with
    | .matrix _ => true
    | .permutation _ => true
    | .pauliSum s => s.terms.all (fun t => exprFree pn t.expression)
    | .sequence s => s.gates.all (gateFree qn pn)
  | _ => false

/-- the body instructions the faithful-substitution theorem for GATE calibrations covers: every plain
instruction and every admitted nested definition -/
def admitB (qn pn : List String) (i : Instruction) : Bool := plainB i || nestedOkB qn pn i

def refsOfArith : ArithmeticOperand → List MemRef
  | .memoryReference r => [r]
  | _ => []
def refsOfBinary : BinaryOperand → List MemRef
  | .memoryReference r => [r]
  | _ => []
def refsOfComparison : ComparisonOperand → List MemRef
  | .memoryReference r => [r]
  | _ => []
def refsOfCallArg : UnresolvedCallArgument → List MemRef
  | .memoryReference r => [r]
  | _ => []

def invocationAddrs (w : WaveformInvocation) : List MemRef := w.parameters.flatMap (fun kv => kv.2.addrs)

/-- the memory references of an instruction in the positions the code's measurement arm does NOT rewrite:
everything except the `memory_reference` of CAPTURE / RAW-CAPTURE and the target of a nested MEASURE -/
def otherRefs : Instruction → List MemRef
  | .arithmetic a => a.destination :: refsOfArith a.source
  | .binaryLogic b => b.destination :: refsOfBinary b.source
  | .call c => c.arguments.flatMap refsOfCallArg
  | .capture c => invocationAddrs c.waveform
  | .convert c => [c.destination, c.source]
  | .comparison c => c.destination :: c.lhs :: refsOfComparison c.rhs
  | .exchange e => [e.left, e.right]
  | .jumpUnless j => [j.condition]
  | .jumpWhen j => [j.condition]
  | .load l => [l.destination, l.offset]
  | .move m => m.destination :: refsOfArith m.source
  | .rawCapture r => r.duration.addrs
  | .store s => s.offset :: refsOfArith s.source
  | .unaryLogic u => [u.operand]
  | .gate g => g.parameters.flatMap (·.addrs)
  | .pulse p => invocationAddrs p.waveform
  | .delay d => d.duration.addrs
  | .setFrequency s => s.frequency.addrs
  | .setPhase s => s.phase.addrs
  | .setScale s => s.scale.addrs
  | .shiftFrequency s => s.frequency.addrs
  | .shiftPhase s => s.phase.addrs
  | .waveformDefinition w => w.definition.matrix.flatMap (·.addrs)
  | _ => []

/-- the formal target name is used only where the code rewrites it -/
def formalCoveredB (formal : Option String) (i : Instruction) : Bool :=
  match formal with
  | none => true
  | some f => (otherRefs i).all (fun r => r.name != f)

/-- the expressions of a nested definition that the specification's traversal visits -/
def nestedExprs : Instruction → List PExpr
  | .frameDefinition fd => fd.attributes.filterMap (fun kv => match kv.2 with | .expression e => some e | _ => none)
  | .calibrationDefinition id _ => id.parameters
  | .gateDefinition gd =>
    match gd.specification with
    | .matrix rows => rows.flatten
    | .permutation _ => []
    | .pauliSum s => s.terms.map (·.expression)
    | .sequence s => s.gates.flatMap (·.parameters)
  | _ => []

/-- the body instructions the faithful-substitution theorem for MEASUREMENT calibrations covers: a plain
instruction that uses the formal target only where the code rewrites it (known finding), or a nested definition
whose unvisited positions do not mention the calibration's qubit variable and whose expressions do not refer to
the formal target -/
def admitMB (qn : List String) (formal : Option String) (i : Instruction) : Bool :=
  (plainB i && formalCoveredB formal i) ||
  (nestedOkB qn [] i &&
    match formal with
    | none => true
    | some f => (nestedExprs i).all (fun e => e.addrs.all (fun r => r.name != f)))

/-- decidable hypothesis of the partial theorems:
* every body instruction of a GATE calibration is plain or an admitted nested definition (`admitB` with the
  calibration's own variable names);
* every body instruction of a MEASUREMENT calibration is plain and uses the formal target name only in CAPTURE /
  RAW-CAPTURE memory references, nested MEASURE targets and PRAGMA LOAD-MEMORY data (known finding), or is an
  admitted nested definition that does not refer to the formal target (`admitMB`) -/
def coveredB (cals : Cals) : Bool :=
  cals.cals.all (fun c => c.instructions.all
    (admitB (qubitVarNames c.identifier.qubits) (paramVarNames c.identifier.parameters))) &&
  cals.mcals.all (fun c => c.instructions.all
    (admitMB (qubitVarNames [c.identifier.qubit]) c.identifier.target))

/-- some calibration body holds a nested definition outside the domain of the faithful-substitution theorems
(its unvisited positions mention the enclosing calibration's variables, or its expressions the formal target) -/
def nestedExcludedB (cals : Cals) : Bool :=
  cals.cals.any (fun c => c.instructions.any (fun i =>
    !admitB (qubitVarNames c.identifier.qubits) (paramVarNames c.identifier.parameters) i)) ||
  cals.mcals.any (fun c => c.instructions.any (fun i =>
    !plainB i && !admitMB (qubitVarNames [c.identifier.qubit]) c.identifier.target i))

end QV.C17
