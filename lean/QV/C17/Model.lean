import QV.Shared.Ast
import QV.C16.Model
/-
C17 / C18 model: calibration expansion.

  * `substitute_qubit_variable(s)`                  quil-rs/src/program/calibration.rs:271-340
  * `Calibrations::expand_inner`                    quil-rs/src/program/calibration.rs:393-521
  * `Calibrations::recursively_expand_inner`        quil-rs/src/program/calibration.rs:523-607
  * `Calibrations::expand` / `expand_with_detail`   quil-rs/src/program/calibration.rs:363-383
  * `Instruction::apply_to_expressions`             quil-rs/src/instruction/mod.rs:521-579
  * `Program::add_instruction`                      quil-rs/src/program/mod.rs:233-306
  * `Program::expand_calibrations(_with_source_map)`, `expand_calibrations_inner`
                                                    quil-rs/src/program/mod.rs:334-336, 523-574
  * `Program::append_calibration_expansion_output_inner`  quil-rs/src/program/mod.rs:755-793
  * `Program::to_instructions`                      quil-rs/src/program/mod.rs:441-474

The model works on the SHARED FULL AST (`QV.Shared.Ast`), not on a projection.  Calibration LOOKUP is not
re-modelled: `getMatchForGate` / `getMatchForMeasurement` below call property C16's model
(`QV.C16.getMatchForGate`, `QV.C16.getMatchForMeasurement`) on a per-query projection of the real identifiers
to C16's alphabet (parameters become class numbers), so the theorems of C17/C18 are about the whole pipeline
lookup + substitution + recursion + hoisting, and C16's precedence theorems apply to the lookups made here.

Two things the Rust code uses are PARAMETERS of the model (`Env`); every theorem holds for every value of them:

  * `simp : PExpr → PExpr` — `Expression::into_simplified` followed by the choice of a canonical
    representative of the `Expression::eq` class (numbers: `+0.0 = -0.0`, all NaNs equal).  It is only used
    by `CalibrationIdentifier::matches` (instruction/calibration.rs:176-187).  The simplifier itself is
    property C12's subject; the drivers instantiate `simp` with C12's model (`QV.C12.simplifyTop`).
  * `key : Instruction → κ` with decidable equality on `κ` — `key a = key b` stands for `a == b`
    (`#[derive(PartialEq)]` on `Instruction`), which is what `previous_calibrations.contains(instruction)`
    evaluates.  The drivers use the text of the shared wire encoding (structural equality, `f64` by bits; the
    generators never produce `-0.0`/NaN literals and expansion never computes a number).  For theorems one may
    also take `κ := Instruction`, `key := id` (classical decidable equality).

Outcomes other than returning: the recursion of `expand_inner` is not bounded by the Rust code (C18), so it
takes `fuel` and has the outcome `outOfFuel`; the `RecursiveCalibration` error is `recursiveCalibration i`.
`gate.qubits[index]` (calibration.rs:413) cannot go out of bounds: the calibration matched, so the two qubit
lists have the same length (`C16.matchesB`; theorem `getMatchForGate_lengths`), and the model zips them.
-/
namespace QV.C17
open QV QV.Ast

/-- The two oracles (see the file header). -/
structure Env (κ : Type) where
  simp : PExpr → PExpr
  key : Instruction → κ

/-- `CalibrationDefinition` (instruction/calibration.rs:41) -/
structure CalDef where
  identifier : CalibrationIdentifier
  instructions : List Instruction
  deriving Inhabited

/-- `MeasureCalibrationDefinition` (instruction/calibration.rs:240) -/
structure MCalDef where
  identifier : MeasureCalibrationIdentifier
  instructions : List Instruction
  deriving Inhabited

/-- `Calibrations` (program/calibration.rs:56): the two `CalibrationSet`s as ordered lists. -/
structure Cals where
  cals : List CalDef := []
  mcals : List MCalDef := []
  deriving Inhabited

/-- `CalibrationSource` (program/calibration.rs:251) -/
inductive CalSource where
  | calibration (id : CalibrationIdentifier)
  | measureCalibration (id : MeasureCalibrationIdentifier)
  deriving DecidableEq, Repr, Inhabited

/-! ### Lookup: projection onto C16's model -/

def toQubit16 : Qubit → C16.Qubit
  | .fixed n => .fixed n
  | .variable s => .variable s
  | .placeholder k => .placeholder k

def toMod16 : GateModifier → C16.Modifier
  | .controlled => .controlled
  | .dagger => .dagger
  | .forked => .forked

/-- class number of an expression inside a finite universe: the position of its first occurrence. Two
members of the universe get the same number iff they are equal. -/
def classOf (univ : List PExpr) (e : PExpr) : Nat := univ.idxOf e

section
variable {κ : Type} (E : Env κ)

/-- all parameter expressions of the query (raw and simplified): the universe the class numbers refer to -/
def paramUniverse (cs : List CalDef) (g : Gate) : List PExpr :=
  let ps := cs.flatMap (fun c => c.identifier.parameters) ++ g.parameters
  ps ++ ps.map E.simp

/-- C16's `Param`: `raw` = class under `Expression::eq`, `simp` = "simplifies to a `Variable`" or the class
of the simplified expression. -/
def toParam16 (univ : List PExpr) (e : PExpr) : C16.Param :=
  { raw := classOf univ e
    simp := match E.simp e with
      | .var _ => .variable
      | s => .other (classOf univ s) }

def toCal16 (univ : List PExpr) (c : CalDef) (idx : Nat) : C16.Cal :=
  { name := c.identifier.name
    mods := c.identifier.modifiers.map toMod16
    params := c.identifier.parameters.map (toParam16 E univ)
    qubits := c.identifier.qubits.map toQubit16
    body := idx }

def toGate16 (univ : List PExpr) (g : Gate) : C16.Gate :=
  { name := g.name
    mods := g.modifiers.map toMod16
    params := g.parameters.map (toParam16 E univ)
    qubits := g.qubits.map toQubit16 }

def toCals16 (cs : List CalDef) (g : Gate) : List C16.Cal :=
  cs.zipIdx.map (fun ci => toCal16 E (paramUniverse E cs g) ci.1 ci.2)

/-- `Calibrations::get_match_for_gate` (calibration.rs:684-705) = C16's model on the projection. -/
def getMatchForGate (cs : List CalDef) (g : Gate) : Option CalDef :=
  match C16.getMatchForGate (toCals16 E cs g) (toGate16 E (paramUniverse E cs g) g) with
  | some i => cs[i]?
  | none => none

end

def toMCal16 (c : MCalDef) (idx : Nat) : C16.MCal :=
  { name := c.identifier.name, qubit := toQubit16 c.identifier.qubit, target := c.identifier.target,
    body := idx }

def toMeas16 (m : Measurement) : C16.Meas :=
  { name := m.name, qubit := toQubit16 m.qubit, target := m.target.map (fun r => (r.name, r.index)) }

def toMCals16 (cs : List MCalDef) : List C16.MCal := cs.zipIdx.map (fun ci => toMCal16 ci.1 ci.2)

/-- `Calibrations::get_match_for_measurement` (calibration.rs:619-673) = C16's model on the projection. -/
def getMatchForMeasurement (cs : List MCalDef) (m : Measurement) : Option MCalDef :=
  match C16.getMatchForMeasurement (toMCals16 cs) (toMeas16 m) with
  | some i => cs[i]?
  | none => none

/-! ### Substitution -/

/-- `substitute_qubit_variable` (calibration.rs:331-340); the `HashMap<&String, Qubit>` is an association
list whose FIRST binding of a name is the current one (`HashMap::insert` = prepend). -/
def substituteQubitVariable (σ : List (String × Qubit)) (q : Qubit) : Qubit :=
  match q with
  | .variable name =>
    match σ.lookup name with
    | some expansion => expansion
    | none => q
  | .fixed _ => q
  | .placeholder _ => q

def substFrame (σ : List (String × Qubit)) (f : FrameIdentifier) : FrameIdentifier :=
  { f with qubits := f.qubits.map (substituteQubitVariable σ) }

/-- `substitute_qubit_variables` (calibration.rs:272-328): exactly the kinds the Rust `match` lists. -/
def substituteQubitVariables (σ : List (String × Qubit)) : Instruction → Instruction
  | .gate g => .gate { g with qubits := g.qubits.map (substituteQubitVariable σ) }
  | .delay d => .delay { d with qubits := d.qubits.map (substituteQubitVariable σ) }
  | .capture c => .capture { c with frame := substFrame σ c.frame }
  | .rawCapture r => .rawCapture { r with frame := substFrame σ r.frame }
  | .setFrequency s => .setFrequency { s with frame := substFrame σ s.frame }
  | .setPhase s => .setPhase { s with frame := substFrame σ s.frame }
  | .setScale s => .setScale { s with frame := substFrame σ s.frame }
  | .shiftFrequency s => .shiftFrequency { s with frame := substFrame σ s.frame }
  | .shiftPhase s => .shiftPhase { s with frame := substFrame σ s.frame }
  | .pulse p => .pulse { p with frame := substFrame σ p.frame }
  | .fence f => .fence { f with qubits := f.qubits.map (substituteQubitVariable σ) }
  | .measurement m => .measurement { m with qubit := substituteQubitVariable σ m.qubit }
  | .reset r =>
    match r.qubit with
    | some q => .reset { qubit := some (substituteQubitVariable σ q) }
    | none => .reset r
  | .swapPhases s => .swapPhases { frame1 := substFrame σ s.frame1, frame2 := substFrame σ s.frame2 }
  | i => i

def mapInvocation (f : PExpr → PExpr) (w : WaveformInvocation) : WaveformInvocation :=
  { w with parameters := w.parameters.map (fun kv => (kv.1, f kv.2)) }

def mapAttribute (f : PExpr → PExpr) : String × AttributeValue → String × AttributeValue
  | (k, .expression e) => (k, .expression (f e))
  | kv => kv

/-- `Instruction::apply_to_expressions` (instruction/mod.rs:521-579) with a pure closure. -/
def applyToExpressions (f : PExpr → PExpr) : Instruction → Instruction
  | .calibrationDefinition id is =>
    .calibrationDefinition { id with parameters := id.parameters.map f } is
  | .gate g => .gate { g with parameters := g.parameters.map f }
  | .capture c => .capture { c with waveform := mapInvocation f c.waveform }
  | .pulse p => .pulse { p with waveform := mapInvocation f p.waveform }
  | .delay d => .delay { d with duration := f d.duration }
  | .rawCapture r => .rawCapture { r with duration := f r.duration }
  | .frameDefinition fd => .frameDefinition { fd with attributes := fd.attributes.map (mapAttribute f) }
  | .setFrequency s => .setFrequency { s with frequency := f s.frequency }
  | .setPhase s => .setPhase { s with phase := f s.phase }
  | .setScale s => .setScale { s with scale := f s.scale }
  | .shiftFrequency s => .shiftFrequency { s with frequency := f s.frequency }
  | .shiftPhase s => .shiftPhase { s with phase := f s.phase }
  | .waveformDefinition w =>
    .waveformDefinition { w with definition := { w.definition with matrix := w.definition.matrix.map f } }
  | .gateDefinition gd =>
    match gd.specification with
    | .matrix rows => .gateDefinition { gd with specification := .matrix (rows.map (fun r => r.map f)) }
    | _ => .gateDefinition gd
  | i => i

/-- The loop at calibration.rs:408-415: every `Qubit::Variable` of the calibration's qubit list is bound to
the gate's qubit at the same index; a repeated name is overwritten (`HashMap::insert`), i.e. prepended. -/
def qubitExpansions : List Qubit → List Qubit → List (String × Qubit) → List (String × Qubit)
  | .variable name :: cqs, gq :: gqs, acc => qubitExpansions cqs gqs ((name, gq) :: acc)
  | _ :: cqs, _ :: gqs, acc => qubitExpansions cqs gqs acc
  | _, _, acc => acc

/-- `variable_expansions` (calibration.rs:419-432): `zip`, keep the pairs whose calibration parameter IS
(unsimplified) an `Expression::Variable`, `collect` into a `HashMap` (later pairs overwrite). -/
def variableExpansions : List PExpr → List PExpr → List (String × PExpr) → List (String × PExpr)
  | .var name :: cps, gp :: gps, acc => variableExpansions cps gps ((name, gp) :: acc)
  | _ :: cps, _ :: gps, acc => variableExpansions cps gps acc
  | _, _, acc => acc

/-- The body of the loop at calibration.rs:436-442 for one body instruction of a gate calibration. -/
def gateSubstCode (c : CalDef) (g : Gate) (i : Instruction) : Instruction :=
  let σq := qubitExpansions c.identifier.qubits g.qubits []
  let σp := variableExpansions c.identifier.parameters g.parameters []
  applyToExpressions (QV.subst (fun x => σp.lookup x)) (substituteQubitVariables σq i)

/-- `MemoryReference::to_quil_or_debug` (instruction/declaration.rs:278-286): `name[index]`. -/
def memRefText (r : MemRef) : String := r.name ++ "[" ++ toString r.index ++ "]"

/-- The inner `match` at calibration.rs:466-502: where the formal target of a `DEFCAL MEASURE` is replaced
by the measurement's actual target. -/
def measureTargetSubst (formal : Option String) (actual : Option MemRef) : Instruction → Instruction
  | .pragma p =>
    if p.name == "LOAD-MEMORY" && p.data == formal then
      match actual with
      | some t => .pragma { p with data := some (memRefText t) }
      | none => .pragma p
    else .pragma p
  | .capture c =>
    if some c.memoryReference.name == formal then
      match actual with
      | some t => .capture { c with memoryReference := t }
      | none => .capture c
    else .capture c
  | .rawCapture r =>
    if some r.memoryReference.name == formal then
      match actual with
      | some t => .rawCapture { r with memoryReference := t }
      | none => .rawCapture r
    else .rawCapture r
  | .measurement m =>
    match m.target with
    | some ref =>
      if some ref.name == formal then
        match actual with
        | some t => .measurement { m with target := some t }
        | none => .measurement m
      else .measurement m
    | none => .measurement m
  | i => i

/-- calibration.rs:457-460: a variable qubit of the measurement calibration is bound to the measured qubit -/
def measQubitExpansions (cq mq : Qubit) : List (String × Qubit) :=
  match cq with
  | .variable name => [(name, mq)]
  | _ => []

/-- The body of the loop at calibration.rs:463-503 for one body instruction of a measurement calibration. -/
def measSubstCode (c : MCalDef) (m : Measurement) (i : Instruction) : Instruction :=
  measureTargetSubst c.identifier.target m.target
    (substituteQubitVariables (measQubitExpansions c.identifier.qubit m.qubit) i)

/-- How a matched calibration's body instruction is instantiated.  The code's way is `codeSubst`; the
specification's way (`QV.C17.specSubst`, Spec.lean) is written separately. -/
structure Subst where
  gate : CalDef → Gate → Instruction → Instruction
  meas : MCalDef → Measurement → Instruction → Instruction

def codeSubst : Subst := { gate := gateSubstCode, meas := measSubstCode }

/-! ### Expansion -/

/-- What the model can do besides returning an expansion. -/
inductive Outcome (α : Type) where
  | ok (a : α)
  /-- `Err(ProgramError::RecursiveCalibration(instruction))` -/
  | recursiveCalibration (i : Instruction)
  /-- the Rust recursion is unbounded here; the fuel ran out -/
  | outOfFuel
  deriving Inhabited

section
variable {κ : Type} [DecidableEq κ] (E : Env κ) (S : Subst)

/-- The `match instruction` of `expand_inner` (calibration.rs:402-513): the instantiated body of the matching
calibration and its source, `none` when nothing matches or the instruction is neither a gate nor a
measurement. -/
def oneStep (cals : Cals) (i : Instruction) : Option (List Instruction × CalSource) :=
  match i with
  | .gate g =>
    match getMatchForGate E cals.cals g with
    | some c => some (c.instructions.map (S.gate c g), .calibration c.identifier)
    | none => none
  | .measurement m =>
    match getMatchForMeasurement cals.mcals m with
    | some c => some (c.instructions.map (S.meas c m), .measureCalibration c.identifier)
    | none => none
  | _ => none

/-- The `for` loop of `recursively_expand_inner` (calibration.rs:540-592) over the instantiated body, the
recursive call abstracted as `rec`: an expanded instruction contributes its expansion, an unexpanded one
itself; the first error aborts (`?`).  (`build_source_map` only adds bookkeeping to `detail`, property C19's
subject; both branches extend `new_instructions` with the same values, calibration.rs:545-571.) -/
def expandSeq (rec : Instruction → Outcome (Option (List Instruction))) :
    List Instruction → Outcome (List Instruction)
  | [] => .ok []
  | i :: rest =>
    match rec i with
    | .ok (some out) =>
      match expandSeq rec rest with
      | .ok outs => .ok (out ++ outs)
      | .recursiveCalibration j => .recursiveCalibration j
      | .outOfFuel => .outOfFuel
    | .ok none =>
      match expandSeq rec rest with
      | .ok outs => .ok (i :: outs)
      | .recursiveCalibration j => .recursiveCalibration j
      | .outOfFuel => .outOfFuel
    | .recursiveCalibration j => .recursiveCalibration j
    | .outOfFuel => .outOfFuel

/-- `Calibrations::expand_inner` + `recursively_expand_inner` (calibration.rs:393-607), instruction list
only.  `prev` = the KEYS of `previous_calibrations` (newest first, calibration.rs:516-518): the breadcrumbs
are only ever tested for membership (`contains`, 399), so the model carries their keys.  One unit of fuel per
level of the Rust recursion. -/
def expandInnerWith (cals : Cals) : Nat → List κ → Instruction → Outcome (Option (List Instruction))
  | 0, _, _ => .outOfFuel
  | fuel + 1, prev, i =>
    if prev.contains (E.key i) then .recursiveCalibration i                  -- 399-401
    else
      match oneStep E S cals i with
      | none => .ok none                                                       -- 605
      | some (body, _) =>
        match expandSeq (expandInnerWith cals fuel (E.key i :: prev)) body with -- 516-520, 540-542
        | .ok out => .ok (some out)
        | .recursiveCalibration j => .recursiveCalibration j
        | .outOfFuel => .outOfFuel

/-- `Calibrations::expand(instruction, previous_calibrations)` (calibration.rs:363-370) as the code is. -/
def expandInner (cals : Cals) (fuel : Nat) (prev : List Instruction) (i : Instruction) :
    Outcome (Option (List Instruction)) :=
  expandInnerWith E codeSubst cals fuel (prev.map E.key) i

end

/-! ### The program container (`Program`, program/mod.rs:181-200) on the full AST

Every `IndexMap` is an ordered association list whose stored value is the defining instruction itself (the
key is a function of the instruction and `to_instructions` rebuilds exactly that instruction from key and
value).  `used_qubits` is property C10's subject and is left out. -/

structure Prog where
  cals : Cals := {}
  externs : List (Option String × Instruction) := []
  memoryRegions : List (String × Instruction) := []
  frames : List (FrameIdentifier × Instruction) := []
  waveforms : List (String × Instruction) := []
  gateDefinitions : List (String × Instruction) := []
  circuits : List (String × Instruction) := []
  instructions : List Instruction := []
  deriving Inhabited

/-- `IndexMap::insert`: replace the value in place when the key is present, append otherwise. -/
def upsert {K V : Type} [DecidableEq K] (m : List (K × V)) (k : K) (v : V) : List (K × V) :=
  match m with
  | [] => [(k, v)]
  | (k', v') :: rest => if k' = k then (k, v) :: rest else (k', v') :: upsert rest k v

/-- key of a `PRAGMA EXTERN` in the `ExternPragmaMap` (instruction/extern_call.rs:333-341) -/
def externKey (p : Pragma) : Option String :=
  match p.arguments with
  | .identifier name :: _ => some name
  | _ => none

/-- `Program::add_instruction` (program/mod.rs:233-306), same routing. -/
def Prog.add (p : Prog) (i : Instruction) : Prog :=
  match i with
  | .calibrationDefinition id is =>      -- 245-247 `CalibrationSet::replace` (calibration_set.rs:99)
    { p with cals := { p.cals with
        cals := (C16.replace (fun c : CalDef => c.identifier) p.cals.cals ⟨id, is⟩).1 } }
  | .circuitDefinition name _ _ _ => { p with circuits := upsert p.circuits name i }
  | .frameDefinition f => { p with frames := upsert p.frames f.identifier i }
  | .declaration d => { p with memoryRegions := upsert p.memoryRegions d.name i }
  | .gateDefinition g => { p with gateDefinitions := upsert p.gateDefinitions g.name i }
  | .measureCalibrationDefinition id is =>
    { p with cals := { p.cals with
        mcals := (C16.replace (fun c : MCalDef => c.identifier) p.cals.mcals ⟨id, is⟩).1 } }
  | .waveformDefinition w => { p with waveforms := upsert p.waveforms w.name i }
  | .pragma pr =>
    if pr.name == "EXTERN" then { p with externs := upsert p.externs (externKey pr) i }
    else { p with instructions := p.instructions ++ [i] }
  | other => { p with instructions := p.instructions ++ [other] }

/-- `Program::add_instructions` (501-508) -/
def Prog.addMany (p : Prog) (is : List Instruction) : Prog := is.foldl Prog.add p

/-- `Program::from_instructions` (796-802) -/
def Prog.fromInstructions (is : List Instruction) : Prog := Prog.addMany {} is

/-- `Calibrations::to_instructions` (calibration.rs:108-118) -/
def Cals.toInstructions (c : Cals) : List Instruction :=
  c.cals.map (fun d => .calibrationDefinition d.identifier d.instructions) ++
  c.mcals.map (fun d => .measureCalibrationDefinition d.identifier d.instructions)

/-- the definitions part of `Program::to_instructions` (441-470) -/
def Prog.definitions (p : Prog) : List Instruction :=
  p.externs.map (·.2) ++ p.memoryRegions.map (·.2) ++ p.frames.map (·.2) ++ p.waveforms.map (·.2) ++
  p.cals.toInstructions ++ p.gateDefinitions.map (·.2) ++ p.circuits.map (·.2)

/-- `Program::to_instructions` (441-474) -/
def Prog.toInstructions (p : Prog) : List Instruction := p.definitions ++ p.instructions

/-- `Program::clone_without_body_instructions` (213-225) -/
def Prog.cloneWithoutBody (p : Prog) : Prog := { p with instructions := [] }

/-- where a source instruction went: top level of the `SourceMap` returned by
`expand_calibrations_with_source_map` (the nested `CalibrationExpansion` details are C19's subject) -/
inductive Loc where
  | unmodified (target : Nat)
  | rewritten (start stop : Nat)
  deriving DecidableEq, Repr, Inhabited

structure Entry where
  source : Nat
  target : Loc
  deriving DecidableEq, Repr, Inhabited

/-- The `for` loop of the WITH-source-map branch of `append_calibration_expansion_output_inner` (764-778):
each instruction is added on its own; the body length is read before (`start_length`) and after (`end_length`)
the call; when the two are equal the instruction did not land in the body and its target index RELATIVE to
`previous` (the body length when the expansion started) is removed from the expansion's detail
(`remove_target_index`, property C19's subject — the model records the removed indices, in order). -/
def Prog.appendLoop (previous : Nat) : Prog → List Instruction → List Nat → Prog × List Nat
  | p, [], removed => (p, removed)
  | p, i :: rest, removed =>
    let startLength := p.instructions.length
    let p' := p.add i
    let endLength := p'.instructions.length
    if startLength == endLength then appendLoop previous p' rest (removed ++ [startLength - previous])
    else appendLoop previous p' rest removed

/-- `append_calibration_expansion_output_inner` (755-793), both branches.  With a source map: the loop above,
then the range `previous .. body length`, and an entry is pushed unless the range is empty.  Without:
`add_instructions` (791). -/
def Prog.appendExpansion (p : Prog) (out : List Instruction) (source : Nat) (sm : Option (List Entry)) :
    Prog × Option (List Entry) :=
  match sm with
  | some entries =>
    let previous := p.instructions.length
    let p' := (Prog.appendLoop previous p out []).1
    let stop := p'.instructions.length
    (p', some (if previous < stop then entries ++ [⟨source, .rewritten previous stop⟩] else entries))
  | none => (p.addMany out, none)

section
variable {κ : Type} [DecidableEq κ] (E : Env κ) (S : Subst)

/-- The `for` loop of `expand_calibrations_inner` (548-571) from source index `index` on; `self` = `src`. -/
def expandLoop (src : Prog) (fuel : Nat) : List Instruction → Nat → Prog → Option (List Entry) →
    Outcome (Prog × Option (List Entry))
  | [], _, np, sm => .ok (np, sm)
  | i :: rest, index, np, sm =>
    match expandInnerWith E S src.cals fuel [] i with                      -- 551 (`?`)
    | .ok (some out) =>
      let r := np.appendExpansion out index sm                                  -- 553-557
      expandLoop src fuel rest (index + 1) r.1 r.2
    | .ok none =>
      let np' := np.add i                                                       -- 560
      let sm' := sm.map (fun es => es ++ [⟨index, .unmodified (np'.instructions.length - 1)⟩])  -- 561-568
      expandLoop src fuel rest (index + 1) np' sm'
    | .recursiveCalibration j => .recursiveCalibration j
    | .outOfFuel => .outOfFuel

/-- `Program::expand_calibrations_inner` (540-574); `withMap` = a source map was passed. -/
def expandCalibrationsWith (p : Prog) (fuel : Nat) (withMap : Bool) : Outcome (Prog × Option (List Entry)) :=
  expandLoop E S p fuel p.instructions 0 p.cloneWithoutBody (if withMap then some [] else none)

end

section
variable {κ : Type} [DecidableEq κ] (E : Env κ)

/-- `Program::expand_calibrations` (334-336) -/
def expandCalibrations (p : Prog) (fuel : Nat) : Outcome Prog :=
  match expandCalibrationsWith E codeSubst p fuel false with
  | .ok r => .ok r.1
  | .recursiveCalibration j => .recursiveCalibration j
  | .outOfFuel => .outOfFuel

/-- `Program::expand_calibrations_with_source_map` (523-533) -/
def expandCalibrationsWithSourceMap (p : Prog) (fuel : Nat) : Outcome (Prog × List Entry) :=
  match expandCalibrationsWith E codeSubst p fuel true with
  | .ok r => .ok (r.1, r.2.getD [])
  | .recursiveCalibration j => .recursiveCalibration j
  | .outOfFuel => .outOfFuel

end

end QV.C17
