import QV.Wire
import QV.Shared.AstWire
import QV.Shared.CFloat
import QV.C12.Model
import QV.C17.Model
import QV.C17.Spec
/-!
Driver library shared by the C17 and C18 drivers (`QV.C17.Run`, `QV.C18.Run`): the instantiation of the
model's oracles, the encoders of the model's results, distribution tags.  No `main` here.

The model's two oracles are instantiated here:
* `simp` := C12's model of `Expression::into_simplified` (`QV.C12.simplifyTop`, run on `CFloat`), followed by
  the canonical representative of the `Expression::eq` class of every number (`-0.0 ↦ +0.0`, NaN ↦ one NaN);
  `simpLite` (constant folding of closed real arithmetic, nothing else) is a self-contained fallback that is
  always compiled and run alongside: cases where the two oracles make the model answer differently are
  tagged `simp-lite-differs`.  If `QV.C12.Model` ever stops building, replace `simpC12` by `simpLite` in
  `env` and drop the import: the C17/C18 generators stay inside the fragment where both agree.
* `key` := the text of the shared wire encoding of the instruction.
-/
namespace QV.C17.Drv
open QV QV.Ast QV.AstWire QV.C17

/-! ### the simplifier oracle -/

def toCF (z : CBits) : CFloat := (Float.ofBits z.re.toUInt64, Float.ofBits z.im.toUInt64)

def canonBits (x : Float) : Nat :=
  if x.isNaN then 0x7FF8000000000000 else if x == 0.0 then 0 else x.toBits.toNat

def ofCF (z : CFloat) : CBits := ⟨canonBits z.1, canonBits z.2⟩

/-- C12's model of `into_simplified`, numbers canonicalised -/
def simpC12 (e : PExpr) : PExpr :=
  (QV.C12.simplifyTop ([] : List CFloat) (e.mapNum toCF)).mapNum ofCF

/-- value of a closed expression built from real literals, `pi`, `+ - * /` and prefix signs -/
def evalLite : PExpr → Option Float
  | .number z => if z.im == 0 then some (Float.ofBits z.re.toUInt64) else none
  | .pi => some CFloat.piF
  | .pre .plus e => evalLite e
  | .pre .minus e => (evalLite e).map (fun v => 0.0 - v)
  | .bin l op r =>
    match evalLite l, evalLite r with
    | some a, some b =>
      match op with
      | .plus => some (a + b)
      | .minus => some (a - b)
      | .star => some (a * b)
      | .slash => some (a / b)
      | .caret => none
    | _, _ => none
  | _ => none

/-- fallback oracle: fold closed real arithmetic, leave everything else as written -/
def simpLite (e : PExpr) : PExpr :=
  match evalLite e with
  | some v => .number ⟨canonBits v, 0⟩
  | none => e.mapNum (fun z => ofCF (toCF z))

def keyText (i : Instruction) : String := toString (encodeInstruction i)

def env : Env String := { simp := simpC12, key := keyText }
def envLite : Env String := { simp := simpLite, key := keyText }

/-- fuel of the drivers: far above the depth any generated finite case reaches -/
def FUEL : Nat := 10000

/-! ### encoding of the model's results -/

def encErr {α : Type} (f : α → Sexp) : Outcome α → Sexp
  | .ok a => f a
  | .recursiveCalibration i => .list [.atom "recursive", encodeInstruction i]
  | .outOfFuel => .list [.atom "out-of-fuel"]

def encLoc : Loc → Sexp
  | .unmodified t => .list [.atom "u", encodeNat t]
  | .rewritten a b => .list [.atom "r", encodeNat a, encodeNat b]

def encEntry (e : Entry) : Sexp := .list [encodeNat e.source, encLoc e.target]

def modelProg (E : Env String) (S : Subst) (is : List Instruction) : Sexp :=
  let p := Prog.fromInstructions is
  let first := expandCalibrationsWith E S p FUEL false
  let r := match first with
    | .ok r => .list [.atom "ok", encodeInstructionList r.1.toInstructions]
    | .recursiveCalibration i => .list [.atom "recursive", encodeInstruction i]
    | .outOfFuel => .list [.atom "out-of-fuel"]
  let m := match expandCalibrationsWith E S p FUEL true with
    | .ok r => .list [.atom "ok", encodeInstructionList r.1.toInstructions,
        .list ((r.2.getD []).map encEntry)]
    | .recursiveCalibration i => .list [.atom "recursive", encodeInstruction i]
    | .outOfFuel => .list [.atom "out-of-fuel"]
  -- expanding the expanded program once more
  let again : Sexp := match first with
    | .ok r =>
      match expandCalibrationsWith E S r.1 FUEL false with
      | .ok r2 => .atom (if encodeInstructionList r2.1.toInstructions == encodeInstructionList r.1.toInstructions
          then "same" else "differs")
      | _ => .atom "error"
    | _ => .atom "na"
  .list [.atom "out", r, m, again]

def encExpand : Outcome (Option (List Instruction)) → Sexp
  | .ok none => .list [.atom "ok", .list [.atom "none"], .atom "same"]
  | .ok (some out) => .list [.atom "ok", .list [.atom "some", encodeInstructionList out], .atom "same"]
  | .recursiveCalibration j => .list [.atom "recursive", encodeInstruction j, .atom "same"]
  | .outOfFuel => .list [.atom "out-of-fuel"]

def modelExpand (E : Env String) (S : Subst) (is : List Instruction) (i : Instruction)
    (prev : List Instruction) : Sexp :=
  let p := Prog.fromInstructions is
  encExpand (expandInnerWith E S p.cals FUEL (prev.map E.key) i)

/-! ### tags -/

def calTags (p : Prog) : List String :=
  let cs := p.cals.cals
  let ms := p.cals.mcals
  (if cs.any (fun c => c.identifier.parameters.any (fun e => match e with | .var _ => true | _ => false))
    then ["cal-param-var"] else []) ++
  (if cs.any (fun c => c.identifier.qubits.any (fun q => match q with | .variable _ => true | _ => false))
    then ["cal-qubit-var"] else []) ++
  (if cs.any (fun c => c.instructions.any isDefinition) || ms.any (fun c => c.instructions.any isDefinition)
    then ["cal-with-definition"] else []) ++
  (if ms.any (fun c => match c.identifier.qubit with | .variable _ => true | _ => false)
    then ["mcal-qubit-var"] else []) ++
  (if ms.any (fun c => c.identifier.target.isSome) then ["mcal-target"] else []) ++
  [s!"ncal{min cs.length 4}", s!"nmcal{min ms.length 3}", s!"nbody{min p.instructions.length 5}"]

/-- depth of the expansion of one instruction (0 = no match), by the model; a revisit on the current path
(the recursion error) is not followed -/
def depthOf (E : Env String) (cals : Cals) : Nat → List String → Instruction → Nat
  | 0, _, _ => 0
  | fuel + 1, path, i =>
    if path.contains (keyText i) then 0
    else match oneStep E codeSubst cals i with
      | none => 0
      | some (body, _) => 1 + (body.map (depthOf E cals fuel (keyText i :: path))).foldl max 0

def outKindTags (p : Prog) : List String :=
  let kinds := p.instructions.map Instruction.variantName
  (["Gate", "Measurement", "Capture", "RawCapture", "Pulse", "Fence", "Delay", "Reset", "SwapPhases",
    "ShiftPhase", "SetFrequency", "Pragma"].filter (fun k => kinds.contains k)).map (fun k => "out-" ++ k)

end QV.C17.Drv
