import QV.Shared.Parse
/-!
C01 helper lemmas: the "safe" predicate (no crash, and the rest is not longer than the input) and its
preservation by every nom combinator and every parser function of the model.

`Good m p`: on every input shorter than `m`, the parser `p` does not crash and returns a rest that is not
longer than its input.  All the combinator lemmas are uniform in `m`, so that the recursive knots
(`parse`, `parseInstructionAt`) can be tied by induction on the depth budget.
-/
namespace QV.C01
open QV QV.Tok QV.Ast QV.Parse

variable {α β γ : Type}

/-- not a crash, and the rest (if any) is no longer than `i` -/
def Safe (o : Outcome α) (i : List Token) : Prop :=
  match o with
  | .ok _ r => r.length ≤ i.length
  | .err => True
  | .fail => True
  | .crash _ => False

@[simp] theorem safe_ok (v : α) (r i : List Token) : Safe (.ok v r) i ↔ r.length ≤ i.length := Iff.rfl
@[simp] theorem safe_err (i : List Token) : Safe (.err : Outcome α) i := trivial
@[simp] theorem safe_fail (i : List Token) : Safe (.fail : Outcome α) i := trivial
@[simp] theorem safe_crash (w : String) (i : List Token) : ¬ Safe (.crash w : Outcome α) i := id

theorem Safe.mono {o : Outcome α} {i j : List Token} (h : Safe o i) (hij : i.length ≤ j.length) : Safe o j := by
  cases o <;> simp_all [Safe]; omega

theorem Safe.not_crash {o : Outcome α} {i : List Token} (h : Safe o i) (w : String) : o ≠ .crash w := by
  intro e; subst e; exact h

theorem safe_map (f : α → β) {o : Outcome α} {i : List Token} (h : Safe o i) : Safe (o.map f) i := by
  cases o <;> simp_all [Safe, Outcome.map]

/-- `p` is safe on every input shorter than `m` -/
structure Good (m : Nat) (p : Parser α) : Prop where
  safe : ∀ i : List Token, i.length < m → Safe (p i) i

theorem Good.mono {m k : Nat} {p : Parser α} (h : Good m p) (hk : k ≤ m) : Good k p :=
  ⟨fun i hi => h.safe i (by omega)⟩

/-! ## the monad -/

@[simp] theorem bind_eq (p : Parser α) (f : α → Parser β) : (p >>= f) = Parser.bind p f := rfl
@[simp] theorem pure_eq (a : α) : (Pure.pure a : Parser α) = Parser.pure a := rfl
@[simp] theorem seq_unit_eq (p : Parser Unit) (q : Parser β) :
    (do p; q) = Parser.bind p (fun _ => q) := rfl

theorem good_pure (m : Nat) (a : α) : Good m (Parser.pure a) := by
  refine ⟨fun i _ => ?_⟩; simp [Parser.pure]

theorem good_bind {m : Nat} {p : Parser α} {f : α → Parser β} (hp : Good m p) (hf : ∀ a, Good m (f a)) :
    Good m (Parser.bind p f) := by
  refine ⟨fun i hi => ?_⟩
  have h := hp.safe i hi
  unfold Parser.bind
  cases hpi : p i with
  | ok v r =>
    rw [hpi] at h
    simp only [safe_ok] at h
    exact ((hf v).safe r (by omega)).mono h
  | err => simp
  | fail => simp
  | crash w => rw [hpi] at h; exact absurd h (safe_crash w i)

theorem good_error (m : Nat) : Good m (Parser.error : Parser α) := ⟨fun _ _ => trivial⟩
theorem good_failure (m : Nat) : Good m (Parser.failure : Parser α) := ⟨fun _ _ => trivial⟩

/-! ## tokens -/

theorem good_tok (m : Nat) (t : Token) : Good m (tok t) := by
  refine ⟨fun i _ => ?_⟩; unfold tok; split <;> (try split) <;> simp

theorem good_tokIdentifier (m : Nat) : Good m tokIdentifier := by
  refine ⟨fun i _ => ?_⟩; unfold tokIdentifier; split <;> simp
theorem good_tokInteger (m : Nat) : Good m tokInteger := by
  refine ⟨fun i _ => ?_⟩; unfold tokInteger; split <;> simp
theorem good_tokFloat (m : Nat) : Good m tokFloat := by
  refine ⟨fun i _ => ?_⟩; unfold tokFloat; split <;> simp
theorem good_tokString (m : Nat) : Good m tokString := by
  refine ⟨fun i _ => ?_⟩; unfold tokString; split <;> simp
theorem good_tokVariable (m : Nat) : Good m tokVariable := by
  refine ⟨fun i _ => ?_⟩; unfold tokVariable; split <;> simp
theorem good_tokTarget (m : Nat) : Good m tokTarget := by
  refine ⟨fun i _ => ?_⟩; unfold tokTarget; split <;> simp
theorem good_tokDataType (m : Nat) : Good m tokDataType := by
  refine ⟨fun i _ => ?_⟩; unfold tokDataType; split <;> simp
theorem good_tokModifier (m : Nat) : Good m tokModifier := by
  refine ⟨fun i _ => ?_⟩; unfold tokModifier; split <;> simp
theorem good_tokComment (m : Nat) : Good m tokComment := by
  refine ⟨fun i _ => ?_⟩; unfold tokComment; split <;> simp

/-! ## combinators -/

theorem good_opt {m : Nat} {p : Parser α} (hp : Good m p) : Good m (opt p) := by
  refine ⟨fun i hi => ?_⟩
  have h := hp.safe i hi
  unfold opt
  cases hpi : p i <;> simp_all

theorem good_alt {m : Nat} {p q : Parser α} (hp : Good m p) (hq : Good m q) : Good m (alt p q) := by
  refine ⟨fun i hi => ?_⟩
  have h := hp.safe i hi
  unfold alt
  cases hpi : p i <;> simp_all
  exact hq.safe i hi

theorem good_cut {m : Nat} {p : Parser α} (hp : Good m p) : Good m (cut p) := by
  refine ⟨fun i hi => ?_⟩
  have h := hp.safe i hi
  unfold cut
  cases hpi : p i <;> simp_all

theorem good_pmap {m : Nat} (f : α → β) {p : Parser α} (hp : Good m p) : Good m (pmap f p) :=
  ⟨fun i hi => safe_map f (hp.safe i hi)⟩

theorem good_mapRes {m : Nat} {p : Parser α} (f : α → Option β) (hp : Good m p) : Good m (mapRes p f) := by
  refine ⟨fun i hi => ?_⟩
  have h := hp.safe i hi
  unfold mapRes
  cases hpi : p i with
  | ok v r =>
    rw [hpi] at h
    simp only [safe_ok] at h
    simp only
    cases hf : f v <;> simp [h]
  | err => simp
  | fail => simp
  | crash w => rw [hpi] at h; exact absurd h (safe_crash w i)

theorem good_preceded {m : Nat} {p : Parser α} {q : Parser β} (hp : Good m p) (hq : Good m q) :
    Good m (preceded p q) := good_bind hp fun _ => hq

theorem good_pair {m : Nat} {p : Parser α} {q : Parser β} (hp : Good m p) (hq : Good m q) :
    Good m (pair p q) := good_bind hp fun _ => good_bind hq fun _ => good_pure m _

theorem good_delimited {m : Nat} {l : Parser α} {p : Parser β} {r : Parser γ} (hl : Good m l) (hp : Good m p)
    (hr : Good m r) : Good m (delimited l p r) :=
  good_bind hl fun _ => good_bind hp fun _ => good_bind hr fun _ => good_pure m _

theorem safe_many0Fuel {m : Nat} {p : Parser α} (hp : Good m p) :
    ∀ (k : Nat) (i : List Token), i.length < k → i.length < m → Safe (many0Fuel p k i) i := by
  intro k
  induction k with
  | zero => intro i h; omega
  | succ k ih =>
    intro i hk hm
    have h := hp.safe i hm
    unfold many0Fuel
    cases hpi : p i with
    | ok v r =>
      rw [hpi] at h
      simp only [safe_ok] at h
      simp only
      split
      · simp
      · rename_i hne
        have hlt : r.length < i.length := by
          simp only [beq_iff_eq] at hne; omega
        exact (safe_map _ (ih r (by omega) (by omega))).mono (by omega)
    | err => simp
    | fail => simp
    | crash w => rw [hpi] at h; exact absurd h (safe_crash w i)

theorem good_many0 {m : Nat} {p : Parser α} (hp : Good m p) : Good m (many0 p) :=
  ⟨fun i hi => safe_many0Fuel hp (i.length + 1) i (by omega) hi⟩

theorem good_many1 {m : Nat} {p : Parser α} (hp : Good m p) : Good m (many1 p) := by
  refine ⟨fun i hi => ?_⟩
  have h := hp.safe i hi
  unfold many1
  cases hpi : p i with
  | ok v r =>
    rw [hpi] at h
    simp only [safe_ok] at h
    exact (safe_map _ (safe_many0Fuel hp (r.length + 1) r (by omega) (by omega))).mono h
  | err => simp
  | fail => simp
  | crash w => rw [hpi] at h; exact absurd h (safe_crash w i)

theorem safe_sepLoopFuel {m : Nat} {sep : Parser β} {p : Parser α} (hs : Good m sep) (hp : Good m p) :
    ∀ (k : Nat) (i : List Token), i.length < k → i.length < m → Safe (sepLoopFuel sep p k i) i := by
  intro k
  induction k with
  | zero => intro i h; omega
  | succ k ih =>
    intro i hk hm
    have h := hs.safe i hm
    unfold sepLoopFuel
    cases hsi : sep i with
    | ok u i1 =>
      rw [hsi] at h
      simp only [safe_ok] at h
      simp only
      split
      · simp
      · rename_i hne
        have hlt : i1.length < i.length := by
          simp only [beq_iff_eq] at hne; omega
        have h1 := hp.safe i1 (by omega)
        cases hpi : p i1 with
        | ok v i2 =>
          rw [hpi] at h1
          simp only [safe_ok] at h1
          exact (safe_map _ (ih i2 (by omega) (by omega))).mono (by omega)
        | err => simp
        | fail => simp
        | crash w => rw [hpi] at h1; exact absurd h1 (safe_crash w i1)
    | err => simp
    | fail => simp
    | crash w => rw [hsi] at h; exact absurd h (safe_crash w i)

theorem good_separatedList0 {m : Nat} {sep : Parser β} {p : Parser α} (hs : Good m sep) (hp : Good m p) :
    Good m (separatedList0 sep p) := by
  refine ⟨fun i hi => ?_⟩
  have h := hp.safe i hi
  unfold separatedList0
  cases hpi : p i with
  | ok v r =>
    rw [hpi] at h
    simp only [safe_ok] at h
    exact (safe_map _ (safe_sepLoopFuel hs hp (r.length + 1) r (by omega) (by omega))).mono h
  | err => simp
  | fail => simp
  | crash w => rw [hpi] at h; exact absurd h (safe_crash w i)

theorem good_separatedList1 {m : Nat} {sep : Parser β} {p : Parser α} (hs : Good m sep) (hp : Good m p) :
    Good m (separatedList1 sep p) := by
  refine ⟨fun i hi => ?_⟩
  have h := hp.safe i hi
  unfold separatedList1
  cases hpi : p i with
  | ok v r =>
    rw [hpi] at h
    simp only [safe_ok] at h
    exact (safe_map _ (safe_sepLoopFuel hs hp (r.length + 1) r (by omega) (by omega))).mono h
  | err => simp
  | fail => simp
  | crash w => rw [hpi] at h; exact absurd h (safe_crash w i)

theorem good_allConsuming {m : Nat} {p : Parser α} (hp : Good m p) : Good m (allConsuming p) := by
  refine ⟨fun i hi => ?_⟩
  have h := hp.safe i hi
  unfold allConsuming
  cases hpi : p i with
  | ok v r => cases r <;> simp
  | err => simp
  | fail => simp
  | crash w => rw [hpi] at h; exact absurd h (safe_crash w i)

/-- a parser given as a function of its input is good if it is safe pointwise -/
theorem good_of_forall {m : Nat} {p : Parser α} (h : ∀ i, i.length < m → Safe (p i) i) : Good m p := ⟨h⟩

end QV.C01
