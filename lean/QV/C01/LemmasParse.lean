import QV.C01.Lemmas
/-!
C01 helper lemmas, part 2: every parser function of the model is `Good` (no crash, rest not longer than
the input), given that the parsers it is parametrised by are.  Then the two recursive knots.
-/
namespace QV.C01
open QV QV.Tok QV.Ast QV.Parse

variable {α β γ : Type}

/-- one decomposition step of a `Good m p` goal -/
syntax "good_step" : tactic
macro_rules
  | `(tactic| good_step) => `(tactic| first
      | assumption
      | apply good_pure
      | apply good_tok | apply good_tokIdentifier | apply good_tokInteger | apply good_tokFloat
      | apply good_tokString | apply good_tokVariable | apply good_tokTarget | apply good_tokDataType
      | apply good_tokModifier | apply good_tokComment
      | apply good_opt | apply good_cut | apply good_alt | apply good_pmap | apply good_mapRes
      | apply good_preceded | apply good_pair | apply good_delimited | apply good_many0 | apply good_many1
      | apply good_separatedList0 | apply good_separatedList1 | apply good_allConsuming
      | apply good_bind
      | intro _
      | split)

/-- prove `Good m p` by decomposing `p` along the combinators -/
macro "good" : tactic => `(tactic| repeat good_step)

/-! ## common.rs -/

theorem good_parseMemoryReference (m : Nat) : Good m parseMemoryReference := by
  unfold parseMemoryReference; good
theorem good_parseMemoryReferenceWithBrackets (m : Nat) : Good m parseMemoryReferenceWithBrackets := by
  unfold parseMemoryReferenceWithBrackets; good
theorem good_optMinus (m : Nat) : Good m optMinus := by
  unfold optMinus; good

macro_rules
  | `(tactic| good_step) => `(tactic| first
      | apply good_parseMemoryReference | apply good_parseMemoryReferenceWithBrackets | apply good_optMinus)

theorem good_parseArithmeticOperand (m : Nat) : Good m parseArithmeticOperand := by
  unfold parseArithmeticOperand; good
theorem good_parseComparisonOperand (m : Nat) : Good m parseComparisonOperand := by
  unfold parseComparisonOperand; good
theorem good_parseBinaryLogicOperand (m : Nat) : Good m parseBinaryLogicOperand := by
  unfold parseBinaryLogicOperand; good

theorem good_parseQubit (m : Nat) : Good m parseQubit := by
  refine ⟨fun i _ => ?_⟩; unfold parseQubit; split <;> simp
theorem good_parseVariableQubit (m : Nat) : Good m parseVariableQubit := by
  refine ⟨fun i _ => ?_⟩; unfold parseVariableQubit; split <;> simp
theorem good_parseI (m : Nat) : Good m parseI := by
  refine ⟨fun i _ => ?_⟩; unfold parseI; split <;> (try split) <;> simp

macro_rules
  | `(tactic| good_step) => `(tactic| first
      | apply good_parseArithmeticOperand | apply good_parseComparisonOperand
      | apply good_parseBinaryLogicOperand | apply good_parseQubit | apply good_parseVariableQubit
      | apply good_parseI)

theorem good_parseFrameAttribute {m : Nat} {pe : Parser PExpr} (hpe : Good m pe) :
    Good m (parseFrameAttribute pe) := by
  unfold parseFrameAttribute; good
theorem good_parseFrameIdentifier (m : Nat) : Good m parseFrameIdentifier := by
  unfold parseFrameIdentifier; good
theorem good_parseGateModifier (m : Nat) : Good m parseGateModifier := by
  unfold parseGateModifier; good
theorem good_parseMatrix {m : Nat} {pe : Parser PExpr} (hpe : Good m pe) : Good m (parseMatrix pe) := by
  unfold parseMatrix; good
theorem good_parsePermutation (m : Nat) : Good m parsePermutation := by
  unfold parsePermutation; good
theorem good_parsePauliWord (m : Nat) : Good m parsePauliWord := by
  unfold parsePauliWord; good

macro_rules
  | `(tactic| good_step) => `(tactic| first
      | apply good_parseFrameAttribute | apply good_parseFrameIdentifier | apply good_parseGateModifier
      | apply good_parseMatrix | apply good_parsePermutation | apply good_parsePauliWord)

theorem good_parsePauliTerm {m : Nat} {pe : Parser PExpr} (hpe : Good m pe) : Good m (parsePauliTerm pe) := by
  unfold parsePauliTerm; good
theorem good_parsePauliTerms {m : Nat} {pe : Parser PExpr} (hpe : Good m pe) : Good m (parsePauliTerms pe) := by
  unfold parsePauliTerms; good
theorem good_parseParameters {m : Nat} {pe : Parser PExpr} (hpe : Good m pe) : Good m (parseParameters pe) := by
  unfold parseParameters; good

macro_rules
  | `(tactic| good_step) => `(tactic| first
      | apply good_parsePauliTerm | apply good_parsePauliTerms | apply good_parseParameters)

theorem good_parseSequenceElement {m : Nat} {pe : Parser PExpr} (hpe : Good m pe) :
    Good m (parseSequenceElement pe) := by
  unfold parseSequenceElement; good
theorem good_parseSequenceElements {m : Nat} {pe : Parser PExpr} (hpe : Good m pe) :
    Good m (parseSequenceElements pe) := by
  unfold parseSequenceElements; good
theorem good_parseNamedArgument {m : Nat} {pe : Parser PExpr} (hpe : Good m pe) :
    Good m (parseNamedArgument pe) := by
  unfold parseNamedArgument; good
theorem good_parseWaveformName (m : Nat) : Good m parseWaveformName := by
  unfold parseWaveformName; good

macro_rules
  | `(tactic| good_step) => `(tactic| first
      | apply good_parseSequenceElement | apply good_parseSequenceElements | apply good_parseNamedArgument
      | apply good_parseWaveformName)

theorem good_parseWaveformInvocation {m : Nat} {pe : Parser PExpr} (hpe : Good m pe) :
    Good m (parseWaveformInvocation pe) := by
  unfold parseWaveformInvocation; good
theorem good_parseSharing (m : Nat) : Good m parseSharing := by
  unfold parseSharing; good
theorem good_parseVector (m : Nat) : Good m parseVector := by
  unfold parseVector; good
theorem good_parseVectorWithBrackets (m : Nat) : Good m parseVectorWithBrackets := by
  unfold parseVectorWithBrackets; good
theorem good_skipNewlinesAndComments (m : Nat) : Good m skipNewlinesAndComments := by
  unfold skipNewlinesAndComments; good

macro_rules
  | `(tactic| good_step) => `(tactic| first
      | apply good_parseWaveformInvocation | apply good_parseSharing | apply good_parseVector
      | apply good_parseVectorWithBrackets | apply good_skipNewlinesAndComments)

/-! ## expression.rs -/

/-- the recursive callback of the expression parser is safe on every input shorter than `m` -/
def RecGood (m : Nat) (rec : ExprRec) : Prop := ∀ (i : List Token) (p : Prec), i.length < m → Safe (rec i p) i

theorem RecGood.good {m : Nat} {rec : ExprRec} (h : RecGood m rec) (p : Prec) : Good m (fun i => rec i p) :=
  ⟨fun i hi => h i p hi⟩

theorem safe_optParseI (r : List Token) : Safe (opt parseI r) r :=
  (good_opt (good_parseI (r.length + 1))).safe r (by omega)

theorem good_parseImmediateValue (m : Nat) : Good m parseImmediateValue := by
  refine ⟨fun i _ => ?_⟩
  cases i with
  | nil => simp [parseImmediateValue]
  | cons t r =>
    have h := safe_optParseI r
    cases t <;> simp only [parseImmediateValue, safe_err]
    all_goals
      cases hh : opt parseI r with
      | ok v r' =>
        rw [hh] at h
        simp only [safe_ok] at h
        cases v <;> simp <;> omega
      | err => simp
      | fail => simp
      | crash w => rw [hh] at h; exact absurd h (safe_crash w r)

theorem good_parsePrefix (m : Nat) : Good m parsePrefix := by
  refine ⟨fun i _ => ?_⟩; unfold parsePrefix; split <;> simp

macro_rules
  | `(tactic| good_step) => `(tactic| first | apply good_parseImmediateValue | apply good_parsePrefix)

theorem good_parseFunctionCall {m : Nat} {rec : ExprRec} (h : RecGood m rec) (f : ExprFn) :
    Good m (parseFunctionCall rec f) := by
  have := h.good Prec.lowest
  unfold parseFunctionCall; good

theorem good_parseGroupedExpression {m : Nat} {rec : ExprRec} (h : RecGood m rec) :
    Good m (parseGroupedExpression rec) := by
  refine ⟨fun i hi => ?_⟩
  have hr := h i Prec.lowest hi
  unfold parseGroupedExpression
  cases hri : rec i Prec.lowest with
  | ok e rest =>
    rw [hri] at hr
    simp only [safe_ok] at hr
    simp only
    split <;> simp_all <;> omega
  | err => simp
  | fail => simp
  | crash w => rw [hri] at hr; exact absurd hr (safe_crash w i)

theorem safe_parseExpressionIdentifier {m : Nat} {rec : ExprRec} (h : RecGood m rec) (input : List Token)
    (hi : input.length < m + 1) : Safe (parseExpressionIdentifier rec input) input := by
  unfold parseExpressionIdentifier
  have ho := (good_opt (good_parseMemoryReferenceWithBrackets (input.length + 1))).safe input (by omega)
  cases hoi : opt parseMemoryReferenceWithBrackets input with
  | ok v rest =>
    rw [hoi] at ho
    simp only [safe_ok] at ho
    cases v with
    | some r => simpa using ho
    | none =>
      simp only
      split
      · simp
      · rename_i ident remainder
        have hrem : remainder.length < m := by simp at ho; omega
        have hfc : ∀ f, Safe (parseFunctionCall rec f remainder) input := fun f =>
          ((good_parseFunctionCall h f).safe remainder hrem).mono (by simp at ho ⊢; omega)
        simp only [List.length_cons] at ho
        repeat' split
        all_goals first | exact hfc _ | (simp; omega)
      · simp
  | err => simp
  | fail => simp
  | crash w => rw [hoi] at ho; exact absurd ho (safe_crash w input)

/-- not a crash, and the rest is strictly shorter than `i` -/
def SafeLt (o : Outcome α) (i : List Token) : Prop :=
  match o with
  | .ok _ r => r.length < i.length
  | .err => True
  | .fail => True
  | .crash _ => False

/-- `parse_infix` consumes the operator: the rest is strictly shorter -/
theorem safe_parseInfix {m : Nat} {rec : ExprRec} (h : RecGood m rec) (input : List Token) (left : PExpr)
    (hi : input.length < m + 1) : SafeLt (parseInfix rec input left) input := by
  cases input with
  | nil => simp [parseInfix, SafeLt]
  | cons t remainder =>
    cases t <;> simp only [parseInfix, SafeLt]
    rename_i o
    have hr := h remainder (precOfOperator o) (by simp at hi; omega)
    cases hri : rec remainder (precOfOperator o) with
    | ok right rest => rw [hri] at hr; simp at hr ⊢; omega
    | err => simp
    | fail => simp
    | crash w => rw [hri] at hr; exact absurd hr (safe_crash w remainder)

theorem safe_parseLoop {m : Nat} {rec : ExprRec} (h : RecGood m rec) (prec : Prec) :
    ∀ (k : Nat) (input : List Token) (left : PExpr), input.length < k → input.length < m + 1 →
      Safe (parseLoop rec prec k input left) input := by
  intro k
  induction k with
  | zero => intro input _ hk; omega
  | succ k ih =>
    intro input left hk hm
    unfold parseLoop
    by_cases hgt : getPrecedence input > prec
    · simp only [hgt, ↓reduceIte]
      cases input with
      | nil => simp
      | cons t rest' =>
        cases t <;> simp only [safe_ok, Nat.le_refl]
        rename_i o
        have hinf := safe_parseInfix h (Token.operator o :: rest') left hm
        cases hpi : parseInfix rec (Token.operator o :: rest') left with
        | ok e rest =>
          rw [hpi] at hinf
          simp only [SafeLt] at hinf
          simp only
          exact (ih rest e (by omega) (by omega)).mono (by omega)
        | err => simp
        | fail => simp
        | crash w => rw [hpi] at hinf; exact absurd hinf id
    · simp [hgt]

theorem safe_parseOperand {m : Nat} {rec : ExprRec} (h : RecGood m rec) (imm : Option CBits)
    (input : List Token) (hi : input.length < m + 1) : Safe (parseOperand rec imm input) input := by
  unfold parseOperand
  cases imm with
  | some n => simp
  | none =>
    simp only
    cases input with
    | nil => simp
    | cons t remainder =>
      cases t <;> simp only [safe_err, safe_ok, List.length_cons, Nat.le_succ]
      · exact safe_parseExpressionIdentifier h _ hi
      · exact ((good_parseGroupedExpression h).safe remainder (by simp at hi; omega)).mono (by simp)

theorem safe_parseBody {m : Nat} {rec : ExprRec} (h : RecGood m rec) (input : List Token) (prec : Prec)
    (hi : input.length < m + 1) : Safe (parseBody rec input prec) input := by
  unfold parseBody
  have h1 := (good_opt (good_parsePrefix (m + 1))).safe input hi
  cases hp : opt parsePrefix input with
  | ok pfx input1 =>
    rw [hp] at h1
    simp only [safe_ok] at h1
    simp only
    have h2 := (good_opt (good_parseImmediateValue (m + 1))).safe input1 (by omega)
    cases hv : opt parseImmediateValue input1 with
    | ok imm input2 =>
      rw [hv] at h2
      simp only [safe_ok] at h2
      simp only
      have hs := safe_parseOperand h imm input2 (by omega)
      cases hst : parseOperand rec imm input2 with
      | ok left input3 =>
        rw [hst] at hs
        simp only [safe_ok] at hs
        simp only
        exact (safe_parseLoop h prec _ input3 _ (by omega) (by omega)).mono (by omega)
      | err => simp
      | fail => simp
      | crash w => rw [hst] at hs; exact absurd hs (safe_crash w input2)
    | err => simp
    | fail => simp
    | crash w => rw [hv] at h2; exact absurd h2 (safe_crash w input1)
  | err => simp
  | fail => simp
  | crash w => rw [hp] at h1; exact absurd h1 (safe_crash w input)

/-- the expression knot: a depth budget larger than the number of tokens is never exhausted, and nothing
else crashes -/
theorem recGood_parse : ∀ d : Nat, RecGood d (parse d) := by
  intro d
  induction d with
  | zero => intro i p hi; omega
  | succ d ih => intro i p hi; exact safe_parseBody ih i p hi

theorem good_parseExpressionAt (d : Nat) : Good d (parseExpressionAt d) :=
  ⟨fun i hi => recGood_parse d i Prec.lowest hi⟩

/-! ## gate.rs, pragma_extern.rs -/

theorem good_parseGate {m : Nat} {pe : Parser PExpr} (hpe : Good m pe) : Good m (parseGate pe) := by
  unfold parseGate; good
theorem good_parseVariableLengthVector (m : Nat) : Good m parseVariableLengthVector := by
  unfold parseVariableLengthVector; good

macro_rules
  | `(tactic| good_step) => `(tactic| first | apply good_parseGate | apply good_parseVariableLengthVector)

theorem good_parseExternParameter (m : Nat) : Good m parseExternParameter := by
  unfold parseExternParameter; good

macro_rules
  | `(tactic| good_step) => `(tactic| first | apply good_parseExternParameter)

theorem good_parseExternSignature (m : Nat) : Good m parseExternSignature := by
  unfold parseExternSignature; good

/-! ## command.rs -/

theorem good_parseArithmetic (m : Nat) (op : ArithmeticOperator) : Good m (parseArithmetic op) := by
  unfold parseArithmetic; good
theorem good_parseComparison (m : Nat) (op : ComparisonOperator) : Good m (parseComparison op) := by
  unfold parseComparison; good
theorem good_parseLogicalBinary (m : Nat) (op : BinaryOperator) : Good m (parseLogicalBinary op) := by
  unfold parseLogicalBinary; good
theorem good_parseLogicalUnary (m : Nat) (op : UnaryOperator) : Good m (parseLogicalUnary op) := by
  unfold parseLogicalUnary; good
theorem good_parseDeclare (m : Nat) : Good m parseDeclare := by
  unfold parseDeclare; good

theorem good_parseCallImmediate (m : Nat) : Good m parseCallImmediate := by
  unfold parseCallImmediate
  refine good_bind (by good) fun minus => good_bind (by good) fun first => ⟨fun input hi => ?_⟩
  have h := (good_opt (good_alt (good_preceded (good_tok m (.operator .plus)) (good_parseImmediateValue m))
    (good_pmap cNegate (good_preceded (good_tok m (.operator .minus)) (good_parseImmediateValue m))))).safe
      input hi
  cases hh : opt (alt (preceded (tok (.operator .plus)) parseImmediateValue)
      (pmap cNegate (preceded (tok (.operator .minus)) parseImmediateValue))) input with
  | ok v rest =>
    rw [hh] at h
    simp only [safe_ok] at h
    cases v with
    | some second => simp only; repeat' split
                     all_goals simp [h]
    | none => simp
  | err => simp
  | fail => simp
  | crash w => rw [hh] at h; exact absurd h (safe_crash w input)

macro_rules
  | `(tactic| good_step) => `(tactic| first | apply good_parseCallImmediate)

theorem good_parseCallArgument (m : Nat) : Good m parseCallArgument := by
  unfold parseCallArgument; good

macro_rules
  | `(tactic| good_step) => `(tactic| first | apply good_parseCallArgument)

theorem good_parseCall (m : Nat) : Good m parseCall := by
  unfold parseCall; good
theorem good_parseCapture {m : Nat} {pe : Parser PExpr} (hpe : Good m pe) (b : Bool) :
    Good m (parseCapture pe b) := by
  unfold parseCapture; good
theorem good_parseConvert (m : Nat) : Good m parseConvert := by
  unfold parseConvert; good
theorem good_parseBlockInstruction {m : Nat} {pi : Parser Instruction} (hpi : Good m pi) :
    Good m (parseBlockInstruction pi) := by
  unfold parseBlockInstruction; good

macro_rules
  | `(tactic| good_step) => `(tactic| first | apply good_parseBlockInstruction)

theorem good_parseBlock {m : Nat} {pi : Parser Instruction} (hpi : Good m pi) : Good m (parseBlock pi) := by
  unfold parseBlock; good
theorem good_parseMeasureName (m : Nat) : Good m parseMeasureName := by
  unfold parseMeasureName; good

macro_rules
  | `(tactic| good_step) => `(tactic| first | apply good_parseBlock | apply good_parseMeasureName)

theorem good_parseDefcalGate {m : Nat} {pe : Parser PExpr} {pi : Parser Instruction} (hpe : Good m pe)
    (hpi : Good m pi) : Good m (parseDefcalGate pe pi) := by
  unfold parseDefcalGate; good
theorem good_parseDefcalMeasure {m : Nat} {pi : Parser Instruction} (hpi : Good m pi) :
    Good m (parseDefcalMeasure pi) := by
  unfold parseDefcalMeasure; good

macro_rules
  | `(tactic| good_step) => `(tactic| first | apply good_parseDefcalGate | apply good_parseDefcalMeasure)

theorem good_parseDefcal {m : Nat} {pe : Parser PExpr} {pi : Parser Instruction} (hpe : Good m pe)
    (hpi : Good m pi) : Good m (parseDefcal pe pi) := by
  unfold parseDefcal; good
theorem good_parseDefframe {m : Nat} {pe : Parser PExpr} (hpe : Good m pe) : Good m (parseDefframe pe) := by
  unfold parseDefframe; good
theorem good_parseVariableList (m : Nat) : Good m parseVariableList := by
  unfold parseVariableList; good
theorem good_parseGateType (m : Nat) : Good m parseGateType := by
  unfold parseGateType; good

macro_rules
  | `(tactic| good_step) => `(tactic| first | apply good_parseVariableList | apply good_parseGateType)

theorem good_parseDefgate {m : Nat} {pe : Parser PExpr} (hpe : Good m pe) : Good m (parseDefgate pe) := by
  unfold parseDefgate; good
theorem good_parseDefwaveform {m : Nat} {pe : Parser PExpr} (hpe : Good m pe) : Good m (parseDefwaveform pe) := by
  unfold parseDefwaveform; good
theorem good_parseDefcircuit {m : Nat} {pi : Parser Instruction} (hpi : Good m pi) :
    Good m (parseDefcircuit pi) := by
  unfold parseDefcircuit; good

theorem good_parseDelayFrameNamesAndDuration {m : Nat} {pe : Parser PExpr} (hpe : Good m pe) :
    Good m (parseDelayFrameNamesAndDuration pe) := by
  unfold parseDelayFrameNamesAndDuration; good

/-- `&input[k..]` with `k ≤ input.len()` does not panic -/
theorem sliceFrom_ok (input : List Token) (k : Nat) (h : k ≤ input.length) :
    sliceFrom input k = .ok () (input.drop k) := by
  simp [sliceFrom, h]

theorem sliceTo_ok (input : List Token) (k : Nat) (h : k ≤ input.length) :
    sliceTo input k = .ok () (input.take k) := by
  simp [sliceTo, h]

theorem safe_delayBacktrack {m : Nat} {p : Parser α} (hp : Good m p) (input : List Token)
    (hi : input.length < m) (first : Outcome (α × Nat)) (hf : Safe first input) :
    ∀ k : Nat, k ≤ input.length → Safe (delayBacktrack p input first k) input := by
  intro k
  induction k with
  | zero => intro _; simpa [delayBacktrack] using hf
  | succ k ih =>
    intro hk
    unfold delayBacktrack
    rw [sliceFrom_ok input k (by omega)]
    simp only
    have h := hp.safe (input.drop k) (by simp; omega)
    cases hh : p (input.drop k) with
    | ok v rest => rw [hh] at h; simp at h ⊢; omega
    | err => simpa using ih (by omega)
    | fail => simpa using ih (by omega)
    | crash w => rw [hh] at h; exact absurd h (safe_crash w _)

theorem parseQubit_consumes (i : List Token) (q : Qubit) (r : List Token) (h : parseQubit i = .ok q r) :
    i.length = r.length + 1 := by
  cases i with
  | nil => simp [parseQubit] at h
  | cons t rest =>
    cases t <;> simp [parseQubit] at h
    all_goals (obtain ⟨_, h2⟩ := h; subst h2; simp)

theorem many0_parseQubit_length :
    ∀ (k : Nat) (input : List Token) (qs : List Qubit) (rest : List Token),
      many0Fuel parseQubit k input = .ok qs rest → qs.length + rest.length = input.length := by
  intro k
  induction k with
  | zero => intro input qs rest h; simp [many0Fuel] at h
  | succ k ih =>
    intro input qs rest h
    unfold many0Fuel at h
    cases hp : parseQubit input with
    | ok v r =>
      have hc := parseQubit_consumes input v r hp
      rw [hp] at h
      simp only at h
      split at h
      · simp at h
      · cases hm : many0Fuel parseQubit k r with
        | ok qs' rest' =>
          rw [hm] at h
          simp only [Outcome.map, Outcome.ok.injEq] at h
          obtain ⟨h1, h2⟩ := h
          subst h1 h2
          have := ih r qs' rest' hm
          simp only [List.length_cons]
          omega
        | err => rw [hm] at h; simp [Outcome.map] at h
        | fail => rw [hm] at h; simp [Outcome.map] at h
        | crash w => rw [hm] at h; simp [Outcome.map] at h
    | err =>
      rw [hp] at h
      simp only [Outcome.ok.injEq] at h
      obtain ⟨h1, h2⟩ := h
      subst h1 h2
      simp
    | fail => rw [hp] at h; simp at h
    | crash w => rw [hp] at h; simp at h

theorem safe_delayAttempts {m : Nat} {p : Parser α} (hp : Good m p) (input : List Token)
    (hi : input.length < m) (k : Nat) (hk : k ≤ input.length) : Safe (delayAttempts p input k) input := by
  unfold delayAttempts
  rw [sliceFrom_ok input k hk]
  simp only
  have h := hp.safe (input.drop k) (by simp; omega)
  cases hh : p (input.drop k) with
  | ok v rest' => rw [hh] at h; simp at h ⊢; omega
  | err => exact safe_delayBacktrack hp input hi _ (by simp) _ hk
  | fail => exact safe_delayBacktrack hp input hi _ (by simp) _ hk
  | crash w => rw [hh] at h; exact absurd h (safe_crash w _)

theorem good_parseDelay {m : Nat} {pe : Parser PExpr} (hpe : Good m pe) : Good m (parseDelay pe) := by
  refine ⟨fun input hi => ?_⟩
  unfold parseDelay
  have hq := (good_many0 (good_parseQubit m)).safe input hi
  cases hqi : many0 parseQubit input with
  | ok qubits rest =>
    have hlen : qubits.length ≤ input.length := by
      have := many0_parseQubit_length _ input qubits rest hqi
      omega
    simp only
    have hres := safe_delayAttempts (good_parseDelayFrameNamesAndDuration hpe) input hi qubits.length hlen
    cases hd : delayAttempts (parseDelayFrameNamesAndDuration pe) input qubits.length with
    | ok v rest' =>
      rw [hd] at hres
      obtain ⟨⟨a, b⟩, c⟩ := v
      simpa using hres
    | err => simp
    | fail => simp
    | crash w => rw [hd] at hres; exact absurd hres (safe_crash w input)
  | err => simp
  | fail => simp
  | crash w => rw [hqi] at hq; exact absurd hq (safe_crash w input)

theorem good_parseExchange (m : Nat) : Good m parseExchange := by
  unfold parseExchange; good
theorem good_parseFence (m : Nat) : Good m parseFence := by
  unfold parseFence; good
theorem good_parseJump (m : Nat) : Good m parseJump := by
  unfold parseJump; good
theorem good_parseJumpWhen (m : Nat) : Good m parseJumpWhen := by
  unfold parseJumpWhen; good
theorem good_parseJumpUnless (m : Nat) : Good m parseJumpUnless := by
  unfold parseJumpUnless; good
theorem good_parseLabel (m : Nat) : Good m parseLabel := by
  unfold parseLabel; good
theorem good_parseMove (m : Nat) : Good m parseMove := by
  unfold parseMove; good
theorem good_parseLoad (m : Nat) : Good m parseLoad := by
  unfold parseLoad; good
theorem good_parseStore (m : Nat) : Good m parseStore := by
  unfold parseStore; good
theorem good_parsePragma (m : Nat) : Good m parsePragma := by
  unfold parsePragma; good
theorem good_parsePulse {m : Nat} {pe : Parser PExpr} (hpe : Good m pe) (b : Bool) : Good m (parsePulse pe b) := by
  unfold parsePulse; good
theorem good_parseRawCapture {m : Nat} {pe : Parser PExpr} (hpe : Good m pe) (b : Bool) :
    Good m (parseRawCapture pe b) := by
  unfold parseRawCapture; good
theorem good_parseReset (m : Nat) : Good m parseReset := by
  unfold parseReset; good
theorem good_parseSetFrequency {m : Nat} {pe : Parser PExpr} (hpe : Good m pe) : Good m (parseSetFrequency pe) := by
  unfold parseSetFrequency; good
theorem good_parseSetPhase {m : Nat} {pe : Parser PExpr} (hpe : Good m pe) : Good m (parseSetPhase pe) := by
  unfold parseSetPhase; good
theorem good_parseSetScale {m : Nat} {pe : Parser PExpr} (hpe : Good m pe) : Good m (parseSetScale pe) := by
  unfold parseSetScale; good
theorem good_parseShiftFrequency {m : Nat} {pe : Parser PExpr} (hpe : Good m pe) :
    Good m (parseShiftFrequency pe) := by
  unfold parseShiftFrequency; good
theorem good_parseShiftPhase {m : Nat} {pe : Parser PExpr} (hpe : Good m pe) : Good m (parseShiftPhase pe) := by
  unfold parseShiftPhase; good
theorem good_parseSwapPhases (m : Nat) : Good m parseSwapPhases := by
  unfold parseSwapPhases; good

theorem good_parseMeasurement (m : Nat) : Good m parseMeasurement := by
  unfold parseMeasurement
  refine good_bind (by good) fun name => good_bind (by good) fun qubit => good_bind ⟨fun input hi => ?_⟩
    fun target => good_pure m _
  have h := (good_parseMemoryReference m).safe input hi
  cases hh : parseMemoryReference input with
  | ok t rest => rw [hh] at h; simpa using h
  | err => simp
  | fail => simp
  | crash w => rw [hh] at h; exact absurd h (safe_crash w input)

theorem good_parseInclude (m : Nat) : Good m parseInclude := by
  unfold parseInclude; good

/-! ## instruction.rs -/

theorem good_parseCommand {m : Nat} {pe : Parser PExpr} {pi : Parser Instruction} (hpe : Good m pe)
    (hpi : Good m pi) (c : Command) : Good m (parseCommand pe pi c) := by
  cases c <;> simp only [parseCommand]
  all_goals first
    | apply good_pure
    | apply good_parseArithmetic | apply good_parseLogicalBinary | apply good_parseCall
    | exact good_parseCapture hpe _ | apply good_parseConvert | apply good_parseDeclare
    | exact good_parseDefcal hpe hpi | exact good_parseDefcircuit hpi | exact good_parseDefframe hpe
    | exact good_parseDefgate hpe | exact good_parseDefwaveform hpe | exact good_parseDelay hpe
    | apply good_parseComparison | apply good_parseFence | apply good_parseInclude | apply good_parseJump
    | apply good_parseJumpUnless | apply good_parseJumpWhen | apply good_parseLabel | apply good_parseLoad
    | apply good_parseMeasurement | apply good_parseMove | apply good_parseExchange
    | apply good_parseLogicalUnary | apply good_parsePragma | exact good_parsePulse hpe _
    | exact good_parseRawCapture hpe _ | apply good_parseReset | exact good_parseSetFrequency hpe
    | exact good_parseSetPhase hpe | exact good_parseSetScale hpe | exact good_parseShiftFrequency hpe
    | exact good_parseShiftPhase hpe | apply good_parseSwapPhases | apply good_parseStore

/-- `parse_instruction`: with an expression parser safe below `m + 1` and a nested-instruction parser safe
below `m`, the body is safe below `m + 1` — the nested parser only ever sees inputs from which the command
token has already been removed. -/
theorem good_parseInstructionBody {m : Nat} {pe : Parser PExpr} {pi : Parser Instruction}
    (hpe : Good (m + 1) pe) (hpi : Good m pi) : Good (m + 1) (parseInstructionBody pe pi) := by
  refine ⟨fun input0 hi0 => ?_⟩
  unfold parseInstructionBody
  have hs := (good_skipNewlinesAndComments (m + 1)).safe input0 hi0
  cases hsk : skipNewlinesAndComments input0 with
  | ok u input =>
    rw [hsk] at hs
    simp only [safe_ok] at hs
    have hi : input.length < m + 1 := by omega
    cases input with
    | nil => simp
    | cons t remainder =>
      have hrem : remainder.length < m := by simp at hi; omega
      have hpe' : Good m pe := hpe.mono (by omega)
      cases t
      case command c =>
        simp only
        have hc := (good_parseCommand hpe' hpi c).safe remainder hrem
        rw [sliceTo_ok _ 1 (by simp)]
        cases hcc : parseCommand pe pi c remainder with
        | ok v r => rw [hcc] at hc; simp at hc hs ⊢; omega
        | err => simp
        | fail => simp
        | crash w => rw [hcc] at hc; exact absurd hc (safe_crash w remainder)
      case nonBlocking =>
        simp only
        rw [sliceFrom_ok _ 1 (by simp)]
        cases remainder with
        | nil => simp
        | cons t2 remainder2 =>
          have hrem2 : remainder2.length < m := by simp at hrem; omega
          cases t2
          case command c2 =>
            cases c2 <;> simp only [safe_fail]
            · exact ((good_parseCapture hpe' false).safe remainder2 hrem2).mono (by simp at hs ⊢; omega)
            · exact ((good_parsePulse hpe' false).safe remainder2 hrem2).mono (by simp at hs ⊢; omega)
            · exact ((good_parseRawCapture hpe' false).safe remainder2 hrem2).mono (by simp at hs ⊢; omega)
          all_goals simp
      case identifier s => exact ((good_parseGate hpe).safe _ hi).mono hs
      case modifier mo => exact ((good_parseGate hpe).safe _ hi).mono hs
      all_goals (simp only; rw [sliceTo_ok _ 1 (by simp)]; simp)
  | err => simp
  | fail => simp
  | crash w => rw [hsk] at hs; exact absurd hs (safe_crash w input0)

/-- the instruction knot: a depth budget larger than the number of tokens is never exhausted, and nothing
else crashes -/
theorem good_parseInstructionAt : ∀ d : Nat, Good d (parseInstructionAt d) := by
  intro d
  induction d with
  | zero => exact ⟨fun i hi => by omega⟩
  | succ d ih =>
    show Good (d + 1) (parseInstructionBody (parseExpressionAt (d + 1)) (parseInstructionAt d))
    exact good_parseInstructionBody (good_parseExpressionAt (d + 1)) ih

theorem good_parseInstructionsAt (d : Nat) : Good d (parseInstructionsAt d) := by
  have := good_parseInstructionAt d
  unfold parseInstructionsAt; good

end QV.C01
