import QV.Shared.Parse
import QV.Shared.Lex
import QV.C01.Lemmas
import QV.C01.LemmasParse
import QV.C01.ErrorModel
import QV.C01.Budget
/-!
C01 — parsing never panics or aborts on any input text.

The theorems are about the shared token-level parser model `QV.Shared.Parse` (one Lean function per Rust
function of parser/{instruction,command,common,expression,gate,pragma_extern}.rs, with an explicit `crash`
outcome at every site where the Rust code can panic, and two model budgets whose exhaustion is a `crash`
too) and the shared lexer model `QV.Shared.Lex`.

* `C01_*_no_crash` — for ALL token lists, none of the entry points (`Program::from_str`,
  `Instruction::from_str`, `Expression::from_str`, `MemoryReference::from_str`, `FrameIdentifier::from_str`,
  and `ExternSignature::from_str`) reaches a crash site or exhausts a budget.  Since the budgets stand for
  the recursion depth and the loop iterations, this is also the termination statement: every loop iteration
  and every recursive call consumes a token.
* `C01_*_from_text` — the same composed with the lexer model, for ALL character lists.
* `depth_*` — the recursion depth the parser reaches is at most the number of tokens (+1), and it is
  unbounded: for every `d` there is an input that needs a depth budget above `d`.  A real stack is finite:
  this is the known finding C01/deep-nesting, which no theorem about the model can remove.
-/
namespace QV.C01
open QV QV.Tok QV.Ast QV.Parse

/-! ## the specification, independent of the parser: what "no panic" means for an outcome -/

/-- the property's statement about one outcome: it is a value or an error -/
def Returns {α : Type} (o : Outcome α) : Prop := (∃ v r, o = .ok v r) ∨ o = .err ∨ o = .fail

/-- Bool form, evaluated by the driver on outcome classes -/
def returnsB {α : Type} (o : Outcome α) : Bool := !o.isCrash

theorem returnsB_iff {α : Type} (o : Outcome α) : returnsB o = true ↔ Returns o := by
  cases o <;> simp [returnsB, Returns, Outcome.isCrash]

theorem returns_iff_no_crash {α : Type} (o : Outcome α) : Returns o ↔ ∀ w, o ≠ .crash w := by
  cases o <;> simp [Returns]

theorem returns_of_safe {α : Type} {o : Outcome α} {i : List Token} (h : Safe o i) : Returns o :=
  (returns_iff_no_crash o).2 h.not_crash

theorem safe_disallowLeftover {α : Type} {o : Outcome α} {i : List Token} (h : Safe o i) :
    Safe (disallowLeftover o) i := by
  cases o with
  | ok v r => cases r <;> simp_all [disallowLeftover]
  | err => simp [disallowLeftover]
  | fail => simp [disallowLeftover]
  | crash w => exact absurd h (safe_crash w i)

/-! ## no entry point crashes, on any token list -/

/-- `parse_instructions` at ANY depth budget above the number of tokens: no crash, no exhausted budget. -/
theorem C01_program_no_crash_at (d : Nat) (ts : List Token) (h : ts.length < d) :
    Returns (parseProgramAt d ts) :=
  returns_of_safe (safe_disallowLeftover ((good_parseInstructionsAt d).safe ts h))

/-- `Program::from_str` (after lexing): for ALL token lists the parser returns a value or an error. -/
theorem C01_program_no_crash (ts : List Token) : Returns (parseProgram ts) :=
  C01_program_no_crash_at (budget ts) ts (by simp [budget])

/-- the same, as the statement reads: never `crash` -/
theorem C01_program_never_crashes (ts : List Token) (w : String) : parseProgram ts ≠ .crash w :=
  (returns_iff_no_crash _).1 (C01_program_no_crash ts) w

/-- `Instruction::from_str` (after lexing) -/
theorem C01_instruction_no_crash (ts : List Token) : Returns (parseInstructionStr ts) := by
  have h := (good_parseInstructionsAt (budget ts)).safe ts (by simp [budget])
  unfold parseInstructionStr parseInstructions
  cases hp : parseInstructionsAt (budget ts) ts with
  | ok v r =>
    match v with
    | [] => simp [Returns]
    | [i] => simp [Returns]
    | _ :: _ :: _ => simp [Returns]
  | err => simp [Returns]
  | fail => simp [Returns]
  | crash w => rw [hp] at h; exact absurd h (safe_crash w ts)

/-- `Expression::from_str` (after lexing) -/
theorem C01_expression_no_crash (ts : List Token) : Returns (parseExpressionStr ts) :=
  returns_of_safe (safe_disallowLeftover ((good_parseExpressionAt (budget ts)).safe ts (by simp [budget])))

/-- `MemoryReference::from_str` (after lexing) -/
theorem C01_memory_reference_no_crash (ts : List Token) : Returns (parseMemoryReferenceStr ts) :=
  returns_of_safe (safe_disallowLeftover ((good_parseMemoryReference (ts.length + 1)).safe ts (by omega)))

/-- `FrameIdentifier::from_str` (after lexing) -/
theorem C01_frame_identifier_no_crash (ts : List Token) : Returns (parseFrameIdentifierStr ts) :=
  returns_of_safe (safe_disallowLeftover ((good_parseFrameIdentifier (ts.length + 1)).safe ts (by omega)))

/-- `ExternSignature::from_str` (after lexing; what `PRAGMA EXTERN` signatures go through) -/
theorem C01_extern_signature_no_crash (ts : List Token) : Returns (parseExternSignatureStr ts) :=
  returns_of_safe (safe_disallowLeftover ((good_parseExternSignature (ts.length + 1)).safe ts (by omega)))

/-- Every token-level parser returns a rest that is not longer than its input (so the slices
`&input[..1]`, `&input[qubits.len()..]` are in range and every loop makes progress). -/
theorem C01_rest_not_longer (ts : List Token) (is : List Instruction) (r : List Token)
    (h : parseInstructions ts = .ok is r) : r.length ≤ ts.length := by
  have hs := (good_parseInstructionsAt (budget ts)).safe ts (by simp [budget])
  unfold parseInstructions at h
  rw [h] at hs
  exact hs

/-! ## composed with the lexer: all character lists

The lexer model `QV.Lex.lex : List Char → Option (List Token)` has no crash outcome: the Rust lexer
(parser/lexer/mod.rs, quoted_strings.rs, wrapped_parsers.rs) was examined for panic sites — the only
`unwrap` is on the constant `from_utf8(&[b'0', PREFIX])` (mod.rs:357), the `input.slice(..len)` /
`input.slice(len..)` calls (mod.rs:305-331) use a `len` returned by `lexical` for the same ASCII text
(always a character boundary), there is no indexing, no `as` cast, no checked arithmetic.  (The `lexical`
crate itself is a dependency; its debug assertion on `1._0000000000000000001` was side-stepped in quil-rs
by c330f06 and that input is a regression case of the correspondence check.) -/

/-- a `from_str` entry point: lex, then the token-level entry; a lexing error is an error -/
def fromText {α : Type} (entry : List Token → Outcome α) (cs : List Char) : Outcome α :=
  match QV.Lex.lex cs with
  | some ts => entry ts
  | none => .err

theorem fromText_returns {α : Type} (entry : List Token → Outcome α) (h : ∀ ts, Returns (entry ts))
    (cs : List Char) : Returns (fromText entry cs) := by
  unfold fromText
  cases QV.Lex.lex cs with
  | some ts => exact h ts
  | none => simp [Returns]

/-- `Program::from_str`, for ALL character lists -/
theorem C01_program_from_text (cs : List Char) : Returns (fromText parseProgram cs) :=
  fromText_returns _ C01_program_no_crash cs
/-- `Instruction::from_str`, for ALL character lists -/
theorem C01_instruction_from_text (cs : List Char) : Returns (fromText parseInstructionStr cs) :=
  fromText_returns _ C01_instruction_no_crash cs
/-- `Expression::from_str`, for ALL character lists -/
theorem C01_expression_from_text (cs : List Char) : Returns (fromText parseExpressionStr cs) :=
  fromText_returns _ C01_expression_no_crash cs
/-- `MemoryReference::from_str`, for ALL character lists -/
theorem C01_memory_reference_from_text (cs : List Char) : Returns (fromText parseMemoryReferenceStr cs) :=
  fromText_returns _ C01_memory_reference_no_crash cs
/-- `FrameIdentifier::from_str`, for ALL character lists -/
theorem C01_frame_identifier_from_text (cs : List Char) : Returns (fromText parseFrameIdentifierStr cs) :=
  fromText_returns _ C01_frame_identifier_no_crash cs

/-! ## the crash sites are real: non-vacuity

`crash` is not an unreachable constructor of the model: the slice helpers do crash out of range, a too
small depth budget is reported as a crash, and a parser with the pre-34d49dc operand code (`panic!` on an
operator other than minus before a literal) is refuted by the very input of the property text. -/

example : (sliceTo [] 1).isCrash = true := by decide
example : (sliceFrom [Token.colon] 2).isCrash = true := by decide
example : isDepthCrash (parseProgramAt 1 [.identifier ['R', 'X'], .lParenthesis, .lParenthesis, .integer 1,
    .rParenthesis, .rParenthesis, .integer 0]) = true := by decide

/-- the operand parser as it was before the fix 34d49dc: any operator token was accepted by the sign
position and `_ => panic!("Implement this error")` hit for operators other than minus -/
def parseArithmeticOperandOld : Parser ArithmeticOperand := fun i =>
  match i with
  | .operator .minus :: .integer v :: r => .ok (.literalInteger (-(v : Int))) r
  | .operator _ :: .integer _ :: _ => .crash "Implement this error"
  | .integer v :: r => .ok (.literalInteger v) r
  | _ => (pmap ArithmeticOperand.memoryReference parseMemoryReference) i

/-- `ADD ro +1` on the old operand parser: the crash the property text names -/
theorem old_operand_parser_crashes :
    ((do let _ ← parseMemoryReference; parseArithmeticOperandOld : Parser ArithmeticOperand)
      [.identifier ['r', 'o'], .operator .plus, .integer 1]).cls = .crash := by
  decide

/-- … and the current one rejects it (a `Failure`, because a command's errors are never recoverable) -/
example : (parseProgram [.command .add, .identifier ['r', 'o'], .operator .plus, .integer 1]).cls = .fail := by
  decide
example : (parseProgram [.nonBlocking]).cls = .fail := by decide
example : (parseProgram [.nonBlocking, .identifier ['X'], .integer 0]).cls = .fail := by decide
/-- `MOVE ro -9223372036854775808` is `i64::MIN`, one more is rejected, nothing wraps -/
example : (parseProgram [.command .move, .identifier ['r', 'o'], .operator .minus,
    .integer 9223372036854775808]).cls = .ok := by decide
example : (parseProgram [.command .move, .identifier ['r', 'o'], .operator .minus,
    .integer 9223372036854775809]).cls = .fail := by decide
example : (parseProgram [.command .move, .identifier ['r', 'o'], .integer 18446744073709551615]).cls = .fail := by
  decide

/-! ## recursion depth -/

theorem depthFrom_le (ts : List Token) : ∀ k d : Nat, depthFrom ts k d ≤ d + k := by
  intro k
  induction k with
  | zero => intro d; simp [depthFrom]
  | succ k ih =>
    intro d
    unfold depthFrom
    split
    · have := ih (d + 1); omega
    · omega

/-- the depth the parser reaches is at most the number of tokens plus one -/
theorem depth_le (ts : List Token) : depth ts ≤ ts.length + 1 := by
  have := depthFrom_le ts (budget ts) 0
  simpa [depth, budget] using this

theorem depthFrom_ge_start (ts : List Token) : ∀ k d : Nat, d ≤ depthFrom ts k d := by
  intro k
  induction k with
  | zero => intro d; simp [depthFrom]
  | succ k ih =>
    intro d
    unfold depthFrom
    split
    · have := ih (d + 1); omega
    · omega

theorem depthFrom_ge (ts : List Token) :
    ∀ (k d j : Nat), j ≤ k → (∀ d', d ≤ d' → d' < d + j → isDepthCrash (parseProgramAt d' ts) = true) →
      d + j ≤ depthFrom ts k d := by
  intro k
  induction k with
  | zero => intro d j hj _; simp [depthFrom]; omega
  | succ k ih =>
    intro d j hj h
    cases j with
    | zero => have := depthFrom_ge_start ts (k + 1) d; omega
    | succ j =>
      unfold depthFrom
      rw [h d (by omega) (by omega)]
      simp only [↓reduceIte]
      have := ih (d + 1) j (by omega) (by intro d' h1 h2; exact h d' (by omega) (by omega))
      omega

/-- `RX(((…1…))) 0` with `n` extra pairs of parentheses -/
def nested (n : Nat) : List Token :=
  .identifier ['R', 'X'] :: .lParenthesis ::
    (List.replicate n .lParenthesis ++ .integer 1 :: (List.replicate n .rParenthesis ++ [.rParenthesis, .integer 0]))

theorem parse_nested_crash : ∀ (d n : Nat) (rest : List Token) (p : Prec), d ≤ n →
    parse d (List.replicate n .lParenthesis ++ rest) p = .crash depthExceeded := by
  intro d
  induction d with
  | zero => intro n rest p _; rfl
  | succ d ih =>
    intro n rest p h
    cases n with
    | zero => omega
    | succ n =>
      have := ih n rest Prec.lowest (by omega)
      simp [parse, parseBody, opt, parsePrefix, parseImmediateValue, parseOperand, parseGroupedExpression,
        List.replicate_succ, this]

theorem parseInstructionAt_nested_crash (d n : Nat) (h : d ≤ n) :
    parseInstructionAt d (nested n) = .crash depthExceeded := by
  cases d with
  | zero => rfl
  | succ d =>
    have := parse_nested_crash (d + 1) n
      (.integer 1 :: (List.replicate n .rParenthesis ++ [.rParenthesis, .integer 0])) Prec.lowest h
    simp [nested, parseInstructionAt, parseInstructionBody, skipNewlinesAndComments, many0, many0Fuel, alt,
      preceded, tok, tokComment, pmap, Parser.bind, Parser.pure, Outcome.map, parseGate, parseGateModifier,
      tokModifier, tokIdentifier, parseParameters, opt, delimited, separatedList0, parseExpressionAt, this]

theorem parseProgramAt_nested_crash (d n : Nat) (h : d ≤ n) :
    isDepthCrash (parseProgramAt d (nested n)) = true := by
  have := parseInstructionAt_nested_crash d n h
  simp [parseProgramAt, parseInstructionsAt, allConsuming, delimited, Parser.bind, nested,
    skipNewlinesAndComments, many0, many0Fuel, alt, preceded, tok, tokComment, pmap, Parser.pure, Outcome.map,
    disallowLeftover, isDepthCrash] at this ⊢
  simp [this, disallowLeftover, isDepthCrash]

/-- the nested input needs a depth budget above `n` -/
theorem depth_nested (n : Nat) : n + 1 ≤ depth (nested n) := by
  have := depthFrom_ge (nested n) (budget (nested n)) 0 (n + 1) (by simp [budget, nested]; omega)
    (fun d' _ h2 => parseProgramAt_nested_crash d' n (by omega))
  simpa [depth] using this

/-- The recursion depth is unbounded: no finite stack is enough for every input (the known finding
C01/deep-nesting; the model shows it is inherent in the grammar, the child process shows the abort). -/
theorem depth_unbounded : ∀ d : Nat, ∃ ts : List Token, d ≤ depth ts :=
  fun d => ⟨nested d, by have := depth_nested d; omega⟩

/-- … while the nested inputs are perfectly valid programs: at a sufficient budget they parse. -/
example : (parseProgram (nested 3)).isOk = true := by decide
example : depth (nested 3) = 4 := by decide

/-! ## `signed_integer` never wraps (the C05 overflow of the property text) -/

/-- an accepted literal is the exact integer `± magnitude`, accepted exactly when it fits an `i64` -/
theorem signedInteger_exact (neg : Bool) (m : Nat) (z : Int) :
    signedInteger neg m = some z ↔
      (z = (if neg then -(m : Int) else (m : Int)) ∧ -9223372036854775808 ≤ z ∧ z ≤ 9223372036854775807) := by
  unfold signedInteger
  cases neg <;> simp <;> constructor <;> intro h <;> (try split at h) <;> (try split) <;> omega

/-! ## the depth budget is irrelevant above the number of tokens

For users of the parser model (C02/C04): any two budgets larger than the number of tokens give the same
outcome, so `parseProgram ts` can be computed at any convenient sufficient budget. -/

/-- `parse_instructions`: the same outcome at every budget above the number of tokens -/
theorem parseProgramAt_budget_irrelevant (d d' : Nat) (ts : List Token) (h : ts.length < d)
    (h' : ts.length < d') : parseProgramAt d ts = parseProgramAt d' ts := by
  unfold parseProgramAt
  rw [(agree_parseInstructionsAt d d' (ts.length + 1) (by omega) (by omega)).eq ts (by omega)]

/-- `parseProgram` is `parseProgramAt` at any sufficient budget -/
theorem parseProgram_eq_at (d : Nat) (ts : List Token) (h : ts.length < d) :
    parseProgram ts = parseProgramAt d ts :=
  parseProgramAt_budget_irrelevant (budget ts) d ts (by simp [budget]) h

/-- `parse_expression`: the same outcome at every budget above the number of tokens -/
theorem parseExpression_eq_at (d : Nat) (ts : List Token) (h : ts.length < d) :
    parseExpression ts = parseExpressionAt d ts :=
  parseExpressionAt_budget_irrelevant (budget ts) d ts (by simp [budget]) h

/-- `parse_instruction`: the same outcome at every budget above the number of tokens -/
theorem parseInstruction_eq_at (d : Nat) (ts : List Token) (h : ts.length < d) :
    parseInstruction ts = parseInstructionAt d ts :=
  parseInstructionAt_budget_irrelevant (budget ts) d ts (by simp [budget]) h

/-- use: the outcome at a huge budget is read off at a small sufficient one -/
example : (parseProgramAt 1000000 (nested 3)).isOk = true := by
  rw [← parseProgramAt_budget_irrelevant 12 1000000 (nested 3) (by decide) (by decide)]; decide

/-! ## the error-construction path that touches the input text (parser/error/input.rs) -/

/-- the lex-error snippet as the code builds it never slices, hence never panics — for every position in
every text (the rest of the error path — Display, Debug, causes — is exercised by the harness only) -/
theorem snippet_never_crashes (before after : List Char) : ErrorModel.snippet before after ≠ .crash := by
  simp only [ErrorModel.snippet]; split <;> simp

/-- slicing at a byte offset is safe exactly when the text is pure ASCII up to there: on ASCII text
`&s[..n]` with `n ≤ len` is a value -/
theorem sliceTo_ascii (s : List Char) (h : ∀ c ∈ s, c.toNat < 0x80) :
    ∀ n, n ≤ s.length → ErrorModel.sliceTo s n ≠ .crash := by
  induction s with
  | nil => intro n hn; simp at hn; subst hn; simp [ErrorModel.sliceTo]
  | cons c cs ih =>
    intro n hn
    cases n with
    | zero => simp [ErrorModel.sliceTo]
    | succ n =>
      have hc : ErrorModel.utf8Len c = 1 := by simp [ErrorModel.utf8Len, h c (by simp)]
      have := ih (fun c hc' => h c (by simp [hc'])) n (by simpa using hn)
      simp only [ErrorModel.sliceTo, hc]
      cases hh : ErrorModel.sliceTo cs n <;> simp_all

/-- the seeded variant (`&s[..100]`) panics on the witness: 99 ASCII bytes, then `é`, lex error at `é` -/
theorem snippetCapped_counterexample :
    ErrorModel.snippetCapped (List.replicate 99 'a') ['é'] = .crash := by decide

end QV.C01
