import QV.Shared.Parse
/-! C01 — first theorems (the crash-freedom theorems follow in this file as they are proved). -/
namespace QV.C01
open QV QV.Tok QV.Parse

/-- `signed_integer` never wraps: an accepted literal is the exact integer `± magnitude`, and it is
accepted exactly when that integer fits in an `i64`. -/
theorem signedInteger_exact (neg : Bool) (m : Nat) (z : Int) :
    signedInteger neg m = some z ↔
      (z = (if neg then -(m : Int) else (m : Int)) ∧ -9223372036854775808 ≤ z ∧ z ≤ 9223372036854775807) := by
  unfold signedInteger
  cases neg <;> simp <;> constructor <;> intro h <;> (try split at h) <;> (try split) <;> omega

example : signedInteger true 9223372036854775808 = some (-9223372036854775808) := by decide
example : signedInteger false 9223372036854775808 = none := by decide

end QV.C01
