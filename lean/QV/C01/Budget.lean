import QV.C01.LemmasParse
/-!
The depth budget is irrelevant once it exceeds the number of tokens: for budgets `d`, `d'` both larger than
`ts.length`, `parseProgramAt d ts = parseProgramAt d' ts` (and the same for the expression and instruction
parsers).  This is what lets a user of the parser model (C02/C04: `parse (print p) = p`) reason at any
convenient sufficient budget instead of exactly `tokens.length + 1`.

Proof: `Agree m p q` (the parsers agree on every input shorter than `m`) is preserved by every combinator
and every parser function — given `Good m` of the first components, which bounds the rests — and the two
recursive knots are tied by induction on the budget, as for `Good`.
-/
namespace QV.C01
open QV QV.Tok QV.Ast QV.Parse

variable {α β γ : Type}

/-- `p` and `q` return the same outcome on every input shorter than `m` -/
structure Agree (m : Nat) (p q : Parser α) : Prop where
  eq : ∀ i : List Token, i.length < m → p i = q i

theorem agree_refl (m : Nat) (p : Parser α) : Agree m p p := ⟨fun _ _ => rfl⟩

theorem Agree.mono {m k : Nat} {p q : Parser α} (h : Agree m p q) (hk : k ≤ m) : Agree k p q :=
  ⟨fun i hi => h.eq i (by omega)⟩

theorem agree_bind {m : Nat} {p p' : Parser α} {f f' : α → Parser β} (hp : Agree m p p') (gp : Good m p)
    (hf : ∀ a, Agree m (f a) (f' a)) : Agree m (Parser.bind p f) (Parser.bind p' f') := by
  refine ⟨fun i hi => ?_⟩
  have h := gp.safe i hi
  unfold Parser.bind
  rw [← hp.eq i hi]
  cases hpi : p i with
  | ok v r => rw [hpi] at h; simp only [safe_ok] at h; exact (hf v).eq r (by omega)
  | err => rfl
  | fail => rfl
  | crash w => rfl

theorem agree_opt {m : Nat} {p p' : Parser α} (hp : Agree m p p') : Agree m (opt p) (opt p') :=
  ⟨fun i hi => by unfold opt; rw [hp.eq i hi]⟩

theorem agree_cut {m : Nat} {p p' : Parser α} (hp : Agree m p p') : Agree m (cut p) (cut p') :=
  ⟨fun i hi => by unfold cut; rw [hp.eq i hi]⟩

theorem agree_alt {m : Nat} {p p' q q' : Parser α} (hp : Agree m p p') (hq : Agree m q q') :
    Agree m (alt p q) (alt p' q') :=
  ⟨fun i hi => by unfold alt; rw [hp.eq i hi, hq.eq i hi]⟩

theorem agree_pmap {m : Nat} (f : α → β) {p p' : Parser α} (hp : Agree m p p') :
    Agree m (pmap f p) (pmap f p') :=
  ⟨fun i hi => by unfold pmap; rw [hp.eq i hi]⟩

theorem agree_mapRes {m : Nat} {p p' : Parser α} (f : α → Option β) (hp : Agree m p p') :
    Agree m (mapRes p f) (mapRes p' f) :=
  ⟨fun i hi => by unfold mapRes; rw [hp.eq i hi]⟩

theorem agree_preceded {m : Nat} {p p' : Parser α} {q q' : Parser β} (hp : Agree m p p') (gp : Good m p)
    (hq : Agree m q q') : Agree m (preceded p q) (preceded p' q') :=
  agree_bind hp gp fun _ => hq

theorem agree_pair {m : Nat} {p p' : Parser α} {q q' : Parser β} (hp : Agree m p p') (gp : Good m p)
    (hq : Agree m q q') (gq : Good m q) : Agree m (pair p q) (pair p' q') :=
  agree_bind hp gp fun _ => agree_bind hq gq fun _ => agree_refl m _

theorem agree_delimited {m : Nat} {l l' : Parser α} {p p' : Parser β} {r r' : Parser γ} (hl : Agree m l l')
    (gl : Good m l) (hp : Agree m p p') (gp : Good m p) (hr : Agree m r r') (gr : Good m r) :
    Agree m (delimited l p r) (delimited l' p' r') :=
  agree_bind hl gl fun _ => agree_bind hp gp fun _ => agree_bind hr gr fun _ => agree_refl m _

theorem many0Fuel_congr {m : Nat} {p p' : Parser α} (hp : Agree m p p') (gp : Good m p) :
    ∀ (k : Nat) (i : List Token), i.length < m → many0Fuel p k i = many0Fuel p' k i := by
  intro k
  induction k with
  | zero => intro i _; rfl
  | succ k ih =>
    intro i hi
    have h := gp.safe i hi
    unfold many0Fuel
    rw [← hp.eq i hi]
    cases hpi : p i with
    | ok v r =>
      rw [hpi] at h; simp only [safe_ok] at h
      simp only
      rw [ih r (by omega)]
    | err => rfl
    | fail => rfl
    | crash w => rfl

theorem agree_many0 {m : Nat} {p p' : Parser α} (hp : Agree m p p') (gp : Good m p) :
    Agree m (many0 p) (many0 p') :=
  ⟨fun i hi => many0Fuel_congr hp gp _ i hi⟩

theorem agree_many1 {m : Nat} {p p' : Parser α} (hp : Agree m p p') (gp : Good m p) :
    Agree m (many1 p) (many1 p') := by
  refine ⟨fun i hi => ?_⟩
  have h := gp.safe i hi
  unfold many1
  rw [← hp.eq i hi]
  cases hpi : p i with
  | ok v r =>
    rw [hpi] at h; simp only [safe_ok] at h
    simp only
    rw [many0Fuel_congr hp gp _ r (by omega)]
  | err => rfl
  | fail => rfl
  | crash w => rfl

theorem sepLoopFuel_congr {m : Nat} {sep sep' : Parser β} {p p' : Parser α} (hs : Agree m sep sep')
    (gs : Good m sep) (hp : Agree m p p') (gp : Good m p) :
    ∀ (k : Nat) (i : List Token), i.length < m → sepLoopFuel sep p k i = sepLoopFuel sep' p' k i := by
  intro k
  induction k with
  | zero => intro i _; rfl
  | succ k ih =>
    intro i hi
    have h := gs.safe i hi
    unfold sepLoopFuel
    rw [← hs.eq i hi]
    cases hsi : sep i with
    | ok u i1 =>
      rw [hsi] at h; simp only [safe_ok] at h
      simp only
      rw [← hp.eq i1 (by omega)]
      have h1 := gp.safe i1 (by omega)
      cases hpi : p i1 with
      | ok v i2 =>
        rw [hpi] at h1; simp only [safe_ok] at h1
        simp only
        rw [ih i2 (by omega)]
      | err => rfl
      | fail => rfl
      | crash w => rfl
    | err => rfl
    | fail => rfl
    | crash w => rfl

theorem agree_separatedList0 {m : Nat} {sep sep' : Parser β} {p p' : Parser α} (hs : Agree m sep sep')
    (gs : Good m sep) (hp : Agree m p p') (gp : Good m p) :
    Agree m (separatedList0 sep p) (separatedList0 sep' p') := by
  refine ⟨fun i hi => ?_⟩
  have h := gp.safe i hi
  unfold separatedList0
  rw [← hp.eq i hi]
  cases hpi : p i with
  | ok v r =>
    rw [hpi] at h; simp only [safe_ok] at h
    simp only
    rw [sepLoopFuel_congr hs gs hp gp _ r (by omega)]
  | err => rfl
  | fail => rfl
  | crash w => rfl

theorem agree_separatedList1 {m : Nat} {sep sep' : Parser β} {p p' : Parser α} (hs : Agree m sep sep')
    (gs : Good m sep) (hp : Agree m p p') (gp : Good m p) :
    Agree m (separatedList1 sep p) (separatedList1 sep' p') := by
  refine ⟨fun i hi => ?_⟩
  have h := gp.safe i hi
  unfold separatedList1
  rw [← hp.eq i hi]
  cases hpi : p i with
  | ok v r =>
    rw [hpi] at h; simp only [safe_ok] at h
    simp only
    rw [sepLoopFuel_congr hs gs hp gp _ r (by omega)]
  | err => rfl
  | fail => rfl
  | crash w => rfl

theorem agree_allConsuming {m : Nat} {p p' : Parser α} (hp : Agree m p p') :
    Agree m (allConsuming p) (allConsuming p') :=
  ⟨fun i hi => by unfold allConsuming; rw [hp.eq i hi]⟩

/-- one decomposition step of an `Agree m p p'` goal (or of a `Good` side goal) -/
syntax "agree_step" : tactic
macro_rules
  | `(tactic| agree_step) => `(tactic| first
      | assumption
      | exact agree_refl _ _
      | apply agree_opt | apply agree_cut | apply agree_alt | apply agree_pmap | apply agree_mapRes
      | apply agree_preceded | apply agree_pair | apply agree_delimited | apply agree_many0 | apply agree_many1
      | apply agree_separatedList0 | apply agree_separatedList1 | apply agree_allConsuming
      | apply agree_bind
      | good_step)

macro "agree" : tactic => `(tactic| repeat agree_step)

/-! ## functions parametrised by the expression parser -/

section
variable {m : Nat} {pe pe' : Parser PExpr} (h : Agree m pe pe') (g : Good m pe)
include h g

theorem agree_parseFrameAttribute : Agree m (parseFrameAttribute pe) (parseFrameAttribute pe') := by
  unfold parseFrameAttribute; agree
theorem agree_parseMatrix : Agree m (parseMatrix pe) (parseMatrix pe') := by
  unfold parseMatrix; agree
theorem agree_parsePauliTerm : Agree m (parsePauliTerm pe) (parsePauliTerm pe') := by
  unfold parsePauliTerm; agree
theorem agree_parseParameters : Agree m (parseParameters pe) (parseParameters pe') := by
  unfold parseParameters; agree
theorem agree_parseNamedArgument : Agree m (parseNamedArgument pe) (parseNamedArgument pe') := by
  unfold parseNamedArgument; agree
theorem agree_parseDelayFrameNamesAndDuration :
    Agree m (parseDelayFrameNamesAndDuration pe) (parseDelayFrameNamesAndDuration pe') := by
  unfold parseDelayFrameNamesAndDuration; agree
end

macro_rules
  | `(tactic| agree_step) => `(tactic| first
      | apply agree_parseFrameAttribute | apply agree_parseMatrix | apply agree_parsePauliTerm
      | apply agree_parseParameters | apply agree_parseNamedArgument
      | apply agree_parseDelayFrameNamesAndDuration)

section
variable {m : Nat} {pe pe' : Parser PExpr} (h : Agree m pe pe') (g : Good m pe)
include h g

theorem agree_parsePauliTerms : Agree m (parsePauliTerms pe) (parsePauliTerms pe') := by
  unfold parsePauliTerms; agree
theorem agree_parseSequenceElement : Agree m (parseSequenceElement pe) (parseSequenceElement pe') := by
  unfold parseSequenceElement; agree
theorem agree_parseWaveformInvocation :
    Agree m (parseWaveformInvocation pe) (parseWaveformInvocation pe') := by
  unfold parseWaveformInvocation; agree
theorem agree_parseGate : Agree m (parseGate pe) (parseGate pe') := by
  unfold parseGate; agree
end

macro_rules
  | `(tactic| agree_step) => `(tactic| first
      | apply agree_parsePauliTerms | apply agree_parseSequenceElement | apply agree_parseWaveformInvocation
      | apply agree_parseGate)

section
variable {m : Nat} {pe pe' : Parser PExpr} (h : Agree m pe pe') (g : Good m pe)
include h g

theorem agree_parseSequenceElements : Agree m (parseSequenceElements pe) (parseSequenceElements pe') := by
  unfold parseSequenceElements; agree
theorem agree_parseCapture (b : Bool) : Agree m (parseCapture pe b) (parseCapture pe' b) := by
  unfold parseCapture; agree
theorem agree_parseDefframe : Agree m (parseDefframe pe) (parseDefframe pe') := by
  unfold parseDefframe; agree
theorem agree_parseDefwaveform : Agree m (parseDefwaveform pe) (parseDefwaveform pe') := by
  unfold parseDefwaveform; agree
theorem agree_parsePulse (b : Bool) : Agree m (parsePulse pe b) (parsePulse pe' b) := by
  unfold parsePulse; agree
theorem agree_parseRawCapture (b : Bool) : Agree m (parseRawCapture pe b) (parseRawCapture pe' b) := by
  unfold parseRawCapture; agree
theorem agree_parseSetFrequency : Agree m (parseSetFrequency pe) (parseSetFrequency pe') := by
  unfold parseSetFrequency; agree
theorem agree_parseSetPhase : Agree m (parseSetPhase pe) (parseSetPhase pe') := by
  unfold parseSetPhase; agree
theorem agree_parseSetScale : Agree m (parseSetScale pe) (parseSetScale pe') := by
  unfold parseSetScale; agree
theorem agree_parseShiftFrequency : Agree m (parseShiftFrequency pe) (parseShiftFrequency pe') := by
  unfold parseShiftFrequency; agree
theorem agree_parseShiftPhase : Agree m (parseShiftPhase pe) (parseShiftPhase pe') := by
  unfold parseShiftPhase; agree
end

macro_rules
  | `(tactic| agree_step) => `(tactic| first | apply agree_parseSequenceElements)

theorem agree_parseDefgate {m : Nat} {pe pe' : Parser PExpr} (h : Agree m pe pe') (g : Good m pe) :
    Agree m (parseDefgate pe) (parseDefgate pe') := by
  unfold parseDefgate
  refine agree_bind (agree_refl _ _) (by good) fun name => agree_bind (agree_refl _ _) (by good) fun ps =>
    agree_bind (agree_refl _ _) (by good) fun args => agree_bind (agree_refl _ _) (by good) fun gt =>
    agree_bind (agree_refl _ _) (by good) fun _ => ?_
  cases gt.getD GateType.matrix <;> simp only <;> agree

theorem delayBacktrack_congr {m : Nat} {p p' : Parser α} (hp : Agree m p p') (input : List Token)
    (hi : input.length < m) (first : Outcome (α × Nat)) :
    ∀ k, delayBacktrack p input first k = delayBacktrack p' input first k := by
  intro k
  induction k with
  | zero => rfl
  | succ k ih =>
    unfold delayBacktrack
    rw [← hp.eq (input.drop k) (by simp; omega), ih]

theorem agree_parseDelay {m : Nat} {pe pe' : Parser PExpr} (h : Agree m pe pe') (g : Good m pe) :
    Agree m (parseDelay pe) (parseDelay pe') := by
  refine ⟨fun input hi => ?_⟩
  have hp := agree_parseDelayFrameNamesAndDuration h g
  unfold parseDelay
  cases many0 parseQubit input with
  | ok qubits rest =>
    simp only
    unfold delayAttempts
    rw [← hp.eq (input.drop qubits.length) (by simp; omega),
      delayBacktrack_congr hp input hi, delayBacktrack_congr hp input hi]
  | err => rfl
  | fail => rfl
  | crash w => rfl

/-! ## functions parametrised by the nested-instruction parser -/

section
variable {m : Nat} {pe pe' : Parser PExpr} (h : Agree m pe pe') (g : Good m pe)
  {pi pi' : Parser Instruction} (hi : Agree m pi pi') (gi : Good m pi)
include hi gi

theorem agree_parseBlockInstruction : Agree m (parseBlockInstruction pi) (parseBlockInstruction pi') := by
  unfold parseBlockInstruction; agree
theorem agree_parseBlock : Agree m (parseBlock pi) (parseBlock pi') := by
  unfold parseBlock
  exact agree_many1 (agree_parseBlockInstruction hi gi) (good_parseBlockInstruction gi)
theorem agree_parseDefcalMeasure : Agree m (parseDefcalMeasure pi) (parseDefcalMeasure pi') := by
  have := agree_parseBlock hi gi
  unfold parseDefcalMeasure; agree
theorem agree_parseDefcircuit : Agree m (parseDefcircuit pi) (parseDefcircuit pi') := by
  have := agree_parseBlock hi gi
  unfold parseDefcircuit; agree
include h g
theorem agree_parseDefcalGate : Agree m (parseDefcalGate pe pi) (parseDefcalGate pe' pi') := by
  have := agree_parseBlock hi gi
  unfold parseDefcalGate; agree
theorem agree_parseDefcal : Agree m (parseDefcal pe pi) (parseDefcal pe' pi') := by
  have h1 := agree_parseDefcalGate h g hi gi
  have h2 := agree_parseDefcalMeasure hi gi
  unfold parseDefcal
  refine agree_bind (agree_refl _ _) (by good) fun dm => ?_
  cases dm <;> simp only <;> assumption

theorem agree_parseCommand (c : Command) : Agree m (parseCommand pe pi c) (parseCommand pe' pi' c) := by
  cases c <;> simp only [parseCommand]
  all_goals first
    | exact agree_refl _ _
    | exact agree_parseCapture h g _ | exact agree_parseDefcal h g hi gi | exact agree_parseDefcircuit hi gi
    | exact agree_parseDefframe h g | exact agree_parseDefgate h g | exact agree_parseDefwaveform h g
    | exact agree_parseDelay h g | exact agree_parsePulse h g _ | exact agree_parseRawCapture h g _
    | exact agree_parseSetFrequency h g | exact agree_parseSetPhase h g | exact agree_parseSetScale h g
    | exact agree_parseShiftFrequency h g | exact agree_parseShiftPhase h g
end

/-! ## the expression parser -/

/-- two recursive callbacks agree on every input shorter than `m` -/
def RecAgree (m : Nat) (rec rec' : ExprRec) : Prop :=
  ∀ (i : List Token) (p : Prec), i.length < m → rec i p = rec' i p

section
variable {m : Nat} {rec rec' : ExprRec} (h : RecAgree m rec rec') (g : RecGood m rec)
include h g

theorem agree_parseFunctionCall (f : ExprFn) :
    Agree m (parseFunctionCall rec f) (parseFunctionCall rec' f) := by
  have h1 : Agree m (fun i => rec i Prec.lowest) (fun i => rec' i Prec.lowest) :=
    ⟨fun i hi => h i Prec.lowest hi⟩
  have g1 := g.good Prec.lowest
  unfold parseFunctionCall; agree

omit g in
theorem agree_parseGroupedExpression :
    Agree m (parseGroupedExpression rec) (parseGroupedExpression rec') :=
  ⟨fun i hi => by unfold parseGroupedExpression; rw [h i Prec.lowest hi]⟩

theorem parseExpressionIdentifier_congr (input : List Token) (hi : input.length < m + 1) :
    parseExpressionIdentifier rec input = parseExpressionIdentifier rec' input := by
  unfold parseExpressionIdentifier
  have ho := (good_opt (good_parseMemoryReferenceWithBrackets (input.length + 1))).safe input (by omega)
  cases hoi : opt parseMemoryReferenceWithBrackets input with
  | ok v rest =>
    rw [hoi] at ho
    simp only [safe_ok] at ho
    cases v with
    | some r => rfl
    | none =>
      simp only
      cases rest with
      | nil => rfl
      | cons t remainder =>
        cases t <;> try rfl
        have hfc : ∀ f, parseFunctionCall rec f remainder = parseFunctionCall rec' f remainder :=
          fun f => (agree_parseFunctionCall h g f).eq remainder (by simp at ho; omega)
        simp only [hfc]
  | err => rfl
  | fail => rfl
  | crash w => rfl

omit g in
theorem parseInfix_congr (input : List Token) (left : PExpr) (hi : input.length < m + 1) :
    parseInfix rec input left = parseInfix rec' input left := by
  cases input with
  | nil => rfl
  | cons t remainder =>
    cases t <;> try rfl
    simp only [parseInfix]
    rw [h remainder _ (by simp at hi; omega)]

theorem parseLoop_congr (prec : Prec) :
    ∀ (k : Nat) (input : List Token) (left : PExpr), input.length < m + 1 →
      parseLoop rec prec k input left = parseLoop rec' prec k input left := by
  intro k
  induction k with
  | zero => intro input left _; rfl
  | succ k ih =>
    intro input left hm
    unfold parseLoop
    by_cases hgt : getPrecedence input > prec
    · simp only [hgt, ↓reduceIte]
      cases input with
      | nil => rfl
      | cons t rest' =>
        cases t <;> try rfl
        rename_i o
        have hinf := safe_parseInfix g (Token.operator o :: rest') left hm
        simp only
        rw [← parseInfix_congr h (Token.operator o :: rest') left hm]
        cases hpi : parseInfix rec (Token.operator o :: rest') left with
        | ok e rest =>
          rw [hpi] at hinf
          simp only [SafeLt] at hinf
          exact ih rest e (by omega)
        | err => rfl
        | fail => rfl
        | crash w => rfl
    · simp [hgt]

theorem parseOperand_congr (imm : Option CBits) (input : List Token) (hi : input.length < m + 1) :
    parseOperand rec imm input = parseOperand rec' imm input := by
  unfold parseOperand
  cases imm with
  | some n => rfl
  | none =>
    simp only
    cases input with
    | nil => rfl
    | cons t remainder =>
      cases t <;> try rfl
      · exact parseExpressionIdentifier_congr h g _ hi
      · exact (agree_parseGroupedExpression h).eq remainder (by simp at hi; omega)

theorem parseBody_congr (input : List Token) (prec : Prec) (hi : input.length < m + 1) :
    parseBody rec input prec = parseBody rec' input prec := by
  unfold parseBody
  have h1 := (good_opt (good_parsePrefix (m + 1))).safe input hi
  cases hp : opt parsePrefix input with
  | ok pfx input1 =>
    rw [hp] at h1
    simp only [safe_ok] at h1
    simp only
    have h2 := (good_opt (good_parseImmediateValue (m + 1))).safe input1 (by omega)
    cases hv : opt parseImmediateValue input1 with
    | ok imm input2 =>
      rw [hv] at h2
      simp only [safe_ok] at h2
      simp only
      rw [← parseOperand_congr h g imm input2 (by omega)]
      have hs := safe_parseOperand g imm input2 (by omega)
      cases hst : parseOperand rec imm input2 with
      | ok left input3 =>
        rw [hst] at hs
        simp only [safe_ok] at hs
        exact parseLoop_congr h g prec _ input3 _ (by omega)
      | err => rfl
      | fail => rfl
      | crash w => rfl
    | err => rfl
    | fail => rfl
    | crash w => rfl
  | err => rfl
  | fail => rfl
  | crash w => rfl
end

/-- the expression knot: any two budgets above the number of tokens give the same outcome -/
theorem parse_budget_irrelevant :
    ∀ (d d' : Nat) (i : List Token) (p : Prec), i.length < d → i.length < d' → parse d i p = parse d' i p := by
  intro d
  induction d with
  | zero => intro d' i p h; omega
  | succ d ih =>
    intro d' i p h h'
    cases d' with
    | zero => omega
    | succ d' =>
      show parseBody (parse d) i p = parseBody (parse d') i p
      exact parseBody_congr (m := i.length) (fun j q hj => ih d' j q (by omega) (by omega))
        (fun j q hj => recGood_parse d j q (by omega)) i p (by omega)

theorem parseExpressionAt_budget_irrelevant (d d' : Nat) (i : List Token) (h : i.length < d)
    (h' : i.length < d') : parseExpressionAt d i = parseExpressionAt d' i :=
  parse_budget_irrelevant d d' i Prec.lowest h h'

/-! ## instructions -/

theorem agree_parseInstructionBody {m : Nat} {pe pe' : Parser PExpr} {pi pi' : Parser Instruction}
    (h : Agree (m + 1) pe pe') (g : Good (m + 1) pe) (hi : Agree m pi pi') (gi : Good m pi) :
    Agree (m + 1) (parseInstructionBody pe pi) (parseInstructionBody pe' pi') := by
  refine ⟨fun input0 hi0 => ?_⟩
  unfold parseInstructionBody
  have hs := (good_skipNewlinesAndComments (m + 1)).safe input0 hi0
  cases hsk : skipNewlinesAndComments input0 with
  | ok u input =>
    rw [hsk] at hs
    simp only [safe_ok] at hs
    have hlen : input.length < m + 1 := by omega
    cases input with
    | nil => rfl
    | cons t remainder =>
      have hrem : remainder.length < m := by simp at hlen; omega
      have h' : Agree m pe pe' := h.mono (by omega)
      have g' : Good m pe := g.mono (by omega)
      cases t <;> try rfl
      case command c =>
        simp only
        rw [(agree_parseCommand h' g' hi gi c).eq remainder hrem]
      case nonBlocking =>
        simp only
        cases remainder with
        | nil => rfl
        | cons t2 remainder2 =>
          have hrem2 : remainder2.length < m := by simp at hrem; omega
          cases t2 <;> try rfl
          rename_i c2
          cases c2 <;> try rfl
          · exact (agree_parseCapture h' g' false).eq remainder2 hrem2
          · exact (agree_parsePulse h' g' false).eq remainder2 hrem2
          · exact (agree_parseRawCapture h' g' false).eq remainder2 hrem2
      case identifier s => exact (agree_parseGate h g).eq _ hlen
      case modifier mo => exact (agree_parseGate h g).eq _ hlen
  | err => rfl
  | fail => rfl
  | crash w => rfl

/-- the instruction knot -/
theorem parseInstructionAt_budget_irrelevant :
    ∀ (d d' : Nat) (i : List Token), i.length < d → i.length < d' →
      parseInstructionAt d i = parseInstructionAt d' i := by
  intro d
  induction d with
  | zero => intro d' i h; omega
  | succ d ih =>
    intro d' i h h'
    cases d' with
    | zero => omega
    | succ d' =>
      show parseInstructionBody (parseExpressionAt (d + 1)) (parseInstructionAt d) i =
        parseInstructionBody (parseExpressionAt (d' + 1)) (parseInstructionAt d') i
      refine (agree_parseInstructionBody (m := i.length) ⟨fun j hj => ?_⟩
        ((good_parseExpressionAt (d + 1)).mono (by omega)) ⟨fun j hj => ?_⟩
        ((good_parseInstructionAt d).mono (by omega))).eq i (by omega)
      · exact parseExpressionAt_budget_irrelevant _ _ j (by omega) (by omega)
      · exact ih d' j (by omega) (by omega)

theorem agree_parseInstructionsAt (d d' m : Nat) (hd : m ≤ d) (hd' : m ≤ d') :
    Agree m (parseInstructionsAt d) (parseInstructionsAt d') := by
  have h : Agree m (parseInstructionAt d) (parseInstructionAt d') :=
    ⟨fun i hi => parseInstructionAt_budget_irrelevant d d' i (by omega) (by omega)⟩
  have g : Good m (parseInstructionAt d) := (good_parseInstructionAt d).mono hd
  unfold parseInstructionsAt; agree

end QV.C01
