import QV.Wire
import QV.Shared.Lex
import QV.Shared.LexWire
import QV.Shared.Parse
import QV.Shared.AstWire
import QV.Shared.ParseWire
/-! Driver side of the C01 correspondence check: recompute, with the shared lexer and parser models, what
the six entry points return on the case's tokens / text, compare with the implementation's output, and
evaluate the specification "no crash, no abort, no timeout" on the implementation's output. -/
namespace QV.C01
open QV QV.Tok QV.Parse QV.AstWire QV.ParseWire

/-- a nesting measure cheap enough for 10^5-token inputs: the deepest parenthesis level, and the number
of DEFCAL / DEFCIRCUIT heads (an upper bound of the block nesting) -/
def parenDepth (ts : List Token) : Nat :=
  (ts.foldl (fun (acc : Nat × Nat) t =>
    match t with
    | .lParenthesis => (acc.1 + 1, max acc.2 (acc.1 + 1))
    | .rParenthesis => (acc.1 - 1, acc.2)
    | _ => acc) (0, 0)).2

def blockHeads (ts : List Token) : Nat :=
  ts.countP fun t => t == .command .defCal || t == .command .defCircuit

/-- Known finding `C01/deep-nesting`: an abort (stack overflow) on an input whose nesting is at least
these thresholds — half of the smallest aborting depth measured on the release harness with the default
8 MiB main-thread stack (12.4k parentheses, 8.4k for `1+(`, 3.6k nested DEFCAL blocks; docs/C01.md). -/
def parenThreshold : Nat := 4000
def blockThreshold : Nat := 1800

def isDeep (ts : List Token) : Bool := parenDepth ts ≥ parenThreshold || blockHeads ts ≥ blockThreshold

def lenTag (n : Nat) : String :=
  if n ≤ 8 then s!"len{n}" else if n ≤ 16 then "len9-16" else if n ≤ 64 then "len17-64" else "len65+"

def classTag (pfx : String) {α : Type} : Outcome α → String
  | .ok _ [] => pfx ++ "-ok"
  | .ok _ _ => pfx ++ "-ok-leftover"
  | .err => pfx ++ "-err"
  | .fail => pfx ++ "-fail"
  | .crash _ => pfx ++ "-CRASH"

def variantTags : Outcome (List Ast.Instruction) → List String
  | .ok is _ => (is.map fun i => "v-" ++ i.variantName).eraseDups
  | _ => []

def isAbort (out : Sexp) : Bool :=
  match out with
  | .list (.atom "abort" :: _) => true
  | _ => false

/-- the known finding `C01/deep-nesting`, with a narrow classifier over (input, implementation output):
the process aborted AND the input nests at least `parenThreshold` parentheses or `blockThreshold`
DEFCAL/DEFCIRCUIT blocks -/
def kfTags (ts : List Token) (out : Sexp) : List String :=
  if isAbort out && isDeep ts then ["kf:C01/deep-nesting"] else []

def handleToks (stream : String) (ts : List Token) (out : Sexp) : CaseResult :=
  let d := budget ts
  let mi := parseInstructionsAt d ts
  let me := parseExpressionAt d ts
  let mm := parseMemoryReference ts
  let mf := parseFrameIdentifier ts
  let mx := parseExternSignature ts
  let mOut : Sexp := .list [.atom "results",
    .list [.atom "instructions", encodeOutcome encodeInstructionList mi],
    .list [.atom "expression", encodeOutcome encodeExpr me],
    .list [.atom "memref", encodeOutcome encodeMemRef mm],
    .list [.atom "frame", encodeOutcome encodeFrame mf],
    .list [.atom "extern", encodeOutcome encodeExternSignature mx]]
  let agree := mOut == out
  { agree := agree, specOk := !hasCrash out, nontrivial := !ts.isEmpty,
    tags := ["toks", "s-" ++ stream, lenTag ts.length, classTag "I" mi, classTag "E" me, classTag "M" mm,
      classTag "F" mf, classTag "X" mx] ++ variantTags mi ++ kfTags ts out,
    detail := if agree then "" else s!"model={mOut} impl={out}" }

/-- the same two measures on the characters of a text (an upper bound of the token-level ones up to
parentheses inside strings and comments; used only to classify an abort without lexing 10^5 characters
with the quadratic lexer model) -/
def textParenDepth (cs : List Char) : Nat :=
  (cs.foldl (fun (acc : Nat × Nat) c =>
    if c == '(' then (acc.1 + 1, max acc.2 (acc.1 + 1))
    else if c == ')' then (acc.1 - 1, acc.2)
    else acc) (0, 0)).2

def textBlockHeads (text : String) : Nat :=
  (text.splitOn "DEFCAL").length - 1 + ((text.splitOn "DEFCIRCUIT").length - 1)

def handleText (stream : String) (text : String) (out : Sexp) : CaseResult :=
  -- the known finding: the implementation aborted on a deeply nested input.  The model (which has no
  -- stack limit) is not run on it: the driver's own native stack is finite too.
  if isAbort out && (textParenDepth text.toList ≥ parenThreshold || textBlockHeads text ≥ blockThreshold) then
    { agree := false, specOk := false, nontrivial := true,
      tags := ["text", "s-" ++ stream, "len65+", "deep-abort", "kf:C01/deep-nesting"],
      detail := s!"abort on nesting: parentheses {textParenDepth text.toList}, block heads {textBlockHeads text}; impl={out}" }
  else
  let lexed := QV.Lex.lex text.toList
  let ts := lexed.getD []
  let enc {α : Type} (f : α → Sexp) (o : Outcome α) : Sexp :=
    match lexed with
    | some _ => encodeResult f o
    | none => .list [.atom "err"]
  let mp := parseProgram ts
  let mi := parseInstructionStr ts
  let me := parseExpressionStr ts
  let mm := parseMemoryReferenceStr ts
  let mf := parseFrameIdentifierStr ts
  let mOut : Sexp := .list [.atom "results",
    .list [.atom "lex", QV.LexWire.lexOutSexp lexed],
    .list [.atom "program", enc (fun _ => .list []) mp |> fun
      | .list [.atom "ok", _] => .list [.atom "ok"]
      | s => s],
    .list [.atom "instruction", enc encodeInstruction mi],
    .list [.atom "expression", enc encodeExpr me],
    .list [.atom "memref", enc encodeMemRef mm],
    .list [.atom "frame", enc encodeFrame mf],
    -- extra entry points (ExternSignature, ReservedToken, Command, … ::from_str): specification only
    .list [.atom "extra", .list [.atom "done"]]]
  let agree := mOut == out
  -- the decoder is exercised on every AST the implementation returned: decode ∘ encode = id
  let decodeOk := match out with
    | .list [_, _, _, .list [_, .list [.atom "ok", a]], _, _, _, _] =>
      (match decodeInstruction a with
       | some i => encodeInstruction i == a
       | none => false)
    | _ => true
  { agree := agree && decodeOk, specOk := !hasCrash out, nontrivial := lexed.isSome && !ts.isEmpty,
    tags := ["text", "s-" ++ stream, lenTag ts.length, if lexed.isSome then "lex-ok" else "lex-err",
      classTag "P" mp, classTag "I1" mi, classTag "E" me, classTag "M" mm, classTag "F" mf]
      ++ variantTags mp ++ kfTags ts out ++ (if decodeOk then [] else ["DECODE-MISMATCH"]),
    detail := if agree && decodeOk then "" else s!"model={mOut} impl={out}" }

/-- number of infix-operator characters in a text (classifier of `C01/deep-expression-drop`) -/
def operatorChars (text : String) : Nat :=
  text.toList.countP fun c => c == '+' || c == '-' || c == '*' || c == '/' || c == '^'

/-- Known finding `C01/deep-expression-drop`: a FLAT expression with tens of thousands of infix operators
(`1+1+…+1`, no nesting in the text) parses iteratively into a left-leaning tree whose recursive printer,
`Debug` and `Drop` overflow the stack.  Classifier: the process aborted AND the text holds at least this
many operator characters (the smallest aborting size measured is about 50 000 for `{:?}`, 100 000 for
`to_quil`, 200 000 for `Drop`). -/
def flatThreshold : Nat := 25000

/-- Very large inputs: specification only (no crash / abort / timeout) plus the expected class of
`Program::from_str`, which the generator knows by construction; the quadratic models are not run. -/
def handleBig (stream expected text : String) (out : Sexp) : CaseResult :=
  let want : Sexp := .list [.atom "big", .list [.atom expected], .list [.atom "done"]]
  let kf :=
    (if isAbort out && operatorChars text ≥ flatThreshold then ["kf:C01/deep-expression-drop"] else []) ++
    (if isAbort out && (textParenDepth text.toList ≥ parenThreshold || textBlockHeads text ≥ blockThreshold)
      then ["kf:C01/deep-nesting"] else [])
  { agree := want == out, specOk := !hasCrash out, nontrivial := true,
    tags := ["bigtext", "s-" ++ stream, "len65+", "expect-" ++ expected] ++ kf,
    detail := s!"expected={want} impl={out} ({text.length} characters)" }

def handle (inp out : Sexp) : CaseResult :=
  match inp with
  | .list [.atom "toks", .atom stream, .list toks] =>
    match decodeTokens toks with
    | some ts => handleToks stream ts out
    | none => .bad s!"undecodable tokens {inp}"
  | .list [.atom "text", .atom stream, .str text] => handleText stream text out
  | .list [.atom "bigtext", .atom stream, .atom expected, .str text] => handleBig stream expected text out
  | _ => .bad s!"undecodable input {inp}"

end QV.C01

def main : IO UInt32 := QV.runMain QV.C01.handle
