/-!
C01 — a small model of the error-construction path that touches the INPUT TEXT
(`parser/error/input.rs`, `impl ErrorInput for LexInput`): line, column and snippet of a lex error.
Strings are `List Char`; byte offsets are computed with `utf8Len`, and slicing a string at a byte offset
that is not a character boundary is an explicit `crash` (what `&s[..n]` does in Rust).

The current code slices nothing: `snippet` quotes the whole line (`get_line_beginning`, which nom_locate
cuts at `\n` bytes — always character boundaries) and appends `...` when the line is not all of the
remaining input.  So its totality is by construction; the model's use is the contrast with the capped
variant (`snippetCapped`, a `&s[..100]`), which the model refutes on the very witness that the
correspondence check found missing from its streams.  Everything else in parser/error/*.rs and
program/error/*.rs (Display, Debug, the chain of previous errors, LeftoverError) is exercised by the
harness but NOT modelled.
-/
namespace QV.C01.ErrorModel

/-- `char::len_utf8` -/
def utf8Len (c : Char) : Nat :=
  if c.toNat < 0x80 then 1 else if c.toNat < 0x800 then 2 else if c.toNat < 0x10000 then 3 else 4

/-- `str::len` -/
def byteLen (s : List Char) : Nat := (s.map utf8Len).sum

inductive Res where
  | ok (s : List Char)
  | crash
  deriving DecidableEq, Repr

/-- `&s[..n]`: the prefix of `n` bytes; a panic when `n` exceeds the length or falls inside a character -/
def sliceTo : List Char → Nat → Res
  | _, 0 => .ok []
  | [], _ + 1 => .crash
  | c :: cs, n + 1 =>
    if utf8Len c ≤ n + 1 then
      match sliceTo cs (n + 1 - utf8Len c) with
      | .ok p => .ok (c :: p)
      | .crash => .crash
    else .crash

/-- `LocatedSpan::location_line`: 1 + number of `\n` before the position -/
def lineOf (before : List Char) : Nat := before.count '\n' + 1

/-- `LocatedSpan::get_utf8_column`: 1 + number of characters since the last `\n` -/
def columnOf (before : List Char) : Nat := (before.reverse.takeWhile (· != '\n')).length + 1

/-- `LocatedSpan::get_line_beginning`: the whole line that contains the position -/
def lineAt (before after : List Char) : List Char :=
  (before.reverse.takeWhile (· != '\n')).reverse ++ after.takeWhile (· != '\n')

/-- `ErrorInput::snippet` for lexer input (input.rs:39-50): the line, quoted, `...` when the line is not the
whole remaining input (`s.len() == self.len()` compares byte lengths). -/
def snippet (before after : List Char) : Res :=
  let s := lineAt before after
  if byteLen s = byteLen after then .ok ('"' :: s ++ ['"']) else .ok ('"' :: s ++ "\"...".toList)

/-- the seeded variant: the line capped with a plain byte slice `&s[..100]` -/
def snippetCapped (before after : List Char) : Res :=
  let s := lineAt before after
  match (if byteLen s > 100 then sliceTo s 100 else .ok s) with
  | .ok s => .ok ('"' :: s ++ ['"'])
  | .crash => .crash

end QV.C01.ErrorModel
