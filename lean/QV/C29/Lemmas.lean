import QV.C29.Spec
/-
C29 helper lemmas (core Lean only): the invariant of the graph-construction loop, the path-fold
stack machine against the inductive `Reach` relation, termination of the machine on the graphs that
`build` produces, and the correspondence between reachable values, source-to-sink paths and chains.
-/
set_option linter.unusedVariables false
namespace QV.C29

/-! ## Graph construction -/
/-- invariant of the construction loop after `i` instructions -/
structure Inv (is : List Instr) (i : Nat) (st : BuildState) : Prop where
  last : ∀ q j, st.last q = some j ↔ (j < i ∧ q ∈ qsAt is j ∧ ∀ c, j < c → c < i → q ∉ qsAt is c)
  edges : ∀ a b, (a, b) ∈ st.edges ↔ (b < i ∧ a < b ∧ ∃ q, q ∈ qsAt is a ∧ q ∈ qsAt is b ∧
    ∀ c, a < c → c < b → q ∉ qsAt is c)

theorem addQubits_last (node : Nat) (qs : List Nat) (st : BuildState) (q : Nat) :
    (addQubits node qs st).last q = if q ∈ qs then some node else st.last q := by
  induction qs generalizing st with
  | nil => simp [addQubits]
  | cons q0 qs ih =>
    simp only [addQubits]
    rw [ih]
    by_cases h1 : q ∈ qs
    · simp [h1]
    · by_cases h2 : q = q0
      · simp [h2]
      · simp [h1, h2]

theorem addQubits_edges (node : Nat) (qs : List Nat) (st : BuildState) (a b : Nat) :
    (a, b) ∈ (addQubits node qs st).edges ↔
      (a, b) ∈ st.edges ∨ (b = node ∧ a ≠ node ∧ ∃ q, q ∈ qs ∧ st.last q = some a) := by
  induction qs generalizing st with
  | nil => simp [addQubits]
  | cons q0 qs ih =>
    simp only [addQubits]
    rw [ih]
    constructor
    · rintro (h | ⟨hb, ha, q, hq, hl⟩)
      · -- edge already in the intermediate state
        cases hp : st.last q0 with
        | none => simp only [hp] at h; exact Or.inl h
        | some p =>
          simp only [hp] at h
          by_cases hpn : p ≠ node
          · rw [if_pos hpn] at h
            rcases List.mem_append.1 h with h | h
            · exact Or.inl h
            · simp only [List.mem_singleton, Prod.mk.injEq] at h
              obtain ⟨rfl, rfl⟩ := h
              exact Or.inr ⟨rfl, hpn, q0, List.mem_cons_self .., hp⟩
          · rw [if_neg hpn] at h; exact Or.inl h
      · simp only at hl
        by_cases hq0 : q = q0
        · rw [if_pos hq0] at hl; cases hl; exact absurd rfl ha
        · rw [if_neg hq0] at hl
          exact Or.inr ⟨hb, ha, q, List.mem_cons_of_mem _ hq, hl⟩
    · rintro (h | ⟨hb, ha, q, hq, hl⟩)
      · left
        cases hp : st.last q0 with
        | none => exact h
        | some p =>
          simp only
          split
          · exact List.mem_append_left _ h
          · exact h
      · rcases List.mem_cons.1 hq with rfl | hq
        · left
          simp only [hl]
          rw [if_pos ha]
          subst hb
          exact List.mem_append_right _ (List.mem_singleton.2 rfl)
        · by_cases hq0 : q = q0
          · subst hq0
            left
            simp only [hl]
            rw [if_pos ha]
            subst hb
            exact List.mem_append_right _ (List.mem_singleton.2 rfl)
          · right
            refine ⟨hb, ha, q, hq, ?_⟩
            simp only [if_neg hq0]
            exact hl

theorem qsAt_append_length (done : List Instr) (ins : Instr) (rest : List Instr) :
    qsAt (done ++ ins :: rest) done.length = ins.qubits := by
  simp [qsAt]

theorem Inv.init (is : List Instr) : Inv is 0 ⟨fun _ => none, []⟩ where
  last q j := by simp
  edges a b := by simp

/-- one iteration of the outer loop preserves the invariant -/
theorem Inv.step (is : List Instr) (i : Nat) (st : BuildState) (h : Inv is i st) :
    Inv is (i + 1) (addQubits i (qsAt is i) st) where
  last q j := by
    rw [addQubits_last]
    by_cases hq : q ∈ qsAt is i
    · rw [if_pos hq]
      constructor
      · intro hj
        cases hj
        exact ⟨by omega, hq, fun c h1 h2 => by omega⟩
      · rintro ⟨h1, h2, h3⟩
        by_cases hji : j = i
        · rw [hji]
        · exact absurd hq (h3 i (by omega) (by omega))
    · rw [if_neg hq, h.last]
      constructor
      · rintro ⟨h1, h2, h3⟩
        refine ⟨by omega, h2, fun c hc1 hc2 => ?_⟩
        by_cases hci : c = i
        · rw [hci]; exact hq
        · exact h3 c hc1 (by omega)
      · rintro ⟨h1, h2, h3⟩
        have hji : j ≠ i := fun e => hq (e ▸ h2)
        exact ⟨by omega, h2, fun c hc1 hc2 => h3 c hc1 (by omega)⟩
  edges a b := by
    rw [addQubits_edges, h.edges]
    constructor
    · rintro (⟨h1, h2, h3⟩ | ⟨hb, ha, q, hq, hl⟩)
      · exact ⟨by omega, h2, h3⟩
      · obtain ⟨h1, h2, h3⟩ := (h.last q a).1 hl
        subst hb
        exact ⟨by omega, h1, q, h2, hq, h3⟩
    · rintro ⟨h1, h2, q, hqa, hqb, h3⟩
      by_cases hbi : b = i
      · right
        subst hbi
        exact ⟨rfl, by omega, q, hqb, (h.last q a).2 ⟨h2, hqa, h3⟩⟩
      · left
        exact ⟨by omega, h2, q, hqa, hqb, h3⟩

theorem buildFrom_inv (rest : List Instr) : ∀ (done : List Instr) (st st' : BuildState),
    Inv (done ++ rest) done.length st → buildFrom done.length rest st = some st' →
    Inv (done ++ rest) (done ++ rest).length st' := by
  induction rest with
  | nil =>
    intro done st st' h hb
    simp only [buildFrom, Option.some.injEq] at hb
    subst hb
    simpa using h
  | cons ins rest ih =>
    intro done st st' h hb
    simp only [buildFrom] at hb
    split at hb
    · cases hb
    · have hstep := Inv.step _ _ _ h
      rw [qsAt_append_length] at hstep
      have e : done ++ ins :: rest = (done ++ [ins]) ++ rest := by simp
      have hl : done.length + 1 = (done ++ [ins]).length := by simp
      rw [e] at hstep ⊢
      rw [hl] at hstep hb
      exact ih (done ++ [ins]) _ _ hstep hb

/-- **edges = "next instruction on a shared qubit"** -/
theorem build_edges (is : List Instr) (g : Graph) (h : build is = some g) :
    g.instrs = is ∧ ∀ a b, (a, b) ∈ g.edges ↔ NextOn is a b := by
  unfold build at h
  cases hb : buildFrom 0 is ⟨fun _ => none, []⟩ with
  | none => rw [hb] at h; cases h
  | some st =>
    rw [hb] at h
    cases h
    have := buildFrom_inv is [] _ _ (by simpa using Inv.init is) (by simpa using hb)
    refine ⟨rfl, fun a b => ?_⟩
    have he := this.edges a b
    simp only [List.nil_append] at he
    rw [he]
    unfold NextOn
    constructor
    · rintro ⟨h1, h2, h3⟩; exact ⟨h2, h1, h3⟩
    · rintro ⟨h1, h2, h3⟩; exact ⟨h2, h1, h3⟩

/-- the graph is built exactly when every instruction is supported -/
theorem build_isSome (is : List Instr) : (build is).isSome = is.all (·.supported) := by
  unfold build
  have : ∀ (rest : List Instr) i st, (buildFrom i rest st).isSome = rest.all (·.supported) := by
    intro rest
    induction rest with
    | nil => intro i st; simp [buildFrom]
    | cons ins rest ih =>
      intro i st
      simp only [buildFrom, List.all_cons]
      cases hs : ins.supported
      · simp
      · simp [ih]
  have h := this is 0 ⟨fun _ => none, []⟩
  cases hb : buildFrom 0 is ⟨fun _ => none, []⟩ with
  | none => rw [hb] at h; simpa using h
  | some st => rw [hb] at h; simpa using h
/-! ## The path-fold stack machine -/

/-- `x` is the value accumulated along some way of repeatedly choosing a node of the current
node list and moving to its successors until the list is empty (what the machine enumerates) -/
inductive Reach {T : Type} (g : Graph) (f : T → Nat → T) : T → List Nat → T → Prop
  | leaf (acc : T) : Reach g f acc [] acc
  | step (acc : T) (nodes : List Nat) (v : Nat) (x : T) :
      v ∈ nodes → Reach g f (f acc v) (succs g v) x → Reach g f acc nodes x

theorem reach_nil {T : Type} (g : Graph) (f : T → Nat → T) (acc x : T) :
    Reach g f acc [] x ↔ x = acc := by
  constructor
  · intro h
    cases h with
    | leaf => rfl
    | step _ _ v _ hv _ => cases hv
  · rintro rfl; exact .leaf _

theorem reach_cons {T : Type} (g : Graph) (f : T → Nat → T) (acc x : T) (nodes : List Nat)
    (hne : nodes ≠ []) :
    Reach g f acc nodes x ↔ ∃ v, v ∈ nodes ∧ Reach g f (f acc v) (succs g v) x := by
  constructor
  · intro h
    cases h with
    | leaf => exact absurd rfl hne
    | step _ _ v _ hv hr => exact ⟨v, hv, hr⟩
  · rintro ⟨v, hv, hr⟩; exact .step _ _ v _ hv hr

/-- **partial correctness of the machine**: whenever it halts, its result is the initial result plus
exactly the values reachable from the stack entries -/
theorem run_mem {T : Type} (g : Graph) (f : T → Nat → T) :
    ∀ (fuel : Nat) (stack : List (T × List Nat)) (res out : List T),
      run g f fuel stack res = some out →
      ∀ x, x ∈ out ↔ (x ∈ res ∨ ∃ e, e ∈ stack ∧ Reach g f e.1 e.2 x) := by
  intro fuel
  induction fuel with
  | zero => intro stack res out h; simp [run] at h
  | succ fuel ih =>
    intro stack res out h x
    cases stack with
    | nil =>
      simp only [run, Option.some.injEq] at h
      subst h
      simp
    | cons e rest =>
      obtain ⟨acc, nodes⟩ := e
      simp only [run] at h
      split at h
      · next hemp =>
        have hn : nodes = [] := by simpa using hemp
        subst hn
        rw [ih _ _ _ h x]
        simp only [List.mem_append, List.mem_cons, List.not_mem_nil, or_false, exists_eq_or_imp, reach_nil]
        constructor
        · rintro ((h1 | h1) | h1)
          · exact Or.inl h1
          · exact Or.inr (Or.inl h1)
          · exact Or.inr (Or.inr h1)
        · rintro (h1 | h1 | h1)
          · exact Or.inl (Or.inl h1)
          · exact Or.inl (Or.inr h1)
          · exact Or.inr h1
      · next hemp =>
        have hn : nodes ≠ [] := by simpa using hemp
        rw [ih _ _ _ h x]
        simp only [List.mem_append, List.mem_reverse, List.mem_map, List.mem_cons, exists_eq_or_imp,
          reach_cons g f acc x nodes hn]
        constructor
        · rintro (h1 | ⟨e, (⟨v, hv, rfl⟩ | he), hr⟩)
          · exact Or.inl h1
          · exact Or.inr (Or.inl ⟨v, hv, hr⟩)
          · exact Or.inr (Or.inr ⟨e, he, hr⟩)
        · rintro (h1 | ⟨v, hv, hr⟩ | ⟨e, he, hr⟩)
          · exact Or.inl h1
          · exact Or.inr ⟨_, Or.inl ⟨v, hv, rfl⟩, hr⟩
          · exact Or.inr ⟨e, Or.inr he, hr⟩

/-! ### Termination on forward graphs -/

/-- every edge goes forward and stays inside the node range (true of every built graph) -/
def Forward (g : Graph) : Prop := ∀ a b, (a, b) ∈ g.edges → a < b ∧ b < g.instrs.length

theorem mem_succs (g : Graph) (v u : Nat) : u ∈ succs g v ↔ (v, u) ∈ g.edges := by
  unfold succs
  simp only [List.mem_reverse, List.mem_map, List.mem_filter, beq_iff_eq]
  constructor
  · rintro ⟨⟨a, b⟩, ⟨he, hv⟩, hu⟩
    simp only at hv hu
    subst hv; subst hu; exact he
  · intro h; exact ⟨(v, u), ⟨h, rfl⟩, rfl⟩


theorem cost_pos (g : Graph) (d : Nat) (nodes : List Nat) : 1 ≤ cost g d nodes := by
  cases d <;> simp [cost] <;> omega

/-- total cost of a ghost-annotated stack -/
def stackCost (g : Graph) {T : Type} (gs : List (Nat × T × List Nat)) : Nat :=
  (gs.map fun e => cost g e.1 e.2.2).sum

theorem sum_reverse (l : List Nat) : l.reverse.sum = l.sum := by
  induction l with
  | nil => rfl
  | cons a l ih => simp [List.sum_append, ih]; omega

theorem run_terminates {T : Type} (g : Graph) (f : T → Nat → T) (hf : Forward g) :
    ∀ (fuel : Nat) (gs : List (Nat × T × List Nat)) (res : List T),
      (∀ e, e ∈ gs → ∀ v, v ∈ e.2.2 → v < g.instrs.length ∧ g.instrs.length ≤ v + e.1) →
      stackCost g gs + 1 ≤ fuel →
      (run g f fuel (gs.map fun e => e.2) res).isSome = true := by
  intro fuel
  induction fuel with
  | zero => intro gs res _ h; omega
  | succ fuel ih =>
    intro gs res hval hfuel
    cases gs with
    | nil => simp [run]
    | cons e rest =>
      obtain ⟨d, acc, nodes⟩ := e
      simp only [List.map_cons, run]
      have hrest : ∀ e, e ∈ rest → ∀ v, v ∈ e.2.2 → v < g.instrs.length ∧ g.instrs.length ≤ v + e.1 :=
        fun e he => hval e (List.mem_cons_of_mem _ he)
      simp only [stackCost, List.map_cons, List.sum_cons] at hfuel
      split
      · apply ih rest _ hrest
        have := cost_pos g d nodes
        simp only [stackCost]; omega
      · next hemp =>
        have hn : nodes ≠ [] := by simpa using hemp
        obtain ⟨v0, hv0⟩ := List.exists_mem_of_ne_nil nodes hn
        have hd := hval (d, acc, nodes) (List.mem_cons_self ..) v0 hv0
        simp only at hd
        cases d with
        | zero => omega
        | succ d =>
          let children : List (Nat × T × List Nat) := nodes.map fun v => (d, f acc v, succs g v)
          have hmap : ((nodes.map fun v => (f acc v, succs g v)).reverse ++ rest.map fun e => e.2) =
              ((children.reverse ++ rest).map fun e => e.2) := by
            simp [children, List.map_reverse, Function.comp_def]
          rw [hmap]
          apply ih
          · intro e he v hv
            rcases List.mem_append.1 he with he | he
            · rw [List.mem_reverse] at he
              simp only [children, List.mem_map] at he
              obtain ⟨w, hw, rfl⟩ := he
              simp only at hv ⊢
              have hw' := hval (d + 1, acc, nodes) (List.mem_cons_self ..) w hw
              simp only at hw'
              have := hf w v ((mem_succs g w v).1 hv)
              omega
            · exact hrest e he v hv
          · have hc : stackCost g (children.reverse ++ rest) =
                (nodes.map fun v => cost g d (succs g v)).sum + stackCost g rest := by
              simp only [stackCost, List.map_append, List.sum_append, List.map_reverse, sum_reverse,
                children, List.map_map, Function.comp_def]
            rw [hc]
            simp only [cost] at hfuel
            simp only [stackCost]
            omega


/-! ## Reachable values = values along source-to-sink paths -/

/-- `p` is a path that starts at one of `nodes`, moves along edges, and stops at a node without
successors (`p = []` only when there is nowhere to start) -/
def PathFrom (g : Graph) : List Nat → List Nat → Prop
  | nodes, [] => nodes = []
  | nodes, v :: p => v ∈ nodes ∧ PathFrom g (succs g v) p

theorem reach_iff_path {T : Type} (g : Graph) (f : T → Nat → T) (acc : T) (nodes : List Nat) (x : T) :
    Reach g f acc nodes x ↔ ∃ p, PathFrom g nodes p ∧ x = p.foldl f acc := by
  constructor
  · intro h
    induction h with
    | leaf acc => exact ⟨[], rfl, rfl⟩
    | step acc nodes v x hv _ ih =>
      obtain ⟨p, hp, hx⟩ := ih
      exact ⟨v :: p, ⟨hv, hp⟩, hx⟩
  · rintro ⟨p, hp, hx⟩
    induction p generalizing acc nodes with
    | nil =>
      simp only [PathFrom] at hp
      subst hp; subst hx
      exact .leaf _
    | cons v p ih =>
      obtain ⟨hv, hp⟩ := hp
      exact .step _ _ v _ hv (ih _ _ hp hx)

/-- consecutive nodes are joined by an edge -/
def GraphChain (g : Graph) : List Nat → Prop
  | [] => True
  | [_] => True
  | a :: b :: rest => (a, b) ∈ g.edges ∧ GraphChain g (b :: rest)

theorem succs_nil_of_ge (g : Graph) (hf : Forward g) (v : Nat) (hv : g.instrs.length ≤ v) :
    succs g v = [] := by
  cases hs : succs g v with
  | nil => rfl
  | cons u us =>
    have : u ∈ succs g v := by rw [hs]; exact List.mem_cons_self ..
    have := hf v u ((mem_succs g v u).1 this)
    omega

/-- from any node the walk can be completed to a sink -/
theorem sink_ext (g : Graph) (hf : Forward g) : ∀ (d v : Nat), g.instrs.length ≤ v + d →
    ∃ p, PathFrom g (succs g v) p := by
  intro d
  induction d with
  | zero =>
    intro v hv
    exact ⟨[], by simp only [PathFrom]; exact succs_nil_of_ge g hf v (by omega)⟩
  | succ d ih =>
    intro v hv
    cases hs : succs g v with
    | nil => exact ⟨[], rfl⟩
    | cons u us =>
      have hu : u ∈ succs g v := by rw [hs]; exact List.mem_cons_self ..
      have := hf v u ((mem_succs g v u).1 hu)
      obtain ⟨p, hp⟩ := ih u (by omega)
      exact ⟨u :: p, by rw [← hs]; exact hu, hp⟩

/-- a chain of edges starting in `nodes` extends (at its end) to a complete path from `nodes` -/
theorem chain_ext_fwd (g : Graph) (hf : Forward g) : ∀ (rest : List Nat) (v : Nat) (nodes : List Nat),
    GraphChain g (v :: rest) → v ∈ nodes → ∃ p, PathFrom g nodes ((v :: rest) ++ p) := by
  intro rest
  induction rest with
  | nil =>
    intro v nodes _ hv
    obtain ⟨p, hp⟩ := sink_ext g hf g.instrs.length v (by omega)
    exact ⟨p, hv, hp⟩
  | cons u r ih =>
    intro v nodes hc hv
    obtain ⟨he, hc'⟩ := hc
    obtain ⟨p, hp⟩ := ih u (succs g v) hc' ((mem_succs g v u).2 he)
    exact ⟨p, hv, hp⟩

theorem mem_sources (g : Graph) (v : Nat) :
    v ∈ sources g ↔ v < g.instrs.length ∧ ∀ a, (a, v) ∉ g.edges := by
  unfold sources
  simp only [List.mem_filter, List.mem_range, Bool.not_eq_true', List.any_eq_false, beq_iff_eq]
  constructor
  · rintro ⟨h1, h2⟩
    exact ⟨h1, fun a ha => h2 (a, v) ha rfl⟩
  · rintro ⟨h1, h2⟩
    refine ⟨h1, fun e he hev => ?_⟩
    obtain ⟨a, b⟩ := e
    simp only at hev
    subst hev
    exact h2 a he

/-- every node is the end of a chain of edges that starts at a source -/
theorem src_ext (g : Graph) (hf : Forward g) : ∀ (d v : Nat), v < g.instrs.length → v ≤ d →
    ∃ pre s, s ∈ sources g ∧ GraphChain g (s :: pre) ∧ (s :: pre).getLast? = some v := by
  intro d
  induction d with
  | zero =>
    intro v hv hd
    have h0 : v = 0 := by omega
    subst h0
    refine ⟨[], 0, (mem_sources g 0).2 ⟨hv, fun a ha => ?_⟩, trivial, rfl⟩
    have := hf a 0 ha
    omega
  | succ d ih =>
    intro v hv hd
    by_cases hs : v ∈ sources g
    · exact ⟨[], v, hs, trivial, rfl⟩
    · have : ∃ a, (a, v) ∈ g.edges := by
        apply Classical.byContradiction
        intro hne
        exact hs ((mem_sources g v).2 ⟨hv, fun a ha => hne ⟨a, ha⟩⟩)
      obtain ⟨a, ha⟩ := this
      have hav := hf a v ha
      obtain ⟨pre, s, hsrc, hch, hlast⟩ := ih a (by omega) (by omega)
      refine ⟨pre ++ [v], s, hsrc, ?_, by
        rw [show s :: (pre ++ [v]) = (s :: pre) ++ [v] from rfl]; exact List.getLast?_concat ..⟩
      -- append the edge (a, v) at the end of the chain
      clear ih hs hsrc
      induction pre generalizing s with
      | nil =>
        simp only [List.getLast?_singleton, Option.some.injEq] at hlast
        subst hlast
        exact ⟨ha, trivial⟩
      | cons b pre ihp =>
        obtain ⟨hsb, hrest⟩ := hch
        refine ⟨hsb, ?_⟩
        apply ihp b hrest
        simpa [List.getLast?_cons_cons] using hlast


/-! ## Counting, maxima, chains -/

theorem foldl_countStep (g : Graph) (k : Nat) (p : List Nat) (a : Nat) :
    p.foldl (countStep g k) a = a + chainCount g.instrs k p := by
  induction p generalizing a with
  | nil => simp [chainCount]
  | cons v p ih =>
    simp only [List.foldl_cons, ih, chainCount, List.filter_cons]
    unfold countStep qualifies
    cases hv : g.instrs[v]? with
    | none => simp
    | some ins =>
      simp only
      split <;> simp_all <;> omega

theorem chainCount_append (is : List Instr) (k : Nat) (a b : List Nat) :
    chainCount is k (a ++ b) = chainCount is k a + chainCount is k b := by
  simp [chainCount, List.filter_append]

theorem chainCount_last_le (is : List Instr) (k : Nat) (l : List Nat) (v : Nat)
    (h : l.getLast? = some v) : chainCount is k [v] ≤ chainCount is k l := by
  induction l with
  | nil => cases h
  | cons a l ih =>
    cases l with
    | nil =>
      simp only [List.getLast?_singleton, Option.some.injEq] at h
      subst h; exact Nat.le_refl _
    | cons b l =>
      rw [List.getLast?_cons_cons] at h
      have := ih h
      have e : a :: b :: l = [a] ++ (b :: l) := rfl
      rw [e, chainCount_append]
      omega

theorem le_foldl_max (l : List Nat) (a : Nat) : a ≤ l.foldl max a := by
  induction l generalizing a with
  | nil => exact Nat.le_refl _
  | cons b l ih => exact Nat.le_trans (Nat.le_max_left a b) (ih _)

theorem mem_le_foldl_max (l : List Nat) (a x : Nat) (h : x ∈ l) : x ≤ l.foldl max a := by
  induction l generalizing a with
  | nil => cases h
  | cons b l ih =>
    rcases List.mem_cons.1 h with rfl | h
    · exact Nat.le_trans (Nat.le_max_right a x) (le_foldl_max l _)
    · exact ih _ h

theorem foldl_max_mem (l : List Nat) (a : Nat) : l.foldl max a = a ∨ l.foldl max a ∈ l := by
  induction l generalizing a with
  | nil => exact Or.inl rfl
  | cons b l ih =>
    simp only [List.foldl_cons]
    rcases ih (max a b) with h | h
    · rw [h]
      rcases Nat.le_total a b with hab | hab
      · right; rw [Nat.max_eq_right hab]; exact List.mem_cons_self ..
      · left; exact Nat.max_eq_left hab
    · right; exact List.mem_cons_of_mem _ h

theorem mem_le_maxList (l : List Nat) (x : Nat) (h : x ∈ l) : x ≤ maxList l := mem_le_foldl_max l 0 x h

theorem maxList_mem (l : List Nat) (h : l ≠ []) : maxList l ∈ l := by
  rcases foldl_max_mem l 0 with h0 | h0
  · -- the maximum is 0: every element is 0, so the head is it
    cases l with
    | nil => exact absurd rfl h
    | cons b l =>
      have : b ≤ maxList (b :: l) := mem_le_maxList _ _ (List.mem_cons_self ..)
      unfold maxList at this ⊢
      rw [h0] at this ⊢
      have : b = 0 := by omega
      subst this
      exact List.mem_cons_self ..
  · exact h0

/-- gluing two chains of edges that meet in a node -/
theorem graphChain_glue (g : Graph) (l : List Nat) (v : Nat) (rest : List Nat)
    (hl : GraphChain g l) (hlast : l.getLast? = some v) (hr : GraphChain g (v :: rest)) :
    GraphChain g (l ++ rest) := by
  induction l with
  | nil => cases hlast
  | cons a l ih =>
    cases l with
    | nil =>
      simp only [List.getLast?_singleton, Option.some.injEq] at hlast
      subst hlast
      exact hr
    | cons b l =>
      obtain ⟨hab, hbl⟩ := hl
      rw [List.getLast?_cons_cons] at hlast
      exact ⟨hab, ih hbl hlast⟩

theorem build_forward (is : List Instr) (g : Graph) (h : Represents is g) : Forward g := by
  obtain ⟨hi, he⟩ := h
  intro a b hab
  obtain ⟨h1, h2, _⟩ := (he a b).1 hab
  rw [hi]; exact ⟨h1, h2⟩

/-- chains of the statement = non-empty chains of graph edges inside the node range -/
theorem isChain_iff (is : List Instr) (g : Graph) (h : Represents is g) (c : List Nat) :
    IsChain is c ↔ (c ≠ [] ∧ GraphChain g c ∧ ∀ v, v ∈ c → v < is.length) := by
  obtain ⟨hi, he⟩ := h
  induction c with
  | nil => simp [IsChain]
  | cons a c ih =>
    cases c with
    | nil => simp [IsChain, GraphChain]
    | cons b c =>
      simp only [IsChain, GraphChain, he, ih, ne_eq, reduceCtorEq, not_false_eq_true, true_and,
        List.mem_cons, forall_eq_or_imp]
      constructor
      · rintro ⟨hn, hc, hb, hrest⟩
        exact ⟨⟨hn, hc⟩, by have := hn.1; omega, hb, hrest⟩
      · rintro ⟨⟨hn, hc⟩, _, hb, hrest⟩
        exact ⟨hn, hc, hb, hrest⟩

/-- a complete path from a list of valid nodes is a chain of edges of valid nodes -/
theorem pathFrom_chain (g : Graph) (hf : Forward g) : ∀ (p : List Nat) (nodes : List Nat),
    (∀ v, v ∈ nodes → v < g.instrs.length) → PathFrom g nodes p →
    GraphChain g p ∧ (∀ v, v ∈ p → v < g.instrs.length) ∧ (∀ v, p.head? = some v → v ∈ nodes) := by
  intro p
  induction p with
  | nil => intro nodes _ _; exact ⟨trivial, by simp, by simp⟩
  | cons v p ih =>
    intro nodes hn hp
    obtain ⟨hv, hp'⟩ := hp
    have hs : ∀ u, u ∈ succs g v → u < g.instrs.length :=
      fun u hu => (hf v u ((mem_succs g v u).1 hu)).2
    obtain ⟨h1, h2, h3⟩ := ih (succs g v) hs hp'
    refine ⟨?_, ?_, ?_⟩
    · cases p with
      | nil => trivial
      | cons u p => exact ⟨(mem_succs g v u).1 (h3 u rfl), h1⟩
    · intro w hw
      rcases List.mem_cons.1 hw with rfl | hw
      · exact hn _ hv
      · exact h2 w hw
    · intro w hw
      simp only [List.head?_cons, Option.some.injEq] at hw
      subst hw; exact hv


theorem sources_lt (g : Graph) (v : Nat) (h : v ∈ sources g) : v < g.instrs.length :=
  ((mem_sources g v).1 h).1

theorem pathFold_terminates {T : Type} (g : Graph) (hf : Forward g) (f : T → Nat → T) (init : T)
    (fuel : Nat) (h : fuelBound g ≤ fuel) : ∃ out, pathFold g f init fuel = some out := by
  have := run_terminates g f hf fuel [(g.instrs.length, init, sources g)] []
    (by
      intro e he v hv
      simp only [List.mem_singleton] at he
      subst he
      exact ⟨sources_lt g v hv, by simp⟩)
    (by simpa [stackCost, fuelBound] using h)
  simp only [List.map_cons, List.map_nil] at this
  unfold pathFold
  cases hr : run g f fuel [(init, sources g)] [] with
  | none => rw [hr] at this; cases this
  | some out => exact ⟨out, rfl⟩

/-- **`path_fold` enumerates exactly the source-to-sink paths** -/
theorem pathFold_mem {T : Type} (g : Graph) (f : T → Nat → T) (init : T) (fuel : Nat)
    (out : List T) (h : pathFold g f init fuel = some out) (x : T) :
    x ∈ out ↔ ∃ p, PathFrom g (sources g) p ∧ x = p.foldl f init := by
  unfold pathFold at h
  rw [run_mem g f fuel _ _ _ h x]
  simp only [List.not_mem_nil, false_or, List.mem_singleton, exists_eq_left, reach_iff_path]

/-- there is always at least one complete path from the sources -/
theorem exists_path (g : Graph) (hf : Forward g) : ∃ p, PathFrom g (sources g) p := by
  cases hs : sources g with
  | nil => exact ⟨[], rfl⟩
  | cons s ss =>
    have : s ∈ sources g := by rw [hs]; exact List.mem_cons_self ..
    obtain ⟨p, hp⟩ := chain_ext_fwd g hf [] s (sources g) trivial this
    rw [← hs]; exact ⟨_, hp⟩

theorem sources_nil (g : Graph) (hf : Forward g) (h : sources g = []) : g.instrs = [] := by
  cases hi : g.instrs with
  | nil => rfl
  | cons a l =>
    have : 0 ∈ sources g := (mem_sources g 0).2 ⟨by rw [hi]; simp, fun a ha => by
      have := hf a 0 ha; omega⟩
    rw [h] at this; cases this


end QV.C29
