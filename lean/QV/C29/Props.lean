import QV.C29.Lemmas
/-
C29 — Gate depth equals the longest chain of qualifying gates.

"For every block of gates, measurements and classical instructions, gate depth with threshold k is
the largest number of gates acting on at least k qubits along any chain of instructions.  In such a
chain, consecutive instructions share a qubit and appear in program order with no instruction on
that qubit between them."

All theorems are for every instruction list of any length, any qubit indices, any threshold; an
instruction may list a qubit more than once (the threshold counts *listed* qubits, `gate.qubits.len()`).
-/
set_option linter.unusedVariables false
namespace QV.C29

/-- the graph is built exactly when every instruction is supported (no PRAGMA / JUMP / RF control) -/
theorem C29_build_iff (is : List Instr) : (build is).isSome = is.all (·.supported) :=
  build_isSome is

/-- **Edges = "next instruction on a shared qubit"**: the graph has the instructions as nodes and an
edge `a → b` exactly when `b` is the next instruction after `a` on some qubit they share; in
particular every edge goes forward (no self-loop, no cycle) -/
theorem C29_edges (is : List Instr) (g : Graph) (h : build is = some g) : Represents is g :=
  build_edges is g h

/-- **`path_fold` halts** on every built graph once the fuel reaches `fuelBound g` -/
theorem C29_pathFold_terminates {T : Type} (is : List Instr) (g : Graph) (h : Represents is g)
    (f : T → Nat → T) (init : T) (fuel : Nat) (hfuel : fuelBound g ≤ fuel) :
    ∃ out, pathFold g f init fuel = some out :=
  pathFold_terminates g (build_forward is g h) f init fuel hfuel

/-- **`path_fold` enumerates exactly the source-to-sink paths**: a value is in the result iff it is
the fold of `f` along a path that starts at a node without predecessors, follows edges, and ends at
a node without successors (for any `f`, any initial value) -/
theorem C29_pathFold_paths {T : Type} (g : Graph) (f : T → Nat → T) (init : T) (fuel : Nat)
    (out : List T) (h : pathFold g f init fuel = some out) (x : T) :
    x ∈ out ↔ ∃ p, PathFrom g (sources g) p ∧ x = p.foldl f init :=
  pathFold_mem g f init fuel out h x

/-- the source-to-sink paths are chains in the sense of the statement -/
theorem C29_path_is_chain (is : List Instr) (g : Graph) (h : Represents is g) (p : List Nat)
    (hp : PathFrom g (sources g) p) (hne : p ≠ []) : IsChain is p := by
  have hf := build_forward is g h
  have hi := h.1
  obtain ⟨h1, h2, _⟩ := pathFrom_chain g hf p (sources g) (sources_lt g) hp
  exact (isChain_iff is g h p).2 ⟨hne, h1, fun v hv => by rw [← hi]; exact h2 v hv⟩

/-- every chain is contained in a source-to-sink path that counts at least as many qualifying gates -/
theorem C29_chain_extends (is : List Instr) (g : Graph) (h : Represents is g) (k : Nat)
    (c : List Nat) (hc : IsChain is c) :
    ∃ p, PathFrom g (sources g) p ∧ chainCount is k c ≤ chainCount is k p := by
  have hf := build_forward is g h
  have hi := h.1
  obtain ⟨hne, hgc, hlt⟩ := (isChain_iff is g h c).1 hc
  cases c with
  | nil => exact absurd rfl hne
  | cons v rest =>
    have hv : v < g.instrs.length := by rw [hi]; exact hlt v (List.mem_cons_self ..)
    obtain ⟨pre, s, hs, hch, hlast⟩ := src_ext g hf v v hv (Nat.le_refl _)
    have hglue := graphChain_glue g (s :: pre) v rest hch hlast hgc
    obtain ⟨post, hp⟩ := chain_ext_fwd g hf (pre ++ rest) s (sources g) hglue hs
    refine ⟨_, hp, ?_⟩
    have e : (s :: (pre ++ rest)) ++ post = (s :: pre) ++ (rest ++ post) := by simp
    have e2 : v :: rest = [v] ++ rest := rfl
    rw [e, e2, chainCount_append, chainCount_append, chainCount_append]
    have := chainCount_last_le is k (s :: pre) v hlast
    omega

/-- **Gate depth = longest chain.**  For every supported block and every threshold `k`, with
sufficient fuel `gate_depth(k)` returns a number `d` such that no chain has more than `d` gates
acting on ≥ `k` qubits and some chain has exactly `d` (or the block is empty and `d = 0`). -/
theorem C29_gate_depth (is : List Instr) (g : Graph) (h : Represents is g) (k fuel : Nat)
    (hfuel : fuelBound g ≤ fuel) :
    ∃ d, gateDepth g k fuel = some d ∧ IsLongestChain is k d := by
  have hf := build_forward is g h
  have hi := h.1
  obtain ⟨out, hout⟩ := pathFold_terminates g hf (countStep g k) 0 fuel hfuel
  have hmem := pathFold_mem g (countStep g k) 0 fuel out hout
  refine ⟨maxList out, by simp [gateDepth, hout], ?_, ?_⟩
  · -- upper bound over all chains
    intro c hc
    obtain ⟨p, hp, hle⟩ := C29_chain_extends is g h k c hc
    have : p.foldl (countStep g k) 0 ∈ out := (hmem _).2 ⟨p, hp, rfl⟩
    have := mem_le_maxList out _ this
    rw [foldl_countStep, hi] at this
    omega
  · -- attained
    obtain ⟨p0, hp0⟩ := exists_path g hf
    have hne : out ≠ [] := by
      intro he
      have : p0.foldl (countStep g k) 0 ∈ out := (hmem _).2 ⟨p0, hp0, rfl⟩
      rw [he] at this; cases this
    obtain ⟨p, hp, hx⟩ := (hmem _).1 (maxList_mem out hne)
    rw [foldl_countStep, hi] at hx
    cases hpe : p with
    | nil =>
      right
      subst hpe
      simp only [PathFrom] at hp
      have := sources_nil g hf hp
      rw [hi] at this
      exact ⟨this, by simpa [chainCount] using hx⟩
    | cons v p' =>
      left
      refine ⟨p, C29_path_is_chain is g h p hp (by rw [hpe]; simp), ?_⟩
      omega

/-- the specification determines the depth -/
theorem C29_longest_unique (is : List Instr) (k d d' : Nat)
    (h : IsLongestChain is k d) (h' : IsLongestChain is k d') : d = d' := by
  obtain ⟨hub, hat⟩ := h
  obtain ⟨hub', hat'⟩ := h'
  have h1 : d ≤ d' := by
    rcases hat with ⟨c, hc, e⟩ | ⟨_, e⟩
    · rw [← e]; exact hub' c hc
    · omega
  have h2 : d' ≤ d := by
    rcases hat' with ⟨c, hc, e⟩ | ⟨_, e⟩
    · rw [← e]; exact hub c hc
    · omega
  omega

/-- hence the model's output is *the* longest-chain count: the Bool check `gateDepth … == some d`
that the driver applies to the implementation's answer `d` is equivalent to the specification -/
theorem C29_checker (is : List Instr) (g : Graph) (h : Represents is g) (k fuel d : Nat)
    (hfuel : fuelBound g ≤ fuel) : gateDepth g k fuel = some d ↔ IsLongestChain is k d := by
  obtain ⟨d0, hd0, hs0⟩ := C29_gate_depth is g h k fuel hfuel
  constructor
  · intro hd; rw [hd0] at hd; cases hd; exact hs0
  · intro hs; rw [hd0, C29_longest_unique is k d0 d hs0 hs]

/-! ### The depth depends only on the edge relation -/

/-- removing duplicate (parallel) edges keeps a graph a representation of the block -/
theorem C29_represents_dedup (is : List Instr) (g : Graph) (h : Represents is g) :
    Represents is ⟨g.instrs, g.edges.eraseDups⟩ :=
  ⟨h.1, fun a b => by simp only [List.mem_eraseDups]; exact h.2 a b⟩

/-- **two graphs with the same edge relation have the same gate depth**, whatever the multiplicity or
order of their edges (e.g. with or without a parallel edge per shared qubit) -/
theorem C29_depth_relation_invariant (is : List Instr) (g g' : Graph) (h : Represents is g)
    (h' : Represents is g') (k fuel fuel' : Nat) (hf : fuelBound g ≤ fuel) (hf' : fuelBound g' ≤ fuel') :
    gateDepth g k fuel = gateDepth g' k fuel' := by
  obtain ⟨d, hd, hs⟩ := C29_gate_depth is g h k fuel hf
  obtain ⟨d', hd', hs'⟩ := C29_gate_depth is g' h' k fuel' hf'
  rw [hd, hd', C29_longest_unique is k d d' hs hs']

/-- in particular for the graph `build` produces and its de-duplicated version -/
example (is : List Instr) (g : Graph) (h : build is = some g) (k : Nat) :
    gateDepth g k (fuelBound g) =
      gateDepth ⟨g.instrs, g.edges.eraseDups⟩ k (fuelBound ⟨g.instrs, g.edges.eraseDups⟩) :=
  C29_depth_relation_invariant is g _ (C29_edges is g h) (C29_represents_dedup is g (C29_edges is g h)) k _ _
    (Nat.le_refl _) (Nat.le_refl _)

/-! ### Non-vacuity -/

private def X (q : Nat) : Instr := ⟨true, [q], true⟩
private def CNOT (a b : Nat) : Instr := ⟨true, [a, b], true⟩
private def MEASURE (q : Nat) : Instr := ⟨false, [q], true⟩
private def NOP : Instr := ⟨false, [], true⟩

/-- the diamond of the doc comment: CNOT 0 1; X 0; H 1; CNOT 1 0 -/
example : (build [CNOT 0 1, X 0, X 1, CNOT 1 0]).map (·.edges) = some [(0, 1), (0, 2), (2, 3), (1, 3)] := by rfl
example : (build [CNOT 0 1, X 0, X 1, CNOT 1 0]).bind (gateDepth · 1 100) = some 3 := by rfl
example : (build [CNOT 0 1, X 0, X 1, CNOT 1 0]).bind (gateDepth · 2 100) = some 2 := by rfl
/-- a repeated qubit is not a self-loop; the threshold counts listed qubits -/
example : (build [X 0, CNOT 0 0, X 0]).map (·.edges) = some [(0, 1), (1, 2)] := by rfl
example : (build [X 0, CNOT 0 0, X 0]).bind (gateDepth · 2 100) = some 1 := by rfl
/-- measurements and classical instructions are nodes that count for nothing -/
example : (build [X 0, MEASURE 0, NOP, X 0]).bind (gateDepth · 1 100) = some 2 := by rfl
example : (build ([] : List Instr)).bind (gateDepth · 1 100) = some 0 := by rfl
/-- two instructions sharing two qubits: parallel edges, the same depth -/
example : (build [CNOT 0 1, CNOT 1 0]).map (·.edges) = some [(0, 1), (0, 1)] := by rfl
example : (build [CNOT 0 1, CNOT 1 0]).bind (gateDepth · 2 100) = some 2 := by rfl
example : build [X 0, ⟨false, [], false⟩] = none := by rfl
example : IsChain [CNOT 0 1, X 0, X 1, CNOT 1 0] [0, 2, 3] := by
  refine ⟨⟨by decide, by decide, 1, by decide, by decide, ?_⟩, ⟨by decide, by decide, 1, by decide, by decide, ?_⟩, ?_⟩
  · intro c h1 h2
    have : c = 1 := by omega
    subst this; decide
  · intro c h1 h2; omega
  · show 3 < 4; decide

end QV.C29
