import QV.C29.Model
/-
C29 specification, in the words of the statement: a *chain* is a sequence of instructions in which
consecutive instructions share a qubit and appear in program order with no instruction on that qubit
between them; gate depth with threshold `k` is the largest number of gates acting on at least `k`
qubits along any chain.
-/
namespace QV.C29

/-- the qubits of the instruction at index `i` (none past the end) -/
def qsAt (is : List Instr) (i : Nat) : List Nat :=
  match is[i]? with
  | some ins => ins.qubits
  | none => []

/-- `b` is the next instruction after `a` on a qubit they share -/
def NextOn (is : List Instr) (a b : Nat) : Prop :=
  a < b ∧ b < is.length ∧ ∃ q, q ∈ qsAt is a ∧ q ∈ qsAt is b ∧ ∀ c, a < c → c < b → q ∉ qsAt is c

/-- a chain: a non-empty sequence of instruction indices, each the next one on a shared qubit -/
def IsChain (is : List Instr) : List Nat → Prop
  | [] => False
  | [v] => v < is.length
  | a :: b :: rest => NextOn is a b ∧ IsChain is (b :: rest)

/-- the instruction at `v` is a gate acting on at least `k` qubits -/
def qualifies (is : List Instr) (k : Nat) (v : Nat) : Bool :=
  match is[v]? with
  | some ins => ins.isGate && decide (k ≤ ins.qubits.length)
  | none => false

/-- number of qualifying gates along a chain -/
def chainCount (is : List Instr) (k : Nat) (c : List Nat) : Nat := (c.filter (qualifies is k)).length

/-- `d` is the largest number of qualifying gates along any chain (`0` for the empty block) -/
def IsLongestChain (is : List Instr) (k : Nat) (d : Nat) : Prop :=
  (∀ c, IsChain is c → chainCount is k c ≤ d) ∧
  ((∃ c, IsChain is c ∧ chainCount is k c = d) ∨ (is = [] ∧ d = 0))

/-- the graph `g` *represents* the block `is`: its nodes are the instructions and its edge RELATION
(multiplicities and order are irrelevant) is "next instruction on a shared qubit".  Every theorem
about `path_fold` and gate depth needs only this, so it covers any construction that yields the same
relation (with or without parallel edges). -/
def Represents (is : List Instr) (g : Graph) : Prop :=
  g.instrs = is ∧ ∀ a b, (a, b) ∈ g.edges ↔ NextOn is a b

end QV.C29
