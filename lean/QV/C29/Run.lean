import QV.Wire
import QV.C29.Model
import QV.C29.Spec
/-! Driver side of the C29 correspondence check (see docs/C29.md). -/
namespace QV.C29
open QV

def decodeInstr (s : Sexp) : Option Instr :=
  match s with
  | .list (.atom tag :: qs) => do
    let qubits ← qs.mapM Sexp.asNat?
    match tag with
    | "g" => some ⟨true, qubits, true⟩
    | "m" => some ⟨false, qubits, true⟩
    | "c" => some ⟨false, qubits, true⟩
    | "u" => some ⟨false, qubits, false⟩
    | _ => none
  | _ => none

def decodeProg (s : Sexp) : Option (List Instr) :=
  match s with
  | .list (.atom "prog" :: is) => is.mapM decodeInstr
  | _ => none

private def natList (s : Sexp) : Option (List Nat) :=
  match s with
  | .list (.atom _ :: xs) => xs.mapM Sexp.asNat?
  | _ => none

private def insertSorted (x : Nat) : List Nat → List Nat
  | [] => [x]
  | y :: ys => if x ≤ y then x :: y :: ys else y :: insertSorted x ys
def sortNat (l : List Nat) : List Nat := l.foldl (fun acc x => insertSorted x acc) []

/-- independent (unproved) cross-check: longest chain by dynamic programming straight from the
definition of `NextOn` -/
def nextOnB (is : List Instr) (a b : Nat) : Bool :=
  decide (a < b) && decide (b < is.length) &&
    (qsAt is a).any fun q => (qsAt is b).contains q &&
      ((List.range b).all fun c => !(decide (a < c)) || !((qsAt is c).contains q))

def dpDepth (is : List Instr) (k : Nat) : Nat :=
  let best : List Nat := (List.range is.length).foldl (fun (best : List Nat) v =>
    let pre := (List.range v).foldl (fun m a => if nextOnB is a v then max m (best.getD a 0) else m) 0
    best ++ [pre + (if qualifies is k v then 1 else 0)]) []
  maxList best

def ks : List Nat := [0, 1, 2, 3, 4]
def mixedKs : List Nat := [2, 4, 1, 3, 0, 3, 1, 4, 0]
def bigFirstKs : List Nat := [7, 0, 5, 1, 2]

private def fieldOf (fs : List Sexp) (name : String) : Option (List Nat) :=
  match fs.find? (fun f => match f with | .list (.atom n :: _) => n == name | _ => false) with
  | some f => natList f
  | none => none

/-- one block: the projected instruction list and what the implementation reported for it -/
def handleBlock (is : List Instr) (out : Sexp) : CaseResult :=
    let sizeTag := if is.length > 32 then "len33+" else s!"len{min is.length 9}"
    let kinds := (if is.any (fun i => i.isGate && i.qubits.length == 1) then ["g1"] else []) ++
      (if is.any (fun i => i.isGate && i.qubits.length == 2) then ["g2"] else []) ++
      (if is.any (fun i => i.isGate && i.qubits.length ≥ 3) then ["g3"] else []) ++
      (if is.any (fun i => !i.isGate && i.supported && i.qubits.length == 1) then ["measure"] else []) ++
      (if is.any (fun i => !i.isGate && i.supported && i.qubits.isEmpty) then ["classical"] else []) ++
      (if is.any (fun i => !i.isGate && i.supported && i.qubits.length ≥ 2) then ["nongate-multi"] else []) ++
      (if is.any (fun i => i.qubits.any (· ≥ 1000)) then ["var-or-placeholder"] else []) ++
      (if is.any (fun i => i.qubits.eraseDups.length != i.qubits.length) then ["repeated-qubit"] else [])
    -- an empty program has no basic block: the single-block route cannot build the empty graph
    if is.isEmpty && out == .list [.atom "noblock"] then
      { agree := true, specOk := true, nontrivial := false, tags := ["empty-noblock"] }
    else
    match build is with
    | none =>
      let ok := match out with | .list [.atom "err"] => true | _ => false
      { agree := ok, specOk := ok, nontrivial := true, tags := ["unsupported", sizeTag] ++ kinds,
        detail := s!"model=err impl={out}" }
    | some g =>
      match out with
      | .list (.atom "ok" :: .list [.atom "n", n] :: edgesS :: depthS :: .list (.atom "paths" :: pathsS) :: extra) =>
        let implN := n.asNat?.getD 0
        let implEdges : List (Nat × Nat) := match edgesS with
          | .list (.atom "edges" :: es) => es.filterMap fun e => match e with
            | .list [a, b] => match a.asNat?, b.asNat? with
              | some a, some b => some (a, b)
              | _, _ => none
            | _ => none
          | _ => []
        let implDepths := (natList depthS).getD []
        let fuel := fuelBound g
        let md (k : Nat) : Option Nat := gateDepth g k fuel
        let modelDepths := ks.map md
        let depthAgree := modelDepths == implDepths.map some && implDepths.length == ks.length
        -- sequences of calls on one graph: descending, mixed with repeats, a large threshold first; and a
        -- fresh graph per call — every answer must be the model's (and hence the same as ascending)
        let seqOk (name : String) (order : List Nat) : Bool :=
          match fieldOf extra name with
          | some ds => ds.length == order.length && (order.zip ds).all fun (k, d) => md k == some d
          | none => false
        let seqAgree := seqOk "desc" ks.reverse && seqOk "mixed" mixedKs && seqOk "fresh" ks &&
          seqOk "bigfirst" bigFirstKs
        -- hook observations, canonicalised to what the proofs are about: the edge RELATION (dedup + sort;
        -- multiplicity and insertion order are not constrained by the property) and the SET of values
        -- `path_fold` produced.  They are only comparable when the hook's node numbering is the
        -- instruction numbering (one node per instruction).
        let aligned := implN == is.length
        let relOf (es : List (Nat × Nat)) : List Nat := sortNat (es.map fun (a, b) => a * (is.length + 1) + b).eraseDups
        let edgesAgree := !aligned || relOf implEdges == relOf g.edges
        -- of `path_fold`'s result vector only what `gate_depth` needs enters the verdict: its maximum, with
        -- the empty vector counting as 0 (order, multiplicity, `[]` vs `[initial_value]` on an empty graph
        -- are not constrained by the property); this needs no node alignment
        let pathsAgree := (ks.zip pathsS).all fun (k, ps) =>
          match ps with
          | .list (.atom "pv" :: xs) =>
            match xs.mapM Sexp.asNat? with
            | some impl => some (maxList impl) == md k
            | none => false
          | _ => false
        let agree := edgesAgree && depthAgree && pathsAgree && seqAgree
        -- spec on EVERY depth the implementation returned (all call orders): proved checker
        -- (`Props.C29_checker`) and the independent dynamic program over the definition of a chain
        let allAnswers : List (Nat × Nat) :=
          ks.zip implDepths ++ ks.reverse.zip ((fieldOf extra "desc").getD []) ++
          mixedKs.zip ((fieldOf extra "mixed").getD []) ++ ks.zip ((fieldOf extra "fresh").getD []) ++
          bigFirstKs.zip ((fieldOf extra "bigfirst").getD [])
        let expected := ks.length * 3 + mixedKs.length + bigFirstKs.length
        let specProved := allAnswers.all fun (k, d) => md k == some d
        let specDp := allAnswers.all fun (k, d) => dpDepth is k == d
        let specOk := specProved && specDp && allAnswers.length == expected
        let d1 := implDepths.getD 1 0
        { agree := agree, specOk := specOk, nontrivial := !g.edges.isEmpty,
          tags := [sizeTag, s!"edges{min g.edges.length 9}", s!"depth{min d1 9}"] ++ kinds ++
            (if g.edges.eraseDups.length != g.edges.length then ["parallel-edges"] else []) ++
            (if aligned then [] else ["hook-unaligned"]) ++
            (if implEdges.eraseDups.length != implEdges.length then ["impl-parallel-edges"] else []),
          detail := s!"model n={is.length} edges={g.edges} depths={modelDepths} big={bigFirstKs.map md} dp={ks.map (dpDepth is)} impl={out}" }
      | _ => { agree := false, specOk := false, nontrivial := true, tags := ["impl-not-ok", sizeTag],
               detail := s!"model=ok impl={out}" }

def combine (rs : List CaseResult) (extraTags : List String) : CaseResult :=
  { agree := rs.all (·.agree), specOk := rs.all (·.specOk), nontrivial := rs.any (·.nontrivial),
    tags := extraTags ++ (rs.flatMap (·.tags)).eraseDups,
    detail := " || ".intercalate (rs.map (·.detail)) }

def handle (inp out : Sexp) : CaseResult :=
  match inp with
  | .list [.atom "multi", pa, pb] =>
    match decodeProg pa, decodeProg pb, out with
    | some a, some b, .list (.atom "multi" :: blks) =>
      let blocks : List (Nat × Sexp) := blks.filterMap fun bl => match bl with
        | .list [.atom "blk", n, o] => n.asNat?.map fun n => (n, o)
        | _ => none
      -- `A; LABEL @l; B` has the blocks [A, B]; when A is empty the label may start the first block
      let expected : Option (List (List Instr)) :=
        if blocks.length == 2 then some [a, b]
        else if blocks.length == 1 && a.isEmpty then some [b]
        else none
      match expected with
      | some progs =>
        let lensOk := (progs.zip blocks).all fun (p, (n, _)) => p.length == n
        let rs := (progs.zip blocks).map fun (p, (_, o)) => handleBlock p o
        let r := combine rs ["multi-block"]
        { r with agree := r.agree && lensOk && blocks.length == blks.length }
      | none => { agree := false, specOk := true, nontrivial := true, tags := ["multi-block", "block-structure"],
                  detail := s!"unexpected block structure {out}" }
    | _, _, _ => .bad s!"undecodable multi case {inp} {out}"
  | _ =>
    match decodeProg inp with
    | none => .bad s!"undecodable input {inp}"
    | some is => handleBlock is out

end QV.C29

def main : IO UInt32 := QV.runMain QV.C29.handle
