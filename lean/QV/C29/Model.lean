/-
C29 model: the qubit graph and gate depth (quil-rs/src/program/analysis/qubit_graph.rs).

* `build`      ↔ `QubitGraph::new` (qubit_graph.rs:44-87): one node per instruction, in order; for
                 every qubit of the instruction (`get_qubits()` order, repeats included)
                 `last_instruction_for_qubit.insert(qubit, node)` and, when a *different* previous
                 node is returned, `graph.add_edge(previous, node)` (parallel edges are kept, as
                 petgraph's `DiGraph` keeps them).
* `sources`    ↔ `graph.externals(Direction::Incoming)` (node-index order).
* `succs`      ↔ `graph.neighbors_directed(node, Outgoing)` (petgraph iterates a node's edges
                 newest-first).
* `run`        ↔ the `while let Some((acc, nodes)) = stack.pop()` loop of `path_fold`
                 (qubit_graph.rs:139-160), an explicit stack machine; `fuel` bounds the number of
                 loop iterations (`none` = out of fuel), `Props.lean` proves a sufficient fuel.
* `gateDepth`  ↔ `QubitGraph::gate_depth` (qubit_graph.rs:169-179).

Projection of an instruction: whether it is `Instruction::Gate`, its qubit list, and whether
`QubitGraph::new` accepts it (PRAGMA, JUMP*, and RF-control instructions are rejected).
The `HashMap<Qubit, NodeIndex>` is modelled as a function `Nat → Option Nat`.
-/
namespace QV.C29

/-- projection of `Instruction` -/
structure Instr where
  /-- `Instruction::Gate(_)` -/
  isGate : Bool
  /-- `instruction.get_qubits()` as fixed-qubit indices, in order, repeats included -/
  qubits : List Nat
  /-- `false` for the instructions `QubitGraph::new` rejects (Pragma, Jump*, RF control) -/
  supported : Bool := true
  deriving Repr, DecidableEq

/-- `DiGraph<&Instruction, ()>`: node `i` is `instrs[i]`; `edges` in insertion order -/
structure Graph where
  instrs : List Instr
  edges : List (Nat × Nat)
  deriving Repr

/-- state of the construction loop: the `last_instruction_for_qubit` map and the edges so far -/
structure BuildState where
  last : Nat → Option Nat
  edges : List (Nat × Nat)

/-- the inner `for qubit in qubits` loop (qubit_graph.rs:75-82) for node `node` -/
def addQubits (node : Nat) : List Nat → BuildState → BuildState
  | [], st => st
  | q :: qs, st =>
    let prev := st.last q                                   -- HashMap::insert returns the old value
    let last' := fun q' => if q' = q then some node else st.last q'
    let edges' := match prev with
      | some p => if p ≠ node then st.edges ++ [(p, node)] else st.edges
      | none => st.edges
    addQubits node qs ⟨last', edges'⟩

/-- the outer `for instruction in instructions` loop; `i` is the index of the next node -/
def buildFrom : Nat → List Instr → BuildState → Option BuildState
  | _, [], st => some st
  | i, ins :: rest, st =>
    if !ins.supported then none                              -- Err(UnsupportedInstruction)
    else buildFrom (i + 1) rest (addQubits i ins.qubits st)

/-- `QubitGraph::new`; `none` = `Err(QubitGraphError::UnsupportedInstruction)` -/
def build (is : List Instr) : Option Graph :=
  match buildFrom 0 is ⟨fun _ => none, []⟩ with
  | some st => some ⟨is, st.edges⟩
  | none => none

/-- `graph.externals(Direction::Incoming)` -/
def sources (g : Graph) : List Nat :=
  (List.range g.instrs.length).filter fun v => !g.edges.any fun e => e.2 == v

/-- `graph.neighbors_directed(v, Direction::Outgoing)`: newest edge first -/
def succs (g : Graph) (v : Nat) : List Nat :=
  ((g.edges.filter fun e => e.1 == v).map fun e => e.2).reverse

/-- the loop of `path_fold`: the head of `stack` is the top (`Vec::pop`); children are pushed in
order, so they are popped in reverse order -/
def run {T : Type} (g : Graph) (f : T → Nat → T) :
    Nat → List (T × List Nat) → List T → Option (List T)
  | 0, _, _ => none
  | _ + 1, [], result => some result
  | fuel + 1, (acc, nodes) :: rest, result =>
    if nodes.isEmpty then run g f fuel rest (result ++ [acc])
    else run g f fuel ((nodes.map fun v => (f acc v, succs g v)).reverse ++ rest) result

/-- number of loop iterations the machine spends on a stack entry whose nodes are at height ≤ `d`
(used only to state a sufficient fuel) -/
def cost (g : Graph) : Nat → List Nat → Nat
  | 0, _ => 1
  | d + 1, nodes => 1 + (nodes.map fun v => cost g d (succs g v)).sum

/-- fuel that provably suffices for `path_fold` on a built graph (`Props.C29_pathFold_terminates`) -/
def fuelBound (g : Graph) : Nat := cost g g.instrs.length (sources g) + 1

/-- `path_fold(initial_value, f)` -/
def pathFold {T : Type} (g : Graph) (f : T → Nat → T) (init : T) (fuel : Nat) : Option (List T) :=
  run g f fuel [(init, sources g)] []

/-- the closure passed by `gate_depth`: count gates acting on at least `k` qubits -/
def countStep (g : Graph) (k : Nat) (depth : Nat) (v : Nat) : Nat :=
  match g.instrs[v]? with
  | some ins => if ins.isGate && decide (k ≤ ins.qubits.length) then depth + 1 else depth
  | none => depth

/-- `into_iter().max().unwrap_or_default()` on `usize` -/
def maxList (l : List Nat) : Nat := l.foldl max 0

/-- `QubitGraph::gate_depth(k)` -/
def gateDepth (g : Graph) (k : Nat) (fuel : Nat) : Option Nat :=
  (pathFold g (countStep g k) 0 fuel).map maxList

end QV.C29
