import QV.C34.Model
/-
C34 helper lemmas about the two resolution tables: the lazily filtered qubit iterator and the
label-suffix search.
-/
namespace QV.C34

/-! ### qubits: `(0..).filter(|i| !used.contains(i))` -/

theorem le_maxNat {used : List Nat} {x : Nat} (h : x ∈ used) : x ≤ maxNat used := by
  induction used with
  | nil => simp at h
  | cons y ys ih =>
    simp only [maxNat]
    rcases List.mem_cons.mp h with rfl | h'
    · omega
    · have := ih h'; omega

theorem nextFreeAux_spec (used : List Nat) : ∀ (fuel cur : Nat), maxNat used + 1 ≤ cur + fuel →
    cur ≤ nextFreeAux used fuel cur ∧ nextFreeAux used fuel cur ∉ used ∧
    ∀ j, cur ≤ j → j < nextFreeAux used fuel cur → j ∈ used := by
  intro fuel
  induction fuel with
  | zero =>
    intro cur h
    refine ⟨Nat.le_refl _, ?_, ?_⟩
    · intro hm; have := le_maxNat hm; simp [nextFreeAux] at this; omega
    · intro j h1 h2; simp [nextFreeAux] at h2; omega
  | succ fuel ih =>
    intro cur h
    simp only [nextFreeAux]
    by_cases hc : used.contains cur = true
    · simp only [hc, if_true]
      obtain ⟨h1, h2, h3⟩ := ih (cur + 1) (by omega)
      refine ⟨by omega, h2, ?_⟩
      intro j hj1 hj2
      by_cases hj : j = cur
      · subst hj; simpa using hc
      · exact h3 j (by omega) hj2
    · simp only [hc]
      refine ⟨Nat.le_refl _, by simpa using hc, ?_⟩
      intro j h1 h2; simp at h2; omega

/-- `nextFree used cur` is the least index ≥ cur that is not used -/
theorem nextFree_spec (used : List Nat) (cur : Nat) :
    cur ≤ nextFree used cur ∧ nextFree used cur ∉ used ∧
    ∀ j, cur ≤ j → j < nextFree used cur → j ∈ used :=
  nextFreeAux_spec used _ cur (by omega)

theorem assignQubits_keys (used : List Nat) : ∀ (ps : List Nat) (cur : Nat),
    (assignQubits used ps cur).map Prod.fst = ps := by
  intro ps
  induction ps with
  | nil => intro cur; simp [assignQubits]
  | cons p rest ih => intro cur; simp [assignQubits, ih]

theorem assignQubits_values (used : List Nat) : ∀ (ps : List Nat) (cur : Nat),
    ∀ kv ∈ assignQubits used ps cur, cur ≤ kv.2 ∧ kv.2 ∉ used := by
  intro ps
  induction ps with
  | nil => intro cur kv h; simp [assignQubits] at h
  | cons p rest ih =>
    intro cur kv h
    simp only [assignQubits, List.mem_cons] at h
    have hs := nextFree_spec used cur
    rcases h with rfl | h
    · exact ⟨hs.1, hs.2.1⟩
    · have := ih _ kv h
      exact ⟨by omega, this.2⟩

/-- the assigned indices are strictly increasing along the placeholder order -/
theorem assignQubits_increasing (used : List Nat) : ∀ (ps : List Nat) (cur : Nat),
    (assignQubits used ps cur).Pairwise (fun a b => a.2 < b.2) := by
  intro ps
  induction ps with
  | nil => intro cur; simp [assignQubits]
  | cons p rest ih =>
    intro cur
    simp only [assignQubits, List.pairwise_cons]
    refine ⟨?_, ih _⟩
    intro kv h
    have := (assignQubits_values used rest _ kv h).1
    simp; omega

/-! ### labels -/

theorem freshLabel_sound (base : String) (used : List String) : ∀ (fuel k : Nat) (l : String),
    freshLabel base used fuel k = some l → l ∉ used ∧ ∃ j, k ≤ j ∧ l = labelName base j := by
  intro fuel
  induction fuel with
  | zero => intro k l h; simp [freshLabel] at h
  | succ fuel ih =>
    intro k l h
    simp only [freshLabel] at h
    by_cases hc : used.contains (labelName base k) = true
    · simp only [hc, if_true] at h
      obtain ⟨h1, j, hj, hl⟩ := ih _ _ h
      exact ⟨h1, j, by omega, hl⟩
    · simp only [hc] at h
      simp at h; subst h
      exact ⟨by simpa using hc, k, Nat.le_refl _, rfl⟩

theorem le_maxLen {used : List String} {s : String} (h : s ∈ used) : s.length ≤ maxLen used := by
  induction used with
  | nil => simp at h
  | cons y ys ih =>
    simp only [maxLen]
    rcases List.mem_cons.mp h with rfl | h'
    · omega
    · have := ih h'; omega

/-- a suffix with more digits than the longest used label cannot collide -/
theorem labelName_not_mem (base : String) (used : List String) (k : Nat) (hk : 10 ^ maxLen used ≤ k) :
    labelName base k ∉ used := by
  intro hm
  have h1 := le_maxLen hm
  have hlen : (labelName base k).length = base.length + 1 + (Nat.repr k).length := by
    have : "_".length = 1 := by decide
    simp [labelName, String.length_append, Nat.toString_eq_repr, this]
  have hrepr : maxLen used < (Nat.repr k).length := by
    by_cases h0 : maxLen used = 0
    · rw [h0]; exact Nat.length_repr_pos
    · have hiff := Nat.length_repr_le_iff (n := k) (k := maxLen used) (by omega)
      by_cases hle : (Nat.repr k).length ≤ maxLen used
      · have := hiff.mp hle; omega
      · omega
  omega

theorem freshLabel_total (base : String) (used : List String) : ∀ (fuel k : Nat),
    1 ≤ fuel → 10 ^ maxLen used + 1 ≤ k + fuel → freshLabel base used fuel k ≠ none := by
  intro fuel
  induction fuel with
  | zero => intro k h; omega
  | succ fuel ih =>
    intro k _ h
    simp only [freshLabel]
    by_cases hc : used.contains (labelName base k) = true
    · simp only [hc, if_true]
      have hk : k < 10 ^ maxLen used := by
        by_cases hk : k < 10 ^ maxLen used
        · exact hk
        · exact absurd (by simpa using hc) (labelName_not_mem base used k (by omega))
      exact ih (k + 1) (by omega) (by omega)
    · have hc' : labelName base k ∉ used := by simpa using hc
      simp [hc']

theorem assignLabels_total : ∀ (ps : List (Nat × String)) (used : List String), assignLabels ps used ≠ none := by
  intro ps
  induction ps with
  | nil => intro used; simp [assignLabels]
  | cons p rest ih =>
    intro used
    obtain ⟨k, base⟩ := p
    simp only [assignLabels]
    have ht := freshLabel_total base used (labelFuel used) 0 (by simp [labelFuel]) (by simp [labelFuel])
    cases hf : freshLabel base used (labelFuel used) 0 with
    | none => exact absurd hf ht
    | some l =>
      simp only
      cases hr : assignLabels rest (l :: used) with
      | none => exact absurd hr (ih _)
      | some r => simp

theorem assignLabels_spec : ∀ (ps : List (Nat × String)) (used : List String) (r : List (Nat × String)),
    assignLabels ps used = some r →
    r.map Prod.fst = ps.map Prod.fst ∧ (∀ kv ∈ r, kv.2 ∉ used) ∧ r.Pairwise (fun a b => a.2 ≠ b.2) := by
  intro ps
  induction ps with
  | nil => intro used r h; simp [assignLabels] at h; subst h; simp
  | cons p rest ih =>
    intro used r h
    obtain ⟨k, base⟩ := p
    simp only [assignLabels] at h
    cases hf : freshLabel base used (labelFuel used) 0 with
    | none => simp [hf] at h
    | some l =>
      simp only [hf] at h
      cases hr : assignLabels rest (l :: used) with
      | none => simp [hr] at h
      | some r' =>
        simp only [hr, Option.some.injEq] at h
        subst h
        obtain ⟨h1, h2, h3⟩ := ih _ _ hr
        have hl := (freshLabel_sound base used _ _ _ hf).1
        refine ⟨by simp [h1], ?_, ?_⟩
        · intro kv hkv
          rcases List.mem_cons.mp hkv with rfl | hkv
          · exact hl
          · have := h2 kv hkv; simp at this; exact this.2
        · simp only [List.pairwise_cons]
          refine ⟨?_, h3⟩
          intro kv hkv
          have := h2 kv hkv; simp at this
          exact fun h => this.1 h.symm

end QV.C34
