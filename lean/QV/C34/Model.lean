/-
C34 model: `Program::resolve_placeholders`, `resolve_placeholders_with_custom_resolvers`,
`default_target_resolver`, `default_qubit_resolver` (quil-rs/src/program/mod.rs:425-435, 906-995),
`Instruction::resolve_placeholders`, `get_qubits`, `get_qubits_mut`
(quil-rs/src/instruction/mod.rs:688-760, 791-815), `Qubit::resolve_placeholder`,
`Target::resolve_placeholder`.

Projection (harness): a body instruction is
  `tgt kind t shape`   LABEL / JUMP / JUMP-WHEN / JUMP-UNLESS with its target
  `qs kind shape qs`   any other instruction: its variant name, its text with the qubits blanked,
                       and ALL the qubits it syntactically contains, in order (found by the harness's
                       own traversal, not by quil-rs's `get_qubits`)
Placeholders are `Arc` identities; the harness numbers them by first occurrence.  A target
placeholder also carries its base label.
-/
namespace QV.C34

inductive Qubit where
  | fixed (n : Nat)
  | var (s : String)
  | placeholder (k : Nat)
  deriving DecidableEq, Repr, Inhabited

inductive Target where
  | fixed (s : String)
  | placeholder (k : Nat) (base : String)
  deriving DecidableEq, Repr, Inhabited

inductive Instr where
  | tgt (kind : String) (t : Target) (shape : String)
  | qs (kind : String) (shape : String) (qubits : List Qubit)
  deriving DecidableEq, Repr, Inhabited

/-- The instruction kinds whose qubits `Instruction::get_qubits` / `get_qubits_mut` return
(instruction/mod.rs:688-790).  Every other variant falls into `_ => vec![]`.
(CalibrationDefinition and MeasureCalibrationDefinition are also listed there but never occur in a
body.)  Since the `fix:` commit a86534e the frame-mutation instructions SET-FREQUENCY, SET-PHASE,
SET-SCALE, SHIFT-FREQUENCY, SHIFT-PHASE and SWAP-PHASES (both frames) are in the table; before it
they fell into the default arm although their `FrameIdentifier`s hold qubits (the C34 defect). -/
def visibleKinds : List String :=
  ["Gate", "Measurement", "Reset", "Delay", "Fence", "Capture", "Pulse", "RawCapture",
   "SetFrequency", "SetPhase", "SetScale", "ShiftFrequency", "ShiftPhase", "SwapPhases"]

def visible (kind : String) : Bool := visibleKinds.contains kind

/-- `Instruction::get_qubits` on a body instruction. -/
def Instr.getQubits : Instr → List Qubit
  | .tgt _ _ _ => []
  | .qs kind _ l => if visible kind then l else []

/-- `Program::get_targets` (mod.rs:799-810). -/
def getTargets : List Instr → List Target
  | [] => []
  | .tgt _ t _ :: rest => t :: getTargets rest
  | .qs _ _ _ :: rest => getTargets rest

/-! ### default_target_resolver (mod.rs:932-964) -/

/-- `format!("{base_label}_{suffix}")` -/
def labelName (base : String) (k : Nat) : String := base ++ "_" ++ toString k

/-- The `while fixed_labels.contains(&next_label)` loop, trying suffixes k, k+1, …
The Rust loop has no bound; `fuel` makes it total and `none` means the fuel ran out. -/
def freshLabel (base : String) (used : List String) : Nat → Nat → Option String
  | 0, _ => none
  | fuel + 1, k =>
    if used.contains (labelName base k) then freshLabel base used fuel (k + 1)
    else some (labelName base k)

def maxLen : List String → Nat
  | [] => 0
  | s :: rest => max s.length (maxLen rest)

/-- fuel that always suffices (Props: `freshLabel_total`): a name with a suffix of more digits
than the longest used label is free -/
def labelFuel (used : List String) : Nat := 10 ^ (maxLen used) + 1

/-- `IndexSet::insert` over the placeholders in order of first occurrence (key = identity). -/
def dedupKeys : List (Nat × String) → List (Nat × String) → List (Nat × String)
  | acc, [] => acc.reverse
  | acc, (k, b) :: rest => if acc.any (fun p => p.1 == k) then dedupKeys acc rest else dedupKeys ((k, b) :: acc) rest

def fixedLabels (ts : List Target) : List String :=
  ts.filterMap fun | .fixed s => some s | _ => none

def targetPlaceholders (ts : List Target) : List (Nat × String) :=
  dedupKeys [] (ts.filterMap fun | .placeholder k b => some (k, b) | _ => none)

/-- the `.map(|p| …)` over `label_placeholders` with the growing `fixed_labels` set -/
def assignLabels : List (Nat × String) → List String → Option (List (Nat × String))
  | [], _ => some []
  | (k, base) :: rest, used =>
    match freshLabel base used (labelFuel used) 0 with
    | none => none
    | some l =>
      match assignLabels rest (l :: used) with
      | none => none
      | some r => some ((k, l) :: r)

/-- `default_target_resolver`: the resolution table (`none` = fuel exhausted, never happens). -/
def defaultTargetResolutions (body : List Instr) : Option (List (Nat × String)) :=
  let ts := getTargets body
  assignLabels (targetPlaceholders ts) (fixedLabels ts)

/-! ### default_qubit_resolver (mod.rs:969-995) -/

def maxNat : List Nat → Nat
  | [] => 0
  | x :: rest => max x (maxNat rest)

/-- first index ≥ `cur` that is not in `used`: `(0u64..).filter(|i| !qubits_used.contains(i))`
advanced lazily.  Search bounded by `fuel`; at fuel 0 `cur` is returned. -/
def nextFreeAux (used : List Nat) : Nat → Nat → Nat
  | 0, cur => cur
  | fuel + 1, cur => if used.contains cur then nextFreeAux used fuel (cur + 1) else cur

def nextFree (used : List Nat) (cur : Nat) : Nat := nextFreeAux used (maxNat used + 1 - cur) cur

/-- `qubit_placeholders.into_iter().zip(qubit_iterator)` -/
def assignQubits (used : List Nat) : List Nat → Nat → List (Nat × Nat)
  | [], _ => []
  | p :: rest, cur => let q := nextFree used cur; (p, q) :: assignQubits used rest (q + 1)

def dedupNat : List Nat → List Nat → List Nat
  | acc, [] => acc.reverse
  | acc, k :: rest => if acc.contains k then dedupNat acc rest else dedupNat (k :: acc) rest

def allVisibleQubits (body : List Instr) : List Qubit := body.flatMap Instr.getQubits

def usedFixedQubits (body : List Instr) : List Nat :=
  (allVisibleQubits body).filterMap fun | .fixed n => some n | _ => none

def qubitPlaceholders (body : List Instr) : List Nat :=
  dedupNat [] ((allVisibleQubits body).filterMap fun | .placeholder k => some k | _ => none)

def defaultQubitResolutions (body : List Instr) : List (Nat × Nat) :=
  assignQubits (usedFixedQubits body) (qubitPlaceholders body) 0

/-! ### resolution -/

def lookupS (k : Nat) : List (Nat × String) → Option String
  | [] => none
  | (k', v) :: rest => if k' = k then some v else lookupS k rest

def lookupN (k : Nat) : List (Nat × Nat) → Option Nat
  | [] => none
  | (k', v) :: rest => if k' = k then some v else lookupN k rest

/-- `Target::resolve_placeholder` -/
def Target.resolve (tr : Nat → Option String) : Target → Target
  | .fixed s => .fixed s
  | .placeholder k b => match tr k with | some l => .fixed l | none => .placeholder k b

/-- `Qubit::resolve_placeholder` -/
def Qubit.resolve (qr : Nat → Option Nat) : Qubit → Qubit
  | .placeholder k => match qr k with | some n => .fixed n | none => .placeholder k
  | q => q

/-- `Instruction::resolve_placeholders` (instruction/mod.rs:791-815): the four control-flow
instructions resolve their target; every other instruction resolves `get_qubits_mut()`. -/
def Instr.resolve (tr : Nat → Option String) (qr : Nat → Option Nat) : Instr → Instr
  | .tgt kind t shape => .tgt kind (t.resolve tr) shape
  | .qs kind shape l => if visible kind then .qs kind shape (l.map (Qubit.resolve qr)) else .qs kind shape l

/-- `resolve_placeholders_with_custom_resolvers` on the body (mod.rs:916-927). -/
def resolveWith (tr : Nat → Option String) (qr : Nat → Option Nat) (body : List Instr) : List Instr :=
  body.map (Instr.resolve tr qr)

inductive Mode where
  | default | custom | customTargets | customQubits
  deriving DecidableEq, Repr

/-- The four ways the harness calls the API.  `none` only if the label search ran out of fuel. -/
def resolveMode (mode : Mode) (tmap : List (Nat × String)) (qmap : List (Nat × Nat)) (body : List Instr) :
    Option (List Instr) :=
  let dq := defaultQubitResolutions body
  match mode with
  | .custom => some (resolveWith (fun k => lookupS k tmap) (fun k => lookupN k qmap) body)
  | .customTargets => some (resolveWith (fun k => lookupS k tmap) (fun k => lookupN k dq) body)
  | .default =>
    (defaultTargetResolutions body).map fun dt =>
      resolveWith (fun k => lookupS k dt) (fun k => lookupN k dq) body
  | .customQubits =>
    (defaultTargetResolutions body).map fun dt =>
      resolveWith (fun k => lookupS k dt) (fun k => lookupN k qmap) body

/-- One call of the resolution API: which of the four entry points, and the custom tables. -/
structure Call where
  mode : Mode
  tmap : List (Nat × String)
  qmap : List (Nat × Nat)
  deriving Repr

/-- A sequence of resolution calls on the same program: each call works on the body the previous
one left.  Returns the body after every call. -/
def resolveSeq : List Call → List Instr → Option (List (List Instr))
  | [], _ => some []
  | c :: rest, body =>
    match resolveMode c.mode c.tmap c.qmap body with
    | none => none
    | some out =>
      match resolveSeq rest out with
      | none => none
      | some outs => some (out :: outs)

/-- The `used_qubits` cache: `add_instruction` extends it with `get_qubits()` of every instruction
added (mod.rs:238-239) and `resolve_placeholders_with_custom_resolvers` ends with
`rebuild_used_qubits()` = `get_qubits()` over `to_instructions()` (mod.rs:824-830, 936).  `defQs`
are the qubits `get_qubits` reports for the definitions (calibrations), which resolution never
touches. -/
def usedQubitsOf (defQs : List Qubit) (body : List Instr) : List Qubit :=
  defQs ++ body.flatMap Instr.getQubits

/-- `Program::resolve_placeholders` (mod.rs:425-435) -/
def resolvePlaceholders (body : List Instr) : Option (List Instr) := resolveMode .default [] [] body

end QV.C34
