import QV.C34.Lemmas
import QV.C34.Spec
/-
C34 — Placeholder resolution assigns unique, consistent values.

Statement (properties.jsonl): "Default resolution replaces every qubit and label placeholder in the
body, giving distinct placeholders distinct values and each placeholder the same value at every
occurrence. No resolved qubit equals a fixed qubit already used by the body, and no resolved label
equals an existing label or jump target. Custom resolvers replace exactly the placeholders they
return values for."

The specification (Spec.lean) talks only about the body before and after, position by position.
All theorems are for every body (any length, any number of placeholders, any names).
-/
namespace QV.C34

/-! ### generic list facts -/

private theorem zip_map_self {α β : Type} (g : α → β) (l : List α) :
    l.zip (l.map g) = l.map (fun x => (x, g x)) := by
  induction l with
  | nil => rfl
  | cons x xs ih => simp [ih]

private theorem mem_dedupNat : ∀ (l acc : List Nat) (k : Nat), k ∈ dedupNat acc l ↔ k ∈ acc ∨ k ∈ l := by
  intro l
  induction l with
  | nil => intro acc k; simp [dedupNat]
  | cons x xs ih =>
    intro acc k
    simp only [dedupNat]
    by_cases hx : acc.contains x = true
    · have hm : x ∈ acc := by simpa using hx
      simp only [hx, if_true, ih, List.mem_cons]
      grind
    · rw [if_neg hx, ih]
      simp only [List.mem_cons]
      grind

private theorem mem_dedupKeys : ∀ (l acc : List (Nat × String)) (k : Nat),
    k ∈ (dedupKeys acc l).map Prod.fst ↔ k ∈ acc.map Prod.fst ∨ k ∈ l.map Prod.fst := by
  intro l
  induction l with
  | nil => intro acc k; simp [dedupKeys]
  | cons x xs ih =>
    intro acc k
    obtain ⟨kx, bx⟩ := x
    simp only [dedupKeys]
    by_cases hx : acc.any (fun p => p.1 == kx) = true
    · have hm : kx ∈ acc.map Prod.fst := by
        simp only [List.any_eq_true, beq_iff_eq] at hx
        obtain ⟨p, hp, hpk⟩ := hx
        exact List.mem_map.mpr ⟨p, hp, hpk⟩
      rw [if_pos hx, ih]
      simp only [List.map_cons, List.mem_cons]
      grind
    · rw [if_neg hx, ih]
      simp only [List.map_cons, List.mem_cons]
      grind

private theorem lookupN_mem {k v : Nat} : ∀ {l : List (Nat × Nat)}, lookupN k l = some v → (k, v) ∈ l := by
  intro l
  induction l with
  | nil => simp [lookupN]
  | cons x xs ih =>
    obtain ⟨k', v'⟩ := x
    simp only [lookupN]
    by_cases h : k' = k
    · subst h; simp; intro h; exact Or.inl h.symm
    · simp only [h, if_false]; intro hl; exact List.mem_cons_of_mem _ (ih hl)

private theorem lookupN_some_of_key {k : Nat} : ∀ {l : List (Nat × Nat)}, k ∈ l.map Prod.fst → ∃ v, lookupN k l = some v := by
  intro l
  induction l with
  | nil => simp
  | cons x xs ih =>
    obtain ⟨k', v'⟩ := x
    simp only [lookupN, List.map_cons, List.mem_cons]
    by_cases h : k' = k
    · subst h; intro _; exact ⟨v', by simp⟩
    · simp only [h, if_false]
      rintro (rfl | hk)
      · exact absurd rfl h
      · exact ih hk

private theorem lookupS_mem {k : Nat} {v : String} : ∀ {l : List (Nat × String)}, lookupS k l = some v → (k, v) ∈ l := by
  intro l
  induction l with
  | nil => simp [lookupS]
  | cons x xs ih =>
    obtain ⟨k', v'⟩ := x
    simp only [lookupS]
    by_cases h : k' = k
    · subst h; simp; intro h; exact Or.inl h.symm
    · simp only [h, if_false]; intro hl; exact List.mem_cons_of_mem _ (ih hl)

private theorem lookupS_some_of_key {k : Nat} : ∀ {l : List (Nat × String)}, k ∈ l.map Prod.fst → ∃ v, lookupS k l = some v := by
  intro l
  induction l with
  | nil => simp
  | cons x xs ih =>
    obtain ⟨k', v'⟩ := x
    simp only [lookupS, List.map_cons, List.mem_cons]
    by_cases h : k' = k
    · subst h; intro _; exact ⟨v', by simp⟩
    · simp only [h, if_false]
      rintro (rfl | hk)
      · exact absurd rfl h
      · exact ih hk

private theorem pairwise_lt_inj {l : List (Nat × Nat)} (h : l.Pairwise (fun a b => a.2 < b.2))
    {x y : Nat × Nat} (hx : x ∈ l) (hy : y ∈ l) (hv : x.2 = y.2) : x = y := by
  induction h with
  | nil => simp at hx
  | cons hhead _ ih =>
    rcases List.mem_cons.mp hx with rfl | hx'
    · rcases List.mem_cons.mp hy with rfl | hy'
      · rfl
      · have := hhead _ hy'; omega
    · rcases List.mem_cons.mp hy with rfl | hy'
      · have := hhead _ hx'; omega
      · exact ih hx' hy'

private theorem pairwise_ne_inj {l : List (Nat × String)} (h : l.Pairwise (fun a b => a.2 ≠ b.2))
    {x y : Nat × String} (hx : x ∈ l) (hy : y ∈ l) (hv : x.2 = y.2) : x = y := by
  induction h with
  | nil => simp at hx
  | cons hhead _ ih =>
    rcases List.mem_cons.mp hx with rfl | hx'
    · rcases List.mem_cons.mp hy with rfl | hy'
      · rfl
      · exact absurd hv (hhead _ hy')
    · rcases List.mem_cons.mp hy with rfl | hy'
      · exact absurd hv.symm (hhead _ hx')
      · exact ih hx' hy'

/-! ### how resolution acts on the positions -/

private theorem getQubits_resolve (tr : Nat → Option String) (qr : Nat → Option Nat) (i : Instr) :
    (i.resolve tr qr).getQubits = i.getQubits.map (Qubit.resolve qr) := by
  cases i with
  | tgt k t s => simp [Instr.resolve, Instr.getQubits]
  | qs k s l =>
    by_cases hv : visible k = true
    · simp [Instr.resolve, Instr.getQubits, hv]
    · simp [Instr.resolve, Instr.getQubits, hv]

private theorem visibleQubits_resolve (tr : Nat → Option String) (qr : Nat → Option Nat) (body : List Instr) :
    (resolveWith tr qr body).flatMap Instr.getQubits = (body.flatMap Instr.getQubits).map (Qubit.resolve qr) := by
  induction body with
  | nil => simp [resolveWith]
  | cons i rest ih =>
    simp only [resolveWith, List.map_cons, List.flatMap_cons, List.map_append] at ih ⊢
    rw [getQubits_resolve, ih]

private theorem getTargets_resolve (tr : Nat → Option String) (qr : Nat → Option Nat) (body : List Instr) :
    getTargets (resolveWith tr qr body) = (getTargets body).map (Target.resolve tr) := by
  induction body with
  | nil => simp [resolveWith, getTargets]
  | cons i rest ih =>
    simp only [resolveWith, List.map_cons] at ih ⊢
    cases i with
    | tgt k t s => simp [Instr.resolve, getTargets, ih]
    | qs k s l =>
      by_cases hv : visible k = true
      · simp [Instr.resolve, getTargets, hv, ih]
      · simp [Instr.resolve, getTargets, hv, ih]

private theorem qpairs_resolve (tr : Nat → Option String) (qr : Nat → Option Nat) (body : List Instr) :
    qpairs Instr.getQubits body (resolveWith tr qr body) =
      (body.flatMap Instr.getQubits).map (fun q => (q, q.resolve qr)) := by
  simp only [qpairs, visibleQubits_resolve, zip_map_self]

private theorem tpairs_resolve (tr : Nat → Option String) (qr : Nat → Option Nat) (body : List Instr) :
    tpairs body (resolveWith tr qr body) = (getTargets body).map (fun t => (t, t.resolve tr)) := by
  simp only [tpairs, getTargets_resolve, zip_map_self]

/-- **Nothing but qubits and targets changes**, whatever the resolvers. -/
theorem C34_skeleton (tr : Nat → Option String) (qr : Nat → Option Nat) (body : List Instr) :
    SameSkeleton body (resolveWith tr qr body) := by
  simp only [SameSkeleton, resolveWith, List.map_map]
  apply List.map_congr_left
  intro i _
  cases i with
  | tgt k t s => simp [Instr.resolve, skeleton]
  | qs k s l =>
    by_cases hv : visible k = true
    · simp [Instr.resolve, skeleton, hv]
    · simp [Instr.resolve, skeleton, hv]

/-! ### Custom resolvers -/

/-- **Custom resolvers replace exactly the placeholders they return values for** — for the qubits
`get_qubits` reports and for every label target; all other positions are left as they are. -/
theorem C34_custom (tr : Nat → Option String) (qr : Nat → Option Nat) (body : List Instr) :
    QubitsCustom Instr.getQubits qr body (resolveWith tr qr body) ∧
    TargetsCustom tr body (resolveWith tr qr body) := by
  constructor
  · intro p hp
    rw [qpairs_resolve] at hp
    obtain ⟨q, _, rfl⟩ := List.mem_map.mp hp
    cases q with
    | fixed n => simp [Qubit.resolve]
    | var s => simp [Qubit.resolve]
    | placeholder k =>
      simp only [Qubit.resolve]
      cases qr k <;> simp
  · intro p hp
    rw [tpairs_resolve] at hp
    obtain ⟨t, _, rfl⟩ := List.mem_map.mp hp
    cases t with
    | fixed s => simp [Target.resolve]
    | placeholder k b =>
      simp only [Target.resolve]
      cases tr k <;> simp

/-! ### The specification does not prescribe WHICH fresh values

The model picks the least unused index / the first free suffix because the code does
(`C34_default_qubits_least` is a statement about that choice).  The property, and the checker
evaluated on the implementation's output, only need uniqueness, consistency and freshness: ANY
assignment with these three properties yields a body that satisfies the specification — so an
implementation that chooses other fresh values (a block above the highest fixed qubit, one shared
suffix counter, …) is accepted, via `qubitsResolvedB_iff` / `targetsResolvedB_iff` / `stepSpecB_iff`. -/

theorem C34_any_fresh_qubit_assignment (body : List Instr) (tr : Nat → Option String) (fq : Nat → Nat)
    (hinj : ∀ k k', Qubit.placeholder k ∈ body.flatMap Instr.getQubits →
      Qubit.placeholder k' ∈ body.flatMap Instr.getQubits → fq k = fq k' → k = k')
    (hfresh : ∀ k, Qubit.placeholder k ∈ body.flatMap Instr.getQubits →
      Qubit.fixed (fq k) ∉ body.flatMap Instr.getQubits) :
    QubitsResolved Instr.getQubits body (resolveWith tr (fun k => some (fq k)) body) := by
  have hmem : ∀ p ∈ qpairs Instr.getQubits body (resolveWith tr (fun k => some (fq k)) body),
      ∃ q ∈ body.flatMap Instr.getQubits, p = (q, q.resolve (fun k => some (fq k))) := by
    intro p hp
    rw [qpairs_resolve] at hp
    obtain ⟨q, hq, rfl⟩ := List.mem_map.mp hp
    exact ⟨q, hq, rfl⟩
  refine ⟨?_, ?_, ?_⟩
  · intro p hp
    obtain ⟨q, _, rfl⟩ := hmem p hp
    cases q <;> simp [Qubit.resolve]
  · intro p hp p' hp' k k' h1 h2
    obtain ⟨q, hq, rfl⟩ := hmem p hp
    obtain ⟨q', hq', rfl⟩ := hmem p' hp'
    simp only at h1 h2
    subst h1 h2
    simp only [Qubit.resolve, Qubit.fixed.injEq]
    exact ⟨fun h => by rw [h], hinj k k' hq hq'⟩
  · intro p hp k h1
    obtain ⟨q, hq, rfl⟩ := hmem p hp
    simp only at h1
    subst h1
    simp only [Qubit.resolve]
    exact hfresh k hq

theorem C34_any_fresh_label_assignment (body : List Instr) (qr : Nat → Option Nat) (ft : Nat → String)
    (hinj : ∀ k b k' b', Target.placeholder k b ∈ getTargets body →
      Target.placeholder k' b' ∈ getTargets body → ft k = ft k' → k = k')
    (hfresh : ∀ k b, Target.placeholder k b ∈ getTargets body → Target.fixed (ft k) ∉ getTargets body) :
    TargetsResolved body (resolveWith (fun k => some (ft k)) qr body) := by
  have hmem : ∀ p ∈ tpairs body (resolveWith (fun k => some (ft k)) qr body),
      ∃ t ∈ getTargets body, p = (t, t.resolve (fun k => some (ft k))) := by
    intro p hp
    rw [tpairs_resolve] at hp
    obtain ⟨t, ht, rfl⟩ := List.mem_map.mp hp
    exact ⟨t, ht, rfl⟩
  refine ⟨?_, ?_, ?_⟩
  · intro p hp
    obtain ⟨t, _, rfl⟩ := hmem p hp
    cases t <;> simp [Target.resolve]
  · intro p hp p' hp' k b k' b' h1 h2
    obtain ⟨t, ht, rfl⟩ := hmem p hp
    obtain ⟨t', ht', rfl⟩ := hmem p' hp'
    simp only at h1 h2
    subst h1 h2
    simp only [Target.resolve, Target.fixed.injEq]
    exact ⟨fun h => by rw [h], hinj k b k' b' ht ht'⟩
  · intro p hp k b h1
    obtain ⟨t, ht, rfl⟩ := hmem p hp
    simp only at h1
    subst h1
    simp only [Target.resolve]
    exact hfresh k b ht

/-! ### The default tables -/

/-- The label search always terminates within the stated fuel: the model never reports
`none`, for any body. -/
theorem C34_default_targets_total (body : List Instr) : defaultTargetResolutions body ≠ none :=
  assignLabels_total _ _

/-- **Default label table**: one entry per distinct label placeholder of the body; every resolved
label differs from every existing (fixed) label or jump target and from every other resolved
label. -/
theorem C34_default_target_table (body : List Instr) (dt : List (Nat × String))
    (h : defaultTargetResolutions body = some dt) :
    (∀ k b, Target.placeholder k b ∈ getTargets body → ∃ l, lookupS k dt = some l) ∧
    (∀ kv ∈ dt, Target.fixed kv.2 ∉ getTargets body) ∧
    dt.Pairwise (fun a b => a.2 ≠ b.2) := by
  obtain ⟨hk, hf, hp⟩ := assignLabels_spec _ _ _ h
  refine ⟨?_, ?_, hp⟩
  · intro k b hm
    apply lookupS_some_of_key
    rw [hk]
    simp only [targetPlaceholders]
    rw [mem_dedupKeys]
    right
    refine List.mem_map.mpr ⟨(k, b), ?_, rfl⟩
    exact List.mem_filterMap.mpr ⟨_, hm, rfl⟩
  · intro kv hkv hm
    apply hf kv hkv
    simp only [fixedLabels]
    exact List.mem_filterMap.mpr ⟨_, hm, rfl⟩

/-- **Default qubit table**: one entry per distinct qubit placeholder that `get_qubits` reports,
in order of first occurrence; the values are strictly increasing (hence pairwise distinct), none is
a fixed qubit reported by `get_qubits`, and each is the *least* index not below its predecessor
that is free — i.e. the i-th placeholder gets the i-th natural number not used by the body. -/
theorem C34_default_qubit_table (body : List Instr) :
    (defaultQubitResolutions body).map Prod.fst = qubitPlaceholders body ∧
    (∀ kv ∈ defaultQubitResolutions body, Qubit.fixed kv.2 ∉ allVisibleQubits body) ∧
    (defaultQubitResolutions body).Pairwise (fun a b => a.2 < b.2) := by
  refine ⟨assignQubits_keys _ _ _, ?_, assignQubits_increasing _ _ _⟩
  intro kv hkv hm
  have := (assignQubits_values _ _ _ kv hkv).2
  apply this
  simp only [usedFixedQubits]
  exact List.mem_filterMap.mpr ⟨_, hm, rfl⟩

/-- the i-th entry of the table is the i-th natural number that is not a used fixed qubit:
every index skipped between two consecutive assignments (and before the first) is used -/
theorem C34_default_qubits_least (used : List Nat) : ∀ (ps : List Nat) (cur : Nat),
    ∀ j, cur ≤ j → j ∉ used → (∀ kv ∈ assignQubits used ps cur, kv.2 ≠ j) →
      ∀ kv ∈ assignQubits used ps cur, kv.2 < j := by
  intro ps
  induction ps with
  | nil => intro cur j _ _ _ kv h; simp [assignQubits] at h
  | cons p rest ih =>
    intro cur j hj hju hne kv hkv
    simp only [assignQubits, List.mem_cons] at hkv hne
    have hs := nextFree_spec used cur
    have hlt : nextFree used cur < j := by
      have h1 := hne (p, nextFree used cur) (Or.inl rfl)
      by_cases hlt : nextFree used cur < j
      · exact hlt
      · have : j < nextFree used cur := by simp at h1; omega
        exact absurd (hs.2.2 j hj this) hju
    rcases hkv with rfl | hkv
    · exact hlt
    · exact ih (nextFree used cur + 1) j (by omega) hju (fun kv h => hne kv (Or.inr h)) kv hkv

/-! ### Default resolution of a body -/

/-- Label part, whatever qubit resolver is used alongside: if the target resolver is the default
table of THIS body, every label placeholder is replaced, consistently, injectively, and never by an
existing label or jump target. -/
theorem C34_targets_with (body : List Instr) (dt : List (Nat × String))
    (hdt : defaultTargetResolutions body = some dt) (qr : Nat → Option Nat) :
    TargetsResolved body (resolveWith (fun k => lookupS k dt) qr body) := by
  obtain ⟨hcov, hfresh, hpw⟩ := C34_default_target_table body dt hdt
  have hmem : ∀ p ∈ tpairs body (resolveWith (fun k => lookupS k dt)
      qr body),
      ∃ t ∈ getTargets body, p = (t, t.resolve (fun k => lookupS k dt)) := by
    intro p hp
    rw [tpairs_resolve] at hp
    obtain ⟨t, ht, rfl⟩ := List.mem_map.mp hp
    exact ⟨t, ht, rfl⟩
  refine ⟨?_, ?_, ?_⟩
  · intro p hp
    obtain ⟨t, ht, rfl⟩ := hmem p hp
    cases t with
    | fixed s => simp [Target.resolve]
    | placeholder k b =>
      obtain ⟨l, hl⟩ := hcov k b ht
      simp [Target.resolve, hl]
  · intro p hp p' hp' k b k' b' h1 h2
    obtain ⟨t, ht, rfl⟩ := hmem p hp
    obtain ⟨t', ht', rfl⟩ := hmem p' hp'
    simp only at h1 h2
    subst h1 h2
    obtain ⟨l, hl⟩ := hcov k b ht
    obtain ⟨l', hl'⟩ := hcov k' b' ht'
    simp only [Target.resolve, hl, hl']
    constructor
    · rintro rfl; rw [hl] at hl'; simp at hl'; simp [hl']
    · intro heq
      simp only [Target.fixed.injEq] at heq
      have := pairwise_ne_inj hpw (lookupS_mem hl) (lookupS_mem hl') heq
      simpa using congrArg Prod.fst this
  · intro p hp k b h1
    obtain ⟨t, ht, rfl⟩ := hmem p hp
    simp only at h1
    subst h1
    obtain ⟨l, hl⟩ := hcov k b ht
    simp only [Target.resolve, hl]
    exact hfresh (k, l) (lookupS_mem hl)


/-- **C34 for label targets (full strength)**: after default resolution every label placeholder of
the body is replaced, the same placeholder by the same label everywhere, distinct placeholders by
distinct labels, and no resolved label equals an existing label or jump target. -/
theorem C34_targets (body out : List Instr) (h : resolvePlaceholders body = some out) :
    TargetsResolved body out := by
  simp only [resolvePlaceholders, resolveMode] at h
  cases hdt : defaultTargetResolutions body with
  | none => simp [hdt] at h
  | some dt =>
    simp only [hdt, Option.map_some, Option.some.injEq] at h
    subst h
    exact C34_targets_with body dt hdt _

/-- Qubit part, whatever target resolver is used alongside: if the qubit resolver is the default
table of THIS body, then on the qubits `get_qubits` reports every placeholder is replaced,
consistently, injectively, by indices that are not fixed qubits of the body as it stands. -/
theorem C34_qubits_with (body : List Instr) (tr : Nat → Option String) :
    QubitsResolved Instr.getQubits body
      (resolveWith tr (fun k => lookupN k (defaultQubitResolutions body)) body) := by
  obtain ⟨hkeys, hfresh, hpw⟩ := C34_default_qubit_table body
  have hcov : ∀ k, Qubit.placeholder k ∈ body.flatMap Instr.getQubits →
      ∃ n, lookupN k (defaultQubitResolutions body) = some n := by
    intro k hm
    apply lookupN_some_of_key
    rw [hkeys]
    simp only [qubitPlaceholders]
    rw [mem_dedupNat]
    right
    exact List.mem_filterMap.mpr ⟨_, hm, rfl⟩
  have hmem : ∀ p ∈ qpairs Instr.getQubits body (resolveWith tr
      (fun k => lookupN k (defaultQubitResolutions body)) body),
      ∃ q ∈ body.flatMap Instr.getQubits,
        p = (q, q.resolve (fun k => lookupN k (defaultQubitResolutions body))) := by
    intro p hp
    rw [qpairs_resolve] at hp
    obtain ⟨q, hq, rfl⟩ := List.mem_map.mp hp
    exact ⟨q, hq, rfl⟩
  refine ⟨?_, ?_, ?_⟩
  · intro p hp
    obtain ⟨q, hq, rfl⟩ := hmem p hp
    cases q with
    | fixed n => simp [Qubit.resolve]
    | var s => simp [Qubit.resolve]
    | placeholder k =>
      obtain ⟨n, hn⟩ := hcov k hq
      simp [Qubit.resolve, hn]
  · intro p hp p' hp' k k' h1 h2
    obtain ⟨q, hq, rfl⟩ := hmem p hp
    obtain ⟨q', hq', rfl⟩ := hmem p' hp'
    simp only at h1 h2
    subst h1 h2
    obtain ⟨n, hn⟩ := hcov k hq
    obtain ⟨n', hn'⟩ := hcov k' hq'
    simp only [Qubit.resolve, hn, hn']
    constructor
    · rintro rfl; rw [hn] at hn'; simp at hn'; simp [hn']
    · intro heq
      simp only [Qubit.fixed.injEq] at heq
      have := pairwise_lt_inj hpw (lookupN_mem hn) (lookupN_mem hn') heq
      simpa using congrArg Prod.fst this
  · intro p hp k h1
    obtain ⟨q, hq, rfl⟩ := hmem p hp
    simp only at h1
    subst h1
    obtain ⟨n, hn⟩ := hcov k hq
    simp only [Qubit.resolve, hn]
    exact hfresh (k, n) (lookupN_mem hn)


/-- **C34 for qubits, as far as the code goes**: on the qubits that `get_qubits` reports, default
resolution replaces every placeholder, consistently and injectively, by indices that are not fixed
qubits reported by `get_qubits`. -/
theorem C34_qubits_visible (body out : List Instr) (h : resolvePlaceholders body = some out) :
    QubitsResolved Instr.getQubits body out := by
  simp only [resolvePlaceholders, resolveMode] at h
  cases hdt : defaultTargetResolutions body with
  | none => simp [hdt] at h
  | some dt =>
    simp only [hdt, Option.map_some, Option.some.injEq] at h
    subst h
    exact C34_qubits_with body _

/-- The projection is well formed: only instructions of the kinds that carry qubits (the table
`visibleKinds`) come with a non-empty qubit list.  The harness's traversal returns no qubits for
every other variant (PRAGMA, classical instructions, NOP, …), and the driver re-checks this on
every case. -/
def wellProjected (body : List Instr) : Bool :=
  body.all fun | .tgt _ _ _ => true | .qs k _ l => visible k || l.isEmpty

private theorem allQubits_eq_getQubits {body : List Instr} (h : wellProjected body = true) :
    body.flatMap Instr.allQubits = body.flatMap Instr.getQubits := by
  induction body with
  | nil => rfl
  | cons i rest ih =>
    simp only [wellProjected, List.all_cons, Bool.and_eq_true] at h
    simp only [List.flatMap_cons, ih h.2]
    cases i with
    | tgt k t s => simp [Instr.allQubits, Instr.getQubits]
    | qs k s l =>
      have h1 := h.1
      simp only [Bool.or_eq_true, List.isEmpty_iff] at h1
      rcases h1 with hv | rfl
      · simp [Instr.allQubits, Instr.getQubits, hv]
      · by_cases hv : visible k = true <;> simp [Instr.allQubits, Instr.getQubits, hv]

/-- **C34, full statement.**  For every body (any instructions: gates, MEASURE, RESET, DELAY, FENCE,
PULSE, CAPTURE, RAW-CAPTURE, the frame-mutation instructions, labels and jumps, anything else),
default resolution succeeds and: nothing but qubits and targets changes; every qubit placeholder
and every label placeholder in the body is replaced; the same placeholder gets the same value at
every occurrence and distinct placeholders get distinct values; no resolved qubit equals a fixed
qubit used anywhere in the body; no resolved label equals an existing label or jump target. -/
theorem C34_full (body : List Instr) (hv : wellProjected body = true) :
    ∃ out, resolvePlaceholders body = some out ∧ SameSkeleton body out ∧
      TargetsResolved body out ∧ QubitsResolved Instr.allQubits body out := by
  cases hdt : defaultTargetResolutions body with
  | none => exact absurd hdt (C34_default_targets_total body)
  | some dt =>
    have hout : resolvePlaceholders body = some (resolveWith (fun k => lookupS k dt)
        (fun k => lookupN k (defaultQubitResolutions body)) body) := by
      simp [resolvePlaceholders, resolveMode, hdt]
    refine ⟨_, hout, C34_skeleton _ _ _, C34_targets _ _ hout, ?_⟩
    have hq := C34_qubits_visible _ _ hout
    have hvo : wellProjected (resolveWith (fun k => lookupS k dt)
        (fun k => lookupN k (defaultQubitResolutions body)) body) = true := by
      simp only [wellProjected, resolveWith, List.all_map] at hv ⊢
      apply List.all_eq_true.mpr
      intro i hi
      have := List.all_eq_true.mp hv i hi
      cases i with
      | tgt k t s => simp [Instr.resolve]
      | qs k s l =>
        by_cases hvk : visible k = true
        · simp [Instr.resolve, hvk]
        · simp only [hvk, Bool.false_or] at this
          simp [Instr.resolve, hvk, this]
    have e1 := allQubits_eq_getQubits hv
    have e2 := allQubits_eq_getQubits hvo
    have ep : qpairs Instr.allQubits body (resolveWith (fun k => lookupS k dt)
        (fun k => lookupN k (defaultQubitResolutions body)) body) =
        qpairs Instr.getQubits body (resolveWith (fun k => lookupS k dt)
        (fun k => lookupN k (defaultQubitResolutions body)) body) := by
      simp only [qpairs, e1, e2]
    exact ⟨by rw [ep]; exact hq.replaced, by rw [ep]; exact hq.consistent,
      by rw [ep, e1]; exact hq.fresh⟩

/-- **Custom resolvers, full statement**: over ALL qubits of the body (and all label targets) a
custom resolver replaces exactly the placeholders it returns values for and leaves every other
placeholder, fixed qubit, variable and label as it is. -/
theorem C34_custom_full (tr : Nat → Option String) (qr : Nat → Option Nat) (body : List Instr)
    (hv : wellProjected body = true) :
    SameSkeleton body (resolveWith tr qr body) ∧
    QubitsCustom Instr.allQubits qr body (resolveWith tr qr body) ∧
    TargetsCustom tr body (resolveWith tr qr body) := by
  obtain ⟨hq, ht⟩ := C34_custom tr qr body
  refine ⟨C34_skeleton tr qr body, ?_, ht⟩
  have hvo : wellProjected (resolveWith tr qr body) = true := by
    simp only [wellProjected, resolveWith, List.all_map] at hv ⊢
    apply List.all_eq_true.mpr
    intro i hi
    have := List.all_eq_true.mp hv i hi
    cases i with
    | tgt k t s => simp [Instr.resolve]
    | qs k s l =>
      by_cases hvk : visible k = true
      · simp [Instr.resolve, hvk]
      · simp only [hvk, Bool.false_or] at this
        simp [Instr.resolve, hvk, this]
  have e1 := allQubits_eq_getQubits hv
  have e2 := allQubits_eq_getQubits hvo
  have ep : qpairs Instr.allQubits body (resolveWith tr qr body) =
      qpairs Instr.getQubits body (resolveWith tr qr body) := by
    simp only [qpairs, e1, e2]
  intro p hp
  rw [ep] at hp
  exact hq p hp

/-! ### One call, and sequences of calls on the same program -/

private theorem wellProjected_resolve (tr : Nat → Option String) (qr : Nat → Option Nat) (body : List Instr)
    (hv : wellProjected body = true) : wellProjected (resolveWith tr qr body) = true := by
  simp only [wellProjected, resolveWith, List.all_map] at hv ⊢
  apply List.all_eq_true.mpr
  intro i hi
  have := List.all_eq_true.mp hv i hi
  cases i with
  | tgt k t s => simp [Instr.resolve]
  | qs k s l =>
    by_cases hvk : visible k = true
    · simp [Instr.resolve, hvk]
    · simp only [hvk, Bool.false_or] at this
      simp [Instr.resolve, hvk, this]

private theorem qubitsResolved_all_of_visible (tr : Nat → Option String) (qr : Nat → Option Nat)
    (body : List Instr) (hv : wellProjected body = true)
    (hq : QubitsResolved Instr.getQubits body (resolveWith tr qr body)) :
    QubitsResolved Instr.allQubits body (resolveWith tr qr body) := by
  have e1 := allQubits_eq_getQubits hv
  have e2 := allQubits_eq_getQubits (wellProjected_resolve tr qr body hv)
  have ep : qpairs Instr.allQubits body (resolveWith tr qr body) =
      qpairs Instr.getQubits body (resolveWith tr qr body) := by
    simp only [qpairs, e1, e2]
  exact ⟨by rw [ep]; exact hq.replaced, by rw [ep]; exact hq.consistent,
    by rw [ep, e1]; exact hq.fresh⟩

/-- **One call, any entry point, any body**: the call succeeds, the result is again well
projected, and it meets `StepSpec` — default parts are resolved completely, consistently,
injectively and freshly w.r.t. the body as it stands before the call; custom parts replace exactly
their domain. -/
theorem C34_step (c : Call) (body : List Instr) (hv : wellProjected body = true) :
    ∃ out, resolveMode c.mode c.tmap c.qmap body = some out ∧ wellProjected out = true ∧
      StepSpec c body out := by
  obtain ⟨mode, tmap, qmap⟩ := c
  cases hdt : defaultTargetResolutions body with
  | none => exact absurd hdt (C34_default_targets_total body)
  | some dt =>
    cases mode with
    | default =>
      refine ⟨resolveWith (fun k => lookupS k dt) (fun k => lookupN k (defaultQubitResolutions body)) body,
        by simp [resolveMode, hdt], wellProjected_resolve _ _ _ hv, C34_skeleton _ _ _, ?_, ?_⟩
      · exact C34_targets_with body dt hdt _
      · exact qubitsResolved_all_of_visible _ _ _ hv (C34_qubits_with body _)
    | custom =>
      obtain ⟨h1, h2, h3⟩ := C34_custom_full (fun k => lookupS k tmap) (fun k => lookupN k qmap) body hv
      exact ⟨resolveWith (fun k => lookupS k tmap) (fun k => lookupN k qmap) body,
        by simp [resolveMode], wellProjected_resolve _ _ _ hv, h1, h3, h2⟩
    | customTargets =>
      refine ⟨resolveWith (fun k => lookupS k tmap) (fun k => lookupN k (defaultQubitResolutions body)) body,
        by simp [resolveMode], wellProjected_resolve _ _ _ hv, C34_skeleton _ _ _, ?_, ?_⟩
      · exact (C34_custom (fun k => lookupS k tmap) _ body).2
      · exact qubitsResolved_all_of_visible _ _ _ hv (C34_qubits_with body _)
    | customQubits =>
      refine ⟨resolveWith (fun k => lookupS k dt) (fun k => lookupN k qmap) body,
        by simp [resolveMode, hdt], wellProjected_resolve _ _ _ hv, C34_skeleton _ _ _, ?_, ?_⟩
      · exact C34_targets_with body dt hdt _
      · exact (C34_custom_full (fun k => lookupS k dt) (fun k => lookupN k qmap) body hv).2.1

/-- **Any sequence of calls on the same program** (partial custom resolvers, then default, default
twice, custom after default, …): every call succeeds and meets its specification relative to the
body the previous call left — in particular a later default call never resolves a placeholder to a
qubit that an earlier call made fixed. -/
theorem C34_seq : ∀ (calls : List Call) (body : List Instr), wellProjected body = true →
    ∃ outs, resolveSeq calls body = some outs ∧ SeqSpec calls body outs := by
  intro calls
  induction calls with
  | nil => intro body _; exact ⟨[], rfl, rfl⟩
  | cons c cs ih =>
    intro body hv
    obtain ⟨out, ho, hvo, hs⟩ := C34_step c body hv
    obtain ⟨outs, hos, hss⟩ := ih out hvo
    exact ⟨out :: outs, by simp [resolveSeq, ho, hos], out, outs, rfl, hs, hss⟩

/-! ### The Bool checkers evaluated by the driver mean the Prop specification -/

theorem qubitsResolvedB_iff (view : Instr → List Qubit) (body out : List Instr) :
    qubitsResolvedB view body out = true ↔ QubitsResolved view body out := by
  simp only [qubitsResolvedB, Bool.and_eq_true, List.all_eq_true]
  constructor
  · rintro ⟨⟨h1, h2⟩, h3⟩
    refine ⟨?_, ?_, ?_⟩
    · intro p hp
      have := h1 p hp
      obtain ⟨a, b⟩ := p
      cases a <;> cases b <;> simp_all
    · intro p hp p' hp' k k' e1 e2
      have := h2 p hp p' hp'
      obtain ⟨a, b⟩ := p
      obtain ⟨a', b'⟩ := p'
      simp only at e1 e2
      subst e1 e2
      simpa using this
    · intro p hp k e1
      have := h3 p hp
      obtain ⟨a, b⟩ := p
      simp only at e1
      subst e1
      simpa using this
  · intro ⟨h1, h2, h3⟩
    refine ⟨⟨?_, ?_⟩, ?_⟩
    · intro p hp
      have := h1 p hp
      obtain ⟨a, b⟩ := p
      cases a <;> simp_all
      obtain ⟨n, rfl⟩ := this; rfl
    · intro p hp p' hp'
      obtain ⟨a, b⟩ := p
      obtain ⟨a', b'⟩ := p'
      cases a <;> cases a' <;> simp
      rename_i k k'
      have := h2 _ hp _ hp' k k' rfl rfl
      simpa using this
    · intro p hp
      obtain ⟨a, b⟩ := p
      cases a <;> simp
      rename_i k
      have := h3 _ hp k rfl
      simpa using this

theorem targetsResolvedB_iff (body out : List Instr) :
    targetsResolvedB body out = true ↔ TargetsResolved body out := by
  simp only [targetsResolvedB, Bool.and_eq_true, List.all_eq_true]
  constructor
  · rintro ⟨⟨h1, h2⟩, h3⟩
    refine ⟨?_, ?_, ?_⟩
    · intro p hp
      have := h1 p hp
      obtain ⟨a, b⟩ := p
      cases a <;> cases b <;> simp_all
    · intro p hp p' hp' k b k' b' e1 e2
      have := h2 p hp p' hp'
      obtain ⟨a, c⟩ := p
      obtain ⟨a', c'⟩ := p'
      simp only at e1 e2
      subst e1 e2
      simpa using this
    · intro p hp k b e1
      have := h3 p hp
      obtain ⟨a, c⟩ := p
      simp only at e1
      subst e1
      simpa using this
  · intro ⟨h1, h2, h3⟩
    refine ⟨⟨?_, ?_⟩, ?_⟩
    · intro p hp
      have := h1 p hp
      obtain ⟨a, b⟩ := p
      cases a <;> simp_all
      obtain ⟨n, rfl⟩ := this; rfl
    · intro p hp p' hp'
      obtain ⟨a, c⟩ := p
      obtain ⟨a', c'⟩ := p'
      cases a <;> cases a' <;> simp
      rename_i k b k' b'
      have := h2 _ hp _ hp' k b k' b' rfl rfl
      simpa using this
    · intro p hp
      obtain ⟨a, c⟩ := p
      cases a <;> simp
      rename_i k b
      have := h3 _ hp k b rfl
      simpa using this

theorem qubitsCustomB_iff (view : Instr → List Qubit) (qr : Nat → Option Nat) (body out : List Instr) :
    qubitsCustomB view qr body out = true ↔ QubitsCustom view qr body out := by
  simp only [qubitsCustomB, List.all_eq_true, QubitsCustom]
  constructor
  · intro h p hp
    have := h p hp
    obtain ⟨a, b⟩ := p
    cases a <;> simp_all
    rename_i k; cases hq : qr k <;> simp_all
  · intro h p hp
    have := h p hp
    obtain ⟨a, b⟩ := p
    cases a <;> simp_all
    rename_i k; cases hq : qr k <;> simp_all

theorem targetsCustomB_iff (tr : Nat → Option String) (body out : List Instr) :
    targetsCustomB tr body out = true ↔ TargetsCustom tr body out := by
  simp only [targetsCustomB, List.all_eq_true, TargetsCustom]
  constructor
  · intro h p hp
    have := h p hp
    obtain ⟨a, b⟩ := p
    cases a <;> simp_all
    rename_i k bb; cases hq : tr k <;> simp_all
  · intro h p hp
    have := h p hp
    obtain ⟨a, b⟩ := p
    cases a <;> simp_all
    rename_i k bb; cases hq : tr k <;> simp_all

theorem sameSkeletonB_iff (body out : List Instr) : sameSkeletonB body out = true ↔ SameSkeleton body out := by
  simp [sameSkeletonB, SameSkeleton]

theorem stepSpecB_iff (c : Call) (before after : List Instr) :
    stepSpecB c before after = true ↔ StepSpec c before after := by
  obtain ⟨mode, tmap, qmap⟩ := c
  cases mode <;>
    simp only [stepSpecB, StepSpec, Bool.and_eq_true, sameSkeletonB_iff, targetsResolvedB_iff,
      targetsCustomB_iff, qubitsResolvedB_iff, qubitsCustomB_iff, and_assoc]

theorem seqSpecB_iff : ∀ (calls : List Call) (body : List Instr) (outs : List (List Instr)),
    seqSpecB calls body outs = true ↔ SeqSpec calls body outs := by
  intro calls
  induction calls with
  | nil => intro body outs; simp [seqSpecB, SeqSpec]
  | cons c cs ih =>
    intro body outs
    cases outs with
    | nil => simp [seqSpecB, SeqSpec]
    | cons o rest =>
      simp only [seqSpecB, SeqSpec, Bool.and_eq_true, stepSpecB_iff, ih]
      constructor
      · intro ⟨h1, h2⟩; exact ⟨o, rest, rfl, h1, h2⟩
      · rintro ⟨o', rest', heq, h1, h2⟩
        simp only [List.cons.injEq] at heq
        obtain ⟨rfl, rfl⟩ := heq
        exact ⟨h1, h2⟩

/-- the seeded two-call scenario: `CZ p1 p2; CNOT p1 p3`, first a custom qubit resolver mapping only
p1 ↦ 0, then the default resolver — p2 and p3 must avoid the now-fixed qubit 0 -/
example : resolveSeq [⟨.custom, [], [(0, 0)]⟩, ⟨.default, [], []⟩]
    [.qs "Gate" "CZ 0 0" [.placeholder 0, .placeholder 1], .qs "Gate" "CNOT 0 0" [.placeholder 0, .placeholder 2]]
    = some [[.qs "Gate" "CZ 0 0" [.fixed 0, .placeholder 1], .qs "Gate" "CNOT 0 0" [.fixed 0, .placeholder 2]],
            [.qs "Gate" "CZ 0 0" [.fixed 0, .fixed 1], .qs "Gate" "CNOT 0 0" [.fixed 0, .fixed 2]]] := by decide

/-- the comparison used by the correspondence ignores WHICH fresh value was chosen (`X 0; X 2; X p`:
p ↦ 1 as the model picks, or p ↦ 3 as a "block above the highest fixed qubit" policy would) but not
whether a position was resolved, nor anything else -/
example :
    maskBody true true [.qs "Gate" "X 0" [.fixed 0], .qs "Gate" "X 0" [.fixed 2], .qs "Gate" "X 0" [.placeholder 0]]
      [.qs "Gate" "X 0" [.fixed 0], .qs "Gate" "X 0" [.fixed 2], .qs "Gate" "X 0" [.fixed 3]] =
    maskBody true true [.qs "Gate" "X 0" [.fixed 0], .qs "Gate" "X 0" [.fixed 2], .qs "Gate" "X 0" [.placeholder 0]]
      [.qs "Gate" "X 0" [.fixed 0], .qs "Gate" "X 0" [.fixed 2], .qs "Gate" "X 0" [.fixed 1]] ∧
    maskBody true true [.qs "Gate" "X 0" [.placeholder 0]] [.qs "Gate" "X 0" [.placeholder 0]] ≠
    maskBody true true [.qs "Gate" "X 0" [.placeholder 0]] [.qs "Gate" "X 0" [.fixed 1]] ∧
    qubitsResolvedB Instr.allQubits
      [.qs "Gate" "X 0" [.fixed 0], .qs "Gate" "X 0" [.fixed 2], .qs "Gate" "X 0" [.placeholder 0]]
      [.qs "Gate" "X 0" [.fixed 0], .qs "Gate" "X 0" [.fixed 2], .qs "Gate" "X 0" [.fixed 3]] = true := by decide

/-! ### Regression witnesses of the repaired defect (fix: a86534e)

Before the fix `get_qubits` ignored the frame-mutation instructions: `SET-PHASE {p0} "rf" 1` was
left unresolved, `SET-PHASE 0 "rf" 1; X {p0}` resolved `p0` to the used qubit 0, and
`X {p0}; SET-PHASE {p0} …` resolved only the first occurrence.  With the corrected table: -/

example : resolvePlaceholders [.qs "SetPhase" "SET-PHASE 0 \"rf\" 1" [.placeholder 0]]
    = some [.qs "SetPhase" "SET-PHASE 0 \"rf\" 1" [.fixed 0]] := by decide

example : resolvePlaceholders
    [.qs "SetPhase" "SET-PHASE 0 \"rf\" 1" [.fixed 0], .qs "Gate" "X 0" [.placeholder 0]]
    = some [.qs "SetPhase" "SET-PHASE 0 \"rf\" 1" [.fixed 0], .qs "Gate" "X 0" [.fixed 1]] := by decide

example : resolvePlaceholders
    [.qs "Gate" "X 0" [.placeholder 0], .qs "SetPhase" "SET-PHASE 0 \"rf\" 1" [.placeholder 0],
     .qs "SwapPhases" "SWAP-PHASES 0 \"rf\" 0 \"rf\"" [.placeholder 1, .fixed 0]]
    = some [.qs "Gate" "X 0" [.fixed 1], .qs "SetPhase" "SET-PHASE 0 \"rf\" 1" [.fixed 1],
     .qs "SwapPhases" "SWAP-PHASES 0 \"rf\" 0 \"rf\"" [.fixed 2, .fixed 0]] := by decide

/-- a kind outside the table with a non-empty qubit list is what `wellProjected` excludes; for such
a (never generated) input the positional statement would fail, so the hypothesis is not idle -/
example : wellProjected [.qs "Other" "NOP" [.placeholder 0]] = false := by decide

/-! ### Non-vacuity -/

private def exBody : List Instr :=
  [ .tgt "Label" (.fixed "a_0") "LABEL @T", .tgt "Jump" (.placeholder 0 "a") "JUMP @T",
    .qs "Gate" "X 0" [.fixed 0], .qs "Gate" "CNOT 0 0" [.placeholder 0, .placeholder 1],
    .tgt "Label" (.placeholder 1 "a") "LABEL @T", .qs "Gate" "X 0" [.fixed 2] ]

example : wellProjected exBody = true := by decide

/-- a → a_1 (a_0 is taken), second a → a_2; placeholders get qubits 1 and 3 (0, 2 are used) -/
example : resolvePlaceholders exBody = some
  [ .tgt "Label" (.fixed "a_0") "LABEL @T", .tgt "Jump" (.fixed "a_1") "JUMP @T",
    .qs "Gate" "X 0" [.fixed 0], .qs "Gate" "CNOT 0 0" [.fixed 1, .fixed 3],
    .tgt "Label" (.fixed "a_2") "LABEL @T", .qs "Gate" "X 0" [.fixed 2] ] := by decide

end QV.C34
