import QV.C34.Model
/-
C34 specification, written over the positions of the body only (no reference to resolvers, tables
or search loops): `body` is the body before, `out` the body after resolution.

`view` selects which qubits of an instruction the statement talks about:
  `Instr.allQubits`  every qubit the instruction syntactically contains  — the property as stated;
  `Instr.getQubits`  what quil-rs's `get_qubits` returns                  — what the code achieves.
-/
namespace QV.C34

def Instr.allQubits : Instr → List Qubit
  | .tgt _ _ _ => []
  | .qs _ _ l => l

/-- everything of an instruction except its qubits / its target -/
def skeleton : Instr → String × String × Nat
  | .tgt k _ s => (k, s, 0)
  | .qs k s l => (k, s, l.length)

/-- the qubits before / after, position by position -/
def qpairs (view : Instr → List Qubit) (body out : List Instr) : List (Qubit × Qubit) :=
  (body.flatMap view).zip (out.flatMap view)

/-- the targets before / after, position by position -/
def tpairs (body out : List Instr) : List (Target × Target) := (getTargets body).zip (getTargets out)

/-! ### Prop form -/

/-- Default resolution of the qubits selected by `view`. -/
structure QubitsResolved (view : Instr → List Qubit) (body out : List Instr) : Prop where
  /-- every placeholder is replaced by a fixed qubit, everything else is left alone -/
  replaced : ∀ p ∈ qpairs view body out,
    match p.1 with
    | .placeholder _ => ∃ n, p.2 = .fixed n
    | q => p.2 = q
  /-- same placeholder ⇒ same value at every occurrence; distinct placeholders ⇒ distinct values -/
  consistent : ∀ p ∈ qpairs view body out, ∀ p' ∈ qpairs view body out, ∀ k k',
    p.1 = .placeholder k → p'.1 = .placeholder k' → (k = k' ↔ p.2 = p'.2)
  /-- no resolved qubit equals a fixed qubit already used by the body -/
  fresh : ∀ p ∈ qpairs view body out, ∀ k, p.1 = .placeholder k → p.2 ∉ body.flatMap view

/-- Default resolution of the label targets. -/
structure TargetsResolved (body out : List Instr) : Prop where
  replaced : ∀ p ∈ tpairs body out,
    match p.1 with
    | .placeholder _ _ => ∃ l, p.2 = .fixed l
    | t => p.2 = t
  consistent : ∀ p ∈ tpairs body out, ∀ p' ∈ tpairs body out, ∀ k b k' b',
    p.1 = .placeholder k b → p'.1 = .placeholder k' b' → (k = k' ↔ p.2 = p'.2)
  /-- no resolved label equals an existing label or jump target -/
  fresh : ∀ p ∈ tpairs body out, ∀ k b, p.1 = .placeholder k b → p.2 ∉ getTargets body

/-- A custom qubit resolver replaces exactly the placeholders it returns values for. -/
def QubitsCustom (view : Instr → List Qubit) (qr : Nat → Option Nat) (body out : List Instr) : Prop :=
  ∀ p ∈ qpairs view body out,
    match p.1 with
    | .placeholder k => (match qr k with | some n => p.2 = .fixed n | none => p.2 = .placeholder k)
    | q => p.2 = q

def TargetsCustom (tr : Nat → Option String) (body out : List Instr) : Prop :=
  ∀ p ∈ tpairs body out,
    match p.1 with
    | .placeholder k b => (match tr k with | some l => p.2 = .fixed l | none => p.2 = .placeholder k b)
    | t => p.2 = t

/-- nothing but qubits and targets changes -/
def SameSkeleton (body out : List Instr) : Prop := out.map skeleton = body.map skeleton

/-! ### Bool form (evaluated by the driver on the implementation's output) -/

def qubitsResolvedB (view : Instr → List Qubit) (body out : List Instr) : Bool :=
  let ps := qpairs view body out
  ps.all (fun p =>
    match p.1 with
    | .placeholder _ => (match p.2 with | .fixed _ => true | _ => false)
    | q => p.2 == q) &&
  ps.all (fun p => ps.all (fun p' =>
    match p.1, p'.1 with
    | .placeholder k, .placeholder k' => decide (k = k' ↔ p.2 = p'.2)
    | _, _ => true)) &&
  ps.all (fun p =>
    match p.1 with
    | .placeholder _ => !(body.flatMap view).contains p.2
    | _ => true)

def targetsResolvedB (body out : List Instr) : Bool :=
  let ps := tpairs body out
  ps.all (fun p =>
    match p.1 with
    | .placeholder _ _ => (match p.2 with | .fixed _ => true | _ => false)
    | t => p.2 == t) &&
  ps.all (fun p => ps.all (fun p' =>
    match p.1, p'.1 with
    | .placeholder k _, .placeholder k' _ => decide (k = k' ↔ p.2 = p'.2)
    | _, _ => true)) &&
  ps.all (fun p =>
    match p.1 with
    | .placeholder _ _ => !(getTargets body).contains p.2
    | _ => true)

def qubitsCustomB (view : Instr → List Qubit) (qr : Nat → Option Nat) (body out : List Instr) : Bool :=
  (qpairs view body out).all fun p =>
    match p.1 with
    | .placeholder k => (match qr k with | some n => p.2 == .fixed n | none => p.2 == .placeholder k)
    | q => p.2 == q

def targetsCustomB (tr : Nat → Option String) (body out : List Instr) : Bool :=
  (tpairs body out).all fun p =>
    match p.1 with
    | .placeholder k b => (match tr k with | some l => p.2 == .fixed l | none => p.2 == .placeholder k b)
    | t => p.2 == t

def sameSkeletonB (body out : List Instr) : Bool := out.map skeleton == body.map skeleton

/-! ### Comparison up to the choice of fresh values

The statement fixes WHICH placeholders a default resolver replaces and what the replacements must
satisfy (unique, consistent, unused) — not which concrete index / label it picks.  For the
correspondence the default-resolved positions are therefore masked: a position that held placeholder
`k` before and holds a fixed value after becomes the marker "placeholder k, resolved" on both the
implementation's and the model's side; everything else (unresolved placeholders, fixed qubits,
variables, labels, custom-resolved positions, skeleton) is compared exactly.  The concrete values the
implementation chose are judged by `stepSpecB` alone. -/

def Target.mask (before after : Target) : Target :=
  match before, after with
  | .placeholder k _, .fixed _ => .placeholder k "<resolved>"
  | _, a => a

def Qubit.mask (before after : Qubit) : Qubit :=
  match before, after with
  | .placeholder k, .fixed _ => .var s!"<resolved {k}>"
  | _, a => a

def maskQubits : List Qubit → List Qubit → List Qubit
  | b :: bs, a :: as => Qubit.mask b a :: maskQubits bs as
  | _, as => as

def Instr.mask (maskT maskQ : Bool) (before after : Instr) : Instr :=
  match before, after with
  | .tgt _ tb _, .tgt k ta s => if maskT then .tgt k (Target.mask tb ta) s else after
  | .qs _ _ lb, .qs k s la => if maskQ then .qs k s (maskQubits lb la) else after
  | _, a => a

def maskBody (maskT maskQ : Bool) : List Instr → List Instr → List Instr
  | b :: bs, a :: as => Instr.mask maskT maskQ b a :: maskBody maskT maskQ bs as
  | _, as => as

/-- which parts of a call are resolved by a DEFAULT resolver (and hence compared up to the choice of
fresh values): (targets, qubits) -/
def Mode.defaults : Mode → Bool × Bool
  | .default => (true, true)
  | .custom => (false, false)
  | .customTargets => (false, true)
  | .customQubits => (true, false)

/-! ### One call and sequences of calls -/

/-- What one resolution call has to achieve, by entry point: nothing but qubits/targets changes;
targets are default-resolved or custom-resolved; qubits (ALL qubits of the body) likewise.
"Fixed qubits / labels already used" always refers to `before`, the body as it stands before
this call. -/
def StepSpec (c : Call) (before after : List Instr) : Prop :=
  SameSkeleton before after ∧
  (match c.mode with
   | .default | .customQubits => TargetsResolved before after
   | .custom | .customTargets => TargetsCustom (fun k => lookupS k c.tmap) before after) ∧
  (match c.mode with
   | .default | .customTargets => QubitsResolved Instr.allQubits before after
   | .custom | .customQubits => QubitsCustom Instr.allQubits (fun k => lookupN k c.qmap) before after)

def stepSpecB (c : Call) (before after : List Instr) : Bool :=
  sameSkeletonB before after &&
  (match c.mode with
   | .default | .customQubits => targetsResolvedB before after
   | .custom | .customTargets => targetsCustomB (fun k => lookupS k c.tmap) before after) &&
  (match c.mode with
   | .default | .customTargets => qubitsResolvedB Instr.allQubits before after
   | .custom | .customQubits => qubitsCustomB Instr.allQubits (fun k => lookupN k c.qmap) before after)

/-- every call of a sequence meets its `StepSpec` relative to the body the previous call left -/
def SeqSpec : List Call → List Instr → List (List Instr) → Prop
  | [], _, outs => outs = []
  | c :: cs, body, outs => ∃ out rest, outs = out :: rest ∧ StepSpec c body out ∧ SeqSpec cs out rest

def seqSpecB : List Call → List Instr → List (List Instr) → Bool
  | [], _, outs => outs.isEmpty
  | c :: cs, body, out :: rest => stepSpecB c body out && seqSpecB cs out rest
  | _ :: _, _, [] => false

end QV.C34
