import QV.Wire
import QV.C34.Model
import QV.C34.Spec
/-! Driver side of the C34 correspondence check. -/
namespace QV.C34
open QV

def decTarget : Sexp → Option Target
  | .list [.atom "fixed", .str s] => some (.fixed s)
  | .list [.atom "ph", .atom k, .str b] => k.toNat?.map (Target.placeholder · b)
  | _ => none

def decQubit : Sexp → Option Qubit
  | .list [.atom "f", .atom n] => n.toNat?.map .fixed
  | .list [.atom "v", .str s] => some (.var s)
  | .list [.atom "p", .atom k] => k.toNat?.map .placeholder
  | _ => none

def decInstr : Sexp → Option Instr
  | .list [.atom "tgt", .str kind, t, .str shape] => (decTarget t).map (Instr.tgt kind · shape)
  | .list [.atom "qs", .str kind, .str shape, .list l] => (l.mapM decQubit).map (Instr.qs kind shape ·)
  | _ => none

def decBody : Sexp → Option (List Instr)
  | .list (.atom "body" :: is) => is.mapM decInstr
  | _ => none

def encTarget : Target → Sexp
  | .fixed s => .list [.atom "fixed", .str s]
  | .placeholder k b => .list [.atom "ph", .atom (toString k), .str b]

def encQubit : Qubit → Sexp
  | .fixed n => .list [.atom "f", .atom (toString n)]
  | .var s => .list [.atom "v", .str s]
  | .placeholder k => .list [.atom "p", .atom (toString k)]

def encInstr : Instr → Sexp
  | .tgt kind t shape => .list [.atom "tgt", .str kind, encTarget t, .str shape]
  | .qs kind shape l => .list [.atom "qs", .str kind, .str shape, .list (l.map encQubit)]

def encBody (b : List Instr) : Sexp := .list (.atom "body" :: b.map encInstr)

def decMode : String → Option Mode
  | "default" => some .default
  | "custom" => some .custom
  | "customTargets" => some .customTargets
  | "customQubits" => some .customQubits
  | _ => none

def decTmap : Sexp → Option (List (Nat × String))
  | .list (.atom "tmap" :: es) => es.mapM fun
      | .list [.atom k, .str l] => k.toNat?.map (·, l)
      | _ => none
  | _ => none

def decQmap : Sexp → Option (List (Nat × Nat))
  | .list (.atom "qmap" :: es) => es.mapM fun
      | .list [.atom k, .atom v] => do some (← k.toNat?, ← v.toNat?)
      | _ => none
  | _ => none

/-- the projection is well formed: only kinds of the `get_qubits` table carry qubits (same predicate as
`wellProjected` in Props.lean) -/
def wellProjectedB (body : List Instr) : Bool :=
  body.all fun | .tgt _ _ _ => true | .qs k _ l => visible k || l.isEmpty

/-- the body holds a frame-mutation instruction with a placeholder or fixed qubit (the class repaired by
fix a86534e; kept as a distribution tag) -/
def frameMutationQubits (body : List Instr) : Bool :=
  body.any fun
    | .qs kind _ l => ["SetFrequency", "SetPhase", "SetScale", "ShiftFrequency", "ShiftPhase", "SwapPhases"].contains kind
        && l.any (fun q => match q with | .var _ => false | _ => true)
    | _ => false

def handle (inp out : Sexp) : CaseResult :=
  match inp with
  | .list [.atom "resolve", .atom ms, bs, tms, qms] =>
    match decMode ms, decBody bs, decTmap tms, decQmap qms with
    | some mode, some body, some tmap, some qmap =>
      let m := resolveMode mode tmap qmap body
      let mOut : Sexp := match m with | some b => encBody b | none => .list [.atom "model-out-of-fuel"]
      match decBody out with
      | none => { agree := false, specOk := false, nontrivial := false, tags := ["impl-output-undecodable"],
                  detail := s!"model={mOut} impl={out}" }
      | some o =>
        let view := Instr.allQubits
        let dq := defaultQubitResolutions body
        let skel := sameSkeletonB body o
        let tOk := match mode with
          | .default | .customQubits => targetsResolvedB body o
          | .custom | .customTargets => targetsCustomB (fun k => lookupS k tmap) body o
        let qOk := match mode with
          | .default => qubitsResolvedB view body o
          | .customTargets =>
            -- the qubit resolver handed in is the program's own default resolver
            qubitsResolvedB view body o
          | .custom | .customQubits => qubitsCustomB view (fun k => lookupN k qmap) body o
        -- what the code achieves (get_qubits view); must hold even where the full statement fails
        let qVis := match mode with
          | .default | .customTargets => qubitsResolvedB Instr.getQubits body o
          | .custom | .customQubits => qubitsCustomB Instr.getQubits (fun k => lookupN k qmap) body o
        let spec := skel && tOk && qOk
        let hid := frameMutationQubits body
        let wp := wellProjectedB body
        let nPhQ := (qubitPlaceholders body).length
        let nPhT := (targetPlaceholders (getTargets body)).length
        let collide := (targetPlaceholders (getTargets body)).any
          (fun p => (fixedLabels (getTargets body)).contains (labelName p.2 0))
        let tags := [s!"mode-{ms}", s!"len{min body.length 14}", s!"qph{min nPhQ 5}", s!"tph{min nPhT 5}",
            s!"fixedq{min (usedFixedQubits body).length 6}",
            (if collide then "suffix-collision" else "no-collision"),
            (if hid then "frame-mutation-qubits" else "no-frame-mutation-qubits"),
            s!"dq{min dq.length 5}"]
          ++ (if !skel then ["SKELETON-FAIL"] else [])
          ++ (if !tOk then ["TARGET-SPEC-FAIL"] else [])
          ++ (if !qVis then ["VISIBLE-QUBIT-SPEC-FAIL"] else [])
          ++ (if !qOk then ["QUBIT-SPEC-FAIL"] else [])
          ++ (if !wp then ["PROJECTION-NOT-WELL-FORMED"] else [])
        { agree := mOut == out && wp, specOk := spec && qVis,
          nontrivial := nPhQ + nPhT > 0,
          tags := tags, detail := s!"model={mOut} impl={out}" }
    | _, _, _, _ => .bad s!"undecodable input {inp}"
  | _ => .bad s!"undecodable input {inp}"

end QV.C34

def main : IO UInt32 := QV.runMain QV.C34.handle
