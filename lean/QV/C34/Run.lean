import QV.Wire
import QV.C34.Model
import QV.C34.Spec
/-! Driver side of the C34 correspondence check. -/
namespace QV.C34
open QV

def decTarget : Sexp → Option Target
  | .list [.atom "fixed", .str s] => some (.fixed s)
  | .list [.atom "ph", .atom k, .str b] => k.toNat?.map (Target.placeholder · b)
  | _ => none

def decQubit : Sexp → Option Qubit
  | .list [.atom "f", .atom n] => n.toNat?.map .fixed
  | .list [.atom "v", .str s] => some (.var s)
  | .list [.atom "p", .atom k] => k.toNat?.map .placeholder
  | _ => none

def decInstr : Sexp → Option Instr
  | .list [.atom "tgt", .str kind, t, .str shape] => (decTarget t).map (Instr.tgt kind · shape)
  | .list [.atom "qs", .str kind, .str shape, .list l] => (l.mapM decQubit).map (Instr.qs kind shape ·)
  | _ => none

def decBody : Sexp → Option (List Instr)
  | .list (.atom "body" :: is) => is.mapM decInstr
  | _ => none

def encTarget : Target → Sexp
  | .fixed s => .list [.atom "fixed", .str s]
  | .placeholder k b => .list [.atom "ph", .atom (toString k), .str b]

def encQubit : Qubit → Sexp
  | .fixed n => .list [.atom "f", .atom (toString n)]
  | .var s => .list [.atom "v", .str s]
  | .placeholder k => .list [.atom "p", .atom (toString k)]

def encInstr : Instr → Sexp
  | .tgt kind t shape => .list [.atom "tgt", .str kind, encTarget t, .str shape]
  | .qs kind shape l => .list [.atom "qs", .str kind, .str shape, .list (l.map encQubit)]

def encBody (b : List Instr) : Sexp := .list (.atom "body" :: b.map encInstr)

def decMode : String → Option Mode
  | "default" => some .default
  | "custom" => some .custom
  | "customTargets" => some .customTargets
  | "customQubits" => some .customQubits
  | _ => none

def decTmap : Sexp → Option (List (Nat × String))
  | .list (.atom "tmap" :: es) => es.mapM fun
      | .list [.atom k, .str l] => k.toNat?.map (·, l)
      | _ => none
  | _ => none

def decQmap : Sexp → Option (List (Nat × Nat))
  | .list (.atom "qmap" :: es) => es.mapM fun
      | .list [.atom k, .atom v] => do some (← k.toNat?, ← v.toNat?)
      | _ => none
  | _ => none

/-- the projection is well formed: only kinds of the `get_qubits` table carry qubits (same predicate as
`wellProjected` in Props.lean) -/
def wellProjectedB (body : List Instr) : Bool :=
  body.all fun | .tgt _ _ _ => true | .qs k _ l => visible k || l.isEmpty

/-- the body holds a frame-mutation instruction with a placeholder or fixed qubit (the class repaired by
fix a86534e; kept as a distribution tag) -/
def frameMutationQubits (body : List Instr) : Bool :=
  body.any fun
    | .qs kind _ l => ["SetFrequency", "SetPhase", "SetScale", "ShiftFrequency", "ShiftPhase", "SwapPhases"].contains kind
        && l.any (fun q => match q with | .var _ => false | _ => true)
    | _ => false

/-- base-label shape of the body's label placeholders (distribution tag) -/
def baseTag (body : List Instr) : String :=
  let ps := targetPlaceholders (getTargets body)
  let empties := (ps.filter (fun p => p.2 == "")).length
  if empties ≥ 2 then "empty-base-shared" else if empties == 1 then "empty-base"
  else if ps.any (fun p => p.2.length == 1) then "one-char-base"
  else if ps.any (fun p => p.2.length > 100) then "long-base" else "ordinary-bases"

def handleOne (inp out : Sexp) : CaseResult :=
  match inp with
  | .list [.atom "resolve", .atom ms, bs, tms, qms] =>
    match decMode ms, decBody bs, decTmap tms, decQmap qms with
    | some mode, some body, some tmap, some qmap =>
      let m := resolveMode mode tmap qmap body
      let mOut : Sexp := match m with | some b => encBody b | none => .list [.atom "model-out-of-fuel"]
      match decBody out with
      | none => { agree := false, specOk := false, nontrivial := false, tags := ["impl-output-undecodable"],
                  detail := s!"model={mOut} impl={out}" }
      | some o =>
        let view := Instr.allQubits
        let dq := defaultQubitResolutions body
        let skel := sameSkeletonB body o
        let tOk := match mode with
          | .default | .customQubits => targetsResolvedB body o
          | .custom | .customTargets => targetsCustomB (fun k => lookupS k tmap) body o
        let qOk := match mode with
          | .default => qubitsResolvedB view body o
          | .customTargets =>
            -- the qubit resolver handed in is the program's own default resolver
            qubitsResolvedB view body o
          | .custom | .customQubits => qubitsCustomB view (fun k => lookupN k qmap) body o
        -- what the code achieves (get_qubits view); must hold even where the full statement fails
        let qVis := match mode with
          | .default | .customTargets => qubitsResolvedB Instr.getQubits body o
          | .custom | .customQubits => qubitsCustomB Instr.getQubits (fun k => lookupN k qmap) body o
        let spec := skel && tOk && qOk
        let hid := frameMutationQubits body
        let wp := wellProjectedB body
        let nPhQ := (qubitPlaceholders body).length
        let nPhT := (targetPlaceholders (getTargets body)).length
        let collide := (targetPlaceholders (getTargets body)).any
          (fun p => (fixedLabels (getTargets body)).contains (labelName p.2 0))
        let tags := [s!"mode-{ms}", s!"len{min body.length 14}", s!"qph{min nPhQ 5}", s!"tph{min nPhT 5}",
            s!"fixedq{min (usedFixedQubits body).length 6}",
            (if collide then "suffix-collision" else "no-collision"), baseTag body,
            (if hid then "frame-mutation-qubits" else "no-frame-mutation-qubits"),
            s!"dq{min dq.length 5}"]
          ++ (if !skel then ["SKELETON-FAIL"] else [])
          ++ (if !tOk then ["TARGET-SPEC-FAIL"] else [])
          ++ (if !qVis then ["VISIBLE-QUBIT-SPEC-FAIL"] else [])
          ++ (if !qOk then ["QUBIT-SPEC-FAIL"] else [])
          ++ (if !wp then ["PROJECTION-NOT-WELL-FORMED"] else [])
        -- default-resolved positions are compared up to the choice of fresh values (Spec.lean, `maskBody`);
        -- the implementation's concrete choice is judged by the specification
        let (mt, mq) := mode.defaults
        let sameUpToFresh := match m with
          | some mb => maskBody mt mq body o == maskBody mt mq body mb
          | none => false
        { agree := sameUpToFresh && spec && qVis && wp, specOk := spec && qVis,
          nontrivial := nPhQ + nPhT > 0,
          tags := tags, detail := s!"model={mOut} impl={out}" }
    | _, _, _, _ => .bad s!"undecodable input {inp}"
  | _ => .bad s!"undecodable input {inp}"

def decCall : Sexp → Option Call
  | .list [.atom "call", .atom ms, tms, qms] => do
      some ⟨← decMode ms, ← decTmap tms, ← decQmap qms⟩
  | _ => none

def decQubits (tag : String) : Sexp → Option (List Qubit)
  | .list (.atom t :: qs) => if t == tag then qs.mapM decQubit else none
  | _ => none

def decStep : Sexp → Option (List Instr × List Qubit × List Qubit)
  | .list [.atom "step", b, u, d] => do some (← decBody b, ← decQubits "used" u, ← decQubits "defq" d)
  | _ => none

/-- canonical form of a qubit set: encoded, sorted, duplicates removed -/
def canonQubits (l : List Qubit) : List String :=
  let sorted := (l.map (fun q => toString (encQubit q))).mergeSort (fun a b => decide (a ≤ b))
  sorted.foldr (fun x acc => match acc with | y :: _ => if x == y then acc else x :: acc | [] => [x]) []

/-- Sequences of calls: the body after every call is compared with the iterated model, `stepSpecB` is
evaluated on the implementation's consecutive bodies, and the `used_qubits` cache after every call must
be the qubits of the listing (definitions + ALL qubits of the body as it stands). -/
def handleSeq (inp out : Sexp) : CaseResult :=
  match inp with
  | .list [.atom "seq", dqs, bs, .list (.atom "calls" :: cs)] =>
    match decQubits "defq" dqs, decBody bs, cs.mapM decCall with
    | some defq, some body, some calls =>
      match out with
      | .list (.atom "seqout" :: u0 :: steps) =>
        match decQubits "used" u0, steps.mapM decStep with
        | some used0, some isteps =>
          let wp := wellProjectedB body
          let ibodies := isteps.map (·.1)
          -- stepwise: each call of the model is applied to the body the IMPLEMENTATION's previous call left
          -- (the default resolvers may pick other fresh values than the model, so the iterated model would
          -- drift); default-resolved positions are compared up to the choice of fresh values
          let befores := body :: ibodies.dropLast
          let triples := (calls.zip befores).zip ibodies
          let m : List (Option (List Instr)) := triples.map fun ((c, b), _) => resolveMode c.mode c.tmap c.qmap b
          let agreeBodies := calls.length == ibodies.length && triples.all fun ((c, b), o) =>
            match resolveMode c.mode c.tmap c.qmap b with
            | some mb => maskBody c.mode.defaults.1 c.mode.defaults.2 b o == maskBody c.mode.defaults.1 c.mode.defaults.2 b mb
            | none => false
          -- model of the cache: initial = add_instruction's extension, then rebuilt from the current body
          let mUsed := (body :: ibodies).map (fun b => canonQubits (usedQubitsOf defq b))
          let iUsed := canonQubits used0 :: isteps.map (fun st => canonQubits st.2.1)
          let agreeUsed := mUsed == iUsed
          -- spec on the implementation's outputs
          let spec := seqSpecB calls body ibodies
          -- cache = qubits of the listing (all qubits, harness traversal) after each call
          let cacheOk := (canonQubits used0 == canonQubits (defq ++ body.flatMap Instr.allQubits)) &&
            isteps.all (fun st => canonQubits st.2.1 == canonQubits (defq ++ st.1.flatMap Instr.allQubits))
          -- resolution touches the body only: the definitions' qubits (placeholders included) stay as they were
          let defsSame := isteps.all (fun st => st.2.2 == defq)
          let defPh := defq.any (fun q => match q with | .placeholder _ => true | _ => false)
          let sharedPh := defq.any (fun q => match q with
            | .placeholder k => (body.flatMap Instr.allQubits).contains (.placeholder k) | _ => false)
          let noFixed := (body.flatMap Instr.allQubits).all (fun q => match q with | .fixed _ => false | _ => true)
          let defFixed := defq.any (fun q => match q with | .fixed _ => true | _ => false)
          let modes := "+".intercalate (calls.map (fun c => match c.mode with
            | .default => "d" | .custom => "c" | .customTargets => "ct" | .customQubits => "cq"))
          let partialThenDefault : Bool := match calls with
            | c1 :: rest => (c1.mode == .custom || c1.mode == .customQubits) && rest.any (fun c => c.mode == .default || c.mode == .customTargets) &&
                (qubitPlaceholders body).any (fun k => (lookupN k c1.qmap).isNone) &&
                (qubitPlaceholders body).any (fun k => (lookupN k c1.qmap).isSome)
            | [] => false
          let tags := ["seq", baseTag body, s!"calls-{modes}", s!"len{min body.length 14}",
              (if noFixed then "body-no-fixed-qubits" else "body-has-fixed-qubits"),
              (if defFixed then "defs-have-fixed-qubits" else "defs-no-fixed-qubits"),
              (if partialThenDefault then "partial-custom-then-default" else "other-sequence")]
            ++ (if !agreeBodies then ["BODY-DISAGREE"] else [])
            ++ (if !agreeUsed then ["USED-CACHE-DISAGREE"] else [])
            ++ (if !spec then ["STEP-SPEC-FAIL"] else [])
            ++ (if !cacheOk then ["CACHE-NOT-LISTING"] else [])
            ++ (if !defsSame then ["DEFINITIONS-CHANGED"] else [])
            ++ [(if sharedPh then "placeholder-shared-with-calibration" else if defPh then "calibration-placeholders"
                 else "no-calibration-placeholders")]
            ++ (if !wp then ["PROJECTION-NOT-WELL-FORMED"] else [])
          { agree := agreeBodies && agreeUsed && wp && defsSame && spec, specOk := spec && cacheOk && defsSame,
            nontrivial := (qubitPlaceholders body).length + (targetPlaceholders (getTargets body)).length > 0,
            tags := tags,
            detail := s!"model={repr m} modelUsed={mUsed} impl={out}" }
        | _, _ => .bad s!"undecodable output {out}"
      | _ => { agree := false, specOk := false, nontrivial := false, tags := ["impl-output-undecodable"],
               detail := s!"impl={out}" }
    | _, _, _ => .bad s!"undecodable input {inp}"
  | _ => .bad s!"undecodable input {inp}"

def decNats (tag : String) : Sexp → Option (List Nat)
  | .list (.atom t :: ks) => if t == tag then ks.mapM Sexp.asNat? else none
  | _ => none

/-- The public default resolvers queried directly: every queried placeholder must get exactly the
model's table entry (`none` for a placeholder that is not in the body). -/
def handleTables (inp out : Sexp) : CaseResult :=
  match inp with
  | .list [.atom "tables", bs, tqs, qqs] =>
    match decBody bs, decNats "tq" tqs, decNats "qq" qqs with
    | some body, some tq, some qq =>
      let dq := defaultQubitResolutions body
      let mdt : Sexp := match defaultTargetResolutions body with
        | some dt => .list (.atom "dt" :: tq.map fun k => .list [.atom (toString k),
            match lookupS k dt with | some l => .str l | none => .atom "none"])
        | none => .atom "model-out-of-fuel"
      let mdq : Sexp := .list (.atom "dq" :: qq.map fun k => .list [.atom (toString k),
            match lookupN k dq with | some v => .atom (toString v) | none => .atom "none"])
      let mOut : Sexp := .list [.atom "tables", mdt, mdq]
      -- spec on the implementation's tables: values of body placeholders pairwise distinct, not fixed labels /
      -- used fixed qubits; placeholders outside the body get none
      let specOk := match out with
        | .list [.atom "tables", .list (.atom "dt" :: es), .list (.atom "dq" :: qs)] =>
          let labels := es.filterMap fun | .list [_, .str l] => some l | _ => none
          let vals := qs.filterMap fun | .list [_, .atom v] => v.toNat? | _ => none
          let fixedL := fixedLabels (getTargets body)
          let usedQ := (body.flatMap Instr.allQubits).filterMap fun | .fixed n => some n | _ => none
          let bodyT := (targetPlaceholders (getTargets body)).map (·.1)
          let bodyQ := (body.flatMap Instr.allQubits).filterMap fun | .placeholder k => some k | _ => none
          labels.all (fun l => !fixedL.contains l) && vals.all (fun v => !usedQ.contains v) &&
          labels.eraseDups.length == labels.length && vals.eraseDups.length == vals.length &&
          es.all (fun | .list [.atom k, v] => (match k.toNat? with
              | some k => (bodyT.contains k) == (match v with | .str _ => true | _ => false) | none => false) | _ => false) &&
          qs.all (fun | .list [.atom k, v] => (match k.toNat? with
              | some k => (bodyQ.contains k) == (v != .atom "none") | none => false) | _ => false)
        | _ => false
      -- which placeholders get an entry must match exactly; the values only up to the choice of fresh values
      let pattern (x : Sexp) : Sexp := match x with
        | .list [.atom "tables", .list (.atom "dt" :: es), .list (.atom "dq" :: qs)] =>
          .list ((es ++ qs).map fun
            | .list [k, .atom "none"] => .list [k, .atom "none"]
            | .list [k, _] => .list [k, .atom "some"]
            | y => y)
        | y => y
      { agree := pattern mOut == pattern out && specOk && wellProjectedB body, specOk := specOk,
        nontrivial := tq.length + qq.length > 2,
        tags := ["tables", baseTag body, s!"tq{min tq.length 6}", s!"qq{min qq.length 6}",
          (if tq.length + qq.length > 64 then "more-than-64-placeholders" else "few-placeholders")],
        detail := s!"model={mOut} impl={out}" }
    | _, _, _ => .bad s!"undecodable input {inp}"
  | _ => .bad s!"undecodable input {inp}"

def handle (inp out : Sexp) : CaseResult :=
  match inp with
  | .list (.atom "seq" :: _) => handleSeq inp out
  | .list (.atom "tables" :: _) => handleTables inp out
  | _ => handleOne inp out

end QV.C34

def main : IO UInt32 := QV.runMain QV.C34.handle
