import QV.Wire
import QV.C20.Model
import QV.C20.Spec
import QV.Shared.SeqGateWire
/-! Driver side of the C20 correspondence check. -/
namespace QV.C20
open QV QV.SeqGateWire

/-- same names, order aside (the statement says which definitions are kept, not where) -/
def sameNames (a b : List String) : Bool :=
  a.length == b.length && a.all b.contains && b.all a.contains

/-- Does one entry point's output `o` agree with the model (`e` = the model's expansion, `k` = the retained
names, `kinds` = every misuse kind applicable somewhere the expansion can reach)? Successes are compared
exactly; for failures the statement only says that misuse "is reported as an error", so any applicable kind
counts as agreeing (the model's own choice is one of them, `C20_model_error_applicable`), payloads and
message text are not compared. -/
def agreesWith (e : Outcome (List (Instr String))) (k : List String) (kinds : List Kind) (o : PlainOut) : Bool :=
  match e, o with
  | .ok b, .ok body kept intact => decide (b = body) && sameNames kept k && intact
  | .err _, .err x => kinds.contains x.kind
  | _, _ => false

/-- the model's prediction for "expanding the result again with the same filter changes nothing" -/
def modelAgain (p : Program String) (sel : String → Bool) (e : Outcome (List (Instr String))) (k : List String) : Bool :=
  match e with
  | .ok b =>
    let q : Program String := { defs := keptDefs p.defs sel, body := b }
    (match expandProgram q sel with
      | .ok q' => decide (q'.body = b) && q'.defs.map (·.name) == k
      | _ => false)
  | _ => true

/-- The specification evaluated on ONE entry point's output `o` (theorems in Props.lean tie each conjunct to
the declarative statement; `e = expand p.defs sel p.body`, `k = (keptDefs p.defs sel).map name`,
`kinds = misuseKinds p.defs sel p.body`, computed once):
* returned `Ok`: the body is the one `expand` computes (`C20_expand_ok_iff_pure`) **and**, independently of
  the model, the verifier `verifyPure` accepts it as the stack-free expansion (`C20_verifyPure_iff`), the
  retained definitions are exactly those `keptDefs` selects (`C20_kept_iff`; as a set), and untouched;
* returned `Err x`: the kind of `x` is one of the misuse kinds applicable somewhere the expansion can reach
  (`C20_misuseKinds_iff`: `k ∈ misuseKinds ↔ MisuseAt`; `C20_error_iff_misuse`: that set is non-empty exactly
  when the expansion must fail). Which applicable error, its payload and its text are not demanded. -/
def specCheck (p : Program String) (sel : String → Bool) (e : Outcome (List (Instr String))) (k : List String)
    (kinds : List Kind) (o : PlainOut) : Bool :=
  match o with
  | .ok body kept intact =>
    decide (e = .ok body) &&
      decide (verifyPure p.defs sel (p.defs.map (·.name)) p.body body = some []) &&
      sameNames kept k && intact
  | .err x => kinds.contains x.kind

/-- deepest nesting of expansions reached (for the distribution tags only) -/
partial def nestDepth (defs : List (Def String)) (sel : String → Bool) (stack : List String)
    (is : List (Instr String)) : Nat :=
  is.foldl (fun acc i =>
    match gateSequenceFromInstruction defs sel i stack with
    | .ok (some (body, name)) => max acc (1 + nestDepth defs sel (stack ++ [name]) body)
    | _ => acc) 0

def isSelectedInvocation (defs : List (Def String)) (sel : String → Bool) : Instr String → Bool
  | .gate g => match findDef defs g.name with
    | some d => (match d.spec with | .seq _ _ => sel g.name | .other => false)
    | none => false
  | .other _ => false

def handle (inp out : Sexp) : CaseResult :=
  match decodeInput inp with
  | none => .bad s!"undecodable input {inp}"
  | some (p, selNames) =>
    let sel : String → Bool := fun n => selNames.contains n
    match decodeObs out with
    | none =>
      { agree := false, specOk := false, nontrivial := false, tags := ["impl-undecodable-or-crash"],
        detail := s!"impl={out}" }
    | some obs =>
      let o := obs.plain
      let e := expand p.defs sel p.body
      let kept := (keptDefs p.defs sel).map (·.name)
      let kinds := match e with
        | .ok _ => []          -- `C20_error_iff_misuse`: no applicable misuse when the expansion succeeds
        | _ => misuseKinds p.defs sel p.body
      let again := modelAgain p sel e kept
      let specPlain := specCheck p sel e kept kinds obs.plain
      let specMapped := if obs.mapped == obs.plain then specPlain else specCheck p sel e kept kinds obs.mapped
      let seqs := seqNames p.defs
      let selectedSeqs := seqs.filter sel
      let keptSelected := selectedSeqs.filter fun n => kept.contains n
      let invokedNames := p.body.filterMap fun i => match i with | .gate g => some g.name | _ => none
      let tags :=
        (match o with
          | .ok .. => ["ok"]
          | .err x => ["err", "err-" ++ errKind x, s!"applicable{min kinds.eraseDups.length 4}"] ++
              (match e with
                | .err y => if y.kind == x.kind then [] else ["err-kind-differs-from-model"]
                | _ => [])) ++
        [s!"defs{if p.defs.length ≤ 5 then p.defs.length else if p.defs.length ≤ 16 then 16 else if p.defs.length ≤ 32 then 32 else 64}",
         s!"body{if p.body.length ≤ 8 then p.body.length else if p.body.length ≤ 32 then 32 else 128}",
         s!"seqdefs{min seqs.length 5}",
         s!"selseq{min selectedSeqs.length 5}", s!"nest{min (nestDepth p.defs sel [] p.body) 6}"] ++
        (if !keptSelected.isEmpty then ["selected-kept-by-reachability"] else []) ++
        (if keptSelected.any (fun n => invokedNames.contains n) then ["kept-selected-invoked-in-body"] else []) ++
        (if !keptSelected.isEmpty && kept.length == p.defs.length then ["all-retained-some-selected"] else []) ++
        (if selectedSeqs.any (fun n => !kept.contains n) then ["selected-dropped"] else []) ++
        (if p.defs.any (fun d => match d.spec with | .other => true | _ => false) then ["has-nonseq-def"] else []) ++
        (if p.body.any (fun i => match i with | .other _ => true | _ => false) then ["has-other-instr"] else []) ++
        (if inputHasExtras inp then ["extras"] else [])
      -- BOTH entry points must return what the model computes; the repeated-call flag must be the model's
      let agree := agreesWith e kept kinds obs.plain && agreesWith e kept kinds obs.mapped && obs.again == again
      let specOk := specPlain && specMapped && obs.fullsame && obs.again && obs.errfmt
      { agree := agree,
        specOk := specOk,
        nontrivial := p.body.any (isSelectedInvocation p.defs sel),
        tags := tags,
        -- only built on failure (the structure is strict)
        detail := if agree && specOk then "" else s!"model={repr e} kept={kept} kinds={repr kinds} again={again} impl={out}" }

end QV.C20

def main : IO UInt32 := QV.runMain QV.C20.handle
