import QV.Wire
import QV.C20.Model
import QV.C20.Spec
import QV.Shared.SeqGateWire
/-! Driver side of the C20 correspondence check. -/
namespace QV.C20
open QV QV.SeqGateWire

/-- the model's answer in the shape of one entry point's output, from the already computed expansion `e`
and retained names `k` -/
def modelOut (e : Outcome (List (Instr String))) (k : List String) : Option PlainOut :=
  match e with
  | .ok b => some (.ok b k true)
  | .err x => some (.err x)
  | .outOfFuel => none

/-- the model's prediction for "expanding the result again with the same filter changes nothing" -/
def modelAgain (p : Program String) (sel : String → Bool) (e : Outcome (List (Instr String))) (k : List String) : Bool :=
  match e with
  | .ok b =>
    let q : Program String := { defs := keptDefs p.defs sel, body := b }
    (match expandProgram q sel with
      | .ok q' => decide (q'.body = b) && q'.defs.map (·.name) == k
      | _ => false)
  | _ => true

/-- The specification evaluated on ONE entry point's output `o` (theorems in Props.lean tie each conjunct to
the declarative statement; `e = expand p.defs sel p.body`, `k = (keptDefs p.defs sel).map name`, computed once):
* returned `Ok`: the body is the one `expand` computes (`C20_expand_ok_iff_pure`) **and**, independently of
  the model, the verifier `verifyPure` accepts it as the stack-free expansion (`C20_verifyPure_iff`), the
  retained definitions are exactly those `keptDefs` selects (`C20_kept_iff`), in order, and untouched;
* returned `Err x`: `expand` reports `x` (`C20_expand_err_iff`). -/
def specCheck (p : Program String) (sel : String → Bool) (e : Outcome (List (Instr String))) (k : List String)
    (o : PlainOut) : Bool :=
  match o with
  | .ok body kept intact =>
    decide (e = .ok body) &&
      decide (verifyPure p.defs sel (p.defs.map (·.name)) p.body body = some []) &&
      kept == k && intact
  | .err x => decide (e = .err x)

/-- deepest nesting of expansions reached (for the distribution tags only) -/
partial def nestDepth (defs : List (Def String)) (sel : String → Bool) (stack : List String)
    (is : List (Instr String)) : Nat :=
  is.foldl (fun acc i =>
    match gateSequenceFromInstruction defs sel i stack with
    | .ok (some (body, name)) => max acc (1 + nestDepth defs sel (stack ++ [name]) body)
    | _ => acc) 0

def isSelectedInvocation (defs : List (Def String)) (sel : String → Bool) : Instr String → Bool
  | .gate g => match findDef defs g.name with
    | some d => (match d.spec with | .seq _ _ => sel g.name | .other => false)
    | none => false
  | .other _ => false

def handle (inp out : Sexp) : CaseResult :=
  match decodeInput inp with
  | none => .bad s!"undecodable input {inp}"
  | some (p, selNames) =>
    let sel : String → Bool := fun n => selNames.contains n
    match decodeObs out with
    | none =>
      { agree := false, specOk := false, nontrivial := false, tags := ["impl-undecodable-or-crash"],
        detail := s!"impl={out}" }
    | some obs =>
      let o := obs.plain
      let e := expand p.defs sel p.body
      let kept := (keptDefs p.defs sel).map (·.name)
      let m := modelOut e kept
      let again := modelAgain p sel e kept
      let specPlain := specCheck p sel e kept obs.plain
      let specMapped := if obs.mapped == obs.plain then specPlain else specCheck p sel e kept obs.mapped
      let seqs := seqNames p.defs
      let selectedSeqs := seqs.filter sel
      let keptSelected := selectedSeqs.filter fun n => kept.contains n
      let invokedNames := p.body.filterMap fun i => match i with | .gate g => some g.name | _ => none
      let tags :=
        (match o with
          | .ok .. => ["ok"]
          | .err e => ["err", "err-" ++ errKind e]) ++
        [s!"defs{if p.defs.length ≤ 5 then p.defs.length else if p.defs.length ≤ 16 then 16 else if p.defs.length ≤ 32 then 32 else 64}",
         s!"body{if p.body.length ≤ 8 then p.body.length else if p.body.length ≤ 32 then 32 else 128}",
         s!"seqdefs{min seqs.length 5}",
         s!"selseq{min selectedSeqs.length 5}", s!"nest{min (nestDepth p.defs sel [] p.body) 6}"] ++
        (if !keptSelected.isEmpty then ["selected-kept-by-reachability"] else []) ++
        (if keptSelected.any (fun n => invokedNames.contains n) then ["kept-selected-invoked-in-body"] else []) ++
        (if !keptSelected.isEmpty && kept.length == p.defs.length then ["all-retained-some-selected"] else []) ++
        (if selectedSeqs.any (fun n => !kept.contains n) then ["selected-dropped"] else []) ++
        (if p.defs.any (fun d => match d.spec with | .other => true | _ => false) then ["has-nonseq-def"] else []) ++
        (if p.body.any (fun i => match i with | .other _ => true | _ => false) then ["has-other-instr"] else []) ++
        (if inputHasExtras inp then ["extras"] else [])
      -- BOTH entry points must return what the model computes; the repeated-call flag must be the model's
      let agree := m == some obs.plain && m == some obs.mapped && obs.again == again
      let specOk := specPlain && specMapped && obs.fullsame && obs.again && obs.errfmt
      { agree := agree,
        specOk := specOk,
        nontrivial := p.body.any (isSelectedInvocation p.defs sel),
        tags := tags,
        -- only built on failure (the structure is strict)
        detail := if agree && specOk then "" else s!"model={repr m} again={again} impl={out}" }

end QV.C20

def main : IO UInt32 := QV.runMain QV.C20.handle
