import QV.Shared.Expr
/-
C20 model: expansion of `DEFGATE … AS SEQUENCE` definitions.

  quil-rs/src/program/defgate_sequence_expansion.rs   ProgramDefGateSequenceExpander (ExpansionStack,
                                                      gate_sequence_from_instruction, expand_without_source_map_impl)
  quil-rs/src/instruction/gate_sequence.rs            DefGateSequence::expand
  quil-rs/src/program/mod.rs                          Program::expand_defgate_sequences,
                                                      filter_sequence_gate_definitions_to_keep

Projection (done by the harness, see meta/C20.json): a body instruction is either a gate
`(name, parameter expressions, qubits, modifiers)` or an opaque non-gate instruction `other k`
(`k` indexes a fixed table of concrete instructions in the harness); a gate definition is
`(name, parameter names, AS SEQUENCE (qubit variables, gates) | any other specification)`.
`Program::gate_definitions` is an `IndexMap` keyed by the definition's name: an ordered list of
definitions with pairwise distinct names (key = `definition.name`, as `add_instruction` builds it).
Expressions are the shared `QV.Expr K`; the model never computes with numbers, so it is generic in `K`.
-/
namespace QV.C20

-- structural equality of expressions is decidable when it is on the numeric leaves (the driver's
-- leaves are bit patterns)
deriving instance DecidableEq for QV.Expr

/-- `Qubit` (instruction/qubit.rs:21); a placeholder is numbered by the harness. -/
inductive Qubit where
  | fixed (n : Nat)
  | placeholder (k : Nat)
  | var (v : String)
  deriving DecidableEq, Repr, Inhabited

/-- `GateModifier` (instruction/gate.rs:64). -/
inductive Modifier where
  | controlled | dagger | forked
  deriving DecidableEq, Repr, Inhabited

/-- `Gate` (instruction/gate.rs:43). -/
structure Gate (K : Type) where
  name : String
  params : List (Expr K)
  qubits : List Qubit
  mods : List Modifier
  deriving DecidableEq, Repr, Inhabited

/-- A body instruction: a gate application or anything else (opaque). -/
inductive Instr (K : Type) where
  | gate (g : Gate K)
  | other (k : Nat)
  deriving DecidableEq, Repr, Inhabited

/-- `GateSpecification`: `Sequence(DefGateSequence { qubits, gates })` or any of Matrix/Permutation/PauliSum. -/
inductive Spec (K : Type) where
  | seq (qvars : List String) (gates : List (Gate K))
  | other
  deriving DecidableEq, Repr, Inhabited

/-- `GateDefinition` (instruction/gate.rs:1024). -/
structure Def (K : Type) where
  name : String
  params : List String
  spec : Spec K
  deriving DecidableEq, Repr, Inhabited

/-- `DefGateSequenceExpansionError` (instruction/gate_sequence.rs:12), payloads included. -/
inductive Err where
  | paramCount (expected found : Nat)
  | cyclic (stack : List String)
  | qubitCount (expected found : Nat)
  | nonFixedQubit (q : Qubit)
  | modifiers (ms : List Modifier)
  | invalidElemQubit (q : Qubit)
  | undefinedElemQubit (v : String)
  deriving DecidableEq, Repr, Inhabited

/-- What the expansion can do: return, return an error, or (model only) run out of fuel.
`outOfFuel` stands for unbounded recursion in the Rust code; `expand_never_outOfFuel` proves it unreachable. -/
inductive Outcome (α : Type) where
  | ok (a : α)
  | err (e : Err)
  | outOfFuel
  deriving DecidableEq, Repr, Inhabited

variable {K : Type}

/-- A `HashMap` built by `collect()`ing key/value pairs: a later pair with the same key overwrites an
earlier one, so `get` returns the value of the *last* pair with that key. -/
def lookupLast {V : Type} : List (String × V) → String → Option V
  | [], _ => none
  | (k, v) :: rest, x =>
    match lookupLast rest x with
    | some w => some w
    | none => if k = x then some v else none

/-- `iter.map(f).collect::<Result<Vec<_>, _>>()`: the first error in order, else all results. -/
def mapE {α β : Type} (f : α → Except Err β) : List α → Except Err (List β)
  | [] => .ok []
  | a :: as =>
    match f a with
    | .error e => .error e
    | .ok b =>
      match mapE f as with
      | .error e => .error e
      | .ok bs => .ok (b :: bs)

/-- gate_sequence.rs:92-101: every qubit argument must be `Qubit::Fixed`. -/
def fixedQubit : Qubit → Except Err Nat
  | .fixed n => .ok n
  | q => .error (.nonFixedQubit q)

/-- gate_sequence.rs:121-136: a sequence element's qubit must be a variable bound by the definition. -/
def substQubit (qm : List (String × Qubit)) : Qubit → Except Err Qubit
  | .var v =>
    match lookupLast qm v with
    | some q => .ok q
    | none => .error (.undefinedElemQubit v)
  | q => .error (.invalidElemQubit q)

/-- gate_sequence.rs:114-146: one element of the sequence, instantiated. -/
def substGate (pm : List (String × Expr K)) (qm : List (String × Qubit)) (g : Gate K) :
    Except Err (Gate K) :=
  match mapE (substQubit qm) g.qubits with
  | .error e => .error e
  | .ok qs => .ok { name := g.name, params := g.params.map (subst (lookupLast pm)), qubits := qs, mods := g.mods }

/-- `DefGateSequence::expand` (gate_sequence.rs:80-148). -/
def expandSeq (qvars : List String) (gates : List (Gate K)) (pm : List (String × Expr K))
    (qargs : List Qubit) : Except Err (List (Gate K)) :=
  if qargs.length ≠ qvars.length then .error (.qubitCount qvars.length qargs.length)
  else
    match mapE fixedQubit qargs with
    | .error e => .error e
    | .ok fs => mapE (substGate pm (qvars.zip (fs.map Qubit.fixed))) gates

/-- `IndexMap::get` on `Program::gate_definitions` (keys are the definitions' names). -/
def findDef (defs : List (Def K)) (n : String) : Option (Def K) :=
  defs.find? (fun d => d.name == n)

/-- `gate_sequence_from_instruction` (defgate_sequence_expansion.rs:254-296), checks in the same order:
gate? → defined? → AS SEQUENCE? → filter? → parameter count → modifiers → cycle → `expand`. -/
def gateSequenceFromInstruction (defs : List (Def K)) (sel : String → Bool) (i : Instr K)
    (stack : List String) : Except Err (Option (List (Instr K) × String)) :=
  match i with
  | .other _ => .ok none
  | .gate g =>
    match findDef defs g.name with
    | none => .ok none
    | some d =>
      match d.spec with
      | .other => .ok none
      | .seq qvars gates =>
        if sel g.name then
          if d.params.length ≠ g.params.length then .error (.paramCount d.params.length g.params.length)
          else if !g.mods.isEmpty then .error (.modifiers g.mods)
          else if stack.contains d.name then .error (.cyclic stack)
          else
            match expandSeq qvars gates (d.params.zip g.params) g.qubits with
            | .error e => .error e
            | .ok gs => .ok (some (gs.map Instr.gate, d.name))
        else .ok none

/-- The `for` loop of `expand_without_source_map_impl` (defgate_sequence_expansion.rs:221-245) with the
recursive call abstracted as `nested`; `stack ++ [name]` is `ExpansionStack::with_gate_sequence`
(`IndexSet::insert` appends; the name is not yet present because `check` passed). -/
def expandWith (defs : List (Def K)) (sel : String → Bool)
    (nested : List String → List (Instr K) → Outcome (List (Instr K)))
    (stack : List String) : List (Instr K) → Outcome (List (Instr K))
  | [] => .ok []
  | i :: rest =>
    match gateSequenceFromInstruction defs sel i stack with
    | .error e => .err e
    | .ok none =>
      match expandWith defs sel nested stack rest with
      | .ok r => .ok (i :: r)
      | o => o
    | .ok (some (body, name)) =>
      match nested (stack ++ [name]) body with
      | .ok b =>
        match expandWith defs sel nested stack rest with
        | .ok r => .ok (b ++ r)
        | o => o
      | o => o

/-- `expand_without_source_map_impl`: the Rust recursion is not bounded by anything syntactic, so the
model takes fuel (one unit per nesting level). -/
def expandFuel (defs : List (Def K)) (sel : String → Bool) :
    Nat → List String → List (Instr K) → Outcome (List (Instr K))
  | 0 => fun _ _ => .outOfFuel
  | n + 1 => expandWith defs sel (expandFuel defs sel n)

/-- `ProgramDefGateSequenceExpander::expand` (defgate_sequence_expansion.rs:142): empty stack.
`defs.length + 1` units of fuel always suffice (`expand_never_outOfFuel`). -/
def expand (defs : List (Def K)) (sel : String → Bool) (body : List (Instr K)) : Outcome (List (Instr K)) :=
  expandFuel defs sel (defs.length + 1) [] body

/-! ### `filter_sequence_gate_definitions_to_keep` (program/mod.rs:1052-1113) -/

/-- names of the AS SEQUENCE definitions (the graph's nodes), in definition order -/
def seqNames (defs : List (Def K)) : List String :=
  defs.filterMap fun d => match d.spec with
    | .seq _ _ => some d.name
    | .other => none

/-- the graph's edges out of `u`: the names of `u`'s sequence elements that are themselves AS SEQUENCE
definitions (program/mod.rs:1072-1085); empty if `u` is not an AS SEQUENCE definition -/
def mentions (defs : List (Def K)) (u : String) : List String :=
  match findDef defs u with
  | none => []
  | some d =>
    match d.spec with
    | .other => []
    | .seq _ gates => (gates.map (·.name)).filter fun n => (seqNames defs).contains n

/-- `petgraph::algo::has_path_connecting` as a depth-first search that never re-enters a node it has
left the `allowed` list for; includes the trivial path. -/
def reachIn (defs : List (Def K)) : Nat → List String → String → String → Bool
  | 0, _, _, _ => false
  | f + 1, allowed, u, d =>
    u == d || (mentions defs u).any fun v =>
      allowed.contains v && reachIn defs f (allowed.filter (· != v)) v d

def reach (defs : List (Def K)) (u d : String) : Bool :=
  reachIn defs ((seqNames defs).length + 1) (seqNames defs) u d

/-- `seq_defgates_referenced_by_unfiltered_seq_defgates.contains(name)` -/
def referencedByUnselected (defs : List (Def K)) (sel : String → Bool) (n : String) : Bool :=
  (seqNames defs).any fun u => !sel u && reach defs u n

/-- `filter_sequence_gate_definitions_to_keep`, literally: for every unselected sequence definition and
every sequence definition one `has_path_connecting` query (`referencedByUnselected`), then the filter.
(Each query is modelled by a path-enumerating search, exponential on dense graphs; the drivers run the
equivalent `keptDefs` below — `keptDefs_eq_pairwise`.) -/
def keptDefsPairwise (defs : List (Def K)) (sel : String → Bool) : List (Def K) :=
  defs.filter fun d => match d.spec with
    | .other => true
    | .seq _ _ => !sel d.name || referencedByUnselected defs sel d.name

/-- add `y` to `acc` unless already visited or already added -/
def addNew (visited : List String) (acc : List String) (y : String) : List String :=
  if visited.contains y || acc.contains y then acc else acc ++ [y]

/-- the successors of the frontier that are not yet visited, without repetition -/
def newNodes (defs : List (Def K)) (frontier visited : List String) : List String :=
  (frontier.flatMap (mentions defs)).foldl (addNew visited) []

/-- breadth-first closure under `mentions` (a DFS/BFS with a visited set, as `has_path_connecting` runs it) -/
def bfs (defs : List (Def K)) : Nat → List String → List String → List String
  | 0, _, visited => visited
  | f + 1, frontier, visited =>
    let new := newNodes defs frontier visited
    if new.isEmpty then visited else bfs defs f new (visited ++ new)

def reachFrom (defs : List (Def K)) (sources : List String) : List String :=
  bfs defs ((seqNames defs).length + 1) sources sources

/-- `filter_sequence_gate_definitions_to_keep`: the retained definitions, in their original order — one
closure from all unselected sequence definitions at once instead of one query per pair. -/
def keptDefs (defs : List (Def K)) (sel : String → Bool) : List (Def K) :=
  let reached := reachFrom defs ((seqNames defs).filter fun u => !sel u)
  defs.filter fun d => match d.spec with
    | .other => true
    | .seq _ _ => !sel d.name || reached.contains d.name

/-- The part of a `Program` the expansion reads and writes. -/
structure Program (K : Type) where
  defs : List (Def K)
  body : List (Instr K)
  deriving Repr, Inhabited

/-- `Program::expand_defgate_sequences` (program/mod.rs:663-683): the new body is the expansion of the
old one (`add_instructions` pushes gates and the opaque body instructions unchanged), the definitions
are filtered. -/
def expandProgram (p : Program K) (sel : String → Bool) : Outcome (Program K) :=
  match expand p.defs sel p.body with
  | .ok b => .ok { defs := keptDefs p.defs sel, body := b }
  | .err e => .err e
  | .outOfFuel => .outOfFuel

end QV.C20
