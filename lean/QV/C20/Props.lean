import QV.C20.Lemmas
/-
C20 — Gate-sequence expansion substitutes correctly and keeps needed definitions.

"Expanding sequence gate definitions replaces each selected invocation with the sequence's gates, with
formal parameters and qubits substituted, recursively. Unselected invocations and all other instructions
stay unchanged. A sequence definition is kept iff it is unselected or reachable from an unselected
sequence, cycles and arity or modifier misuse are reported as errors, and expansion always terminates."

All theorems are about the model in `Model.lean` (tied to quil-rs by the correspondence run), for every
list of definitions, every filter, every body, with no size bound. The declarative side is `Spec.lean`.
-/
namespace QV.C20
variable {K : Type}

/-- **Termination.** The expansion never runs out of fuel: the Rust recursion is bounded, because every
nested expansion pushes a definition name that is not yet on the stack. -/
theorem C20_terminates (defs : List (Def K)) (sel : String → Bool) (src : List (Instr K)) :
    expand defs sel src ≠ .outOfFuel :=
  expandFuel_ne_outOfFuel defs sel _ [] src (by have := remaining_nil_le defs; omega)

/-- … and the same holds below any stack, as soon as the fuel exceeds the number of definitions that are
not yet on the stack (this is the invariant of the induction). -/
theorem C20_terminates_general (defs : List (Def K)) (sel : String → Bool) (fuel : Nat) (stack : List String)
    (src : List (Instr K)) (h : remaining defs stack < fuel) :
    expandFuel defs sel fuel stack src ≠ .outOfFuel :=
  expandFuel_ne_outOfFuel defs sel fuel stack src h

/-- **Substitution correctness (success case), both directions.** The expansion returns `out` exactly
when `out` is the recursive replacement of every selected invocation by its instantiated sequence
(`Expands`, a big-step relation that does not mention the algorithm), everything else copied in order. -/
theorem C20_expand_ok_iff (defs : List (Def K)) (sel : String → Bool) (src out : List (Instr K)) :
    expand defs sel src = .ok out ↔ Expands defs sel [] src out :=
  expandFuel_ok_iff defs sel _ [] src out (by have := remaining_nil_le defs; omega)

/-- The amount of fuel does not matter once it exceeds the number of definitions. -/
theorem C20_fuel_irrelevant_ok (defs : List (Def K)) (sel : String → Bool) (fuel : Nat) (src out : List (Instr K))
    (h : defs.length < fuel) :
    expandFuel defs sel fuel [] src = .ok out ↔ expand defs sel src = .ok out := by
  rw [C20_expand_ok_iff]
  exact expandFuel_ok_iff defs sel fuel [] src out (by have := remaining_nil_le defs; omega)

/-- Forgetting the stack: a successful expansion is plain recursive substitution. -/
theorem expands_pure {defs : List (Def K)} {sel : String → Bool} {stack : List String} {src out : List (Instr K)}
    (h : Expands defs sel stack src out) : ExpandsPure defs sel src out := by
  induction h with
  | nil => exact .nil
  | keep hn _ ih => exact .keep hn ih
  | unfold hsel hm _ hinst _ _ ih1 ih2 => exact .unfold hsel hm hinst ih1 ih2

/-- **Soundness against the stack-free specification.** -/
theorem C20_expand_sound (defs : List (Def K)) (sel : String → Bool) (src out : List (Instr K))
    (h : expand defs sel src = .ok out) : ExpandsPure defs sel src out :=
  expands_pure ((C20_expand_ok_iff defs sel src out).1 h)

/-- The definition an invocation refers to is unique. -/
theorem selected_unique {defs : List (Def K)} {sel : String → Bool} {g : Gate K} {d d' : Def K}
    (h : Selected defs sel g d) (h' : Selected defs sel g d') : d = d' := by
  have := h.1.symm.trans h'.1
  simpa using this

/-- The instantiated body of an invocation is unique (so `Instantiates` *defines* the unfolding). -/
theorem instantiates_unique {d : Def K} {g : Gate K} {b b' : List (Gate K)}
    (h : Instantiates d g b) (h' : Instantiates d g b') : b = b' := by
  obtain ⟨qv, gs, fs, σ, ρ, hs, hp, h1, h2, h3, h4, h5⟩ := h
  obtain ⟨qv', gs', fs', σ', ρ', hs', _, h1', h2', h3', h4', h5'⟩ := h'
  rw [hs] at hs'; cases hs'
  have e1 := (expandSeq_ok_iff qv gs d.params g b hp.symm).2 ⟨fs, σ, ρ, h1, h2, h3, h4, h5⟩
  have e2 := (expandSeq_ok_iff qv gs d.params g b' hp.symm).2 ⟨fs', σ', ρ', h1', h2', h3', h4', h5'⟩
  rw [e1] at e2
  cases e2; rfl

/-- **The specification is functional**: plain recursive substitution has at most one result, so
`C20_expand_sound` pins the output down completely. -/
theorem expandsPure_unique {defs : List (Def K)} {sel : String → Bool} {src o1 o2 : List (Instr K)}
    (h1 : ExpandsPure defs sel src o1) (h2 : ExpandsPure defs sel src o2) : o1 = o2 := by
  induction h1 generalizing o2 with
  | nil => cases h2; rfl
  | keep hn _ ih =>
    cases h2 with
    | keep _ h => rw [ih h]
    | unfold hsel _ _ _ _ => exact absurd ⟨_, _, rfl, hsel⟩ hn
  | unfold hsel _ hinst _ _ ih1 ih2 =>
    cases h2 with
    | keep hn _ => exact absurd ⟨_, _, rfl, hsel⟩ hn
    | unfold hsel' _ hinst' hb hr =>
      have := selected_unique hsel hsel'
      subst this
      have := instantiates_unique hinst hinst'
      subst this
      rw [ih1 hb, ih2 hr]

/-- **Unselected invocations and all other instructions stay unchanged**: a body without selected
invocations is returned as is, … -/
theorem C20_unselected_unchanged (defs : List (Def K)) (sel : String → Bool) (src : List (Instr K))
    (h : ∀ i ∈ src, ¬ IsSelectedInvocation defs sel i) : expand defs sel src = .ok src := by
  rw [C20_expand_ok_iff]
  induction src with
  | nil => exact .nil _
  | cons i rest ih =>
    exact .keep (h i (by simp)) (ih fun j hj => h j (by simp [hj]))

/-- … and in general the instructions that are not selected invocations appear in the output unchanged
and in their original order (the output contains them as a subsequence). -/
theorem C20_others_in_order (defs : List (Def K)) (sel : String → Bool) (stack : List String)
    (src out : List (Instr K)) (h : Expands defs sel stack src out) (p : Instr K → Bool)
    (hp : ∀ i, p i = true → ¬ IsSelectedInvocation defs sel i) :
    (src.filter p).Sublist out := by
  induction h with
  | nil => simp
  | @keep stack i rest out hn _ ih =>
    simp only [List.filter_cons]
    split
    · exact ih.cons₂ _
    · exact ih.cons _
  | @unfold stack g d body b rest out hsel _ _ _ _ _ _ ih2 =>
    have : p (.gate g) = false := by
      cases hpg : p (.gate g) with
      | false => rfl
      | true => exact absurd ⟨_, _, rfl, hsel⟩ (hp _ hpg)
    simp only [List.filter_cons, this]
    exact (ih2.trans (List.sublist_append_right b out))

/-- **Positional binding.** With pairwise distinct formals, the `i`-th formal is bound to the `i`-th actual. -/
theorem binds_of_nodup {V : Type} (formals : List String) (actuals : List V) (hn : formals.Nodup)
    (i : Nat) (v : String) (a : V) (hv : formals[i]? = some v) (ha : actuals[i]? = some a) :
    Binds formals actuals v a := by
  refine ⟨i, hv, ha, ?_⟩
  intro j hj hc
  have hi : i < formals.length := by
    rcases Nat.lt_or_ge i formals.length with h | h
    · exact h
    · simp [List.getElem?_eq_none h] at hv
  have hjl : j < formals.length := by
    rcases Nat.lt_or_ge j formals.length with h | h
    · exact h
    · simp [List.getElem?_eq_none h] at hc
  have h1 : formals[i] = v := by simpa [List.getElem?_eq_getElem hi] using hv
  have h2 : formals[j] = v := by simpa [List.getElem?_eq_getElem hjl] using hc
  have := (List.getElem_inj hn).1 (h1.trans h2.symm)
  omega

/-- **Kept definitions.** A definition is retained iff it is not an AS SEQUENCE definition, or is not
selected, or is reachable (reflexive-transitive closure of "mentions", through selected and unselected
sequence definitions alike) from an unselected sequence definition. -/
theorem C20_kept_iff (defs : List (Def K)) (sel : String → Bool) (d : Def K) :
    d ∈ keptDefs defs sel ↔ d ∈ defs ∧ Kept defs sel d := by
  unfold keptDefs Kept
  rw [List.mem_filter]
  apply and_congr_right
  intro _
  cases hs : d.spec with
  | other => simp
  | seq qvars gates =>
    simp only [Bool.or_eq_true, Bool.not_eq_eq_eq_not, Bool.not_true, List.contains_eq_mem,
      decide_eq_true_eq, mem_reachFrom_iff, List.mem_filter, reduceCtorEq, false_or]
    constructor
    · rintro (h | ⟨u, ⟨hu, hsu⟩, hr⟩)
      · exact .inl h
      · exact .inr ⟨u, hu, hsu, hr⟩
    · rintro (h | ⟨u, hu, hsu, hr⟩)
      · exact .inl h
      · exact .inr ⟨u, ⟨hu, hsu⟩, hr⟩

/-- The literal per-pair formulation (one `has_path_connecting` query per pair, as the Rust loops run it)
retains the same definitions as the single closure the drivers compute. -/
theorem keptDefs_eq_pairwise (defs : List (Def K)) (sel : String → Bool) :
    keptDefs defs sel = keptDefsPairwise defs sel := by
  unfold keptDefs keptDefsPairwise
  apply List.filter_congr
  intro d _
  cases hs : d.spec with
  | other => rfl
  | seq qvars gates =>
    simp only
    congr 1
    rw [Bool.eq_iff_iff]
    simp only [List.contains_eq_mem, decide_eq_true_eq, mem_reachFrom_iff, List.mem_filter,
      Bool.not_eq_eq_eq_not, Bool.not_true, referencedByUnselected, List.any_eq_true, Bool.and_eq_true,
      reach_iff]
    constructor
    · rintro ⟨u, ⟨hu, hsu⟩, hr⟩; exact ⟨u, hu, hsu, hr⟩
    · rintro ⟨u, hu, hsu, hr⟩; exact ⟨u, ⟨hu, hsu⟩, hr⟩

/-- The retained definitions keep their original relative order. -/
theorem C20_kept_order (defs : List (Def K)) (sel : String → Bool) : (keptDefs defs sel).Sublist defs :=
  List.filter_sublist

/-- An unselected sequence definition keeps every sequence definition its body mentions, transitively. -/
theorem C20_kept_closed (defs : List (Def K)) (sel : String → Bool) (u d : Def K)
    (hu : u ∈ defs) (hus : ∃ qv gs, u.spec = .seq qv gs) (hsel : sel u.name = false)
    (hd : d ∈ defs) (hr : Reach defs u.name d.name) : d ∈ keptDefs defs sel := by
  rw [C20_kept_iff]
  refine ⟨hd, .inr (.inr ⟨u.name, ?_, hsel, hr⟩)⟩
  obtain ⟨qv, gs, hs⟩ := hus
  exact List.mem_filterMap.2 ⟨u, hu, by simp [hs]⟩

/-- **Errors, exactly** — for *all* definitions, including ones that bypassed `DefGateSequence::try_new`
(`LocalErr.elem` covers the two defensive element-qubit errors): the expansion returns error `e` iff `e` is
the report of the first misuse met in depth-first program order (`ErrAt`). -/
theorem C20_expand_err_iff (defs : List (Def K)) (sel : String → Bool)
    (src : List (Instr K)) (e : Err) :
    expand defs sel src = .err e ↔ ErrAt defs sel [] src e :=
  expandFuel_err_iff defs sel _ [] src e (by have := remaining_nil_le defs; omega)

/-- For definitions as `DefGateSequence::try_new` validates them, the two defensive element-qubit errors
never occur (the element case of `LocalErr` is vacuous). -/
theorem C20_wellFormed_no_elemErr (defs : List (Def K)) (hw : WellFormed defs) (d : Def K) (hd : d ∈ defs)
    (qvars : List String) (gates : List (Gate K)) (hs : d.spec = .seq qvars gates) (e : Err) :
    ¬ ElemErr qvars gates e := by
  have hb : ∀ e' ∈ gates, BoundQubits qvars e' := fun e' he' => hw d hd qvars gates hs e' he'
  intro h
  cases h with
  | @invalid pre e0 post vs q rest _ hq _ hnv =>
    obtain ⟨v, hv, _⟩ := hb e0 (by simp) q (by rw [hq]; simp)
    exact hnv v hv
  | @undefined pre e0 post vs v rest _ hq _ hnm =>
    obtain ⟨v', hv, hm⟩ := hb e0 (by simp) (.var v) (by rw [hq]; simp)
    cases hv; exact hnm hm

/-- **Totality**: every expansion either succeeds with the specified result or reports an error. -/
theorem C20_total (defs : List (Def K)) (sel : String → Bool) (src : List (Instr K)) :
    (∃ out, expand defs sel src = .ok out) ∨ (∃ e, expand defs sel src = .err e) := by
  cases h : expand defs sel src with
  | ok out => exact .inl ⟨out, rfl⟩
  | err e => exact .inr ⟨e, rfl⟩
  | outOfFuel => exact absurd h (C20_terminates defs sel src)

/-- **Cycles and arity or modifier misuse are reported as errors** (order-free form): the expansion fails
iff some misuse — wrong parameter count, modifiers, a definition invoked inside its own expansion, wrong
qubit count, a non-fixed qubit, a malformed element of an unvalidated definition — is reachable from the body through selected invocations. -/
theorem C20_error_iff_bad (defs : List (Def K)) (sel : String → Bool)
    (src : List (Instr K)) :
    (∃ e, expand defs sel src = .err e) ↔ Bad defs sel [] src := by
  constructor
  · rintro ⟨e, h⟩
    exact errAt_bad ((C20_expand_err_iff defs sel src e).1 h)
  · intro hb
    rcases C20_total defs sel src with ⟨out, h⟩ | h
    · exact absurd ((C20_expand_ok_iff defs sel src out).1 h) (bad_not_expands hb out)
    · exact h

/-- The kind of error is the kind of the misuse: e.g. a cycle error is reported only with the stack of
definitions being expanded, and that stack contains the definition invoked again. -/
theorem C20_cyclic_error_sound (defs : List (Def K)) (sel : String → Bool)
    (stack : List String) (src : List (Instr K)) (names : List String)
    (h : ErrAt defs sel stack src (.cyclic names)) :
    ∃ g d, Selected defs sel g d ∧ d.name ∈ names ∧ stack <+: names := by
  generalize he : Err.cyclic names = e at h
  induction h with
  | here hl =>
    cases hl with
    | cyclic hsel _ _ hin => cases he; exact ⟨_, _, hsel, hin, List.prefix_refl _⟩
    | paramCount => cases he
    | modifiers => cases he
    | qubitCount => cases he
    | nonFixed => cases he
    | elem _ _ _ _ _ _ _ hel => cases hel <;> cases he
  | inside _ _ _ _ _ ih =>
    obtain ⟨g, d, h1, h2, h3⟩ := ih he
    exact ⟨g, d, h1, h2, (List.prefix_append _ _).trans h3⟩
  | later _ _ ih => exact ih he

/-- With no selected definition nothing is expanded and nothing can fail. -/
theorem C20_nothing_selected (defs : List (Def K)) (src : List (Instr K)) :
    expand defs (fun _ => false) src = .ok src := by
  apply C20_unselected_unchanged
  rintro i _ ⟨g, d, _, _, _, h⟩
  cases h

/-- **Completeness against the stack-free specification**: whenever plain recursive substitution has a
(finite) result, the enclosing-expansion bookkeeping never fires. -/
theorem expandsPure_expands {defs : List (Def K)} {sel : String → Bool} {src out : List (Instr K)}
    (h : ExpandsPure defs sel src out) : Expands defs sel [] src out := by
  obtain ⟨n, hn⟩ := expandsPure_sized h
  exact expandsPureN_expands hn [] (by simp)

/-- **Substitution correctness against the stack-free relation, both directions.** -/
theorem C20_expand_ok_iff_pure (defs : List (Def K)) (sel : String → Bool) (src out : List (Instr K)) :
    expand defs sel src = .ok out ↔ ExpandsPure defs sel src out :=
  ⟨C20_expand_sound defs sel src out, fun h => (C20_expand_ok_iff defs sel src out).2 (expandsPure_expands h)⟩

/-- … hence: the expansion reports an error exactly when plain recursive substitution has no result, and
that is exactly when some misuse or cycle is reachable (`Bad`). -/
theorem C20_error_iff_no_pure (defs : List (Def K)) (sel : String → Bool) (src : List (Instr K)) :
    (∃ e, expand defs sel src = .err e) ↔ ¬ ∃ out, ExpandsPure defs sel src out := by
  constructor
  · rintro ⟨e, he⟩ ⟨out, ho⟩
    rw [(C20_expand_ok_iff_pure defs sel src out).2 ho] at he
    cases he
  · intro hn
    rcases C20_total defs sel src with ⟨out, h⟩ | h
    · exact absurd ⟨out, (C20_expand_ok_iff_pure defs sel src out).1 h⟩ hn
    · exact h

theorem C20_pure_iff_not_bad (defs : List (Def K)) (sel : String → Bool) (src : List (Instr K)) :
    (∃ out, ExpandsPure defs sel src out) ↔ ¬ Bad defs sel [] src := by
  rw [← C20_error_iff_bad, C20_error_iff_no_pure]
  exact ⟨fun h hn => hn h, fun h => Classical.byContradiction h⟩

/-- **The second Bool oracle decides the stack-free specification.** -/
theorem C20_verifyPure_iff [DecidableEq K] (defs : List (Def K)) (sel : String → Bool) (src out : List (Instr K)) :
    verifyPure defs sel (defs.map (·.name)) src out = some [] ↔ ExpandsPure defs sel src out := by
  rw [verifyPure_iff defs sel _ src out [] ⟨fun n hn _ => hn, by simp⟩ []]
  constructor
  · rintro ⟨o, h1, h2⟩
    simp at h1; subst h1
    exact expands_pure h2
  · intro h
    exact ⟨out, by simp, expandsPure_expands h⟩

/-- **The Bool set of applicable misuse kinds decides `MisuseAt`.** -/
theorem C20_misuseKinds_iff (defs : List (Def K)) (sel : String → Bool) (src : List (Instr K)) (k : Kind) :
    k ∈ misuseKinds defs sel src ↔ MisuseAt defs sel [] src k :=
  kindsFuel_iff defs sel _ [] src k (by have := remaining_nil_le defs; omega)

/-- **The model's own error is always one of the applicable kinds** (so an implementation that tests the
conditions in another order, or meets another misused invocation first, reports a member of the same set). -/
theorem C20_model_error_applicable (defs : List (Def K)) (sel : String → Bool) (src : List (Instr K)) (e : Err)
    (h : expand defs sel src = .err e) : e.kind ∈ misuseKinds defs sel src :=
  (C20_misuseKinds_iff defs sel src e.kind).2 (errAt_misuseAt ((C20_expand_err_iff defs sel src e).1 h))

/-- **The set is non-empty exactly when the expansion must fail.** -/
theorem C20_error_iff_misuse (defs : List (Def K)) (sel : String → Bool) (src : List (Instr K)) :
    (∃ e, expand defs sel src = .err e) ↔ ∃ k, k ∈ misuseKinds defs sel src := by
  constructor
  · rintro ⟨e, he⟩; exact ⟨e.kind, C20_model_error_applicable defs sel src e he⟩
  · rintro ⟨k, hk⟩
    exact (C20_error_iff_bad defs sel src).2 (misuseAt_bad ((C20_misuseKinds_iff defs sel src k).1 hk))

/-- … in particular a successful expansion has no applicable misuse (the driver's shortcut). -/
theorem C20_ok_no_misuse (defs : List (Def K)) (sel : String → Bool) (src out : List (Instr K))
    (h : expand defs sel src = .ok out) : misuseKinds defs sel src = [] := by
  cases hk : misuseKinds defs sel src with
  | nil => rfl
  | cons k ks =>
    obtain ⟨e, he⟩ := (C20_error_iff_misuse defs sel src).2 ⟨k, by rw [hk]; simp⟩
    rw [h] at he; cases he

/-! ### Non-vacuity: concrete instances (evaluated by the kernel) -/

section Examples

private def rz (p : Expr Nat) (q : Qubit) : Gate Nat := { name := "RZ", params := [p], qubits := [q], mods := [] }
/-- `DEFGATE a(%x) q r AS SEQUENCE: RZ(%x) q; b(%x+1) r`, `DEFGATE b(%y) q AS SEQUENCE: RZ(%y) q; RZ(2) q` -/
private def exDefs : List (Def Nat) :=
  [ { name := "a", params := ["x"], spec := .seq ["q", "r"]
        [rz (.var "x") (.var "q"),
         { name := "b", params := [.bin (.var "x") .plus (.number 1)], qubits := [.var "r"], mods := [] }] },
    { name := "b", params := ["y"], spec := .seq ["q"] [rz (.var "y") (.var "q"), rz (.number 2) (.var "q")] },
    { name := "m", params := [], spec := .other } ]
private def inv (n : String) (p : Expr Nat) (qs : List Qubit) : Instr Nat :=
  .gate { name := n, params := [p], qubits := qs, mods := [] }

/-- nested expansion with parameter and qubit substitution, other instructions untouched -/
example : expand exDefs (fun _ => true) [.other 1, inv "a" (.number 7) [.fixed 3, .fixed 4], inv "m" .pi [.fixed 0]]
    = .ok [.other 1, .gate (rz (.number 7) (.fixed 3)),
           .gate (rz (.bin (.number 7) .plus (.number 1)) (.fixed 4)), .gate (rz (.number 2) (.fixed 4)),
           inv "m" .pi [.fixed 0]] := by decide

/-- only `a` selected: the inner `b` invocation stays, and `b` must be kept (reachable from… nothing
unselected — `b` itself is unselected) -/
example : expand exDefs (fun n => n == "a") [inv "a" (.number 7) [.fixed 3, .fixed 4]]
    = .ok [.gate (rz (.number 7) (.fixed 3)), inv "b" (.bin (.number 7) .plus (.number 1)) [.fixed 4]] := by decide
example : (keptDefs exDefs (fun n => n == "a")).map (·.name) = ["b", "m"] := by decide
/-- only `b` selected: `a` is unselected and mentions `b`, so `b` is kept although selected -/
example : (keptDefs exDefs (fun n => n == "b")).map (·.name) = ["a", "b", "m"] := by decide
example : (keptDefs exDefs (fun _ => true)).map (·.name) = ["m"] := by decide

/-- errors: arity, modifiers, non-fixed qubit, and a cycle with the stack it is reported with -/
example : expand exDefs (fun _ => true) [.gate { name := "b", params := [], qubits := [.fixed 0], mods := [] }]
    = .err (.paramCount 1 0) := by decide
example : expand exDefs (fun _ => true) [.gate { name := "b", params := [.pi], qubits := [.fixed 0], mods := [.dagger] }]
    = .err (.modifiers [.dagger]) := by decide
example : expand exDefs (fun _ => true) [inv "a" .pi [.fixed 0, .var "q"]] = .err (.nonFixedQubit (.var "q")) := by decide
private def cyc : List (Def Nat) :=
  [ { name := "a", params := [], spec := .seq ["q"] [{ name := "b", params := [], qubits := [.var "q"], mods := [] }] },
    { name := "b", params := [], spec := .seq ["q"] [{ name := "a", params := [], qubits := [.var "q"], mods := [] }] } ]
example : expand cyc (fun _ => true) [.gate { name := "a", params := [], qubits := [.fixed 0], mods := [] }]
    = .err (.cyclic ["a", "b"]) := by decide
/-- the same cycle is harmless when `b` is not selected -/
example : expand cyc (fun n => n == "a") [.gate { name := "a", params := [], qubits := [.fixed 0], mods := [] }]
    = .ok [.gate { name := "b", params := [], qubits := [.fixed 0], mods := [] }] := by decide
private def g0 (n : String) (qs : List Qubit) : Gate Nat := { name := n, params := [], qubits := qs, mods := [] }
/-- an invocation with BOTH a wrong parameter count and modifiers: the model reports the parameter count,
an implementation may equally report the modifiers — both kinds are applicable -/
example : misuseKinds exDefs (fun _ => true)
    [.gate { name := "b", params := [], qubits := [.fixed 0], mods := [.dagger] }] = [.paramCount, .modifiers] := by
  decide
/-- misuse of a later, independent invocation is applicable too -/
example : misuseKinds exDefs (fun _ => true)
    [.gate { name := "b", params := [], qubits := [.fixed 0], mods := [] }, inv "a" .pi [.fixed 0, .var "q"]]
    = [.paramCount, .nonFixed] := by decide
/-- definitions that bypassed `try_new`: a fixed element qubit, an unbound qubit variable -/
private def badFixed : List (Def Nat) :=
  [ { name := "a", params := [], spec := .seq ["q"] [g0 "H" [.var "q", .fixed 0]] } ]
private def badUnbound : List (Def Nat) :=
  [ { name := "a", params := [], spec := .seq ["q"] [g0 "H" [.var "q"], g0 "X" [.var "r"]] } ]
example : expand badFixed (fun _ => true) [.gate (g0 "a" [.fixed 5])] = .err (.invalidElemQubit (.fixed 0)) := by
  decide
example : expand badUnbound (fun _ => true) [.gate (g0 "a" [.fixed 5])] = .err (.undefinedElemQubit "r") := by
  decide
/-- `WellFormed` is satisfiable by these definitions -/
example : WellFormed exDefs := by
  intro d hd qv gs hs e he q hq
  simp [exDefs] at hd
  rcases hd with rfl | rfl | rfl <;> simp at hs
  · obtain ⟨rfl, rfl⟩ := hs
    simp [rz] at he
    rcases he with rfl | rfl <;> simp at hq <;> subst hq <;> simp
  · obtain ⟨rfl, rfl⟩ := hs
    simp [rz] at he
    rcases he with rfl | rfl <;> simp at hq <;> subst hq <;> simp

end Examples

/-- A successful expansion leaves no selected invocation behind, … -/
theorem C20_output_no_selected {defs : List (Def K)} {sel : String → Bool} {stack : List String}
    {src out : List (Instr K)} (h : Expands defs sel stack src out) :
    ∀ i ∈ out, ¬ IsSelectedInvocation defs sel i := by
  induction h with
  | nil => simp
  | keep hn _ ih =>
    intro i hi
    cases hi with
    | head => exact hn
    | tail _ hi' => exact ih i hi'
  | unfold _ _ _ _ _ _ ih1 ih2 =>
    intro i hi
    rcases List.mem_append.1 hi with hi | hi
    · exact ih1 i hi
    · exact ih2 i hi

/-- … so expanding the result again (sequences of calls) changes nothing. -/
theorem C20_expand_idempotent (defs : List (Def K)) (sel : String → Bool) (src out : List (Instr K))
    (h : expand defs sel src = .ok out) : expand defs sel out = .ok out :=
  C20_unselected_unchanged defs sel out (C20_output_no_selected ((C20_expand_ok_iff defs sel src out).1 h))

/-- **Positional substitution.** If the definition's formal parameters are pairwise distinct, the
instantiated body is the definition's gates with every parameter expression substituted by a `σ` that maps
the `i`-th formal to the `i`-th argument and nothing else; names and modifiers are those of the elements. -/
theorem C20_instantiates_positional {d : Def K} {g : Gate K} {body : List (Gate K)}
    (h : Instantiates d g body) (hn : d.params.Nodup) :
    ∃ (qvars : List String) (gates : List (Gate K)) (σ : String → Option (Expr K)),
      d.spec = .seq qvars gates ∧
      (∀ (i : Nat) v a, d.params[i]? = some v → g.params[i]? = some a → σ v = some a) ∧
      (∀ v, v ∉ d.params → σ v = none) ∧
      Pointwise (fun e b => b.name = e.name ∧ b.mods = e.mods ∧ b.params = e.params.map (subst σ)) gates body := by
  obtain ⟨qv, gs, fs, σ, ρ, hs, _, _, _, hσ, _, hpw⟩ := h
  refine ⟨qv, gs, σ, hs, ?_, ?_, pointwise_mono (fun e b hb => ⟨hb.name, hb.mods, hb.params⟩) hpw⟩
  · intro i v a hv ha
    exact (hσ v a).2 (binds_of_nodup _ _ hn i v a hv ha)
  · intro v hv
    cases hsv : σ v with
    | none => rfl
    | some a =>
      obtain ⟨i, hi, _⟩ := (hσ v a).1 hsv
      exact absurd (List.mem_of_getElem? hi) hv

/-- … and each qubit of each element is the fixed qubit argument bound to that qubit variable. -/
theorem C20_instantiates_qubits {d : Def K} {g : Gate K} {body : List (Gate K)}
    (h : Instantiates d g body) :
    ∃ (qvars : List String) (gates : List (Gate K)) (ρ : String → Option Qubit),
      d.spec = .seq qvars gates ∧ IsBinding qvars g.qubits ρ ∧
      Pointwise (fun e b => Pointwise (fun eq bq => ∃ v, eq = Qubit.var v ∧ ρ v = some bq) e.qubits b.qubits)
        gates body := by
  obtain ⟨qv, gs, fs, σ, ρ, hs, _, _, _, _, hρ, hpw⟩ := h
  exact ⟨qv, gs, ρ, hs, hρ, pointwise_mono (fun e b hb => hb.qubits) hpw⟩

end QV.C20
